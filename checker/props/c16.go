package props

import (
	"fmt"
	"go/token"
	"go/types"
	"strings"

	"golang.org/x/tools/go/ssa"

	"shverif/core"
)

func init() {
	Register(&Property{
		ID:   "C16",
		Pkgs: sqPkgs,
		Run:  runC16,
		Mutants: []Mutant{
			{Name: "revert-F6-replay-edit-filters-by-new-name", File: "internal/metadata/binlog_event.go", Rule: "C16-R1",
				Old: `"UPDATE metrics_v5 SET version = $newVersion, data = $data, updated_at = $updatedAt, name = $name, deleted_at = $deletedAt, namespace_id = $namespaceId WHERE version = $oldVersion AND id = $id;"`,
				New: `"UPDATE metrics_v5 SET version = $newVersion, data = $data, updated_at = $updatedAt, deleted_at = $deletedAt, namespace_id = $namespaceId WHERE version = $oldVersion AND name = $name AND id = $id;"`},
			{Name: "replay-mapping-without-logged-id", File: "internal/metadata/binlog_event.go", Rule: "C16-R1",
				Old: `"INSERT INTO mappings (name, id) VALUES ($name, $id)"`,
				New: `"INSERT INTO mappings (name) VALUES ($name)"`},
			{Name: "replay-create-forgets-deleted_at", File: "internal/metadata/binlog_event.go", Rule: "C16-R1",
				Old: `"INSERT INTO metrics_v5 (id, version, data, name, updated_at, type, deleted_at, namespace_id) VALUES ($id, $version, $data, $name, $updatedAt, $type, $deletedAt, $namespaceId);"`,
				New: `"INSERT INTO metrics_v5 (id, version, data, name, updated_at, type, namespace_id) VALUES ($id, $version, $data, $name, $updatedAt, $type, $namespaceId);"`},
			{Name: "replay-flood-limit-updates-instead-of-upsert", File: "internal/metadata/binlog_event.go", Rule: "C16-R1",
				Old: "_, err := conn.Exec(\"insert_flood_limit\", \"INSERT OR REPLACE INTO flood_limits (last_time_update, count_free, metric_name) VALUES ($t, $c, $name)\",\n\t\tsqlite.Int64(\"$t\", int64(event.UpdatedAt)),",
				New: "_, err := conn.Exec(\"insert_flood_limit\", \"UPDATE flood_limits SET last_time_update = $t, count_free = $c WHERE metric_name = $name\",\n\t\tsqlite.Int64(\"$t\", int64(event.UpdatedAt)),"},
			{Name: "delete-mappings-forgets-event", File: "internal/metadata/dbv2.go", Rule: "C16-R2",
				Old: "\t\teventBytes := event.WriteTL1Boxed(cache)\n\t\treturn eventBytes, nil\n",
				New: "\t\t_ = event\n\t\treturn cache, nil\n"},
			{Name: "put-mapping-drops-event-buffer", File: "internal/metadata/dbv2.go", Rule: "C16-R2",
				Old: "\t\treturn putMapping(conn, cache, ks, vs)\n",
				New: "\t\t_, err := putMapping(conn, cache, ks, vs)\n\t\treturn cache, err\n"},
			{Name: "second-unlogged-exec-in-get-mapping", File: "internal/metadata/dbv2.go", Rule: "C16-R2",
				Old: "\t\t} else {\n\t\t\tnotExists = true\n\t\t}\n\t\treturn cache, nil\n",
				New: "\t\t} else {\n\t\t\tnotExists = true\n\t\t\t_, _ = conn.Exec(\"touch_flood_limit\", \"DELETE FROM flood_limits WHERE metric_name = $name\", sqlite.BlobString(\"$name\", value))\n\t\t}\n\t\treturn cache, nil\n"},
			{Name: "scan-case-wrong-tag", File: "internal/metadata/binlog_event.go", Rule: "C16-R3",
				Old: "\t\t\tcase putBootstrapEvent.TLTag():\n", New: "\t\t\tcase putMappingEvent.TLTag():\n"},
			{Name: "scan-advance-forgets-tag", File: "internal/metadata/binlog_event.go", Rule: "C16-R3",
				Old: "readCount += fsbinlog.AddPadding(4 + len(data) - len(tail))", New: "readCount += fsbinlog.AddPadding(len(data) - len(tail))"},
			{Name: "scan-case-skips-advance", File: "internal/metadata/binlog_event.go", Rule: "C16-R3",
				Old: "\t\t\t\t\terr = applyDeleteMappingsEvent(conn, deleteMappingsEvent)\n\t\t\t\t\tif err != nil {\n\t\t\t\t\t\treturn fsbinlog.AddPadding(readCount), fmt.Errorf(\"can't apply binlog event MetadataDeleteMappingsEvent: %w\", err)\n\t\t\t\t\t}\n",
				New: "\t\t\t\t\terr = applyDeleteMappingsEvent(conn, deleteMappingsEvent)\n\t\t\t\t\tif err != nil {\n\t\t\t\t\t\treturn fsbinlog.AddPadding(readCount), fmt.Errorf(\"can't apply binlog event MetadataDeleteMappingsEvent: %w\", err)\n\t\t\t\t\t}\n\t\t\t\t\tdata = tail\n\t\t\t\t\tcontinue\n"},
		},
	})
}

const sqFnScan = sqPkgMeta + ".applyScanEvent$1"

// sqTlRecv returns the generated TL type a method is declared on ("" otherwise).
func sqTlRecv(fn *ssa.Function) string {
	if fn == nil || fn.Signature.Recv() == nil {
		return ""
	}
	t := fn.Signature.Recv().Type()
	if p, ok := t.(*types.Pointer); ok {
		t = p.Elem()
	}
	n, ok := t.(*types.Named)
	if !ok || n.Obj().Pkg() == nil || core.Rel(n.Obj().Pkg().Path()) != sqPkgTL {
		return ""
	}
	return core.TypeName(n)
}

func sqTlShort(t string) string { return strings.TrimPrefix(t, sqPkgTL+".") }

func sqTlMethodCall(s core.Site, method string) string {
	fn, ok := s.Common().Value.(*ssa.Function)
	if !ok || s.Common().IsInvoke() || fn.Name() != method {
		return ""
	}
	return sqTlRecv(fn)
}

// emission is a site where a binlog event is serialised into the transaction's buffer.
type sqEmission struct {
	Site core.Site
	Type string
}

func sqEventEmissions(fns []*ssa.Function) []sqEmission {
	var out []sqEmission
	for _, fn := range fns {
		for _, s := range core.Calls(fn) {
			if t := sqTlMethodCall(s, "WriteTL1Boxed"); t != "" {
				out = append(out, sqEmission{s, t})
			}
		}
	}
	return out
}

// sqReplayCase is one `case x.TLTag():` of the replay switch.
type sqReplayCase struct {
	Type  string
	If    *ssa.If
	Body  *ssa.BasicBlock
	Calls []core.Site // static calls of metadata functions inside the case body
	Read  *core.Site  // the ReadTL1 call of the case
}

func sqReplayCases(c *core.Check, rule string, scan *ssa.Function) (map[string]*sqReplayCase, ssa.Value) {
	cases := map[string]*sqReplayCase{}
	var tagCall ssa.Value
	for _, b := range scan.Blocks {
		if len(b.Instrs) == 0 {
			continue
		}
		ifi, ok := b.Instrs[len(b.Instrs)-1].(*ssa.If)
		if !ok {
			continue
		}
		bin, ok := ifi.Cond.(*ssa.BinOp)
		if !ok || bin.Op != token.EQL {
			continue
		}
		for _, side := range [][2]ssa.Value{{bin.X, bin.Y}, {bin.Y, bin.X}} {
			call, ok := side[0].(*ssa.Call)
			if !ok {
				continue
			}
			t := sqTlMethodCall(core.Site{Fn: scan, Instr: call, Callee: core.CalleeName(&call.Call)}, "TLTag")
			if t == "" {
				continue
			}
			// the other side must be the tag read from the payload
			other := side[1]
			if ex, ok := other.(*ssa.Extract); !ok || ex.Index != 0 || !sqIsCallNamed(ex.Tuple, "internal/vkgo/basictl.NatReadTag") {
				c.Undecided(rule, core.FuncName(scan)+"/case "+sqTlShort(t)+"/tag", ifi.Pos(), "the case does not compare the tag returned by basictl.NatReadTag: "+core.Expr(other))
				continue
			} else {
				tagCall = ex.Tuple
			}
			if _, dup := cases[t]; dup {
				c.Note("replay switch has two cases for %s; the first one wins at run time", sqTlShort(t))
				continue
			}
			rc := &sqReplayCase{Type: t, If: ifi, Body: b.Succs[0]}
			for _, bb := range scan.Blocks {
				if !rc.Body.Dominates(bb) {
					continue
				}
				for _, in := range bb.Instrs {
					ci, ok := in.(ssa.CallInstruction)
					if !ok {
						continue
					}
					s := core.Site{Fn: scan, Instr: ci, Callee: core.CalleeName(ci.Common())}
					if rt := sqTlMethodCall(s, "ReadTL1"); rt != "" {
						s := s
						if rt == t && rc.Read == nil {
							rc.Read = &s
						}
						continue
					}
					if callee, ok := ci.Common().Value.(*ssa.Function); ok && !ci.Common().IsInvoke() && core.FuncPkg(callee) == sqPkgMeta {
						rc.Calls = append(rc.Calls, s)
					}
				}
			}
			cases[t] = rc
		}
	}
	return cases, tagCall
}

func sqIsCallNamed(v ssa.Value, name string) bool {
	call, ok := v.(*ssa.Call)
	return ok && core.CalleeName(&call.Call) == name
}

// sqCalleeClosure lists fn and the metadata functions it reaches through static calls.
func sqCalleeClosure(fn *ssa.Function, set map[*ssa.Function]bool) {
	if set[fn] {
		return
	}
	set[fn] = true
	for _, s := range core.Calls(fn) {
		if callee, ok := s.Common().Value.(*ssa.Function); ok && !s.Common().IsInvoke() && core.FuncPkg(callee) == sqPkgMeta {
			sqCalleeClosure(callee, set)
		}
	}
}

// sqContradictoryFlags reports whether the facts at two blocks of one function disagree on
// a boolean variable that is tested directly (`if flag` / `if !flag`) and cannot be
// reassigned after the earlier test: such a pair of blocks is never on one execution.
func sqContradictoryFlags(early, late *ssa.BasicBlock) bool {
	for _, ge := range core.Facts(early) {
		if len(ge.Alts) != 1 {
			continue
		}
		cell, load, val := sqCellLitPol(ge.Alts[0])
		if cell == nil {
			continue
		}
		for _, gl := range core.Facts(late) {
			if len(gl.Alts) != 1 {
				continue
			}
			cell2, _, val2 := sqCellLitPol(gl.Alts[0])
			if cell2 != cell || val2 == val {
				continue
			}
			isStore := func(in ssa.Instruction) bool {
				st, ok := in.(*ssa.Store)
				return ok && st.Addr == cell
			}
			if core.ReachWithout(load, isStore, nil) == nil {
				return true
			}
		}
	}
	return false
}

// ---- linear forms over SSA integers (for the replay cursor arithmetic) ------------------

type sqLinForm struct {
	konst int64
	lens  map[ssa.Value]int64 // coefficient of len(x), keyed by x
	other map[ssa.Value]int64
	ok    bool
}

func sqLinearOf(v ssa.Value) sqLinForm {
	f := sqLinForm{lens: map[ssa.Value]int64{}, other: map[ssa.Value]int64{}, ok: true}
	var walk func(v ssa.Value, sign int64)
	walk = func(v ssa.Value, sign int64) {
		switch x := v.(type) {
		case *ssa.Const:
			if k, ok := core.ConstIntOf(x); ok {
				f.konst += sign * k
				return
			}
			f.ok = false
		case *ssa.Convert:
			walk(x.X, sign)
		case *ssa.BinOp:
			switch x.Op {
			case token.ADD:
				walk(x.X, sign)
				walk(x.Y, sign)
			case token.SUB:
				walk(x.X, sign)
				walk(x.Y, -sign)
			default:
				f.other[v] += sign
			}
		case *ssa.Call:
			if b, ok := x.Call.Value.(*ssa.Builtin); ok && b.Name() == "len" && len(x.Call.Args) == 1 {
				f.lens[x.Call.Args[0]] += sign
				return
			}
			f.other[v] += sign
		default:
			f.other[v] += sign
		}
	}
	walk(v, 1)
	for k, n := range f.lens {
		if n == 0 {
			delete(f.lens, k)
		}
	}
	for k, n := range f.other {
		if n == 0 {
			delete(f.other, k)
		}
	}
	return f
}

// ---- the property ------------------------------------------------------------------------

func runC16(c *core.Check) {
	c.Decides = "for every binlog event type of the metadata package: (R1) the writing SQL statements the primary executes before serialising the event " +
		"and the statements the replay case of that type executes have compatible write shapes (table, effect class, written and key columns) under the explicit " +
		"compatibility table of DESIGN §4 (autoincrement / MAX+1 columns must be bound explicitly on replay, UPDATE-by-key or INSERT may be replayed by INSERT OR REPLACE " +
		"on the same columns, UPDATE pairs need equal SET and WHERE columns), decided from the parsed constant SQL texts and the parsed schema literal; " +
		"(R2) no transaction callback passed to Engine.Do can return the untouched event buffer with a nil error after a writing statement (un-logged write); " +
		"(R3) every event type serialised in the package has a case in the replay switch keyed by that type's TLTag compared with the tag read from the payload, " +
		"every case decodes from the post-tag buffer and every path from a decode to the next event or to a nil-error return advances the cursor by AddPadding(4 + consumed)."
	c.NotDecided = "equality of whole database states over operation histories and snapshot points; that the values bound on replay are the values the primary wrote " +
		"(field-by-field flow through the TL event); SQLite's own semantics of the statements; statements executed by callers of a helper before the helper emits the event."

	meta := c.Prog.FuncsIn(sqPkgMeta)
	sum := core.NewSQLSummary(meta)

	// ---- R1 ---------------------------------------------------------------------------------
	c.Rule("C16-R1", "K11 embedded-SQL shape", 20, "per event type: every writing statement on the primary's path to the event's WriteTL1Boxed has a shape-compatible statement in the replay case of that type and vice versa (compatibility table of core.WriteShapeCompatible); shared code is compatible by identity")
	schema := sqMetaSchema(c, "C16-R1")
	scan := need(c, "C16-R1", sqFnScan)
	var cases map[string]*sqReplayCase
	if scan != nil {
		cases, _ = sqReplayCases(c, "C16-R3", scan)
	}
	ems := sqEventEmissions(meta)
	// siblingReplays: the statement is shape-compatible with the replay of another event
	// type serialised by the same function (then an unmatched statement is a path
	// correlation the analysis could not resolve, not a defect).
	siblingReplays := func(em sqEmission, st *core.SQLStmt) bool {
		for _, o := range ems {
			if o.Site.Fn != em.Site.Fn || o.Type == em.Type || cases[o.Type] == nil {
				continue
			}
			for _, call := range cases[o.Type].Calls {
				for _, fs := range sum.Flatten(call.Common().Value.(*ssa.Function)) {
					if fs.Site.Stmt != nil && fs.Site.IsWrite() && fs.Site.Stmt.Table == st.Table {
						if ok, _ := core.WriteShapeCompatible(st, fs.Site.Stmt, schema); ok {
							return true
						}
					}
				}
			}
		}
		return false
	}
	if scan != nil && schema != nil {
		for _, em := range ems {
			emFn := em.Site.Fn
			ev := sqTlShort(em.Type)
			base := ev + "@" + core.FuncName(emFn)
			c.Seen(core.FuncName(emFn))
			if !sqLiveFunc(c, emFn) {
				c.Pass("C16-R1", base+"/dead-code", em.Site.Pos(), "the emitting function has no caller in the loaded program (dead code): it cannot produce events, not compared")
				c.Note("C16-R1: %s emits %s but has no caller in the loaded program; its statements are not compared with the replay", core.FuncName(emFn), ev)
				continue
			}
			rc := cases[em.Type]
			if rc == nil {
				continue // reported by R3
			}
			// replay side
			replayFns := map[*ssa.Function]bool{}
			var replay []*core.SQLSite
			for _, call := range rc.Calls {
				callee := call.Common().Value.(*ssa.Function)
				sqCalleeClosure(callee, replayFns)
				for _, st := range sum.Flatten(callee) {
					if st.Site.IsWrite() {
						replay = append(replay, st.Site)
					}
				}
			}
			top := emFn
			for top.Parent() != nil && !replayFns[top] {
				top = top.Parent()
			}
			if replayFns[emFn] || replayFns[top] {
				c.Pass("C16-R1", base+"/shared-code", em.Site.Pos(), "the event is serialised by the function the replay case calls: primary and replay execute the same statements")
				continue
			}
			// primary side
			var primary []*core.SQLSite
			for _, st := range sum.Flatten(emFn) {
				if !st.Site.IsWrite() {
					continue
				}
				t := st.Top()
				isEm := func(in ssa.Instruction) bool { return in == ssa.Instruction(em.Site.Instr) }
				if core.ReachWithout(t, isEm, nil) == nil {
					continue
				}
				if sqContradictoryFlags(t.Block(), em.Site.Block()) {
					continue
				}
				primary = append(primary, st.Site)
			}
			if len(primary) == 0 {
				c.Fail("C16-R1", base+"/primary", em.Site.Pos(), "event "+ev+" is serialised although no writing statement precedes it on any path")
				continue
			}
			undecided := false
			for _, q := range append(append([]*core.SQLSite{}, primary...), replay...) {
				if q.Stmt == nil || !q.Stmt.IsDML() {
					c.Undecided("C16-R1", base+"/statement", q.Pos(), "statement cannot be given a write shape: "+q.Desc()+fmt.Sprint(" ", q.ParseErr))
					undecided = true
				}
			}
			if undecided {
				continue
			}
			pk, rk := core.SQLKeys(primary), core.SQLKeys(replay)
			for i, p := range primary {
				c.CallSites++
				why := "the replay case executes no statement on table " + p.Stmt.Table
				ok := false
				for _, r := range replay {
					if r.Stmt.Table != p.Stmt.Table {
						continue
					}
					if good, w := core.WriteShapeCompatible(p.Stmt, r.Stmt, schema); good {
						ok = true
						break
					} else {
						why = fmt.Sprintf("replay has %s: %s", r.Stmt.Shape(), w)
					}
				}
				if !ok && siblingReplays(em, p.Stmt) {
					c.Undecided("C16-R1", base+"/primary:"+pk[i], p.Pos(), fmt.Sprintf("statement %s reaches the serialisation of %s in the control-flow graph but is replayed by another event type emitted by the same function; "+
						"the paths of the two events could not be separated (no directly tested flag distinguishes them)", p.Stmt.Shape(), ev))
					continue
				}
				c.Require(ok, "C16-R1", base+"/primary:"+pk[i], p.Pos(), "replayed compatibly: "+p.Stmt.Shape(),
					fmt.Sprintf("primary statement %s preceding event %s has no shape-compatible statement in the replay case (%s)", p.Stmt.Shape(), ev, why))
			}
			for i, r := range replay {
				c.CallSites++
				why := "the primary executes no statement on table " + r.Stmt.Table + " before emitting the event"
				ok := false
				for _, p := range primary {
					if r.Stmt.Table != p.Stmt.Table {
						continue
					}
					if good, w := core.WriteShapeCompatible(p.Stmt, r.Stmt, schema); good {
						ok = true
						break
					} else {
						why = fmt.Sprintf("primary has %s: %s", p.Stmt.Shape(), w)
					}
				}
				c.Require(ok, "C16-R1", base+"/replay:"+rk[i], r.Pos(), "reproduces a primary statement: "+r.Stmt.Shape(),
					fmt.Sprintf("replay statement %s of event %s matches no statement of the primary %s (%s)", r.Stmt.Shape(), ev, core.FuncName(emFn), why))
			}
		}
	}

	// ---- R2 ---------------------------------------------------------------------------------
	c.Rule("C16-R2", "K6 pairing / must-pass-through", 13, "in every closure passed to Engine.Do (and helpers the event buffer is delegated to) no return yielding the untouched buffer with a possibly-nil error is reachable after a writing SQL statement or a call of a may-write function")
	sqRuleUnloggedWrites(c, "C16-R2")

	// ---- R3 ---------------------------------------------------------------------------------
	c.Rule("C16-R3", "K5 registry agreement + K6", 16, "every event type serialised with WriteTL1Boxed in the package has a case in applyScanEvent comparing its TLTag with the tag from NatReadTag; each case decodes from the post-tag buffer and cannot reach the next event or a nil-error return without the cursor advance AddPadding(4 + len(data) - len(tail))")
	if scan != nil {
		seen := map[string]bool{}
		for _, em := range ems {
			if seen[em.Type] {
				continue
			}
			seen[em.Type] = true
			c.Require(cases[em.Type] != nil, "C16-R3", core.FuncName(scan)+"/case "+sqTlShort(em.Type), em.Site.Pos(),
				"emitted event type has a replay case", "event type "+sqTlShort(em.Type)+" is written to the binlog by "+core.FuncName(em.Site.Fn)+" but the replay switch has no case for its tag: replay stops with ErrorUnknownMagic")
		}
		sqCheckScanAdvance(c, scan, cases)
	}
}

// checkScanAdvance checks the cursor arithmetic of the replay loop.
func sqCheckScanAdvance(c *core.Check, scan *ssa.Function, cases map[string]*sqReplayCase) {
	const rule = "C16-R3"
	name := core.FuncName(scan)
	var tag *ssa.Call
	for _, s := range core.CallsTo(scan, "internal/vkgo/basictl.NatReadTag") {
		if tag != nil {
			c.Undecided(rule, name+"/NatReadTag", s.Pos(), "more than one tag read in the replay loop")
			return
		}
		tag = s.Value().(*ssa.Call)
	}
	if tag == nil {
		c.Anchor(rule, "internal/vkgo/basictl.NatReadTag in "+name)
		return
	}
	data := sqExtractOf(tag, 1)
	// the advance: AddPadding(4 + len(data) - len(tail))
	var adv *ssa.Call
	var tail ssa.Value
	for _, s := range core.CallsTo(scan, "internal/vkgo/binlog/fsbinlog.AddPadding") {
		call, ok := s.Value().(*ssa.Call)
		if !ok {
			continue
		}
		f := sqLinearOf(call.Call.Args[0])
		if !f.ok || len(f.other) != 0 || len(f.lens) != 2 || data == nil || f.lens[data] != 1 {
			continue
		}
		var tl ssa.Value
		for k, n := range f.lens {
			if k != data && n == -1 {
				tl = k
			}
		}
		if tl == nil {
			continue
		}
		if f.konst != 4 {
			c.Fail(rule, name+"/advance/tag-width", s.Pos(), fmt.Sprintf("the cursor advances by AddPadding(%d + len(data) - len(tail)); the tag read by NatReadTag is 4 bytes wide", f.konst))
			return
		}
		if adv != nil {
			c.Undecided(rule, name+"/advance", s.Pos(), "two cursor advances in the replay loop")
			return
		}
		adv, tail = call, tl
	}
	if adv == nil {
		c.Fail(rule, name+"/advance", scan.Pos(), "no cursor advance of the form AddPadding(4 + len(post-tag buffer) - len(decoder remainder)) in the replay loop")
		return
	}
	// the advance is accumulated into a loop-carried counter
	acc := false
	for _, r := range core.Referrers(adv) {
		if b, ok := r.(*ssa.BinOp); ok && b.Op == token.ADD {
			for _, side := range []ssa.Value{b.X, b.Y} {
				if ph, ok := side.(*ssa.Phi); ok {
					for _, e := range ph.Edges {
						if e == ssa.Value(b) {
							acc = true
						}
					}
				}
			}
		}
	}
	c.Require(acc, rule, name+"/advance/accumulated", adv.Pos(), "the advance is added to the loop-carried byte count", "the advance is not accumulated into the loop-carried byte count that the function returns")
	leaves := sqPhiLeaves(tail)
	isLeaf := func(v ssa.Value) bool {
		for _, l := range leaves {
			if l == v {
				return true
			}
		}
		return false
	}
	// the next tag is read from the remainder
	nextOK := false
	if ph, ok := tag.Call.Args[0].(*ssa.Phi); ok {
		for _, e := range ph.Edges {
			if e == tail {
				nextOK = true
			}
		}
	}
	c.Require(nextOK, rule, name+"/next-event-from-remainder", tag.Pos(), "the next tag is read from the decoder remainder", "the loop does not continue from the remainder the advance is computed from")
	nextOrOK := func(in ssa.Instruction) bool {
		if in == ssa.Instruction(tag) {
			return true
		}
		if r, ok := in.(*ssa.Return); ok {
			vals := core.ReturnedValues(r)
			return isNilConst(vals[len(vals)-1])
		}
		return false
	}
	isAdv := func(in ssa.Instruction) bool { return in == ssa.Instruction(adv) }
	for _, t := range core.SortedKeys(cases) {
		rc := cases[t]
		key := name + "/case " + sqTlShort(t) + "/advance"
		if rc.Read == nil {
			c.Fail(rule, key, rc.If.Pos(), "the case does not decode its own event type with ReadTL1")
			continue
		}
		c.CallSites++
		if rc.Read.Arg(1) != data {
			c.Fail(rule, key, rc.Read.Pos(), "the case decodes from "+core.Expr(rc.Read.Arg(1))+" instead of the buffer that follows the tag")
			continue
		}
		rem := sqExtractOf(rc.Read.Value(), 0)
		if rem == nil || !isLeaf(rem) {
			c.Fail(rule, key, rc.Read.Pos(), "the remainder returned by the decoder is not the one the cursor advance is computed from")
			continue
		}
		p := core.ReachWithout(rc.Read.Instr, nextOrOK, isAdv)
		c.Require(p == nil, rule, key, rc.Read.Pos(), "every path from the decode to the next event / successful return passes the advance",
			"a path from the decode reaches the next event or a nil-error return without the cursor advance: "+pathStr(p))
	}
}
