package props

import (
	"fmt"
	"go/token"

	"golang.org/x/tools/go/ssa"

	"shverif/core"
)

func init() {
	Register(&Property{
		ID:   "C01",
		Pkgs: []string{"./internal/agent", "./internal/aggregator"},
		Run:  runC01,
		Mutants: []Mutant{
			{Name: "erase-on-send-error", File: "internal/agent/agent_shard_send.go", Rule: "C01-A2",
				Old: "			shardReplica.stats.historicSendFailed.Add(1)\n",
				New: "			shardReplica.stats.historicSendFailed.Add(1)\n			s.diskCacheEraseWithLog(cbd.id, \"x\")\n"},
			{Name: "sendRecent-true-before-discard-test", File: "internal/agent/agent_shard_send.go", Rule: "C01-A3",
				Old: "	if !respV3.IsSetDiscard() {\n		shardReplica.stats.recentSendKeep.Add(1)\n		return false\n	}",
				New: "	if !respV3.IsSetDiscard() {\n		shardReplica.stats.recentSendKeep.Add(1)\n		return len(respV3.Warning) == 0\n	}"},
			{Name: "goSendRecent-no-requeue", File: "internal/agent/agent_shard_send.go", Rule: "C01-A4",
				Old: "			cbd = s.diskCachePutWithLog(cbd) // NOP if saved above\n			s.appendHistoricBucketsToSend(cbd)\n",
				New: "			cbd = s.diskCachePutWithLog(cbd) // NOP if saved above\n"},
			{Name: "historic-break-on-keep", File: "internal/agent/agent_shard_send.go", Rule: "C01-A",
				Old: "			shardReplica.stats.historicSendKeep.Add(1)\n			select {",
				New: "			shardReplica.stats.historicSendKeep.Add(1)\n			if len(respV3.Warning) != 0 {\n				break\n			}\n			select {"},
			{Name: "goInsert-discard-true", File: "internal/aggregator/aggregator.go", Rule: "C01-G1",
				Old: "c.resp.SetDiscard(sendErr == nil)", New: "c.resp.SetDiscard(true)"},
			{Name: "late-recent-discard", File: "internal/aggregator/aggregator_handlers.go", Rule: "C01-G4",
				Old: `return "bucket time is too far in the past for recent conveyor", nil, false`,
				New: `return "bucket time is too far in the past for recent conveyor", nil, true`},
			{Name: "respond-other-buckets", File: "internal/aggregator/aggregator.go", Rule: "C01-G2",
				Old: "		for i, b := range aggBuckets {\n			b.mu.Lock()\n			for lh := range b.contributors {\n				var ssb2 tlstatshouse.SendKeepAlive2 // Dummy\n				if hctx, _ := lh.FinishLongpoll(); hctx != nil {\n					hctx.Response, _ = ssb2.WriteResultTL1(hctx.Response, \"Dummy historic result\")",
				New: "		for i, b := range a.recentBuckets {\n			b.mu.Lock()\n			for lh := range b.contributors {\n				var ssb2 tlstatshouse.SendKeepAlive2 // Dummy\n				if hctx, _ := lh.FinishLongpoll(); hctx != nil {\n					hctx.Response, _ = ssb2.WriteResultTL1(hctx.Response, \"Dummy historic result\")"},
			{Name: "insert-non-200-ok", File: "internal/aggregator/aggregator_insert.go", Rule: "C01-G3",
				Old: "	if resp.StatusCode == http.StatusOK {", New: "	if resp.StatusCode < 300 {"},
		},
	})
}

const (
	tShard   = "internal/agent.(*Shard)."
	respType = "internal/data_model/gen2/internal.(*StatshouseSendSourceBucket3Response)"
)

func runC01(c *core.Check) {
	c.Decides = "the acknowledgement discipline on both sides: (agent) which code may erase a disk-cache second and under which response " +
		"(A1 who-may-call EraseBucket, A2 every erase call site is guarded by a discard acknowledgement or is one of the enumerated deliberate drops, " +
		"A3 sendRecent reports success only after err==nil and IsSetDiscard on the response object passed to the send, A4 an unacknowledged recent second is " +
		"put to disk and re-queued to the historic conveyor, A5 the historic queue drops a second only when it is not on disk and memory limit is hit, " +
		"A6 sendHistoric leaves its loop only on the enumerated exits); (aggregator) which code may say discard (G1 every SetDiscard site classified; in goInsert " +
		"the argument is `sendErr == nil` with sendErr defined by sendToClickhouse before, G2 the buckets answered are the buckets marshalled into the inserted body, " +
		"G3 sendToClickhouse returns nil only on HTTP 200 or empty address, G4 constant-true discard returns of the handler are exactly the enumerated rejections)."
	c.NotDecided = "liveness (every second is eventually inserted), RPC loss, restarts, replica failover and interleavings; correctness of ClickHouse itself."

	all := c.Prog.Funcs()

	// ---- A1 -------------------------------------------------------------------------
	c.Rule("C01-A1", "K2 who-may-call", 2, "DiskBucketStorage.EraseBucket is called only from Shard.diskCacheEraseWithLog; diskCacheShard.eraseBucket only from EraseBucket and GetBucket (corrupted record)")
	whoMayCall(c, "C01-A1", all, "internal/agent.(*DiskBucketStorage).EraseBucket", []string{tShard + "diskCacheEraseWithLog"}, "only the logged erase wrapper may forget a second")
	whoMayCall(c, "C01-A1", all, "internal/agent.(*diskCacheShard).eraseBucket",
		[]string{"internal/agent.(*diskCacheShard).EraseBucket", "internal/agent.(*diskCacheShard).GetBucket", "internal/agent.(*DiskBucketStorage).EraseBucket", "internal/agent.(*DiskBucketStorage).GetBucket"},
		"erase is reachable only through EraseBucket or the corruption path of GetBucket")

	// ---- A2 -------------------------------------------------------------------------
	c.Rule("C01-A2", "K1 guard-dominance", 5, "every call of diskCacheEraseWithLog is guarded by an acknowledgement (sendRecent()==true; err==nil && IsSetDiscard) or is an enumerated deliberate drop (out of historic window; disk limit; unreadable record)")
	eraseSigs := map[string][]sig{
		tShard + "goSendRecent": {{"acknowledged-recent", []core.Cond{core.T(tShard + "sendRecent(*")}}},
		tShard + "sendHistoric": {
			{"acknowledged-historic", []core.Cond{core.T(respType + ".IsSetDiscard(&{tlstatshouse.SendSourceBucket3Response})"), core.T("(*sendSourceBucket3Compressed(*&{tlstatshouse.SendSourceBucket3Response}) == nil)")}},
			{"unreadable-record", []core.Cond{core.F("(*GetBucket(*)#1 == nil)")}},
		},
		tShard + "checkOutOfWindow": {{"out-of-historic-window", []core.Cond{core.T("({agent.compressedBucketData}.time < ({1:uint32} - {3:uint32}))")}}},
		tShard + "goEraseHistoric":  {{"disk-limit", []core.Cond{core.T("(* < *HistoricBucketsDataSizeDisk(*)#0)")}}},
	}
	sites := core.Callers(all, tShard+"diskCacheEraseWithLog")
	keys := core.Ordinals(sites)
	for i, s := range sites {
		c.CallSites++
		sg, known := eraseSigs[core.FuncName(s.Fn)]
		if !known {
			c.Fail("C01-A2", keys[i], s.Pos(), "erase of a disk-cache second in a function that is not in the enumerated list of erase sites")
			continue
		}
		name, ok := matchSig(s.Block(), sg)
		c.Require(ok, "C01-A2", keys[i], s.Pos(), "erase guarded: "+name,
			"erase is not dominated by any accepted guard ("+sigNames(sg)+"); facts here: "+core.FactsString(s.Block()))
	}

	// ---- A3 -------------------------------------------------------------------------
	c.Rule("C01-A3", "K1+K7", 2, "sendRecent returns true only when sendSourceBucket3Compressed returned nil and IsSetDiscard() is true on the response object that was passed to that call")
	if fn := need(c, "C01-A3", tShard+"sendRecent"); fn != nil {
		n := 0
		for _, r := range core.Returns(fn) {
			if len(r.Block().Preds) == 0 && r.Block().Index != 0 {
				continue // recover block
			}
			n++
			v := core.ReturnedValues(r)[0]
			key := fmt.Sprintf("%ssendRecent/return#%d", tShard, n)
			if core.ConstBool(v, false) {
				c.Pass("C01-A3", key, r.Pos(), "returns false")
				continue
			}
			if !core.ConstBool(v, true) {
				c.Fail("C01-A3", key, r.Pos(), "sendRecent returns a non-constant value "+core.Expr(v)+": success must be the constant true under the acknowledgement guards")
				continue
			}
			miss := core.HoldsAll(r.Block(), core.T(respType+".IsSetDiscard(&{tlstatshouse.SendSourceBucket3Response})"), core.T("(*sendSourceBucket3Compressed(*&{tlstatshouse.SendSourceBucket3Response}) == nil)"))
			c.Require(len(miss) == 0, "C01-A3", key, r.Pos(), "return true under err==nil && IsSetDiscard",
				fmt.Sprintf("return true is not dominated by %v", miss))
		}
		// the response tested is the one passed to the send: same Alloc
		sends := core.CallsTo(fn, "internal/agent.(*ShardReplica).sendSourceBucket3Compressed")
		tests := core.CallsTo(fn, respType+".IsSetDiscard")
		if len(sends) == 1 && len(tests) >= 1 {
			for i, t := range tests {
				c.Require(t.Arg(0) == sends[0].Arg(6), "C01-A3", fmt.Sprintf("%ssendRecent/IsSetDiscard#%d/same-response", tShard, i+1), t.Pos(),
					"IsSetDiscard is tested on the response filled by the send", "IsSetDiscard is tested on a different object than the one passed to sendSourceBucket3Compressed")
			}
		} else {
			c.Undecided("C01-A3", tShard+"sendRecent/shape", fn.Pos(), fmt.Sprintf("expected exactly one send and at least one IsSetDiscard test, found %d/%d", len(sends), len(tests)))
		}
	}

	// ---- A4 -------------------------------------------------------------------------
	c.Rule("C01-A4", "K6 must-pass-through", 2, "in goSendRecent every path on which sendRecent returned false passes diskCachePutWithLog and appendHistoricBucketsToSend before the next second; in sendToSenders every return not taken after a successful channel send is preceded by both")
	if fn := need(c, "C01-A4", tShard+"goSendRecent"); fn != nil {
		calls := core.CallsTo(fn, tShard+"sendRecent")
		if len(calls) != 1 {
			c.Undecided("C01-A4", tShard+"goSendRecent/shape", fn.Pos(), "expected exactly one call of sendRecent")
		} else {
			call := calls[0]
			ifi := ifOn(fn, call.Value())
			if ifi == nil {
				c.Undecided("C01-A4", tShard+"goSendRecent/branch", call.Pos(), "the result of sendRecent is not branched on directly")
			} else {
				falseSucc := ifi.Block().Succs[1]
				end := func(in ssa.Instruction) bool { return core.IsReturn(in) || in == call.Instr }
				for _, must := range []string{tShard + "appendHistoricBucketsToSend", tShard + "diskCachePutWithLog"} {
					p := reachFromBlock(falseSucc, end, core.IsCallTo(must))
					c.Require(p == nil, "C01-A4", tShard+"goSendRecent/unacknowledged->"+must, call.Pos(),
						"every unacknowledged path passes "+must, "a path from sendRecent()==false reaches the next iteration/return without "+must+": "+pathStr(p))
				}
			}
		}
	}
	if fn := need(c, "C01-A4", tShard+"sendToSenders"); fn != nil {
		handedOver := func(in ssa.Instruction) bool {
			return core.IsReturn(in) && !core.Holds(in.Block(), core.T("(select#0 == 0)"))
		}
		for _, must := range []string{tShard + "appendHistoricBucketsToSend", tShard + "diskCachePutWithLog"} {
			p := core.ReachFromEntryWithout(fn, handedOver, core.IsCallTo(must))
			c.Require(p == nil, "C01-A4", tShard+"sendToSenders/not-handed-over->"+must, fn.Pos(),
				"every return without channel hand-over passes "+must, "sendToSenders can return without handing the second to a sender and without "+must+": "+pathStr(p))
		}
	}

	// ---- A5 -------------------------------------------------------------------------
	c.Rule("C01-A5", "K1", 1, "appendHistoricBucketsToSend returns without appending only when the second is not on disk (cbd.id == 0) and the memory limit is exceeded")
	if fn := need(c, "C01-A5", tShard+"appendHistoricBucketsToSend"); fn != nil {
		dropRet := func(in ssa.Instruction) bool {
			if !core.IsReturn(in) {
				return false
			}
			return len(core.HoldsAll(in.Block(), core.T("({agent.compressedBucketData}.id == 0)"), core.T("(* < ({0:*agent.Shard}.historicBucketsDataSize + builtin len({agent.compressedBucketData}.data)))"))) != 0
		}
		p := core.ReachFromEntryWithout(fn, dropRet, isStoreToField("internal/agent.Shard", "historicBucketsToSend"))
		c.Require(p == nil, "C01-A5", tShard+"appendHistoricBucketsToSend/returns", fn.Pos(),
			"every return either appended the second or is the documented memory-limit drop of an unsaved second",
			"appendHistoricBucketsToSend can return without queueing the second outside the documented drop: "+pathStr(p))
	}

	// ---- A6 -------------------------------------------------------------------------
	c.Rule("C01-A6", "K1", 6, "every exit of sendHistoric is one of: out of window, no disk cache, disk read error, cancelled context, or acknowledged (IsSetDiscard after err==nil)")
	if fn := need(c, "C01-A6", tShard+"sendHistoric"); fn != nil {
		exitSigs := []sig{
			{"out-of-window", []core.Cond{core.T(tShard + "checkOutOfWindow(*")}},
			{"no-disk-cache", []core.Cond{core.T("(*.agent.diskBucketCache == nil)")}},
			{"disk-read-error", []core.Cond{core.F("(*GetBucket(*)#1 == nil)")}},
			{"cancelled", []core.Cond{core.T("(select#0 == 0)")}},
			{"cancelled-send", []core.Cond{core.T("errors.Is(*, *context.Canceled)")}},
			{"acknowledged", []core.Cond{core.T(respType + ".IsSetDiscard(&{tlstatshouse.SendSourceBucket3Response})"), core.T("(*sendSourceBucket3Compressed(*&{tlstatshouse.SendSourceBucket3Response}) == nil)")}},
		}
		n := 0
		for _, r := range core.Returns(fn) {
			n++
			name, ok := matchSig(r.Block(), exitSigs)
			c.Require(ok, "C01-A6", fmt.Sprintf("%ssendHistoric/return#%d", tShard, n), r.Pos(), "exit: "+name,
				"sendHistoric can stop working on a second here without any accepted reason; facts: "+core.FactsString(r.Block()))
		}
	}

	// ---- G1 -------------------------------------------------------------------------
	c.Rule("C01-G1", "K2+K7", 3, "every SetDiscard on a SendSourceBucket3 response in package aggregator is classified: goInsert response loop passes `sendErr == nil` with sendErr defined by sendToClickhouse (other stores provably non-nil); stale-bucket loop passes true for buckets returned as stale by popOldestHistoricBucket; writeResponse passes its parameter")
	aggFns := c.Prog.FuncsIn("internal/aggregator")
	var insertCall *core.Site
	for _, s := range core.Callers(aggFns, "*StatshouseSendSourceBucket3Response*).SetDiscard") {
		c.CallSites++
		key := core.Ordinals([]core.Site{s})[0]
		arg := s.Arg(1)
		fnName := core.FuncName(s.Fn)
		switch {
		case fnName == "internal/aggregator.(*Aggregator).handleSendSourceBucket3$1":
			_, isParam := arg.(*ssa.Parameter)
			c.Require(isParam, "C01-G1", key, s.Pos(), "writeResponse passes its discard parameter through", "writeResponse does not pass its parameter to SetDiscard: "+core.Expr(arg))
		case fnName == "internal/aggregator.(*Aggregator).goInsert" && core.ConstBool(arg, true):
			// stale loop: receiver must come from popOldestHistoricBucket's second result
			stale := false
			for _, v := range baseChain(s.Arg(0)) {
				if ex, ok := v.(*ssa.Extract); ok && ex.Index == 1 {
					if call, ok := ex.Tuple.(*ssa.Call); ok && core.CalleeName(&call.Call) == "internal/aggregator.(*Aggregator).popOldestHistoricBucket" {
						stale = true
					}
				}
			}
			c.Require(stale, "C01-G1", key, s.Pos(), "constant discard only for stale buckets (beyond historic window)",
				"SetDiscard(true) on a response that does not belong to a stale bucket returned by popOldestHistoricBucket: receiver "+core.Expr(s.Arg(0)))
		case fnName == "internal/aggregator.(*Aggregator).goInsert":
			ok, why := discardArgIsInsertOutcome(s, &insertCall)
			c.Require(ok, "C01-G1", key, s.Pos(), "discard == (insert error is nil)", why)
		default:
			c.Fail("C01-G1", key, s.Pos(), "SetDiscard call in a function that is not an enumerated acknowledgement site")
		}
	}

	// ---- G2 -------------------------------------------------------------------------
	c.Rule("C01-G2", "K7", 2, "the bucket slice whose contributors are answered in goInsert is the SSA value passed to rowDataMarshalAppendPositions, whose body result is the one given to sendToClickhouse")
	if fn := need(c, "C01-G2", "internal/aggregator.(*Aggregator).goInsert"); fn != nil {
		marsh := core.CallsTo(fn, "internal/aggregator.(*Aggregator).rowDataMarshalAppendPositions")
		sends := core.CallsTo(fn, "internal/aggregator.sendToClickhouse")
		if len(marsh) != 1 || len(sends) != 1 {
			c.Undecided("C01-G2", "internal/aggregator.(*Aggregator).goInsert/shape", fn.Pos(), "expected exactly one marshal and one sendToClickhouse call")
		} else {
			body := sends[0].Arg(6)
			okBody := false
			if ex, ok := body.(*ssa.Extract); ok && ex.Tuple == marsh[0].Value() && ex.Index == 0 {
				okBody = true
			}
			c.Require(okBody, "C01-G2", "internal/aggregator.(*Aggregator).goInsert/body", sends[0].Pos(), "inserted body is the marshal result",
				"body passed to sendToClickhouse is not the first result of rowDataMarshalAppendPositions: "+core.Expr(body))
			for _, s := range core.CallsTo(fn, "*StatshouseSendSourceBucket3Response*).SetDiscard") {
				if !marsh[0].Instr.Block().Dominates(s.Block()) {
					continue // stale loop (before the insert)
				}
				var idx *ssa.IndexAddr
				recv := s.Arg(0)
				for _, v := range baseChain(recv) {
					if ia, ok := v.(*ssa.IndexAddr); ok {
						idx = ia
						break
					}
				}
				key := core.Ordinals([]core.Site{s})[0] + "/bucket-source"
				if idx == nil {
					c.Fail("C01-G2", key, s.Pos(), "cannot trace the answered contributor back to an element of a bucket slice: "+core.Expr(recv))
					continue
				}
				c.Require(idx.X == marsh[0].Arg(1), "C01-G2", key, s.Pos(), "answered bucket is an element of the marshalled slice",
					"the contributors answered after the insert belong to "+core.Expr(idx.X)+", not to the slice marshalled into the inserted body ("+core.Expr(marsh[0].Arg(1))+")")
			}
		}
	}

	// ---- G7 -------------------------------------------------------------------------
	c.Rule("C01-G7", "K6 must-pass-through", 1, "a historic bucket popped from the aggregator's historic queue (popOldestHistoricBucket, first result, non-nil) is retained (stored into the batch that is marshalled and answered) on every path before the next pop or the marshal call: a popped bucket is never dropped")
	if fn := need(c, "C01-G7", "internal/aggregator.(*Aggregator).goInsert"); fn != nil {
		pops := core.CallsTo(fn, "internal/aggregator.(*Aggregator).popOldestHistoricBucket")
		for i, pop := range pops {
			key := fmt.Sprintf("internal/aggregator.(*Aggregator).goInsert/popOldestHistoricBucket#%d", i+1)
			var bucket ssa.Value
			for _, r := range core.Referrers(pop.Value()) {
				if ex, ok := r.(*ssa.Extract); ok && ex.Index == 0 {
					bucket = ex
				}
			}
			if bucket == nil {
				c.Fail("C01-G7", key, pop.Pos(), "the popped bucket (first result) is discarded")
				continue
			}
			// the nil test on the popped bucket
			var nonNil *ssa.BasicBlock
			for _, b := range fn.Blocks {
				if len(b.Instrs) == 0 {
					continue
				}
				ifi, ok := b.Instrs[len(b.Instrs)-1].(*ssa.If)
				if !ok {
					continue
				}
				l := core.NormLit(ifi.Cond, true)
				if l.Op == token.EQL && l.X == bucket && isNilConst(l.Y) {
					if l.Pol {
						nonNil = b.Succs[1]
					} else {
						nonNil = b.Succs[0]
					}
				}
			}
			if nonNil == nil {
				c.Undecided("C01-G7", key, pop.Pos(), "no `bucket == nil` test on the popped bucket found")
				continue
			}
			retained := func(in ssa.Instruction) bool {
				st, ok := in.(*ssa.Store)
				return ok && st.Val == bucket
			}
			end := or(core.IsCallTo("internal/aggregator.(*Aggregator).rowDataMarshalAppendPositions"), func(in ssa.Instruction) bool { return in == pop.Instr }, core.IsReturn)
			p := reachFromBlock(nonNil, end, retained)
			c.Require(p == nil, "C01-G7", key, pop.Pos(), "popped bucket is retained on every path",
				"a non-nil bucket popped from the historic queue can reach the marshal call / next pop without being stored into the batch (its contributors would never be answered and its rows never inserted): "+pathStr(p))
		}
	}

	// ---- G3 -------------------------------------------------------------------------
	c.Rule("C01-G3", "K1", 3, "sendToClickhouse returns a nil error only under resp.StatusCode == 200 or khAddr == \"\"; other returns carry a provably non-nil error")
	if fn := need(c, "C01-G3", "internal/aggregator.sendToClickhouse"); fn != nil {
		for i, r := range core.Returns(fn) {
			vals := core.ReturnedValues(r)
			errV := vals[len(vals)-1]
			key := fmt.Sprintf("internal/aggregator.sendToClickhouse/return#%d", i+1)
			if isNilConst(errV) {
				ok := core.HoldsAnyOf(r.Block(), core.T("(*.StatusCode == 200)")) || core.HoldsAnyOf(r.Block(), core.T(`({2:string} == "")`))
				c.Require(ok, "C01-G3", key, r.Pos(), "nil error under HTTP 200 / local mode", "sendToClickhouse reports success without `StatusCode == 200` or `khAddr == \"\"`; facts: "+core.FactsString(r.Block()))
			} else {
				c.Require(nonNilErr(errV, r.Block()), "C01-G3", key, r.Pos(), "error return is non-nil", "cannot show that the returned error "+core.Expr(errV)+" is non-nil here (a nil would acknowledge a failed insert)")
			}
		}
	}

	// ---- G4 -------------------------------------------------------------------------
	c.Rule("C01-G4", "K1", 9, "handleSendSourceBucket returns discard=true only for the enumerated rejections (agent too old, shard mismatch, historic in the future, beyond historic window, recent in the future); all other returns are false")
	if fn := need(c, "C01-G4", "internal/aggregator.(*Aggregator).handleSendSourceBucket"); fn != nil {
		hist := "*StatshouseSendSourceBucket3Bytes).IsSetHistoric(*)"
		rej := []sig{
			{"agent-too-old", []core.Cond{core.T("*.DenyOldAgents"), core.T("(*.BuildCommitTs < *)")}},
			{"shard-mismatch", []core.Cond{core.F("(*checkShardConfiguration(*)#1 == nil)")}},
			{"historic-future", []core.Cond{core.T(hist), core.T("(*.recentBuckets[(builtin len(*) - 1)].time < phi(*.Time*)")}},
			{"beyond-historic-window", []core.Cond{core.T(hist), core.T("(phi(*.Time*) < (*.recentBuckets[0].time - *HistoricWindow(*)))"), core.F("(*.recentBuckets[0].time < *HistoricWindow(*))")}},
			{"recent-future", []core.Cond{core.F(hist), core.T("(*.recentBuckets[(builtin len(*) - 1)].time < phi(*.Time*)")}},
		}
		n := 0
		for _, r := range core.Returns(fn) {
			if len(r.Block().Preds) == 0 && r.Block().Index != 0 {
				continue
			}
			n++
			v := core.ReturnedValues(r)[2]
			key := fmt.Sprintf("internal/aggregator.(*Aggregator).handleSendSourceBucket/return#%d", n)
			switch {
			case core.ConstBool(v, false):
				c.Pass("C01-G4", key, r.Pos(), "keep")
			case core.ConstBool(v, true):
				name, ok := matchSig(r.Block(), rej)
				c.Require(ok, "C01-G4", key, r.Pos(), "deliberate rejection: "+name,
					"the handler tells the agent to discard the second outside the enumerated rejections; facts: "+core.FactsString(r.Block()))
			default:
				c.Fail("C01-G4", key, r.Pos(), "non-constant discard result "+core.Expr(v))
			}
		}
	}
	// writeResponse(…, true) in handleSendSourceBucket3 only on undecodable requests
	c.Rule("C01-G5", "K1", 4, "handleSendSourceBucket3 answers discard=true itself only when the request, its compression frame or the bucket cannot be decoded; otherwise it passes the handler's verdict")
	if fn := need(c, "C01-G5", "internal/aggregator.(*Aggregator).handleSendSourceBucket3"); fn != nil {
		sites := core.CallsTo(fn, "internal/aggregator.(*Aggregator).handleSendSourceBucket3$1")
		keys := core.Ordinals(sites)
		handler := core.CallsTo(fn, "internal/aggregator.(*Aggregator).handleSendSourceBucket")
		for i, s := range sites {
			arg := s.Arg(1)
			if core.ConstBool(arg, true) {
				ok := core.HoldsAnyOf(s.Block(), core.F("(*ReadTL1(*)#1 == nil)"), core.F("(internal/compress.Decompress(*)#1 == nil)"), core.F("(*ReadTL1Boxed(*)#1 == nil)"))
				c.Require(ok, "C01-G5", keys[i], s.Pos(), "undecodable request is rejected", "constant discard answer that is not guarded by a decode error; facts: "+core.FactsString(s.Block()))
			} else {
				ok := false
				if ex, isEx := arg.(*ssa.Extract); isEx && len(handler) == 1 && ex.Tuple == handler[0].Value() && ex.Index == 2 {
					ok = true
				}
				c.Require(ok, "C01-G5", keys[i], s.Pos(), "passes the handler's verdict", "discard answer is neither a decode rejection nor the third result of handleSendSourceBucket: "+core.Expr(arg))
			}
		}
	}
	// ---- G6 (who may construct / answer responses) ------------------------------------
	c.Rule("C01-G6", "K2 who-may-call", 3, "SendSourceBucket3 results are written (WriteResultTL1) only in package aggregator (thorough tier: whole program incl. cmd/, the ingress proxy forwards bytes)")
	for _, s := range core.Callers(all, "*StatshouseSendSourceBucket3*).WriteResultTL1", "*StatshouseSendSourceBucket3*).WriteResult") {
		c.CallSites++
		pk := core.FuncPkg(s.Fn)
		ok := pk == "internal/aggregator" || pk == "internal/data_model/gen2/internal" || pk == "internal/data_model/gen2/tlstatshouse"
		c.Require(ok, "C01-G6", core.Ordinals([]core.Site{s})[0], s.Pos(), "response written by the aggregator", "a SendSourceBucket3 response is produced outside package aggregator (in "+pk+")")
	}
}

// discardArgIsInsertOutcome checks `SetDiscard(X == nil)` where X is the cell that
// receives sendToClickhouse's error and is otherwise only assigned non-nil values.
func discardArgIsInsertOutcome(s core.Site, insertCall **core.Site) (bool, string) {
	arg := s.Arg(1)
	bin, ok := arg.(*ssa.BinOp)
	if !ok || bin.Op != token.EQL || !isNilConst(bin.Y) {
		return false, "SetDiscard argument is not of the form `err == nil`: " + core.Expr(arg)
	}
	ld, ok := bin.X.(*ssa.UnOp)
	if !ok {
		// register value: must be the Extract itself
		if ex, ok := bin.X.(*ssa.Extract); ok {
			if call, ok := ex.Tuple.(*ssa.Call); ok && core.CalleeName(&call.Call) == "internal/aggregator.sendToClickhouse" && ex.Index == 3 {
				return true, ""
			}
		}
		return false, "SetDiscard argument does not test the insert error: " + core.Expr(arg)
	}
	cell, ok := ld.X.(*ssa.Alloc)
	if !ok {
		return false, "SetDiscard argument tests " + core.Expr(bin.X) + ", not a local error variable"
	}
	fromInsert := 0
	for _, st := range core.CellStores(cell) {
		if ex, ok := st.Val.(*ssa.Extract); ok {
			if call, ok := ex.Tuple.(*ssa.Call); ok && core.CalleeName(&call.Call) == "internal/aggregator.sendToClickhouse" && ex.Index == 3 {
				if !core.Dominates(st, s.Instr) {
					return false, "the store of sendToClickhouse's error does not dominate the acknowledgement"
				}
				fromInsert++
				continue
			}
		}
		if nonNilErr(st.Val, st.Block()) {
			continue
		}
		return false, "the error variable tested by SetDiscard is also assigned " + core.Expr(st.Val) + ", which is not provably non-nil (a nil would acknowledge a failed insert)"
	}
	if fromInsert != 1 {
		return false, fmt.Sprintf("expected exactly one assignment of sendToClickhouse's error to the tested variable, found %d", fromInsert)
	}
	return true, ""
}
