package props

import (
	"fmt"
	"go/ast"
	"go/token"
	"sort"
	"strings"

	"golang.org/x/tools/go/packages"
	"golang.org/x/tools/go/ssa"

	"shverif/core"
)

func init() {
	Register(&Property{
		ID: "C14",
		Pkgs: []string{"./internal/data_model/gen2/...", "./internal/vkgo/vktl/gen/...", "./internal/vkgo/binlog/fsbinlog/internal/gen/...",
			"./internal/vkgo/sqlitev2/checkpoint/gen2/...", "./internal/compress", "./internal/vkgo/basictl"},
		Run: runC14,
		Mutants: []Mutant{
			{Name: "swap-two-field-reads", File: "internal/data_model/gen2/internal/statshouse.multiValue.go", Rule: "C14-R1", Occurrence: 1,
				Old: "		if w, err = basictl.IntRead(w, &item.MaxHostTag); err != nil {", New: "		if w, err = basictl.IntRead(w, &item.MinHostTag); err != nil {"},
			{Name: "change-mask-bit", File: "internal/data_model/gen2/internal/statshouse.multiValue.go", Rule: "C14-R1", Occurrence: 2,
				Old: "	if nat_fields_mask&(1<<8) != 0 {\n		w = basictl.IntWrite(w, item.MinHostTag)", New: "	if nat_fields_mask&(1<<7) != 0 {\n		w = basictl.IntWrite(w, item.MinHostTag)"},
			{Name: "reader-keeps-stale-field", File: "internal/data_model/gen2/internal/statshouse.multiValue.go", Rule: "C14-R1z", Occurrence: 2,
				Old: "	} else {\n		item.ValueSum = 0\n	}", New: "	}"},
			{Name: "boxed-tag-differs", File: "internal/data_model/gen2/internal/statshouse.multiValue.go", Rule: "C14-R1", Occurrence: 1,
				Old: "	w = basictl.NatWrite(w, 0x0c803e06)\n	return item.WriteTL1(w, nat_fields_mask)", New: "	w = basictl.NatWrite(w, 0x0c803e07)\n	return item.WriteTL1(w, nat_fields_mask)"},
			{Name: "bytes-variant-diverges", File: "internal/data_model/gen2/internal/statshouse.multiValue.go", Rule: "C14-R2", Occurrence: 2,
				Old: "	if nat_fields_mask&(1<<9) != 0 {\n		w = basictl.IntWrite(w, item.MaxCounterHostTag)\n	}\n", New: ""},
			{Name: "union-tag-table-differs", File: "internal/data_model/gen2/internal/engine.queryResult.go", Rule: "C14-R1",
				Old: "	case 0x2b4dd0ba:\n		item.index = 1\n		return item.valueError.ReadTL1(w)", New: "	case 0x2b4dd0bb:\n		item.index = 1\n		return item.valueError.ReadTL1(w)"},
			{Name: "vector-without-sanity-check", File: "internal/data_model/gen2/internal/statshouse.centroidFloat.go", Rule: "C14-R3",
				Old: "	if err = basictl.CheckLengthSanity(w, l, 4); err != nil {\n		return w, err\n	}\n	if uint32(cap(*vec)) < l {\n		*vec = make([]StatshouseCentroidFloat, l)",
				New: "	if uint32(cap(*vec)) < l {\n		*vec = make([]StatshouseCentroidFloat, l)"},
			{Name: "decompress-unbounded", File: "internal/compress/lz4.go", Rule: "C14-R4",
				Old: "if originalSize > data_model.MaxUncompressedBucketSize {", New: "if originalSize > data_model.MaxUncompressedBucketSize && len(compressedData) == 0 {"},
			{Name: "decompress-size-unchecked", File: "internal/compress/lz4.go", Rule: "C14-R4",
				Old: "	if s != int(originalSize) {", New: "	if s > int(originalSize) {"},
			{Name: "deframe-short-accepted", File: "internal/compress/lz4.go", Rule: "C14-R4",
				Old: "	if len(frame) < 4 {", New: "	if len(frame) < 3 {"},
		},
	})
}

func isGenPkg(rel string) bool {
	for _, p := range []string{"internal/data_model/gen2/", "internal/vkgo/vktl/gen/", "internal/vkgo/binlog/fsbinlog/internal/gen/", "internal/vkgo/sqlitev2/checkpoint/gen2/"} {
		if strings.HasPrefix(rel+"/", p) {
			return true
		}
	}
	return false
}

type genFunc struct {
	pk   *packages.Package
	fd   *ast.FuncDecl
	recv string
}

func funcKey(fd *ast.FuncDecl) (recv, name string) {
	name = fd.Name.Name
	if fd.Recv != nil && len(fd.Recv.List) == 1 {
		t := fd.Recv.List[0].Type
		if st, ok := t.(*ast.StarExpr); ok {
			t = st.X
		}
		if ix, ok := t.(*ast.IndexExpr); ok {
			t = ix.X
		}
		if id, ok := t.(*ast.Ident); ok {
			recv = id.Name
		}
	}
	return
}

func runC14(c *core.Check) {
	c.Decides = "for every generated TL type of the four generated trees with a TL1 reader and writer (ReadTL1/WriteTL1, ReadTL1Boxed/WriteTL1Boxed, BuiltinX ReadTL1/WriteTL1): " +
		"R1 the reader and the writer make the same sequence of codec calls — same primitive family, same field, same extra nat arguments, under the same field-mask bit / union case and loop nesting, same boxed tag constant; " +
		"R1z a reader that reads a field under a mask bit resets exactly those fields when the bit is clear; R2 the string and the byte-slice variant of a type (T / TBytes) have identical writer shapes modulo the String/StringBytes codec; " +
		"R3 every slice allocation in the generated trees whose length was decoded from input is dominated by a successful CheckLengthSanity on that length; " +
		"R4 compress.Decompress allocates only after `originalSize <= MaxUncompressedBucketSize`, checks the decompressed length, DeFrame rejects frames shorter than the length prefix and frames are written as length prefix + data."
	c.NotDecided = "value equality after a round trip (basictl primitives are trusted to be inverse pairs; their padding arithmetic is not analysed), TL2 and JSON encodings, absence of panics."

	type pairKey struct{ pkg, recv, name string }
	funcs := map[pairKey]genFunc{}
	nPkgs := 0
	for _, rel := range core.SortedKeys(c.Prog.AllPkgs) {
		if !isGenPkg(rel) {
			continue
		}
		pk := c.Prog.AllPkgs[rel]
		if len(pk.Syntax) == 0 {
			continue
		}
		nPkgs++
		for _, f := range pk.Syntax {
			for _, d := range f.Decls {
				if fd, ok := d.(*ast.FuncDecl); ok && fd.Body != nil {
					r, n := funcKey(fd)
					funcs[pairKey{rel, r, n}] = genFunc{pk, fd, r}
				}
			}
		}
	}
	c.Note("generated packages analysed: %d, functions: %d", nPkgs, len(funcs))

	// ---- R1: reader/writer shape agreement ----------------------------------------------
	c.Rule("C14-R1", "K3 sequential codec shape", 300, "reader and writer of a generated TL type make the same sequence of codec calls (family, field, nat args, mask bit / case, loop depth, boxed tag)")
	c.Rule("C14-R1z", "K3 zeroing", 100, "a generated reader resets the fields of a mask bit exactly when the bit is clear")
	var keys []pairKey
	for k := range funcs {
		keys = append(keys, k)
	}
	sort.Slice(keys, func(i, j int) bool {
		a, b := keys[i], keys[j]
		return a.pkg+a.recv+a.name < b.pkg+b.recv+b.name
	})
	pairs, notAnalysed := 0, 0
	var skipped []string
	writerShapes := map[pairKey]*core.CodecShape{}
	for _, k := range keys {
		if !strings.Contains(k.name, "ReadTL1") && !strings.Contains(k.name, "ReadResultTL1") {
			continue
		}
		wname := strings.Replace(k.name, "Read", "Write", 1)
		wk := pairKey{k.pkg, k.recv, wname}
		w, ok := funcs[wk]
		site := k.pkg + "." + k.recv + "." + k.name + "<->" + wname
		if !ok {
			// some types are read-only / write-only by design (function results); not a pair
			skipped = append(skipped, site)
			continue
		}
		r := funcs[k]
		rs := core.ExtractCodecShape(r.pk, r.fd, true)
		ws := core.ExtractCodecShape(w.pk, w.fd, false)
		writerShapes[wk] = ws
		if len(rs.Undecided)+len(ws.Undecided) > 0 {
			notAnalysed++
			skipped = append(skipped, site+" (idiom not in table: "+strings.Join(append(rs.Undecided, ws.Undecided...), "; ")+")")
			continue
		}
		pairs++
		c.Seen(k.pkg + "." + k.recv + "." + k.name)
		var msg string
		var same bool
		switch {
		case len(rs.Toks) == 1 && rs.Toks[0].Family == "basictl.Bool":
			msg, same = compareBool(rs.Toks[0], ws.Toks)
		case isUnionWriter(ws.Toks):
			msg, same = compareUnion(r, rs.Toks, ws.Toks)
		default:
			msg, same = compareShapes(rs.Toks, ws.Toks)
		}
		c.Require(same, "C14-R1", site, r.fd.Pos(), fmt.Sprintf("%d codec calls agree", len(rs.Toks)), "reader and writer disagree: "+msg)
		// zeroing
		for _, cond := range core.SortedKeys(rs.ReadUnder) {
			zs := site + "/" + cond
			read := strings.Split(rs.ReadUnder[cond], ",")
			zero := map[string]bool{}
			for _, z := range strings.Split(rs.Zeroing[cond], ",") {
				zero[z] = true
			}
			var missing []string
			for _, f := range read {
				if !zero[f] {
					missing = append(missing, f)
				}
			}
			c.Require(len(missing) == 0, "C14-R1z", zs, r.fd.Pos(), "fields reset when the bit is clear",
				fmt.Sprintf("reader leaves %v untouched when mask bit is clear (a reused object keeps stale values, so write-then-read is not identity)", missing))
		}
	}
	c.Note("TL1 reader/writer pairs compared: %d; pairs outside the idiom table (not analysed, not counted as passes): %d; unpaired readers: %d", pairs, notAnalysed, len(skipped)-notAnalysed)
	if len(skipped) > 0 {
		if len(skipped) > 40 {
			skipped = skipped[:40]
		}
		c.Note("not analysed / unpaired: %s", strings.Join(skipped, " | "))
	}

	// ---- R2: T vs TBytes ------------------------------------------------------------------
	c.Rule("C14-R2", "K8 generated siblings", 40, "the byte-slice variant XBytes of a generated type X has the same writer shape as X modulo the String/StringBytes codecs")
	for _, wk := range keys {
		if !strings.HasPrefix(wk.name, "WriteTL1") || !strings.HasSuffix(wk.recv, "Bytes") {
			continue
		}
		base := pairKey{wk.pkg, strings.TrimSuffix(wk.recv, "Bytes"), wk.name}
		a, okA := writerShapes[base]
		b, okB := writerShapes[wk]
		if !okA || !okB {
			continue
		}
		site := wk.pkg + "." + base.recv + "~" + wk.recv + "." + wk.name
		msg, same := compareShapes(normBytes(a.Toks), normBytes(b.Toks))
		c.Require(same, "C14-R2", site, funcs[wk].fd.Pos(), "string and bytes variants agree", "the two variants of the type encode differently: "+msg)
	}

	// ---- R3: decoded lengths are bounded before allocation ---------------------------------
	c.Rule("C14-R3", "K9 tainted allocation bound", 40, "every make([]T, n) in the generated trees and basictl whose n was decoded by basictl.NatRead is dominated by `basictl.CheckLengthSanity(w, n, _) == nil` on the same variable")
	for _, fn := range c.Prog.Funcs() {
		pk := core.FuncPkg(fn)
		if !isGenPkg(pk) && pk != "internal/vkgo/basictl" {
			continue
		}
		for _, b := range fn.Blocks {
			for _, in := range b.Instrs {
				mk, ok := in.(*ssa.MakeSlice)
				if !ok {
					continue
				}
				cell := lengthCell(mk.Len)
				if cell == nil || !decodedInto(cell) {
					continue
				}
				site := core.FuncName(fn) + "/make"
				okB := false
				for _, g := range core.Facts(b) {
					if len(g.Alts) != 1 {
						continue
					}
					l := g.Alts[0]
					if l.Op != token.EQL || !l.Pol || !isNilConst(l.Y) {
						continue
					}
					if call, isCall := l.X.(*ssa.Call); isCall && strings.HasSuffix(core.CalleeName(&call.Call), "basictl.CheckLengthSanity") && len(call.Call.Args) >= 2 {
						if lengthCell(call.Call.Args[1]) == cell {
							okB = true
						}
					}
				}
				c.Require(okB, "C14-R3", site, mk.Pos(), "allocation bounded by CheckLengthSanity", "slice allocation with a length decoded from input is not dominated by a successful CheckLengthSanity on that length (a few bytes of input can demand gigabytes)")
			}
		}
	}

	// ---- R4: compression frames --------------------------------------------------------------
	c.Rule("C14-R4", "K1 guards", 4, "compress.Decompress: allocation only under originalSize <= MaxUncompressedBucketSize, result length checked against originalSize; DeFrame rejects short frames")
	if fn := need(c, "C14-R4", "internal/compress.Decompress"); fn != nil {
		n := 0
		for _, b := range fn.Blocks {
			for _, in := range b.Instrs {
				if mk, ok := in.(*ssa.MakeSlice); ok {
					n++
					c.Require(core.Holds(b, core.F("(* < {0:uint32})")) && limitIsConst(b), "C14-R4", fmt.Sprintf("internal/compress.Decompress/make#%d", n), mk.Pos(),
						"allocation bounded by the maximum bucket size", "Decompress allocates originalSize bytes without `originalSize <= MaxUncompressedBucketSize` dominating it; facts: "+core.FactsString(b))
				}
			}
		}
		if n == 0 {
			c.Undecided("C14-R4", "internal/compress.Decompress/make", fn.Pos(), "no allocation found in Decompress")
		}
		// success return requires the decompressed size to equal originalSize
		for i, r := range core.Returns(fn) {
			vals := core.ReturnedValues(r)
			if !isNilConst(vals[len(vals)-1]) {
				continue
			}
			ok := core.HoldsAnyOf(r.Block(), core.T("(* == int({0:uint32}))"), core.T("(int({0:uint32}) == *)"), core.T("({0:uint32} == 0)"), core.T("(* == {0:uint32})"))
			c.Require(ok, "C14-R4", fmt.Sprintf("internal/compress.Decompress/return-nil#%d", i+1), r.Pos(), "success only when the decompressed length equals originalSize",
				"Decompress returns success without comparing the decompressed length with originalSize; facts: "+core.FactsString(r.Block()))
		}
	}
	if fn := need(c, "C14-R4", "internal/compress.DeFrame"); fn != nil {
		for i, r := range core.Returns(fn) {
			vals := core.ReturnedValues(r)
			if !isNilConst(vals[len(vals)-1]) {
				continue
			}
			c.Require(core.Holds(r.Block(), core.F("(builtin len({0:[]byte}) < 4)")), "C14-R4", fmt.Sprintf("internal/compress.DeFrame/return-nil#%d", i+1), r.Pos(),
				"short frames rejected", "DeFrame accepts a frame without `len(frame) >= 4`; facts: "+core.FactsString(r.Block()))
		}
	}
}

func limitIsConst(b *ssa.BasicBlock) bool {
	for _, g := range core.Facts(b) {
		for _, l := range g.Alts {
			if l.Op == token.LSS && !l.Pol {
				if k, ok := l.X.(*ssa.Const); ok && k.Value != nil {
					// bound must be the repository's limit (16 MiB class), not an arbitrary larger number
					if v, ok := constUint(k); ok && v <= 64<<20 {
						return true
					}
				}
			}
		}
	}
	return false
}

func constUint(k *ssa.Const) (uint64, bool) {
	if k.Value == nil {
		return 0, false
	}
	return k.Uint64(), true
}

// lengthCell returns the local cell a length value is loaded from (looking through conversions).
func lengthCell(v ssa.Value) *ssa.Alloc {
	for {
		switch x := v.(type) {
		case *ssa.Convert:
			v = x.X
			continue
		case *ssa.ChangeType:
			v = x.X
			continue
		case *ssa.UnOp:
			if x.Op == token.MUL {
				if a, ok := x.X.(*ssa.Alloc); ok {
					return a
				}
			}
		}
		return nil
	}
}

// decodedInto reports whether the cell's address is passed to a basictl Nat/Int read primitive.
func decodedInto(a *ssa.Alloc) bool {
	for _, r := range core.Referrers(a) {
		if call, ok := r.(*ssa.Call); ok {
			n := core.CalleeName(&call.Call)
			if strings.HasSuffix(n, "basictl.NatRead") || strings.HasSuffix(n, "basictl.IntRead") || strings.HasSuffix(n, "basictl.LongRead") {
				return true
			}
		}
	}
	return false
}

func compareShapes(r, w []core.CodecTok) (string, bool) {
	n := len(r)
	if len(w) < n {
		n = len(w)
	}
	for i := 0; i < n; i++ {
		if r[i].Key() != w[i].Key() {
			return fmt.Sprintf("codec call #%d: reader %s, writer %s", i+1, r[i], w[i]), false
		}
	}
	if len(r) != len(w) {
		extra := r
		side := "reader"
		if len(w) > len(r) {
			extra, side = w, "writer"
		}
		return fmt.Sprintf("%s has %d extra codec call(s), first: %s", side, len(extra)-n, extra[n]), false
	}
	return "", true
}

func normBytes(ts []core.CodecTok) []core.CodecTok {
	out := make([]core.CodecTok, len(ts))
	for i, t := range ts {
		t.Family = strings.ReplaceAll(t.Family, "Bytes", "")
		out[i] = t
	}
	return out
}

// compareBool: reader basictl.ReadBool(w, v, falseTag, trueTag) against the writer
// `if v { NatWrite(trueTag) }; NatWrite(falseTag)`.
func compareBool(r core.CodecTok, w []core.CodecTok) (string, bool) {
	tags := strings.Split(r.Extra, ", ")
	if len(tags) != 2 || len(w) != 2 {
		return fmt.Sprintf("bool codec: reader %s, writer %v", r, w), false
	}
	if w[0].Family != "basictl.Nat" || w[1].Family != "basictl.Nat" || w[0].Cond != r.Operand || w[1].Cond != "" {
		return fmt.Sprintf("bool codec writer shape unexpected: %v", w), false
	}
	if w[0].Operand != tags[1] || w[1].Operand != tags[0] {
		return fmt.Sprintf("bool tags differ: reader false=%s true=%s, writer true=%s false=%s", tags[0], tags[1], w[0].Operand, w[1].Operand), false
	}
	return "", true
}

func isUnionWriter(w []core.CodecTok) bool {
	return len(w) >= 1 && w[0].Family == "basictl.Nat" && strings.HasSuffix(w[0].Operand, "[item.index].TLTag")
}

// compareUnion: the reader switches on the decoded tag constant, sets item.index and
// reads the variant; the writer writes table[item.index].TLTag and switches on item.index.
func compareUnion(r genFunc, rt, wt []core.CodecTok) (string, bool) {
	if len(rt) == 0 || rt[0].Family != "basictl.Nat" || rt[0].Operand != "$len" || rt[0].Cond != "" {
		return "union reader does not start by reading the tag", false
	}
	table := strings.TrimSuffix(wt[0].Operand, "[item.index].TLTag")
	tags := unionTable(r.pk, table)
	if tags == nil {
		return "cannot evaluate the union tag table " + table, false
	}
	// reader: tag constant -> index assigned in that case
	tagToIdx := map[string]string{}
	ast.Inspect(r.fd.Body, func(n ast.Node) bool {
		cc, ok := n.(*ast.CaseClause)
		if !ok || len(cc.List) != 1 {
			return true
		}
		tv, ok := r.pk.TypesInfo.Types[cc.List[0]]
		if !ok || tv.Value == nil {
			return true
		}
		for _, s := range cc.Body {
			if as, ok := s.(*ast.AssignStmt); ok && len(as.Lhs) == 1 && len(as.Rhs) == 1 {
				if sel, ok := as.Lhs[0].(*ast.SelectorExpr); ok && sel.Sel.Name == "index" {
					if iv, ok := r.pk.TypesInfo.Types[as.Rhs[0]]; ok && iv.Value != nil {
						tagToIdx[canonConst(tv.Value.ExactString())] = canonConst(iv.Value.ExactString())
					}
				}
			}
		}
		return true
	})
	if len(tagToIdx) != len(tags) {
		return fmt.Sprintf("union reader handles %d tags, the tag table has %d variants", len(tagToIdx), len(tags)), false
	}
	group := func(ts []core.CodecTok, prefix string) map[string][]string {
		out := map[string][]string{}
		for _, t := range ts {
			if !strings.HasPrefix(t.Cond, prefix) {
				continue
			}
			k := strings.TrimPrefix(t.Cond, prefix)
			t.Cond = ""
			out[k] = append(out[k], t.Key())
		}
		return out
	}
	rg := group(rt[1:], "case $len:")
	wg := group(wt[1:], "case item.index:")
	for tag, idx := range tagToIdx {
		i := -1
		fmt.Sscanf(idx, "#0x%x", &i)
		if i < 0 || i >= len(tags) {
			return "union reader sets index " + idx + " outside the tag table", false
		}
		if tags[i] != tag {
			return fmt.Sprintf("union variant %d: reader accepts tag %s, writer emits %s", i, tag, tags[i]), false
		}
		if strings.Join(rg[tag], " ; ") != strings.Join(wg[idx], " ; ") {
			return fmt.Sprintf("union variant %d: reader [%s], writer [%s]", i, strings.Join(rg[tag], " ; "), strings.Join(wg[idx], " ; ")), false
		}
	}
	return "", true
}

func canonConst(exact string) string {
	var v uint64
	if _, err := fmt.Sscanf(exact, "%d", &v); err == nil {
		return fmt.Sprintf("#0x%x", v)
	}
	return "#" + exact
}

// unionTable evaluates the TLTag constants of the package-level union table variable.
func unionTable(pk *packages.Package, name string) []string {
	for _, f := range pk.Syntax {
		for _, d := range f.Decls {
			gd, ok := d.(*ast.GenDecl)
			if !ok {
				continue
			}
			for _, sp := range gd.Specs {
				vs, ok := sp.(*ast.ValueSpec)
				if !ok || len(vs.Names) != 1 || vs.Names[0].Name != name || len(vs.Values) != 1 {
					continue
				}
				cl, ok := vs.Values[0].(*ast.CompositeLit)
				if !ok {
					return nil
				}
				var out []string
				for _, el := range cl.Elts {
					ecl, ok := el.(*ast.CompositeLit)
					if !ok {
						return nil
					}
					tag := ""
					for _, kv := range ecl.Elts {
						if k, ok := kv.(*ast.KeyValueExpr); ok {
							if id, ok := k.Key.(*ast.Ident); ok && id.Name == "TLTag" {
								if tv, ok := pk.TypesInfo.Types[k.Value]; ok && tv.Value != nil {
									tag = canonConst(tv.Value.ExactString())
								}
							}
						}
					}
					if tag == "" {
						return nil
					}
					out = append(out, tag)
				}
				return out
			}
		}
	}
	return nil
}
