package props

import (
	"fmt"
	"go/token"
	"strings"

	"golang.org/x/tools/go/ssa"

	"shverif/core"
)

func init() {
	Register(&Property{
		ID:   "C07",
		Pkgs: []string{"./internal/data_model", "./internal/agent", "./internal/aggregator"},
		Run:  runC07,
		Mutants: []Mutant{
			// R1
			{Name: "agent-deletes-top-entry-after-send", File: "internal/agent/agent_shard_send.go", Rule: "C07-R1",
				Old: "			sizeStringTop[sampling] += len(scratch)\n", New: "			sizeStringTop[sampling] += len(scratch)\n			delete(v.Top, key)\n"},
			{Name: "aggregator-clears-top", File: "internal/aggregator/aggregator_insert.go", Rule: "C07-R1",
				Old: "		addSizes(bucketTs, is)\n	}\n	sampler := data_model.NewSampler(", New: "		clear(item.Top)\n		addSizes(bucketTs, is)\n	}\n	sampler := data_model.NewSampler("},
			// R2
			{Name: "resample-evicts-without-tail-merge", File: "internal/data_model/bucket.go", Rule: "C07-R2",
				Old: "		s.Tail.Merge(rng, v)\n		delete(s.Top, k)\n", New: "		delete(s.Top, k)\n"},
			{Name: "finish-evicts-without-tail-merge", File: "internal/data_model/bucket.go", Rule: "C07-R2",
				Old: "		s.Tail.Merge(rng, result[i].v)\n		delete(s.Top, result[i].k)\n", New: "		delete(s.Top, result[i].k)\n"},
			{Name: "finish-merges-other-entry", File: "internal/data_model/bucket.go", Rule: "C07-R2",
				Old: "		s.Tail.Merge(rng, result[i].v)\n", New: "		s.Tail.Merge(rng, result[0].v)\n"},
			{Name: "resample-merge-conditional", File: "internal/data_model/bucket.go", Rule: "C07-R2",
				Old: "		s.Tail.Merge(rng, v)\n		delete(s.Top, k)\n", New: "		if v.Value.ValueSet {\n			s.Tail.Merge(rng, v)\n		}\n		delete(s.Top, k)\n"},
			{Name: "multivalue-merge-skips-values", File: "internal/data_model/bucket.go", Rule: "C07-R2",
				Old: "			s.ValueTDigest.Merge(s2.ValueTDigest)\n		}\n	}\n	s.Value.Merge(rng, &s2.Value)\n", New: "			s.ValueTDigest.Merge(s2.ValueTDigest)\n		}\n		s.Value.Merge(rng, &s2.Value)\n	}\n"},
			// R3
			{Name: "evict-outside-capacity-loop", File: "internal/data_model/bucket.go", Rule: "C07-R3",
				Old: "	for len(s.Top) >= capacity {\n		s.resample(rng)\n	}\n	c = &MultiValue{}\n	s.Top[tag] = c\n", New: "	for len(s.Top) >= capacity {\n		s.resample(rng)\n	}\n	s.resample(rng)\n	c = &MultiValue{}\n	s.Top[tag] = c\n"},
			{Name: "new-entry-not-stored", File: "internal/data_model/bucket.go", Rule: "C07-R3",
				Old: "	c = &MultiValue{}\n	s.Top[TagUnion{S: string(tag.S), I: tag.I}] = c\n	return c", New: "	c = &MultiValue{}\n	return c"},
			{Name: "returns-fresh-value-instead-of-tail", File: "internal/data_model/bucket.go", Rule: "C07-R3",
				Old: "	if s.sampleFactorLog2 != 0 && rng.Float64()*float64(sf) >= count { // first cond is optimization\n		return &s.Tail\n	}\n	if capacity < 1 {\n		capacity = DefaultStringTopCapacity\n	}\n	for len(s.Top) >= capacity {\n		s.resample(rng)\n	}\n	c = &MultiValue{}\n	s.Top[tag] = c",
				New: "	if s.sampleFactorLog2 != 0 && rng.Float64()*float64(sf) >= count { // first cond is optimization\n		return &MultiValue{}\n	}\n	if capacity < 1 {\n		capacity = DefaultStringTopCapacity\n	}\n	for len(s.Top) >= capacity {\n		s.resample(rng)\n	}\n	c = &MultiValue{}\n	s.Top[tag] = c"},
			// R4
			{Name: "finish-sorts-ascending", File: "internal/data_model/bucket.go", Rule: "C07-R4",
				Old: "return result[i].v.Value.Count() > result[j].v.Value.Count()", New: "return result[i].v.Value.Count() < result[j].v.Value.Count()"},
			{Name: "finish-keeps-one-more", File: "internal/data_model/bucket.go", Rule: "C07-R4",
				Old: "	for i := capacity; i < len(result); i++ {\n		s.Tail.Merge(rng, result[i].v)", New: "	for i := capacity + 1; i < len(result); i++ {\n		s.Tail.Merge(rng, result[i].v)"},
			{Name: "finish-skips-some-entries", File: "internal/data_model/bucket.go", Rule: "C07-R4",
				Old: "		result = append(result, multiItemPair{k: k, v: v})\n		whaleWeight += v.Value.Count()\n", New: "		whaleWeight += v.Value.Count()\n		if v.Value.Count() <= 0 {\n			continue\n		}\n		result = append(result, multiItemPair{k: k, v: v})\n"},
			{Name: "finish-sorts-by-key", File: "internal/data_model/bucket.go", Rule: "C07-R4",
				Old: "return result[i].v.Value.Count() > result[j].v.Value.Count()", New: "return result[i].k.I > result[j].k.I"},
			{Name: "finish-sorts-after-eviction", File: "internal/data_model/bucket.go", Rule: "C07-R4",
				Old: "	for i := capacity; i < len(result); i++ {\n		s.Tail.Merge(rng, result[i].v)\n		delete(s.Top, result[i].k)\n	}\n",
				New: "	for i := capacity; i < len(result); i++ {\n		s.Tail.Merge(rng, result[i].v)\n		delete(s.Top, result[i].k)\n	}\n	sort.Slice(result, func(i, j int) bool { return result[i].v.Value.Count() > result[j].v.Value.Count() })\n"},
		},
	})
}

const tMI = dmPkg + ".(*MultiItem)."

func runC07(c *core.Check) {
	c.Decides = "that eviction only moves weight into the tail and that finalisation keeps the heaviest values: (R1) MultiItem.Top is written (assignment, insertion, delete, clear) only by MapStringTop, MapStringTopBytes, resample and FinishStringTop; " +
		"(R2) every delete(s.Top, k) sits in a block that unconditionally calls s.Tail.Merge(rng, v) on the same row with v the map value paired with k (range pair, or the k/v fields of the same element of a slice filled from range pairs), and MultiValue.Merge always merges the value aggregates; " +
		"(R3) both MapStringTop variants return only &s.Tail, the existing entry found under the lookup's ok, or a fresh value that was inserted into s.Top, and call resample only inside the `len(s.Top) >= capacity` loop; " +
		"(R4) FinishStringTop collects every (key, value) of Top, sorts by Count() descending, and evicts exactly the suffix [capacity, len) (capacity clamped at 0) of that order."
	c.NotDecided = "the probabilistic eviction/admission distribution (which entries resample removes, the admission test against count), numeric equality of merged sums, that callers pass the configured capacity."
	all := c.Prog.Funcs()
	c07R1(c, all)
	c07R2(c, all)
	c07R3(c)
	c07R4(c)
}

// topWrites lists every mutation of MultiItem.Top in fns: stores, map updates, deletes and clear().
func topWrites(fns []*ssa.Function) []core.FieldWrite {
	ws := core.FieldWrites(fns, tyItem, "Top")
	for _, fn := range fns {
		for _, s := range core.CallsTo(fn, "builtin clear") {
			if _, ok := dmFieldLoad(s.Common().Args[0], tyItem, "Top"); ok {
				ws = append(ws, core.FieldWrite{Fn: fn, Instr: s.Instr, Kind: "clear", Addr: s.Common().Args[0]})
			}
		}
	}
	return ws
}

func c07R1(c *core.Check, all []*ssa.Function) {
	const R = "C07-R1"
	c.Rule(R, "K2 who-may-write", 6, "MultiItem.Top is mutated (store, insertion, delete, clear) only in MapStringTop, MapStringTopBytes, resample, FinishStringTop")
	allowed := map[string]bool{tMI + "MapStringTop": true, tMI + "MapStringTopBytes": true, tMI + "resample": true, tMI + "FinishStringTop": true}
	ws := topWrites(all)
	var ins []ssa.Instruction
	for _, w := range ws {
		ins = append(ins, w.Instr)
	}
	keys := instrKeys("write:MultiItem.Top", ins)
	for i, w := range ws {
		fn := core.FuncName(w.Fn)
		c.Require(allowed[fn], R, keys[i], w.Instr.Pos(), w.Kind+" by an enumerated string-top function",
			"MultiItem.Top is changed ("+w.Kind+") in "+fn+", outside the string-top functions: entries removed or replaced there are not folded into the tail, so their counts and sums are lost")
	}
}

// tailMergeOf reports whether in is `X.Tail.Merge(rng, v)` and returns X and v.
func tailMergeOf(in ssa.Instruction) (row, val ssa.Value, ok bool) {
	call, isCall := in.(*ssa.Call)
	if !isCall || core.CalleeName(&call.Call) != dmPkg+".(*MultiValue).Merge" {
		return nil, nil, false
	}
	fa, isFA := call.Call.Args[0].(*ssa.FieldAddr)
	if !isFA || !core.IsField(fa, tyItem, "Tail") {
		return nil, nil, false
	}
	return fa.X, call.Call.Args[2], true
}

func c07R2(c *core.Check, all []*ssa.Function) {
	const R = "C07-R2"
	c.Rule(R, "K6 pairing", 3, "every delete(s.Top, k) is in a block that also calls s.Tail.Merge(_, v) on the same row s, with (k, v) a pair of the same map entry: both results of one range step over s.Top, or the k and v fields of one element of a local slice whose elements are only ever filled with such range pairs; "+
		"MultiValue.Merge merges the value aggregates (ItemValue.Merge(&s2.Value)) on every path")
	for _, w := range topWrites(all) {
		if w.Kind != "delete" {
			continue
		}
		c.CallSites++
		call := w.Instr.(*ssa.Call)
		key := core.FuncName(w.Fn) + "/delete(Top)"
		row, _ := dmFieldLoad(call.Call.Args[0], tyItem, "Top")
		k := call.Call.Args[1]
		var mergedVal ssa.Value
		for _, in := range call.Block().Instrs {
			if r, v, ok := tailMergeOf(in); ok && sameAddr(r, row) {
				mergedVal = v
			}
		}
		if mergedVal == nil {
			c.Fail(R, key, call.Pos(), "a string-top entry is deleted without its value being merged into the same row's Tail in the same block: the counts, sums, min and max of the evicted value are lost instead of moving to the tail")
			continue
		}
		why := pairedEntry(w.Fn, row, k, mergedVal)
		c.Require(why == "", R, key, call.Pos(), "evicted entry's own value is merged into the tail", why)
	}
	if fn := need(c, R, dmPkg+".(*MultiValue).Merge"); fn != nil {
		isValueMerge := func(in ssa.Instruction) bool {
			call, ok := in.(*ssa.Call)
			if !ok || core.CalleeName(&call.Call) != dmPkg+".(*ItemValue).Merge" {
				return false
			}
			dst, ok1 := call.Call.Args[0].(*ssa.FieldAddr)
			src, ok2 := call.Call.Args[2].(*ssa.FieldAddr)
			return ok1 && ok2 && core.IsField(dst, dmPkg+".MultiValue", "Value") && core.IsField(src, dmPkg+".MultiValue", "Value") &&
				dst.X == ssa.Value(fn.Params[0]) && src.X == ssa.Value(fn.Params[2])
		}
		p := core.ReachFromEntryWithout(fn, core.IsReturn, isValueMerge)
		c.Require(p == nil, R, core.FuncName(fn)+"/merges-values", fn.Pos(), "MultiValue.Merge always merges count/sum/min/max",
			"MultiValue.Merge can return without s.Value.Merge(rng, &s2.Value): folding an entry into the tail would drop its count and sums: "+pathStr(p))
		// unique sketch too
		isHLL := func(in ssa.Instruction) bool {
			call, ok := in.(*ssa.Call)
			return ok && core.CalleeName(&call.Call) == tChU+"Merge"
		}
		p = core.ReachFromEntryWithout(fn, core.IsReturn, isHLL)
		c.Require(p == nil, R, core.FuncName(fn)+"/merges-uniques", fn.Pos(), "MultiValue.Merge always merges the unique sketch", "MultiValue.Merge can return without merging the unique sketch: "+pathStr(p))
	}
}

// pairedEntry explains why (k, v) are not the key and value of one entry of row.Top ("" if they are).
func pairedEntry(fn *ssa.Function, row, k, v ssa.Value) string {
	// form 1: both extracted from one range step over row.Top
	if nk, ok := rangePairOver(k, 1, row); ok {
		if nv, ok2 := rangePairOver(v, 2, row); ok2 && nk == nv {
			return ""
		}
		return "the deleted key comes from a range step over Top, but the merged value " + core.Expr(v) + " is not the value of that same step"
	}
	// form 2: fields of one element of a local slice
	kf, kok := core.Deref(k).(*ssa.FieldAddr)
	vf, vok := core.Deref(v).(*ssa.FieldAddr)
	if !kok || !vok {
		return "cannot relate the deleted key " + core.Expr(k) + " to the merged value " + core.Expr(v)
	}
	ke, ok1 := kf.X.(*ssa.IndexAddr)
	ve, ok2 := vf.X.(*ssa.IndexAddr)
	if !ok1 || !ok2 {
		return "the deleted key and the merged value are not fields of a slice element"
	}
	if ke.Index != ve.Index || tilingCell(ke.X) == nil || tilingCell(ke.X) != tilingCell(ve.X) {
		return "the deleted key is taken from element [" + core.Expr(ke.Index) + "] but the merged value from element [" + core.Expr(ve.Index) + "] (or from another slice): a different entry's value is folded into the tail"
	}
	// every store to these two fields of that struct type in fn pairs a range key with the range value of the same step
	elemT, _ := core.NamedOf(kf.X.Type())
	if elemT == nil {
		return "the slice element type is not a named struct"
	}
	tn := core.TypeName(elemT)
	_, kname, _ := core.FieldOf(kf)
	_, vname, _ := core.FieldOf(vf)
	var kNext, vNext []ssa.Value
	for _, f := range core.WithAnon(fn) {
		for _, w := range core.FieldWrites([]*ssa.Function{f}, tn, kname) {
			n, ok := rangePairOver(w.Val, 1, row)
			if !ok {
				return "a key stored into the eviction list (" + core.Expr(w.Val) + ") is not a key of a range step over this row's Top"
			}
			kNext = append(kNext, n)
		}
		for _, w := range core.FieldWrites([]*ssa.Function{f}, tn, vname) {
			n, ok := rangePairOver(w.Val, 2, row)
			if !ok {
				return "a value stored into the eviction list (" + core.Expr(w.Val) + ") is not a value of a range step over this row's Top"
			}
			vNext = append(vNext, n)
		}
	}
	if len(kNext) == 0 || len(kNext) != len(vNext) {
		return "the eviction list is not filled with (key, value) pairs of Top"
	}
	for i := range kNext {
		if kNext[i] != vNext[i] {
			return "the eviction list pairs a key with the value of a different range step"
		}
	}
	return ""
}

// rangePairOver: v is result #idx of a Next over a range of row.Top; returns the Next.
func rangePairOver(v ssa.Value, idx int, row ssa.Value) (ssa.Value, bool) {
	ex, ok := v.(*ssa.Extract)
	if !ok || ex.Index != idx {
		return nil, false
	}
	nx, ok := ex.Tuple.(*ssa.Next)
	if !ok {
		return nil, false
	}
	rg, ok := nx.Iter.(*ssa.Range)
	if !ok {
		return nil, false
	}
	base, ok := dmFieldLoad(rg.X, tyItem, "Top")
	if !ok || !sameAddr(base, row) {
		return nil, false
	}
	return nx, true
}

func c07R3(c *core.Check) {
	const R = "C07-R3"
	c.Rule(R, "K8 sibling family", 10, "MapStringTop and MapStringTopBytes: every return yields &s.Tail, the entry found by the lookup (under its ok result), or a fresh MultiValue that was inserted into s.Top before; resample is called only in the loop guarded by len(s.Top) >= capacity, on the same row")
	for _, name := range []string{tMI + "MapStringTop", tMI + "MapStringTopBytes"} {
		fn := need(c, R, name)
		if fn == nil {
			continue
		}
		row := ssa.Value(fn.Params[0])
		nNew := 0
		for i, r := range dmRealReturns(fn) {
			key := fmt.Sprintf("%s/return#%d", name, i+1)
			v := r.Results[0]
			switch x := v.(type) {
			case *ssa.FieldAddr:
				c.Require(core.IsField(x, tyItem, "Tail") && x.X == row, R, key, r.Pos(), "returns the row's tail", "returns "+core.Expr(v)+", which is neither the tail nor a Top entry of this row")
			case *ssa.Extract:
				lk, ok := x.Tuple.(*ssa.Lookup)
				okv := ok && lk.CommaOk && x.Index == 0
				if okv {
					base, isTop := dmFieldLoad(lk.X, tyItem, "Top")
					okv = isTop && base == row && holdsPred(r.Block(), func(l core.Lit) bool {
						e, isEx := l.Cond.(*ssa.Extract)
						return l.Pol && l.Op == 0 && isEx && e.Tuple == x.Tuple && e.Index == 1
					})
				}
				c.Require(okv, R, key, r.Pos(), "returns the existing entry under the lookup's ok", "returns "+core.Expr(v)+" which is not an entry of this row's Top found under its ok flag")
			case *ssa.Alloc:
				nNew++
				stored := false
				for _, w := range core.FieldWrites([]*ssa.Function{fn}, tyItem, "Top") {
					if mu, ok := w.Instr.(*ssa.MapUpdate); ok && mu.Value == v && core.Dominates(mu, r) {
						if base, isTop := dmFieldLoad(mu.Map, tyItem, "Top"); isTop && base == row {
							stored = true
						}
					}
				}
				c.Require(stored, R, key, r.Pos(), "returns a fresh value that was inserted into Top",
					"a freshly allocated MultiValue is returned without having been inserted into this row's Top (or tail): what the caller adds to it is never sent, so the row's totals lose those events")
			default:
				c.Fail(R, key, r.Pos(), "returns "+core.Expr(v)+", which is not the tail, an existing entry or an inserted fresh entry of this row")
			}
		}
		c.Require(nNew == 1, R, name+"/inserts-new-entry", fn.Pos(), "one path creates a new entry", fmt.Sprintf("expected exactly one return of a newly inserted entry, found %d", nNew))
		sites := core.CallsTo(fn, tMI+"resample")
		keys := core.Ordinals(sites)
		for i, s := range sites {
			c.CallSites++
			ok := s.Arg(0) == row && holdsPred(s.Block(), func(l core.Lit) bool { // len(Top) >= cap ≡ !(len(Top) < cap)
				if l.Op != token.LSS || l.Pol {
					return false
				}
				call, isCall := l.X.(*ssa.Call)
				if !isCall || core.CalleeName(&call.Call) != "builtin len" {
					return false
				}
				base, isTop := dmFieldLoad(call.Call.Args[0], tyItem, "Top")
				return isTop && base == row
			})
			c.Require(ok, R, keys[i], s.Pos(), "eviction only under capacity pressure", "resample is called outside the `len(s.Top) >= capacity` guard: entries are evicted (and the sampling level raised) without capacity pressure; facts: "+core.FactsString(s.Block()))
		}
		if len(sites) == 0 {
			c.Fail(R, name+"/resample", fn.Pos(), "no eviction under capacity pressure found")
		}
	}
}

func c07R4(c *core.Check) {
	const R = "C07-R4"
	c.Rule(R, "K1/K13", 5, "FinishStringTop: one list element is appended per Top entry on every path of the collecting range loop; the list is sorted once by v.Value.Count() of element i > element j (descending); the eviction loop (the one containing delete) runs from capacity (or its clamp phi(capacity, 0)) to len(list) by +1 over that list, after the sort, with no reordering in between")
	fn := need(c, R, tMI+"FinishStringTop")
	if fn == nil {
		return
	}
	name := core.FuncName(fn)
	var del *ssa.Call
	for _, w := range topWrites([]*ssa.Function{fn}) {
		if w.Kind == "delete" {
			del, _ = w.Instr.(*ssa.Call)
		}
	}
	if del == nil {
		c.Fail(R, name+"/evict", fn.Pos(), "FinishStringTop does not evict anything: more than `capacity` values can remain")
		return
	}
	kf, _ := core.Deref(del.Call.Args[1]).(*ssa.FieldAddr)
	var elem *ssa.IndexAddr
	if kf != nil {
		elem, _ = kf.X.(*ssa.IndexAddr)
	}
	if elem == nil || tilingCell(elem.X) == nil {
		c.Undecided(R, name+"/evict", del.Pos(), "the evicted key is not a field of an element of a local list")
		return
	}
	list := tilingCell(elem.X)
	loops := core.NatLoops(fn)
	// eviction loop
	l := core.InnermostNatLoop(loops, del.Block())
	var il *core.IndexNatLoop
	if l != nil {
		il, _ = l.AsIndexNatLoop()
	}
	if il == nil || il.Range || il.Incl || elem.Index != il.Index {
		c.Undecided(R, name+"/evict-loop", del.Pos(), "the eviction is not inside a counted loop `for i := …; i < len(list); i++` indexing the list with i")
		return
	}
	capP := ssa.Value(fn.Params[2])
	okInit := len(il.Inits) > 0
	for _, e := range il.Inits {
		if e == capP {
			continue
		}
		ph, isPhi := e.(*ssa.Phi)
		okPhi := isPhi
		if isPhi {
			for _, pe := range ph.Edges {
				if pe != capP && !core.IntConstIs(pe, 0) {
					okPhi = false
				}
			}
		}
		if !okPhi {
			okInit = false
		}
	}
	okBound := false
	if call, ok := il.Bound.(*ssa.Call); ok && core.CalleeName(&call.Call) == "builtin len" && tilingCell(call.Call.Args[0]) == list {
		okBound = true
	}
	c.Require(okInit && okBound, R, name+"/evict-loop", del.Pos(), "evicts exactly the suffix [capacity, len(list))",
		"the eviction loop runs over ["+initsStr(il)+", "+core.Expr(il.Bound)+") instead of [capacity, len(list)): more than `capacity` values remain or some of the heaviest are evicted")
	edges, err := il.IterationCounts(func(in ssa.Instruction) bool { return in == ssa.Instruction(del) })
	if err != nil {
		c.Undecided(R, name+"/evict-loop/every-iteration", del.Pos(), err.Error())
	} else {
		ok := true
		for _, e := range edges {
			if e.Back && (e.Count != core.Range{Min: 1, Max: 1}) {
				ok = false
			}
			if !e.Back && e.From != il.Header {
				ok = false
			}
		}
		c.Require(ok, R, name+"/evict-loop/every-iteration", del.Pos(), "every element of the suffix is evicted", "an iteration of the eviction loop can skip the delete or leave the loop early: more than `capacity` values can remain")
	}
	// the sort
	var sorts []core.Site
	for _, s := range core.CallsTo(fn, "sort.Slice", "sort.SliceStable") {
		if tilingCell(s.Arg(0)) == list {
			sorts = append(sorts, s)
		}
	}
	if len(sorts) != 1 {
		c.Fail(R, name+"/sort", fn.Pos(), fmt.Sprintf("expected exactly one sort of the eviction list, found %d: the evicted suffix would not be the lightest values", len(sorts)))
		return
	}
	srt := sorts[0]
	c.CallSites++
	cmp := core.ResolveCallee(&ssa.CallCommon{Value: srt.Arg(1)})
	okCmp := false
	why := "the comparator is not a closure literal"
	if cmp != nil && len(cmp.Params) == 2 {
		okCmp, why = descendingByCount(cmp, list)
	}
	c.Require(okCmp, R, name+"/sort/descending-by-count", srt.Pos(), "sorted by Count() descending", "the eviction list is not sorted by Count() descending ("+why+"): the values kept in Top would not be the heaviest")
	// sort dominates the eviction loop; nothing reorders / appends in between
	okOrder := core.Dominates(srt.Instr, del)
	if okOrder {
		p := core.ReachWithout(srt.Instr, func(in ssa.Instruction) bool {
			switch x := in.(type) {
			case *ssa.Store:
				return x.Addr == ssa.Value(list)
			case ssa.CallInstruction:
				if bi, ok := x.Common().Value.(*ssa.Builtin); ok && (bi.Name() == "len" || bi.Name() == "cap") {
					return false
				}
				for _, a := range x.Common().Args {
					if tilingCell(a) == list {
						return true
					}
				}
			}
			return false
		}, nil)
		okOrder = p == nil
	}
	c.Require(okOrder, R, name+"/sort/before-eviction", srt.Pos(), "the sorted order is what the eviction loop walks", "the list is not sorted before the eviction loop, or is changed between the sort and the loop")
	// collection: one append per Top entry
	var appendSt ssa.Instruction
	for _, st := range core.StoresTo(list) {
		if call, ok := st.Val.(*ssa.Call); ok && core.CalleeName(&call.Call) == "builtin append" {
			if appendSt != nil {
				c.Undecided(R, name+"/collect", st.Pos(), "more than one append to the eviction list")
				return
			}
			appendSt = st
		}
	}
	if appendSt == nil {
		c.Fail(R, name+"/collect", fn.Pos(), "the eviction list is never filled")
		return
	}
	cl := core.InnermostNatLoop(loops, appendSt.Block())
	okCollect := false
	if cl != nil {
		isTopRange := false
		for _, in := range cl.Header.Instrs {
			if nx, ok := in.(*ssa.Next); ok {
				if rg, ok := nx.Iter.(*ssa.Range); ok {
					if base, isTop := dmFieldLoad(rg.X, tyItem, "Top"); isTop && base == ssa.Value(fn.Params[0]) {
						isTopRange = true
					}
				}
			}
		}
		if edges, err := cl.IterationCounts(func(in ssa.Instruction) bool { return in == appendSt }); err == nil && isTopRange {
			okCollect = true
			for _, e := range edges {
				if e.Back && (e.Count != core.Range{Min: 1, Max: 1}) {
					okCollect = false
				}
				if !e.Back && e.From != cl.Header {
					okCollect = false
				}
			}
		}
	}
	if okCollect {
		// the sort comes after the whole collecting loop
		okCollect = !cl.Blocks[srt.Block()] && cl.Header.Dominates(srt.Block()) && !reachAfter(srt.Instr, appendSt)
	}
	c.Require(okCollect, R, name+"/collect", appendSt.Pos(), "every Top entry is put on the list before the sort",
		"not every entry of Top is appended to the eviction list (or the list is filled after the sort): entries left out are never considered for eviction, so more than `capacity` values can remain and a lighter value can survive a heavier one")
}

// descendingByCount: cmp(i, j) returns list[i].v.Value.Count() > list[j].v.Value.Count().
func descendingByCount(cmp *ssa.Function, list *ssa.Alloc) (bool, string) {
	rets := dmRealReturns(cmp)
	if len(rets) != 1 {
		return false, "the comparator has several returns"
	}
	bo, ok := rets[0].Results[0].(*ssa.BinOp)
	if !ok {
		return false, "the comparator does not return a comparison"
	}
	hi, lo := bo.X, bo.Y
	switch bo.Op {
	case token.GTR:
	case token.LSS:
		hi, lo = bo.Y, bo.X
	default:
		return false, "the comparator uses " + bo.Op.String()
	}
	idxOfCount := func(v ssa.Value) (ssa.Value, bool) {
		call, ok := v.(*ssa.Call)
		if !ok || !strings.HasSuffix(core.CalleeName(&call.Call), ".(*ItemCounter).Count") {
			return nil, false
		}
		// &list[idx].v.Value.ItemCounter
		cur := call.Call.Args[0]
		for depth := 0; depth < 8; depth++ {
			switch x := cur.(type) {
			case *ssa.FieldAddr:
				cur = x.X
				continue
			case *ssa.UnOp:
				cur = x.X
				continue
			case *ssa.IndexAddr:
				// the list: captured cell
				if fv, ok := core.Deref(x.X).(*ssa.FreeVar); ok && core.FreeVarBinding(fv) == ssa.Value(list) {
					return x.Index, true
				}
				return nil, false
			}
			break
		}
		return nil, false
	}
	hiIdx, ok1 := idxOfCount(hi)
	loIdx, ok2 := idxOfCount(lo)
	if !ok1 || !ok2 {
		return false, "the compared quantities are not Count() of the list elements"
	}
	if hiIdx == ssa.Value(cmp.Params[0]) && loIdx == ssa.Value(cmp.Params[1]) {
		return true, ""
	}
	return false, "element i is ordered before element j when its count is smaller (ascending)"
}
