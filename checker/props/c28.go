package props

import (
	"fmt"
	"go/token"
	"go/types"
	"sort"
	"strings"

	"golang.org/x/tools/go/ssa"

	"shverif/core"
)

func init() {
	Register(&Property{
		ID:   "C28",
		Pkgs: []string{"./internal/promql/parser"},
		Run:  runC28,
		Mutants: []Mutant{
			// ---- R1: reverts of F9 (offset list never printed) and siblings
			{Name: "revert-F9-vector-selector-drops-offset-list", File: "internal/promql/parser/printer.go", Rule: "C28-R1",
				Old: "	offset := offsetString(node.OriginalOffset, node.OriginalOffsetEx)", New: "	offset := offsetString(node.OriginalOffset, nil)"},
			{Name: "binary-bool-modifier-not-printed", File: "internal/promql/parser/printer.go", Rule: "C28-R1",
				Old: "	if node.ReturnBool {\n		returnBool = \" bool\"\n	}", New: ""},
			{Name: "group-labels-not-printed", File: "internal/promql/parser/printer.go", Rule: "C28-R1",
				Old: "			matching += fmt.Sprintf(\" group_%s (%s)\", vmCard, strings.Join(vm.Include, \", \"))", New: "			matching += fmt.Sprintf(\" group_%s ()\", vmCard)"},
			{Name: "subquery-step-not-printed", File: "internal/promql/parser/printer.go", Rule: "C28-R1",
				Old: "	step := \"\"\n	if node.Step != 0 {\n		step = fmt.Sprintf(\"%ds\", node.Step)\n	}", New: "	step := \"\""},
			// ---- R2: reverts of F10 (durations printed without unit)
			{Name: "revert-F10-offset-without-unit", File: "internal/promql/parser/printer.go", Rule: "C28-R2",
				Old: "		fmt.Fprintf(&sb, \" offset %ds\", offset)", New: "		fmt.Fprintf(&sb, \" offset %d\", offset)"},
			{Name: "revert-F10-subquery-range-without-unit", File: "internal/promql/parser/printer.go", Rule: "C28-R2",
				Old: "	return fmt.Sprintf(\"[%ds:%s]%s%s\", node.Range, step, at, offset)", New: "	return fmt.Sprintf(\"[%d:%s]%s%s\", node.Range, step, at, offset)"},
			{Name: "revert-F10-subquery-step-without-unit", File: "internal/promql/parser/printer.go", Rule: "C28-R2",
				Old: "		step = fmt.Sprintf(\"%ds\", node.Step)", New: "		step = fmt.Sprintf(\"%d\", node.Step)"},
			{Name: "offset-list-element-without-unit", File: "internal/promql/parser/printer.go", Rule: "C28-R2",
				Old: "			fmt.Fprintf(&sb, \"%ds\", v)", New: "			fmt.Fprintf(&sb, \"%d\", v)"},
			{Name: "matrix-range-printed-as-minutes", File: "internal/promql/parser/printer.go", Rule: "C28-R2",
				Old: "	str := fmt.Sprintf(\"%s[%ds]%s%s\", vecSelector.String(), node.Range, at, offset)", New: "	str := fmt.Sprintf(\"%s[%dm]%s%s\", vecSelector.String(), node.Range, at, offset)"},
			{Name: "offset-printed-through-sprint", File: "internal/promql/parser/printer.go", Rule: "C28-R2",
				Old: "		fmt.Fprintf(&sb, \" offset %ds\", offset)", New: "		sb.WriteString(\" offset \" + fmt.Sprint(offset))"},
			// ---- R3
			{Name: "recover-deferred-after-parse", File: "internal/promql/parser/parse.go", Rule: "C28-R3",
				Old: "	defer p.recover(&err)\n\n	p.yyParser.Parse(p)", New: "	p.yyParser.Parse(p)\n	defer p.recover(&err)\n"},
			{Name: "recover-not-deferred", File: "internal/promql/parser/parse.go", Rule: "C28-R3",
				Old: "	defer p.recover(&err)\n", New: ""},
			{Name: "recover-into-local-error", File: "internal/promql/parser/parse.go", Rule: "C28-R3",
				Old: "	defer p.recover(&err)\n", New: "	var perr error\n	defer p.recover(&perr)\n"},
		},
	})
}

const c28pkg = "internal/promql/parser"

// duration fields of the AST (seconds, produced by parseDuration): frozen list,
// cross-checked against the fields that receive yySymType.duration/offsets values.
var c28Durations = []string{"MatrixSelector.Range", "SubqueryExpr.OriginalOffset", "SubqueryExpr.Range", "SubqueryExpr.Step",
	"VectorSelector.OriginalOffset", "VectorSelector.OriginalOffsetEx"}

type c28ctx struct {
	c        *core.Check
	pkg      *types.Package
	nodes    []*types.Named            // struct types implementing Node
	aux      map[*types.Named][]string // non-node struct types hanging off node fields → parent node names
	posTypes map[types.Type]bool
	printers map[string][]*ssa.Function // node name → String() and its static in-package callees
	allPrint map[*ssa.Function]bool
	parse    []*ssa.Function // functions reachable from the exported entry points (minus printers)
	entries  []*ssa.Function
}

func runC28(c *core.Check) {
	c.Decides = "(R1) for every AST node struct (and the auxiliary structs hanging off node fields), every non-position field that code reachable from the exported parse entry points " +
		"writes (or whose address it takes) is read by that node's String() method or its static in-package helpers — a parsed attribute that the printer never looks at cannot survive a round trip; " +
		"(R2) every value read from a duration field (Range, Step, OriginalOffset, elements of OriginalOffsetEx; the list is cross-checked against the fields fed from the lexer's duration values) " +
		"inside the printers reaches output only as a %d operand of a constant format directly followed by the unit 's', in every printer alike (followed through helper parameters and slice elements); " +
		"(R3) every function that calls the generated parser defers (*parser).recover on the address of its own error result before the call, and every exported Parse* function is such an entry."
	c.NotDecided = "tree equivalence of parse(print(e)) and e for all expressions (operator precedence/parenthesisation, label matcher quoting, number formatting, @-modifier precision are not examined); " +
		"that a field which is read is also printed in a form the grammar accepts (only durations are checked for their unit); absence of panics inside the lexer/grammar actions and the " +
		"fact that parser.recover re-panics on non-error panic values (string panics in InjectItem/newLabelMatcher are unreachable by construction of the grammar, which is not verified)."

	pk := c.Prog.Pkg(c28pkg)
	if pk == nil || pk.Types == nil {
		c.Anchor("C28-R1", c28pkg)
		return
	}
	x := &c28ctx{c: c, pkg: pk.Types, aux: map[*types.Named][]string{}, posTypes: map[types.Type]bool{}, printers: map[string][]*ssa.Function{}, allPrint: map[*ssa.Function]bool{}}
	if !x.collectTypes() {
		return
	}
	x.collectPrinters()
	x.collectParseCode()
	c28R1(x)
	c28R2(x)
	c28R3(x)
}

func (x *c28ctx) collectTypes() bool {
	c := x.c
	scope := x.pkg.Scope()
	// AST nodes are the struct types implementing Expr or Statement (lexer Items also satisfy
	// Node structurally but are never part of a tree)
	var ifaces []*types.Interface
	for _, n := range []string{"Expr", "Statement"} {
		obj, _ := scope.Lookup(n).(*types.TypeName)
		if obj == nil {
			c.Anchor("C28-R1", c28pkg+"."+n)
			return false
		}
		iface, _ := obj.Type().Underlying().(*types.Interface)
		if iface == nil {
			c.Anchor("C28-R1", c28pkg+"."+n+" (interface)")
			return false
		}
		ifaces = append(ifaces, iface)
	}
	for _, n := range []string{"Pos", "PositionRange"} {
		tn, _ := scope.Lookup(n).(*types.TypeName)
		if tn == nil {
			c.Anchor("C28-R1", c28pkg+"."+n)
			return false
		}
		x.posTypes[tn.Type()] = true
	}
	for _, name := range scope.Names() {
		tn, ok := scope.Lookup(name).(*types.TypeName)
		if !ok || tn.IsAlias() {
			continue
		}
		named, ok := tn.Type().(*types.Named)
		if !ok {
			continue
		}
		if _, isStruct := named.Underlying().(*types.Struct); !isStruct {
			continue
		}
		for _, iface := range ifaces {
			if types.Implements(named, iface) || types.Implements(types.NewPointer(named), iface) {
				x.nodes = append(x.nodes, named)
				break
			}
		}
	}
	isNode := map[*types.Named]bool{}
	for _, n := range x.nodes {
		isNode[n] = true
	}
	for _, n := range x.nodes {
		st := n.Underlying().(*types.Struct)
		for i := 0; i < st.NumFields(); i++ {
			t := st.Field(i).Type()
			if p, ok := t.(*types.Pointer); ok {
				t = p.Elem()
			}
			sub, ok := t.(*types.Named)
			if !ok || sub.Obj().Pkg() != x.pkg || isNode[sub] || x.posTypes[sub] {
				continue
			}
			if _, isStruct := sub.Underlying().(*types.Struct); isStruct {
				x.aux[sub] = append(x.aux[sub], n.Obj().Name())
			}
		}
	}
	return true
}

func (x *c28ctx) stringMethod(t *types.Named) *ssa.Function {
	name := t.Obj().Name()
	if fn := x.c.Prog.Func(c28pkg + ".(*" + name + ").String"); fn != nil {
		return fn
	}
	return x.c.Prog.Func(c28pkg + ".(" + name + ").String")
}

// closure of static in-package callees
func (x *c28ctx) closure(roots []*ssa.Function, followInvoke bool) []*ssa.Function {
	seen := map[*ssa.Function]bool{}
	var out []*ssa.Function
	var visit func(fn *ssa.Function)
	visit = func(fn *ssa.Function) {
		if fn == nil || seen[fn] || core.FuncPkg(fn) != c28pkg || len(fn.Blocks) == 0 {
			return
		}
		seen[fn] = true
		out = append(out, fn)
		for _, a := range fn.AnonFuncs {
			visit(a)
		}
		for _, s := range core.Calls(fn) {
			cc := s.Common()
			if cc.IsInvoke() {
				if !followInvoke {
					continue
				}
				// class-hierarchy resolution inside the package: every package type implementing the interface
				iface, _ := cc.Value.Type().Underlying().(*types.Interface)
				if iface == nil {
					continue
				}
				for _, name := range x.pkg.Scope().Names() {
					tn, ok := x.pkg.Scope().Lookup(name).(*types.TypeName)
					if !ok {
						continue
					}
					for _, t := range []types.Type{tn.Type(), types.NewPointer(tn.Type())} {
						if _, isI := t.Underlying().(*types.Interface); isI || !types.Implements(t, iface) {
							continue
						}
						if sel := x.c.Prog.SSA.MethodSets.MethodSet(t).Lookup(x.pkg, cc.Method.Name()); sel != nil {
							visit(x.c.Prog.SSA.MethodValue(sel))
						}
					}
				}
				continue
			}
			visit(cc.StaticCallee())
		}
	}
	for _, r := range roots {
		visit(r)
	}
	return out
}

func (x *c28ctx) collectPrinters() {
	for _, n := range x.nodes {
		if sm := x.stringMethod(n); sm != nil {
			fns := x.closure([]*ssa.Function{sm}, false)
			x.printers[n.Obj().Name()] = fns
			for _, f := range fns {
				x.allPrint[f] = true
			}
		}
	}
	// every other String() method of the package is printing code too (Expressions, ItemType, …)
	for _, fn := range x.c.Prog.FuncsIn(c28pkg) {
		if fn.Name() == "String" && fn.Signature.Recv() != nil {
			for _, f := range x.closure([]*ssa.Function{fn}, false) {
				x.allPrint[f] = true
			}
		}
	}
}

// callsGenerated reports whether fn calls the goyacc-generated Parse.
func (x *c28ctx) generatedParseCalls(fn *ssa.Function) []core.Site {
	var out []core.Site
	for _, s := range core.Calls(fn) {
		cc := s.Common()
		if cc.IsInvoke() {
			if cc.Method.Name() == "Parse" && strings.HasPrefix(core.TypeName(cc.Value.Type()), c28pkg+".yy") {
				out = append(out, s)
			}
			continue
		}
		if callee := cc.StaticCallee(); callee != nil && callee.Name() == "Parse" && core.FuncPkg(callee) == c28pkg && callee.Signature.Recv() != nil &&
			strings.Contains(core.TypeName(callee.Signature.Recv().Type()), c28pkg+".yy") {
			out = append(out, s)
		}
	}
	return out
}

func (x *c28ctx) collectParseCode() {
	for _, fn := range x.c.Prog.FuncsIn(c28pkg) {
		if fn.Parent() != nil {
			continue
		}
		if len(x.generatedParseCalls(fn)) > 0 {
			x.entries = append(x.entries, fn)
		}
	}
	for _, fn := range x.closure(x.entries, true) {
		if !x.allPrint[fn] {
			x.parse = append(x.parse, fn)
		}
	}
}

// fieldKey resolves a FieldAddr/Field to "Type.Field" for in-package named struct types.
func (x *c28ctx) fieldKey(v ssa.Value) (typ *types.Named, field *types.Var) {
	var t types.Type
	var idx int
	switch f := v.(type) {
	case *ssa.FieldAddr:
		t, idx = f.X.Type(), f.Field
		if p, ok := t.Underlying().(*types.Pointer); ok {
			t = p.Elem()
		}
	case *ssa.Field:
		t, idx = f.X.Type(), f.Field
	default:
		return nil, nil
	}
	named, ok := t.(*types.Named)
	if !ok || named.Obj().Pkg() != x.pkg {
		return nil, nil
	}
	st, ok := named.Underlying().(*types.Struct)
	if !ok || idx >= st.NumFields() {
		return nil, nil
	}
	return named, st.Field(idx)
}

// ---- R1 ---------------------------------------------------------------------------------

func c28R1(x *c28ctx) {
	const rule = "C28-R1"
	c := x.c
	c.Rule(rule, "K5+K2", 30, "for every AST node struct and auxiliary struct: each non-position field written (stored, or address taken) by code reachable from the parse entry points is read by the node's String() or its static in-package helpers")
	if len(x.entries) == 0 {
		c.Fail(rule, c28pkg+"/entries", token.NoPos, "no function calling the generated parser found")
		return
	}
	// written fields
	type wr struct {
		pos token.Pos
		by  string
	}
	written := map[string]map[string]wr{} // type → field → first writer
	for _, fn := range x.parse {
		c.Seen(core.FuncName(fn))
		for _, b := range fn.Blocks {
			for _, in := range b.Instrs {
				fa, ok := in.(*ssa.FieldAddr)
				if !ok {
					continue
				}
				typ, fld := x.fieldKey(fa)
				if typ == nil || x.posTypes[fld.Type()] {
					continue
				}
				w := false
				for _, ref := range core.Referrers(fa) {
					switch u := ref.(type) {
					case *ssa.UnOp, *ssa.DebugRef:
					case *ssa.Store:
						w = true // store to the field, or the address stored somewhere
						_ = u
					case *ssa.FieldAddr, *ssa.IndexAddr:
						// nested access (s.PosRange.End, s.X[i]): a write below counts for the outer field
						for _, rr := range core.Referrers(u.(ssa.Value)) {
							if st, isSt := rr.(*ssa.Store); isSt && st.Addr == u.(ssa.Value) {
								w = true
							} else if _, isLoad := rr.(*ssa.UnOp); !isLoad {
								if _, dbg := rr.(*ssa.DebugRef); !dbg {
									w = true
								}
							}
						}
					default:
						w = true // address escapes (phi of field pointers, call argument): may be written through
					}
				}
				if w {
					tn := typ.Obj().Name()
					if written[tn] == nil {
						written[tn] = map[string]wr{}
					}
					if _, dup := written[tn][fld.Name()]; !dup {
						written[tn][fld.Name()] = wr{fa.Pos(), core.FuncName(fn)}
					}
				}
			}
		}
	}
	// read fields per printer set
	readBy := func(fns []*ssa.Function, typ *types.Named) map[string]bool {
		out := map[string]bool{}
		for _, fn := range fns {
			for _, b := range fn.Blocks {
				for _, in := range b.Instrs {
					v, ok := in.(ssa.Value)
					if !ok {
						continue
					}
					t, fld := x.fieldKey(v)
					if t == nil || t != typ {
						continue
					}
					if _, isField := v.(*ssa.Field); isField {
						out[fld.Name()] = true
						continue
					}
					for _, ref := range core.Referrers(v) {
						switch u := ref.(type) {
						case *ssa.UnOp:
							if u.Op == token.MUL {
								out[fld.Name()] = true
							}
						case *ssa.FieldAddr, *ssa.IndexAddr:
							out[fld.Name()] = true // read of a part
						}
					}
				}
			}
		}
		return out
	}
	check := func(typ *types.Named, printers []*ssa.Function, what string) {
		tn := typ.Obj().Name()
		ws := written[tn]
		if len(ws) == 0 {
			return
		}
		if len(printers) == 0 {
			c.Fail(rule, c28pkg+"."+tn+"/String", typ.Obj().Pos(), tn+" is built by the parser but has no String() method in the loaded program")
			return
		}
		rs := readBy(printers, typ)
		for _, f := range core.SortedKeys(ws) {
			c.Require(rs[f], rule, c28pkg+"."+tn+"."+f, ws[f].pos, "parsed field is read by "+what,
				fmt.Sprintf("%s.%s is set while parsing (in %s) but never read by %s: the attribute is silently dropped when the expression is printed", tn, f, ws[f].by, what))
		}
	}
	sort.Slice(x.nodes, func(i, j int) bool { return x.nodes[i].Obj().Name() < x.nodes[j].Obj().Name() })
	for _, n := range x.nodes {
		for _, f := range x.printers[n.Obj().Name()] {
			c.Seen(core.FuncName(f))
		}
		check(n, x.printers[n.Obj().Name()], "(*"+n.Obj().Name()+").String and its helpers")
	}
	var auxs []*types.Named
	for a := range x.aux {
		auxs = append(auxs, a)
	}
	sort.Slice(auxs, func(i, j int) bool { return auxs[i].Obj().Name() < auxs[j].Obj().Name() })
	for _, a := range auxs {
		var fns []*ssa.Function
		sort.Strings(x.aux[a])
		for _, parent := range x.aux[a] {
			fns = append(fns, x.printers[parent]...)
		}
		check(a, fns, "the printers of "+strings.Join(x.aux[a], ", "))
	}
}

// ---- R2 ---------------------------------------------------------------------------------

func c28R2(x *c28ctx) {
	const rule = "C28-R2"
	c := x.c
	c.Rule(rule, "K13c+K7", 11, "durations (seconds) are printed only as the operand of a %d directive of a constant format whose following literal text starts with the unit \"s\" (not followed by another unit letter); "+
		"every use of a value read from a duration field inside the printers is classified; the duration field list equals the set of fields fed from the lexer's duration values")
	isDur := map[string]bool{}
	for _, d := range c28Durations {
		isDur[d] = true
	}
	durField := func(v ssa.Value) string {
		t, f := x.fieldKey(v)
		if t == nil {
			return ""
		}
		k := t.Obj().Name() + "." + f.Name()
		if isDur[k] {
			return k
		}
		return ""
	}

	// (a) cross-check of the list: which node fields receive parsed durations?
	fed := x.durationFedFields()
	for _, k := range core.SortedKeys(fed) {
		c.Require(isDur[k], rule, "fed-field:"+k, fed[k], "listed duration field",
			k+" receives a parsed duration but is not in the checker's duration field list: its printing is unchecked (add it to the rule table after checking how it is printed)")
	}
	for _, d := range c28Durations {
		if _, ok := fed[d]; !ok {
			c.Anchor(rule, "duration field "+d+" (no longer fed from the lexer's duration values)")
		}
	}

	// (b) forward flow from duration reads inside the printers
	type item struct {
		v    ssa.Value
		from string // duration field it was read from
	}
	var printFns []*ssa.Function
	for f := range x.allPrint {
		printFns = append(printFns, f)
	}
	sort.Slice(printFns, func(i, j int) bool { return core.FuncName(printFns[i]) < core.FuncName(printFns[j]) })
	var work []item
	seen := map[ssa.Value]bool{}
	push := func(v ssa.Value, from string) {
		if v != nil && !seen[v] {
			seen[v] = true
			work = append(work, item{v, from})
		}
	}
	for _, fn := range printFns {
		for _, b := range fn.Blocks {
			for _, in := range b.Instrs {
				switch v := in.(type) {
				case *ssa.UnOp:
					if v.Op == token.MUL {
						if k := durField(v.X); k != "" {
							push(v, k)
						}
					}
				case *ssa.Field:
					if k := durField(v); k != "" {
						push(v, k)
					}
				}
			}
		}
	}
	nsites := map[string]int{}
	report := func(ok bool, fn *ssa.Function, what string, pos token.Pos, from, okMsg, failMsg string) {
		k := core.FuncName(fn) + "/" + what
		nsites[k]++
		c.Require(ok, rule, fmt.Sprintf("%s#%d", k, nsites[k]), pos, okMsg+" ("+from+")", failMsg)
	}
	for len(work) > 0 {
		it := work[0]
		work = work[1:]
		for _, ref := range core.Referrers(it.v) {
			switch u := ref.(type) {
			case *ssa.DebugRef:
			case *ssa.Phi:
				push(u, it.from)
			case *ssa.Convert:
				push(u, it.from)
			case *ssa.ChangeType:
				push(u, it.from)
			case *ssa.MakeInterface:
				push(u, it.from)
			case *ssa.Slice:
				push(u, it.from)
			case *ssa.BinOp:
				switch u.Op {
				case token.EQL, token.NEQ, token.LSS, token.LEQ, token.GTR, token.GEQ:
					// a test, the result is not a duration
				default:
					c.Undecided(rule, core.FuncName(u.Parent())+"/arith:"+it.from, u.Pos(), "arithmetic on a duration inside the printer ("+core.Expr(u)+"): the printed unit cannot be checked")
				}
			case *ssa.UnOp:
				if u.Op == token.SUB {
					push(u, it.from)
				}
			case *ssa.IndexAddr:
				// element of a duration slice
				for _, rr := range core.Referrers(u) {
					if ld, ok := rr.(*ssa.UnOp); ok && ld.Op == token.MUL {
						push(ld, it.from+"[i]")
					}
				}
			case *ssa.Index:
				push(u, it.from+"[i]")
			case *ssa.Range:
				c.Undecided(rule, core.FuncName(u.Parent())+"/range:"+it.from, u.Pos(), "range over a duration value in an unexpected form")
			case *ssa.Store:
				if u.Val != it.v {
					continue
				}
				if call, _, elem, ok := core.OperandSlot(u); ok {
					site := core.Site{Fn: u.Parent(), Instr: call, Callee: core.CalleeName(call.Common())}
					pc, isPrintf, err := core.AsPrintf(site, nil)
					switch {
					case !isPrintf:
						report(false, u.Parent(), "operand-of:"+site.Callee, call.Pos(), it.from, "",
							"the duration "+it.from+" is passed to "+site.Callee+", which prints it without a unit (the parser requires one: `offset 3600` does not parse)")
					case err != nil:
						c.Undecided(rule, core.FuncName(u.Parent())+"/printf:"+it.from, call.Pos(), err.Error())
					default:
						vs := pc.VerbsOf(elem)
						good := len(vs) > 0
						desc := ""
						for _, vb := range vs {
							desc += fmt.Sprintf("%%%s%c followed by %q; ", vb.Flags, vb.Verb, vb.Trailing)
							if vb.Verb != 'd' || vb.Flags != "" || !c28SecondsUnit(vb.Trailing) {
								good = false
							}
						}
						report(good, u.Parent(), "printf:"+site.Callee, call.Pos(), it.from, "printed as %d with unit s in "+fmt.Sprintf("%q", pc.Format),
							fmt.Sprintf("the duration %s (seconds) is printed by format %q as %s— it must be %%d directly followed by the unit \"s\", otherwise the printed text does not parse back to the same value", it.from, pc.Format, desc))
					}
					continue
				}
				if k := durField(u.Addr); k != "" {
					continue // copied into a duration field of a (local) node: MatrixSelector.String's save/restore
				}
				if a, ok := u.Addr.(*ssa.Alloc); ok {
					for _, rr := range core.Referrers(a) {
						if ld, ok := rr.(*ssa.UnOp); ok && ld.Op == token.MUL {
							push(ld, it.from)
						}
					}
					continue
				}
				c.Undecided(rule, core.FuncName(u.Parent())+"/store:"+it.from, u.Pos(), "duration stored to "+core.Expr(u.Addr))
			case ssa.CallInstruction:
				cc := u.Common()
				callee := cc.StaticCallee()
				name := core.CalleeName(cc)
				if name == "builtin len" || name == "builtin cap" {
					continue
				}
				if callee != nil && core.FuncPkg(callee) == c28pkg && len(callee.Blocks) > 0 {
					for i, a := range cc.Args {
						if a == it.v && i < len(callee.Params) {
							push(callee.Params[i], it.from)
						}
					}
					continue
				}
				report(false, u.Parent(), "arg-of:"+name, u.Pos(), it.from, "",
					"the duration "+it.from+" is passed to "+name+": it is not printed through a %ds directive")
			case *ssa.Return:
				c.Undecided(rule, core.FuncName(u.Parent())+"/return:"+it.from, u.Pos(), "a printer returns a raw duration")
			default:
				c.Undecided(rule, core.FuncName(ref.Parent())+"/use:"+it.from, ref.Pos(), fmt.Sprintf("duration used by %T", ref))
			}
		}
	}
}

// c28SecondsUnit: the literal text after the directive starts with the unit "s" and the
// unit is not continued by another letter or digit ("ms", "s5" would be read differently).
func c28SecondsUnit(trailing string) bool {
	if !strings.HasPrefix(trailing, "s") {
		return false
	}
	if len(trailing) == 1 {
		return true
	}
	ch := trailing[1]
	return !(ch >= 'a' && ch <= 'z' || ch >= 'A' && ch <= 'Z' || ch >= '0' && ch <= '9' || ch == '_')
}

// durationFedFields computes the node fields that receive a value read from the
// parser stack's duration / offsets slots (yySymType.duration, yySymType.offsets),
// following parameters of in-package functions and stores through selected field pointers.
func (x *c28ctx) durationFedFields() map[string]token.Pos {
	out := map[string]token.Pos{}
	sym, _ := x.pkg.Scope().Lookup("yySymType").(*types.TypeName)
	if sym == nil {
		x.c.Anchor("C28-R2", c28pkg+".yySymType")
		return out
	}
	isSlot := func(v ssa.Value) bool {
		t, f := x.fieldKey(v)
		return t != nil && t.Obj() == sym && (f.Name() == "duration" || f.Name() == "offsets")
	}
	tainted := map[ssa.Value]bool{}
	var work []ssa.Value
	push := func(v ssa.Value) {
		if v != nil && !tainted[v] {
			tainted[v] = true
			work = append(work, v)
		}
	}
	for _, fn := range x.parse {
		for _, b := range fn.Blocks {
			for _, in := range b.Instrs {
				switch v := in.(type) {
				case *ssa.UnOp:
					if v.Op == token.MUL && isSlot(v.X) {
						push(v)
					}
				case *ssa.Field:
					if isSlot(v) {
						push(v)
					}
				}
			}
		}
	}
	var addrTargets func(a ssa.Value, depth int) []ssa.Value
	addrTargets = func(a ssa.Value, depth int) []ssa.Value {
		if depth > 4 {
			return nil
		}
		switch p := a.(type) {
		case *ssa.FieldAddr:
			return []ssa.Value{p}
		case *ssa.Phi:
			var out []ssa.Value
			for _, e := range p.Edges {
				out = append(out, addrTargets(e, depth+1)...)
			}
			return out
		}
		return nil
	}
	for len(work) > 0 {
		v := work[0]
		work = work[1:]
		for _, ref := range core.Referrers(v) {
			switch u := ref.(type) {
			case *ssa.Phi, *ssa.Convert, *ssa.ChangeType, *ssa.Slice:
				push(u.(ssa.Value))
			case *ssa.UnOp:
				if u.Op == token.SUB {
					push(u)
				}
			case *ssa.Store:
				if u.Val != v {
					continue
				}
				for _, tgt := range addrTargets(u.Addr, 0) {
					t, f := x.fieldKey(tgt)
					if t == nil || t.Obj() == sym {
						continue
					}
					k := t.Obj().Name() + "." + f.Name()
					if _, dup := out[k]; !dup {
						out[k] = u.Pos()
					}
				}
				if a, ok := u.Addr.(*ssa.Alloc); ok {
					for _, rr := range core.Referrers(a) {
						if ld, ok := rr.(*ssa.UnOp); ok && ld.Op == token.MUL {
							push(ld)
						}
					}
				}
			case ssa.CallInstruction:
				cc := u.Common()
				if core.CalleeName(cc) == "builtin append" {
					if val, ok := u.(ssa.Value); ok {
						push(val)
					}
					continue
				}
				callee := cc.StaticCallee()
				if callee != nil && core.FuncPkg(callee) == c28pkg && len(callee.Blocks) > 0 {
					for i, a := range cc.Args {
						if a == v && i < len(callee.Params) {
							push(callee.Params[i])
						}
					}
				}
			}
		}
	}
	return out
}

// ---- R3 ---------------------------------------------------------------------------------

func c28R3(x *c28ctx) {
	const rule = "C28-R3"
	c := x.c
	c.Rule(rule, "K6", 2, "every function calling the generated parser (yyParser.Parse) has a `defer p.recover(&err)` that dominates the call, with err the function's own error result; every exported Parse* function of the package is such a function or delegates to one")
	isEntry := map[*ssa.Function]bool{}
	pkgFns := c.Prog.FuncsIn(c28pkg)
	for _, fn := range x.entries {
		isEntry[fn] = true
		c.Seen(core.FuncName(fn))
		if !token.IsExported(fn.Name()) && len(core.Callers(pkgFns, core.FuncName(fn))) == 0 && len(core.FuncValueUses(pkgFns, core.FuncName(fn))) == 0 {
			c.Note("%s calls the generated parser without recover but is unexported and has no caller or value use in the package (goyacc's unused convenience wrapper)", core.FuncName(fn))
			continue
		}
		calls := x.generatedParseCalls(fn)
		keys := core.Ordinals(calls)
		for i, call := range calls {
			c.CallSites++
			why := "no deferred (*parser).recover dominates the call of the generated parser: a panic in a grammar action or the lexer escapes to the caller"
			for _, d := range core.Calls(fn) {
				df, isDefer := d.Instr.(*ssa.Defer)
				if !isDefer || d.Callee != c28pkg+".(*parser).recover" {
					continue
				}
				if !core.Dominates(df, call.Instr) {
					why = "(*parser).recover is deferred, but not before the generated parser is called"
					continue
				}
				// the argument must be the address of the function's error result
				cell, _ := d.Arg(1).(*ssa.Alloc)
				okRes := false
				if cell != nil {
					for _, r := range core.Returns(fn) {
						for ri, res := range r.Results {
							if core.LoadAddr(res) == cell && types.Identical(fn.Signature.Results().At(ri).Type(), types.Universe.Lookup("error").Type()) {
								okRes = true
							}
						}
					}
				}
				if okRes {
					why = ""
					break
				}
				why = "recover is deferred with " + core.Expr(d.Arg(1)) + ", which is not the address of the function's error result: the recovered panic is not reported to the caller"
			}
			c.Require(why == "", rule, keys[i], call.Pos(), "generated parser called under a deferred recover(&err)", why)
		}
	}
	// exported Parse* functions
	n := 0
	for _, fn := range c.Prog.FuncsIn(c28pkg) {
		if fn.Parent() != nil || fn.Signature.Recv() != nil || !strings.HasPrefix(fn.Name(), "Parse") || !token.IsExported(fn.Name()) || len(fn.Blocks) == 0 {
			continue
		}
		if fn.Signature.Params().Len() == 0 || fn.Signature.Results().Len() == 0 {
			continue
		}
		n++
		ok := isEntry[fn]
		if !ok {
			for _, callee := range x.closure([]*ssa.Function{fn}, false) {
				if isEntry[callee] {
					ok = true
				}
			}
		}
		if !ok {
			// an exported Parse* that never reaches the generated parser is not an entry point of it
			c.Pass(rule, core.FuncName(fn)+"/not-a-grammar-entry", fn.Pos(), "does not reach the generated parser")
			continue
		}
		c.Pass(rule, core.FuncName(fn)+"/entry", fn.Pos(), "reaches the generated parser only through a recover-protected function")
	}
	if n == 0 {
		c.Fail(rule, c28pkg+"/Parse*", token.NoPos, "no exported Parse* function found")
	}
}
