package props

import (
	"fmt"
	"go/ast"
	"go/constant"
	"go/token"
	"sort"
	"strings"

	"golang.org/x/tools/go/packages"
	"golang.org/x/tools/go/ssa"

	"shverif/core"
)

func init() {
	Register(&Property{
		ID:   "C27",
		Pkgs: []string{"./internal/promql", "./internal/promql/parser"},
		Run:  runC27,
		Mutants: []Mutant{
			{Name: "stdvar-aggregate-unregistered", File: "internal/promql/functions.go", Rule: "C27-R1",
				Old: "		parser.STDVAR:            aggregateAt0(funcStdVar),\n", New: ""},
			{Name: "new-aggregator-keyword-without-implementation", File: "internal/promql/functions.go", Rule: "C27-R1",
				Old: "		parser.SORT_DESC:         funcTopK,\n", New: ""},
			{Name: "aggregates-patched-at-runtime", File: "internal/promql/functions.go", Rule: "C27-R1",
				Old: "func aggregateNOP(ev *evaluator, expr *parser.AggregateExpr) ([]Series, error) {\n",
				New: "func aggregateNOP(ev *evaluator, expr *parser.AggregateExpr) ([]Series, error) {\n	delete(aggregates, parser.GROUP)\n"},
			{Name: "over-time-function-unregistered", File: "internal/promql/functions.go", Rule: "C27-R2",
				Old: "		\"stddev_over_time\":   overTimeCall(funcStdDevOverTime, true, NilValue),\n", New: ""},
			{Name: "function-registered-under-other-name", File: "internal/promql/parser/functions.go", Rule: "C27-R2",
				Old: "	\"avg_over_time\": {\n		Name:       \"avg_over_time\",", New: "	\"avg_over_time\": {\n		Name:       \"avg_overtime\","},
			{Name: "reduction-names-unknown-function", File: "internal/promql/reductions.go", Rule: "C27-R3",
				Old: "	case \"sum_over_time\":", New: "	case \"sum_overtime\":"},
			{Name: "revert-F15-quantile-includes-missing-points", File: "internal/promql/functions.go", Rule: "C27-R4",
				Old: "				if !math.IsNaN(v) { // missing points are excluded, as in other aggregates\n", New: "				if true {\n"},
			{Name: "sum-includes-missing-points", File: "internal/promql/functions.go", Rule: "C27-R4",
				Old: "			if math.IsNaN(v) {\n				continue\n			}\n			if nan {\n				res = v\n				nan = false\n			} else {\n				res += v\n			}",
				New: "			if nan {\n				res = v\n				nan = false\n			} else {\n				res += v\n			}"},
			{Name: "count-counts-missing-points", File: "internal/promql/functions.go", Rule: "C27-R4",
				Old: "		for _, d := range ds {\n			if !math.IsNaN((*d.Values)[i]) {\n				n++\n			}\n		}", New: "		for range ds {\n			n++\n		}"},
			{Name: "max-poisoned-by-missing-point", File: "internal/promql/functions.go", Rule: "C27-R4",
				Old: "			if math.IsNaN(v) {\n				continue\n			}\n			if nan || res < v {", New: "			if math.IsNaN(v) {\n				res = v\n				continue\n			}\n			if nan || res < v {"},
			{Name: "stdvar-second-pass-unguarded", File: "internal/promql/functions.go", Rule: "C27-R4",
				Old: "			if !math.IsNaN(v) {\n				d := v - mean\n				res += d * d / float64(cnt)\n			}", New: "			{\n				d := v - mean\n				res += d * d / float64(cnt)\n			}"},
		},
	})
}

const (
	c27pkg = "internal/promql"
	c27par = "internal/promql/parser"
)

// the eleven aggregation operators named in the property statement
var c27Named = []string{"sum", "min", "max", "avg", "count", "group", "stddev", "stdvar", "quantile", "topk", "bottomk"}

// functions the parser accepts for which the evaluator deliberately has no entry
var c27Unsupported = map[string]string{
	"histogram_count":    "native histograms are not supported by StatsHouse",
	"histogram_fraction": "native histograms are not supported by StatsHouse",
	"histogram_sum":      "native histograms are not supported by StatsHouse",
}

// aggregate kernels whose definition excludes missing (NaN) points (DESIGN §4 C27)
var c27Kernels = []string{"funcSum", "funcMin", "funcMax", "funcAvg", "funcCount", "funcStdVar", "funcQuantile"}

func runC27(c *core.Check) {
	c.Decides = "registry agreement and the NaN-exclusion discipline only: (R1) every aggregator keyword of the lexer's keyword table (value inside (aggregatorsStart, aggregatorsEnd)), the eleven " +
		"operators named in the property among them, has an entry in the evaluator's `aggregates` map, which is assigned once from a literal and never modified; (R2) every function the parser " +
		"accepts (parser.Functions) has an entry in `calls` except the three frozen native-histogram functions, every `calls` entry is a parser function, each parser.Functions entry is registered " +
		"under its own Name (the evaluator looks up calls[e.Func.Name]); (R3) every function name / operator that the reduction rules push down names an existing `calls` / `aggregates` entry; " +
		"(R4) in the aggregate kernels funcSum/Min/Max/Avg/Count/StdVar/Quantile every use of a series value (*d.Values)[i] other than the math.IsNaN test itself is dominated by !math.IsNaN of that " +
		"value, and on every path through the loop body on which the value is NaN all loop-carried values except the loop counter are unchanged (a missing point contributes nothing)."
	c.NotDecided = "the numeric definitions themselves (what sum/avg/stddev/quantile/topk compute from the non-missing points, interpolation, ordering), grouping by/without, the over-time window functions, " +
		"and the equivalence of pushed-down (reduced) evaluation with in-engine evaluation over all series sets."
	c27Registries(c)
	c27NaN(c)
}

type c27reg struct {
	keys []core.Key
	pk   *packages.Package
	byS  map[string]core.Key // by string constant value
	byI  map[int64]core.Key  // by integer constant value
	// constant entries added in init() (`key["inf"] = NUMBER`)
	extra []c27extra
}

type c27extra struct {
	key, val constant.Value
	pos      token.Pos
}

// c27Literal loads a registry that must be given by exactly one composite literal and
// must not be modified anywhere else.
func c27Literal(c *core.Check, rule, pkgRel, name string) *c27reg {
	lits, pk := c.Prog.VarLits(pkgRel, name)
	if pk == nil || len(lits) == 0 {
		c.Anchor(rule, pkgRel+"."+name)
		return nil
	}
	if len(lits) != 1 || lits[0] == nil {
		c.Undecided(rule, pkgRel+"."+name+"/literal", token.NoPos, fmt.Sprintf("%s.%s is assigned %d times / not from a composite literal: its contents are not a static registry", pkgRel, name, len(lits)))
		return nil
	}
	r := &c27reg{pk: pk, byS: map[string]core.Key{}, byI: map[int64]core.Key{}}
	r.keys = core.CompositeKeys(pk, lits[0])
	for _, k := range r.keys {
		if k.Val == nil {
			c.Undecided(rule, pkgRel+"."+name+"/key:"+k.Name, k.Pos, "registry key is not a constant")
			continue
		}
		switch k.Val.Kind() {
		case constant.String:
			r.byS[constant.StringVal(k.Val)] = k
		case constant.Int:
			v, _ := constant.Int64Val(k.Val)
			r.byI[v] = k
		}
	}
	// no other writer
	n := 0
	for _, w := range core.GlobalWrites(c.Prog.Funcs(), pkgRel, name) {
		if w.Kind == "store" {
			n++
			if n == 1 {
				continue
			}
		}
		// constant additions made while the package initialises are part of the static registry
		if mu, isMU := w.Instr.(*ssa.MapUpdate); isMU && w.Fn.Parent() == nil && (w.Fn.Name() == "init" || strings.HasPrefix(w.Fn.Name(), "init#")) {
			kc, kok := mu.Key.(*ssa.Const)
			vc, vok := mu.Value.(*ssa.Const)
			if kok && vok && kc.Value != nil && vc.Value != nil {
				r.extra = append(r.extra, c27extra{kc.Value, vc.Value, mu.Pos()})
				continue
			}
		}
		c.Fail(rule, fmt.Sprintf("%s.%s/modified-in:%s", pkgRel, name, core.FuncName(w.Fn)), w.Instr.Pos(),
			fmt.Sprintf("registry %s.%s is modified (%s) outside its literal: the checked contents are not what the evaluator sees", pkgRel, name, w.Kind))
	}
	return r
}

func c27Registries(c *core.Check) {
	// ---- R1 ---------------------------------------------------------------------------
	const r1 = "C27-R1"
	c.Rule(r1, "K5", 43, "every entry of parser.key whose token lies in (aggregatorsStart, aggregatorsEnd) is a key of promql.aggregates; the eleven operators named in the property are such entries; aggregates is one literal, never modified")
	key := c27Literal(c, r1, c27par, "key")
	aggs := c27Literal(c, r1, c27pkg, "aggregates")
	lo, ok1 := c.Prog.ConstInt64(c27par, "aggregatorsStart")
	hi, ok2 := c.Prog.ConstInt64(c27par, "aggregatorsEnd")
	if !ok1 {
		c.Anchor(r1, c27par+".aggregatorsStart")
	}
	if !ok2 {
		c.Anchor(r1, c27par+".aggregatorsEnd")
	}
	if key != nil && aggs != nil && ok1 && ok2 {
		for _, kw := range core.SortedKeys(key.byS) {
			k := key.byS[kw]
			tok, ok := core.ConstExprInt(key.pk, k.Elt)
			if !ok {
				c.Undecided(r1, "keyword:"+kw, k.Pos, "keyword token is not a constant")
				continue
			}
			if tok <= lo || tok >= hi {
				continue
			}
			_, has := aggs.byI[tok]
			c.Require(has, r1, "aggregator-keyword:"+kw, k.Pos, "aggregator keyword has an evaluator entry",
				fmt.Sprintf("the lexer accepts aggregator %q (token %s) but promql.aggregates has no entry for it: the query parses and then fails with \"not implemented aggregate\"", kw, core.ResolveKey(key.pk, k.Elt).Name))
		}
		for _, e := range key.extra {
			if tok, ok := constant.Int64Val(constant.ToInt(e.val)); ok && tok > lo && tok < hi {
				_, has := aggs.byI[tok]
				c.Require(has, r1, "aggregator-keyword:"+e.key.ExactString(), e.pos, "aggregator keyword (added in init) has an evaluator entry",
					"the lexer accepts aggregator "+e.key.ExactString()+" (added in init) but promql.aggregates has no entry for it")
			}
		}
		for _, nm := range c27Named {
			k, ok := key.byS[nm]
			tok, isConst := int64(0), false
			if ok {
				tok, isConst = core.ConstExprInt(key.pk, k.Elt)
			}
			c.Require(ok && isConst && tok > lo && tok < hi, r1, "named-operator:"+nm, k.Pos, "operator named in the property is an aggregator keyword",
				fmt.Sprintf("aggregation operator %q named in the property is not an aggregator keyword of the lexer", nm))
		}
		// every aggregates key is an aggregator token (no dead / mistyped entry)
		for _, k := range aggs.keys {
			v, _ := constant.Int64Val(k.Val)
			c.Require(v > lo && v < hi, r1, "aggregates-key:"+k.Name, k.Pos, "key is an aggregator token", "aggregates has a key that is not an aggregator token: "+k.Name)
		}
	}

	// ---- R2 ---------------------------------------------------------------------------
	const r2 = "C27-R2"
	c.Rule(r2, "K5", 200, "keys(parser.Functions) \\ keys(promql.calls) = {histogram_count, histogram_fraction, histogram_sum} (frozen, reasoned), keys(calls) ⊆ keys(Functions); each Functions entry has Name equal to its key")
	fns := c27Literal(c, r2, c27par, "Functions")
	calls := c27Literal(c, r2, c27pkg, "calls")
	if fns != nil && calls != nil {
		for _, name := range core.SortedKeys(fns.byS) {
			k := fns.byS[name]
			_, has := calls.byS[name]
			why, exc := c27Unsupported[name]
			switch {
			case has && exc:
				c.Fail(r2, "function:"+name, k.Pos, "function "+name+" is implemented but still listed as a frozen exception ("+why+"): remove it from the exception list")
			case has:
				c.Pass(r2, "function:"+name, k.Pos, "parser function has an evaluator entry")
			case exc:
				c.Pass(r2, "function:"+name, k.Pos, "frozen exception: "+why)
			default:
				c.Fail(r2, "function:"+name, k.Pos, "the parser accepts function "+name+"() but promql.calls has no entry for it: every query using it fails at evaluation")
			}
			// registered under its own name
			okName := false
			if cl, isLit := ast.Unparen(k.Elt).(*ast.CompositeLit); isLit {
				if ne := core.StructLitField(fns.pk, cl, "Name"); ne != nil {
					if s, isStr := core.ConstExprString(fns.pk, ne); isStr && s == name {
						okName = true
					}
				}
			}
			c.Require(okName, r2, "function-name:"+name, k.Pos, "entry's Name equals its key",
				"parser.Functions["+name+"].Name differs from its key: the evaluator looks the function up by Name and the printer prints Name")
		}
		for e := range c27Unsupported {
			if _, ok := fns.byS[e]; !ok {
				c.Anchor(r2, "frozen exception "+e+" (no longer a parser function)")
			}
		}
		for _, name := range core.SortedKeys(calls.byS) {
			_, has := fns.byS[name]
			c.Require(has, r2, "call:"+name, calls.byS[name].Pos, "evaluator entry is a parser function",
				"promql.calls has an entry "+name+" that the parser does not know: it can never be called (misspelt registration)")
		}
	}

	// ---- R3 ---------------------------------------------------------------------------
	const r3 = "C27-R3"
	c.Rule(r3, "K5", 12, "every case constant of reduceOverTimeCall's switch is a key of calls; every case constant of reduceAggregateExpr's switch is a key of aggregates")
	for _, t := range []struct {
		fn  string
		reg *c27reg
		nm  string
	}{{"reduceOverTimeCall", calls, "calls"}, {"reduceAggregateExpr", aggs, "aggregates"}} {
		fd, pk := c.Prog.FuncDecl(c27pkg, t.fn)
		if fd == nil || fd.Body == nil {
			c.Anchor(r3, c27pkg+"."+t.fn)
			continue
		}
		c.Seen(c27pkg + "." + t.fn)
		if t.reg == nil {
			continue
		}
		n := 0
		ast.Inspect(fd.Body, func(nd ast.Node) bool {
			sw, ok := nd.(*ast.SwitchStmt)
			if !ok || sw.Tag == nil {
				return true
			}
			ks, _ := core.SwitchCaseKeys(pk, sw)
			for _, k := range ks {
				n++
				has := false
				if k.Val != nil {
					switch k.Val.Kind() {
					case constant.String:
						_, has = t.reg.byS[constant.StringVal(k.Val)]
					case constant.Int:
						v, _ := constant.Int64Val(k.Val)
						_, has = t.reg.byI[v]
					}
				}
				c.Require(has, r3, c27pkg+"."+t.fn+"/case:"+k.Name, k.Pos, "reduced name exists in "+t.nm,
					t.fn+" pushes down "+k.Name+", which is not an entry of "+t.nm+": the rewrite can never match / refers to a non-existent operation")
			}
			return true
		})
		if n == 0 {
			c.Fail(r3, c27pkg+"."+t.fn+"/cases", fd.Pos(), "no switch case constants found in "+t.fn)
		}
	}
}

// ---- R4 ---------------------------------------------------------------------------------

// seriesRead reports whether v is a read (*X.Values)[i] of a SeriesData value.
func c27SeriesRead(v ssa.Value) bool {
	ld, ok := v.(*ssa.UnOp)
	if !ok || ld.Op != token.MUL {
		return false
	}
	ia, ok := ld.X.(*ssa.IndexAddr)
	if !ok {
		return false
	}
	sl, ok := ia.X.(*ssa.UnOp) // *ptr-to-slice
	if !ok || sl.Op != token.MUL {
		return false
	}
	isValues := func(t string, f string) bool {
		return f == "Values" && strings.TrimPrefix(t, "*") == c27pkg+".SeriesData"
	}
	switch p := sl.X.(type) {
	case *ssa.UnOp:
		if fa, ok := p.X.(*ssa.FieldAddr); ok && p.Op == token.MUL {
			return isValues(core.TypeName(fa.X.Type()), tFieldName(fa))
		}
	case *ssa.Field:
		st := p.X.Type()
		return core.IsField(p, c27pkg+".SeriesData", "Values") || isValues(core.TypeName(st), "")
	}
	return false
}

func c27NaN(c *core.Check) {
	const rule = "C27-R4"
	c.Rule(rule, "K1+K6", 7, "aggregate kernels: each reads series values, tests them with math.IsNaN, uses them otherwise only under !IsNaN of the same value, and on the NaN path leaves every loop-carried value except the loop counter unchanged")
	for _, name := range c27Kernels {
		full := c27pkg + "." + name
		fn := need(c, rule, full)
		if fn == nil {
			continue
		}
		var problems []string
		var pos token.Pos = fn.Pos()
		nReads, nTests := 0, 0
		for _, f := range core.WithAnon(fn) {
			for _, b := range f.Blocks {
				for _, in := range b.Instrs {
					v, ok := in.(ssa.Value)
					if !ok || !c27SeriesRead(v) {
						continue
					}
					nReads++
					var tests []*ssa.Call
					for _, ref := range core.Referrers(v) {
						if call, ok := ref.(*ssa.Call); ok && core.CalleeName(&call.Call) == "math.IsNaN" {
							tests = append(tests, call)
						}
					}
					nTests += len(tests)
					guarded := func(blk *ssa.BasicBlock) bool {
						for _, t := range tests {
							if core.GuardedBool(blk, t, false) {
								return true
							}
						}
						return false
					}
					for _, ref := range core.Referrers(v) {
						switch u := ref.(type) {
						case *ssa.DebugRef:
							continue
						case *ssa.Call:
							if core.CalleeName(&u.Call) == "math.IsNaN" {
								continue
							}
						case *ssa.Phi:
							for i, e := range u.Edges {
								if e == v && !guarded(u.Block().Preds[i]) {
									problems = append(problems, fmt.Sprintf("%s: the series value flows on without a !math.IsNaN guard", c.Prog.Pos(in.Pos())))
									pos = in.Pos()
								}
							}
							continue
						}
						if !guarded(ref.Block()) {
							problems = append(problems, fmt.Sprintf("%s: series value read at %s is used (%s) without being excluded when it is NaN", c.Prog.Pos(ref.Pos()), c.Prog.Pos(in.Pos()), c27InstrKind(ref)))
							pos = in.Pos()
						}
					}
					// the NaN path leaves the accumulators alone
					for ti, t := range tests {
						ifi, pol := tIfOnBool(t)
						if ifi == nil {
							problems = append(problems, fmt.Sprintf("%s: the result of math.IsNaN is not branched on", c.Prog.Pos(t.Pos())))
							continue
						}
						nanSucc := ifi.Block().Succs[0]
						if !pol {
							nanSucc = ifi.Block().Succs[1]
						}
						loop := core.InnermostLoop(ifi.Block())
						if loop == nil {
							problems = append(problems, fmt.Sprintf("%s: NaN test outside a loop over the series", c.Prog.Pos(t.Pos())))
							continue
						}
						carried, err := loop.CarriedOnPaths(ifi.Block(), nanSucc, 256)
						if err != nil {
							c.Undecided(rule, fmt.Sprintf("%s/nan-path#%d", full, ti+1), t.Pos(), "cannot enumerate the NaN path: "+err.Error())
							continue
						}
						for phi, vals := range carried {
							if loop.CounterPhi(phi) {
								continue
							}
							for _, nv := range vals {
								if nv != ssa.Value(phi) {
									problems = append(problems, fmt.Sprintf("%s: when the value is NaN the loop-carried value %s still changes to %s: a missing point contributes to the result",
										c.Prog.Pos(t.Pos()), core.Expr(phi), core.Expr(nv)))
									pos = t.Pos()
								}
							}
						}
					}
				}
			}
		}
		if nReads > 0 && nTests == 0 {
			problems = append([]string{"no series value is tested with math.IsNaN: missing points are not excluded at all"}, problems...)
		}
		if nReads == 0 {
			problems = append(problems, "the kernel reads no series value (*d.Values)[i]: nothing to exclude — if it counts or sums series, it counts missing points too")
		}
		sort.Strings(problems)
		problems = c27Dedup(problems)
		if len(problems) > 4 {
			problems = append(problems[:4], fmt.Sprintf("… %d more", len(problems)-4))
		}
		c.Require(len(problems) == 0, rule, full+"/nan-exclusion", pos, fmt.Sprintf("missing points excluded (%d series reads, %d NaN tests)", nReads, nTests),
			name+" does not exclude missing (NaN) points: "+strings.Join(problems, "; "))
	}
}

func c27Dedup(s []string) []string {
	var out []string
	for i, x := range s {
		if i == 0 || x != s[i-1] {
			out = append(out, x)
		}
	}
	return out
}

func c27InstrKind(in ssa.Instruction) string {
	switch x := in.(type) {
	case *ssa.BinOp:
		return "operator " + x.Op.String()
	case *ssa.Store:
		return "store"
	case *ssa.Call:
		return "call " + core.CalleeName(&x.Call)
	}
	return fmt.Sprintf("%T", in)
}
