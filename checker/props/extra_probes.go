package props

import (
	"fmt"
	"strings"

	"golang.org/x/tools/go/ssa"

	"shverif/core"
)

// Rules added for the SQLite-backed properties (C16, C17, C19) after probe patches
// written by independent authors showed gaps. These patches could not be confirmed by
// running anything (the SQLite amalgamation is emptied in this sandbox), so they are NOT
// kept under /verif/seeded; their essence is kept here as positive controls.

func init() {
	Extend("C16", runC16Probe,
		Mutant{Name: "probe-C16c-delete-event-carries-requested-ids", File: "internal/metadata/dbv2.go", Rule: "C16-R4",
			Old: "		for i, v := range presentIdsInt64 {\n			presentIds[i] = int32(v)\n		}\n", New: "		for i := range presentIdsInt64 {\n			presentIds[i] = ids[i]\n		}\n"})
	Extend("C17", runC17Probe,
		Mutant{Name: "probe-C17b-waiter-registered-at-start-offset", File: "internal/sqlite/engine.go", Rule: "C17-R7",
			Old: "				offset:   offsetAfterWritePredicted,", New: "				offset:   offsetBeforeWrite,"},
		Mutant{Name: "probe-C17c-apply-returns-before-storing-offset", File: "internal/sqlite/binlog_engine.go", Rule: "C17-R8",
			Old: "		err1 := binlogUpdateOffset(conn, newOffset)\n", New: "		if err != nil && isExpectedError(err) {\n			errToReturn = err\n			return nil\n		}\n		err1 := binlogUpdateOffset(conn, newOffset)\n"})
	Extend("C19", runC19Probe,
		Mutant{Name: "probe-C19b-bypass-id-taken-from-existing-mapping", File: "internal/metadata/dbv2.go", Rule: "C19-R5",
			Old: "		if resp.IsCreated() {\n			created, _ := resp.AsCreated()\n			db.lastMappingIDToInsert = created.Id\n		}",
			New: "		if resp.IsCreated() {\n			created, _ := resp.AsCreated()\n			db.lastMappingIDToInsert = created.Id\n		} else if found, ok := resp.AsGetMappingResponse(); ok {\n			db.lastMappingIDToInsert = found.Id\n		}"},
		Mutant{Name: "probe-C19d-reset-keeps-old-reference-time", File: "internal/metadata/dbv2.go", Rule: "C19-R7",
			Old: "\"INSERT OR REPLACE INTO flood_limits (last_time_update, count_free, metric_name) VALUES ($t, $c, $name)\",\n				sqlite.Int64(\"$t\", db.now().Unix()),",
			New: "\"INSERT INTO flood_limits (last_time_update, count_free, metric_name) VALUES ($t, $c, $name) ON CONFLICT (metric_name) DO UPDATE SET count_free = excluded.count_free\",\n				sqlite.Int64(\"$t\", db.now().Unix()),"},
		Mutant{Name: "probe-C19c-flood-limit-update-keeps-old-time", File: "internal/metadata/binlog_event.go", Rule: "C19-R6", Occurrence: 1,
			Old: "			sqlite.Int64(\"$t\", int64(pred)),", New: "			sqlite.Int64(\"$t\", int64(timeUpdate)),"})
}

// C16-R4: the ids recorded in the delete-mappings event are the ids deleted.
func runC16Probe(c *core.Check) {
	c.Decides += " R4 the ids written into the DeleteMappingsEvent are element-wise conversions of the slice bound to the DELETE statement's $ids$ (replay deletes exactly what the primary deleted)."
	c.Rule("C16-R4", "K7 provenance", 1, "every element stored into the slice assigned to DeleteMappingsEvent.Ids is a conversion of an element of the slice bound to `$ids$` of the DELETE")
	n := 0
	for _, fn := range c.Prog.FuncsIn("internal/metadata") {
		dels := 0
		var bound ssa.Value
		for _, s := range core.CallsTo(fn, "internal/sqlite.Int64Slice") {
			// the binding that feeds a DELETE: the last Int64Slice("$ids$", x) dominated by nothing else is hard to tell
			// apart from the SELECT's; take the one whose slice is NOT the converted request (it is appended to in a loop)
			if k, ok := s.Arg(0).(*ssa.Const); ok && strings.Contains(k.Value.ExactString(), "$ids$") {
				dels++
				bound = s.Arg(1)
			}
		}
		if dels == 0 {
			continue
		}
		for _, b := range fn.Blocks {
			for _, in := range b.Instrs {
				st, ok := in.(*ssa.Store)
				if !ok {
					continue
				}
				fa, isFA := st.Addr.(*ssa.FieldAddr)
				if !isFA || !strings.HasSuffix(core.Expr(fa), "DeleteMappingsEvent}.Ids") && !strings.HasSuffix(core.Expr(fa), ".Ids") {
					continue
				}
				if !strings.Contains(core.TypeName(fa.X.Type()), "DeleteMappingsEvent") {
					continue
				}
				n++
				// the stored slice: every element store into it must be Convert(load elem of `bound`)
				ids := st.Val
				okAll, found := true, 0
				why := ""
				for _, bb := range fn.Blocks {
					for _, ii := range bb.Instrs {
						es, isSt := ii.(*ssa.Store)
						if !isSt {
							continue
						}
						ia, isIA := es.Addr.(*ssa.IndexAddr)
						if !isIA || ia.X != ids {
							continue
						}
						found++
						v := es.Val
						if cv, isCv := v.(*ssa.Convert); isCv {
							v = cv.X
						}
						src := ""
						if ld, isLd := v.(*ssa.UnOp); isLd {
							if sia, isS := ld.X.(*ssa.IndexAddr); isS {
								src = core.Expr(sia.X)
							}
						}
						if src == "" || src != core.Expr(bound) {
							okAll = false
							why = core.Expr(es.Val)
						}
					}
				}
				c.Require(found > 0 && okAll, "C16-R4", fmt.Sprintf("%s/event-ids#%d", core.FuncName(fn), n), st.Pos(), "event ids are the deleted ids",
					"the ids recorded in the delete-mappings event ("+why+") are not the elements of the slice the DELETE was executed with: replay deletes other rows than the primary did")
			}
		}
	}
	if n == 0 {
		c.Undecided("C16-R4", "internal/metadata/DeleteMappingsEvent.Ids", 0, "construction of the delete-mappings event not found")
	}
}

// C17-R7/R8.
func runC17Probe(c *core.Check) {
	c.Decides += " R7 a writer waiting for binlog commit is registered with the offset at which its own event ends (the value stored as __binlog_offset), so it is released only when its event is committed; R8 the replica's apply transaction returns success without storing the offset only when the whole payload had already been applied."
	c.Rule("C17-R7", "K7 provenance", 1, "the offset stored into the wait-queue entry in doWithoutWait derives from the value passed to binlogUpdateOffset")
	if fn := need(c, "C17-R7", "internal/sqlite.(*Engine).doWithoutWait"); fn != nil {
		upd := core.CallsTo(fn, "internal/sqlite.binlogUpdateOffset")
		n := 0
		for _, b := range fn.Blocks {
			for _, in := range b.Instrs {
				st, ok := in.(*ssa.Store)
				if !ok || !core.IsField(st.Addr, "internal/sqlite.waitCommitInfo", "offset") {
					continue
				}
				n++
				ok2 := len(upd) == 1 && core.Derives(st.Val, upd[0].Arg(1))
				c.Require(ok2, "C17-R7", fmt.Sprintf("internal/sqlite.(*Engine).doWithoutWait/waiter-offset#%d", n), st.Pos(), "waiter waits for the end of its own event",
					"the waiter is registered with "+core.Expr(st.Val)+", not with the end offset of its own event: a binlog commit that ends exactly where this event starts releases the writer while its event is still only in memory (an acknowledged write can be lost)")
			}
		}
		if n == 0 {
			c.Undecided("C17-R7", "internal/sqlite.(*Engine).doWithoutWait/waiter-offset", fn.Pos(), "no wait-queue registration found")
		}
	}
	c.Rule("C17-R8", "K1", 1, "in binlogEngineReplicaImpl.apply's transaction every constant-nil return is under `payload fully skipped` (len(payload) == 0 inside the already-applied branch)")
	if fn := need(c, "C17-R8", "internal/sqlite.(*binlogEngineReplicaImpl).apply$1"); fn != nil {
		n := 0
		for _, r := range core.Returns(fn) {
			vals := core.ReturnedValues(r)
			if len(vals) != 1 || !isNilConst(vals[0]) {
				continue
			}
			n++
			ok := core.Holds(r.Block(), core.T("(builtin len(*) == 0)")) && core.Holds(r.Block(), core.T("(* < internal/sqlite.binlogLoadPosition(*)#0)"))
			c.Require(ok, "C17-R8", fmt.Sprintf("internal/sqlite.(*binlogEngineReplicaImpl).apply$1/return-nil#%d", n), r.Pos(), "success without offset update only when nothing new was applied",
				"the apply transaction can succeed without storing the new offset although events were applied: after a restart the same events are applied a second time; facts: "+core.FactsString(r.Block()))
		}
	}
}

// C19-R5/R6.
func runC19Probe(c *core.Check) {
	c.Decides += " R5 the id that enables the global-budget bypass (lastMappingIDToInsert) is taken only from a mapping that was just created; R6 the flood-limit UPDATE and INSERT store the same (step-rounded current) time, so a step's bonus is credited once."
	c.Rule("C19-R5", "K1", 1, "every store to DBV2.lastMappingIDToInsert (outside the constructor) is dominated by IsCreated() / the ok result of AsCreated()")
	n := 0
	for _, w := range core.FieldStoresU(c.Prog.FuncsIn("internal/metadata"), "internal/metadata.DBV2", "lastMappingIDToInsert") {
		if _, isConst := w.Val.(*ssa.Const); isConst {
			continue
		}
		n++
		ok := core.Holds(w.Instr.Block(), core.T("*MetadataGetMappingResponse).IsCreated(*)"))
		for _, g := range core.Facts(w.Instr.Block()) {
			if len(g.Alts) == 1 && g.Alts[0].Pol {
				if ex, isEx := g.Alts[0].Cond.(*ssa.Extract); isEx && ex.Index == 1 {
					if call, isCall := ex.Tuple.(*ssa.Call); isCall && strings.HasSuffix(core.CalleeName(&call.Call), ").AsCreated") {
						ok = true
					}
				}
			}
		}
		c.Require(ok, "C19-R5", fmt.Sprintf("%s/store:lastMappingIDToInsert#%d", core.FuncName(w.Fn), n), w.Instr.Pos(), "bypass id only from a created mapping",
			"lastMappingIDToInsert is set from a response that is not a creation: looking up an old key (id <= global budget) re-enables the global-budget bypass and refills the metric's budget")
	}
	if n == 0 {
		c.Undecided("C19-R5", "internal/metadata/DBV2.lastMappingIDToInsert", 0, "no store found")
	}
	c.Rule("C19-R6", "K8 sibling agreement", 1, "all sqlite.Int64(\"$t\", v) bindings of the flood_limits statements in getOrCreateMapping bind the same value")
	if fn := need(c, "C19-R6", "internal/metadata.getOrCreateMapping"); fn != nil {
		vals := map[string]bool{}
		for _, s := range core.CallsTo(fn, "internal/sqlite.Int64") {
			if k, ok := s.Arg(0).(*ssa.Const); ok && strings.Contains(k.Value.ExactString(), "$t") {
				vals[core.Expr(s.Arg(1))] = true
			}
		}
		c.Require(len(vals) == 1, "C19-R6", "internal/metadata.getOrCreateMapping/bind:$t", fn.Pos(), "UPDATE and INSERT store the same time",
			fmt.Sprintf("the flood-limit statements store different times %v: an UPDATE that keeps the old time credits the bonus of the same elapsed step again on every request", core.SortedKeys(vals)))
	}
	// R7: budget and its reference time are written together. Keyed by function and statement
	// ordinal so that it is independent of the F7 known-finding sites (which are keyed by Exec call).
	c.Rule("C19-R7", "K11 embedded-SQL shape + K6 co-update", 4, "every INSERT/UPDATE on flood_limits in package metadata parses and writes both count_free and last_time_update")
	n = 0
	for _, fn := range c.Prog.FuncsIn("internal/metadata") {
		k := 0
		for _, s := range core.SQLSites(fn) {
			if !strings.Contains(strings.ToLower(s.SQL), "flood_limits") {
				continue
			}
			if s.Stmt != nil && (!s.Stmt.IsWrite() || s.Stmt.Verb == "DELETE" || strings.HasPrefix(s.Stmt.Verb, "CREATE")) {
				continue
			}
			k++
			n++
			site := fmt.Sprintf("%s/flood_limits-write#%d", core.FuncName(fn), k)
			if s.Stmt == nil {
				c.Undecided("C19-R7", site, s.Pos(), fmt.Sprintf("statement on flood_limits is not modelled (%v): cannot show that budget and time are written together", s.ParseErr))
				continue
			}
			cols := map[string]bool{}
			for _, col := range s.Stmt.InsertCols() {
				cols[strings.ToLower(col)] = true
			}
			for _, col := range s.Stmt.SetCols() {
				cols[strings.ToLower(col)] = true
			}
			c.Require(cols["count_free"] && cols["last_time_update"], "C19-R7", site, s.Pos(), "budget and reference time written together",
				"the statement `"+s.Stmt.Shape()+"` writes only one of count_free / last_time_update: the next request computes the bonus from a reference time that does not belong to the stored budget (steps before a reset are credited again, or elapsed steps are lost)")
		}
	}
	if n == 0 {
		c.Undecided("C19-R7", "internal/metadata/flood_limits", 0, "no write statement on flood_limits found")
	}
}
