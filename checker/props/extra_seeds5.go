package props

import (
	"fmt"
	"go/token"
	"go/types"
	"strings"

	"golang.org/x/tools/go/ssa"

	"shverif/core"
)

// Fifth batch: rules for round-2 seeds of C03, C24, C25, C27, C31; see DESIGN.md §11.

func init() {
	Extend("C03", runC03Extra5,
		Mutant{Name: "seed-C03c-host-argument-built-in-fixed-buffer", File: "internal/aggregator/aggregator_insert.go", Rule: "C03-R7",
			Old: "	res = append(res, 1)\n	res = append(res, tag.S...)\n	res = chutil.AppendArgMinMaxBytesFloat32(res[:wasLen], res[wasLen+4:], value)\n	return res\n",
			New: "	var arg [format.MaxStringLen]byte\n	arg[0] = 1\n	n := copy(arg[1:], tag.S)\n	return chutil.AppendArgMinMaxBytesFloat32(res[:wasLen], arg[:1+n], value)\n"})
	Extend("C24", runC24Extra5,
		Mutant{Name: "seed-C24c-size-credited-for-replaced-rows", File: "internal/api/pcache.go", Rule: "C24-R5",
			Old: "	if _, ok := e.rows[tr]; !ok {\n		c.size += 1 + len(rows)\n	} else {\n		c.size += len(rows)\n	}",
			New: "	if old, ok := e.rows[tr]; !ok {\n		c.size += 1 + len(rows)\n	} else {\n		c.size += len(rows) - len(old.rows)\n	}"})
	Extend("C25", runC25Extra5,
		Mutant{Name: "seed-C25d-bucket-skipped-when-either-end-outside", File: "internal/api/table.go", Rule: "C25-R8",
			Old: "		if len(rows) > 0 && !inRange(rows[0], from, to, fromEnd) &&\n			!inRange(rows[len(rows)-1], from, to, fromEnd) {",
			New: "		if len(rows) > 0 && !(inRange(rows[0], from, to, fromEnd) &&\n			inRange(rows[len(rows)-1], from, to, fromEnd)) {"})
	Extend("C27", runC27Extra5,
		Mutant{Name: "seed-C27c-window-step-read-at-left-edge", File: "internal/promql/functions.go", Rule: "C27-R8",
			Old: "		wnd.s = wnd.t[r] - wnd.t[r-1]", New: "		wnd.s = wnd.t[l] - wnd.t[l-1]"},
		Mutant{Name: "seed-C27d-topk-ranks-empty-series", File: "internal/promql/functions.go", Rule: "C27-R7", Occurrence: 0,
			Old: "	ev.removeEmptySeries(res)\n	type (\n		sortedSeriesGroup struct {", New: "	type (\n		sortedSeriesGroup struct {"})
	Extend("C31", runC31Extra5,
		Mutant{Name: "seed-C31c-drops-accounted-on-active-sender", File: "internal/balancer/egress.go", Rule: "C31-R7",
			Old: "	p.primary.wouldBlockBytes.Add(int64(len(pkt)))", New: "	(*p.primPtr).wouldBlockBytes.Add(int64(len(pkt)))"},
		Mutant{Name: "seed-C31d-resend-count-from-unadvanced-copy", File: "internal/balancer/egress.go", Rule: "C31-R6",
			Old: "			_, err := bufs.WriteTo(conn)", New: "			rest := bufs\n			_, err := rest.WriteTo(conn)"})
}

// C03-R7: no tag string is copied into a fixed-size buffer on its way into the insert body.
func runC03Extra5(c *core.Check) {
	c.Decides += " R7 in the aggregator's insert encoders no string/bytes value is copied with copy() into a slice of a fixed-size local array (copy truncates silently; a 128-byte host name would lose its last byte behind the marker byte)."
	c.Rule("C03-R7", "K7 forbidden construct", 1, "no builtin copy(dst, src) in aggregator_insert.go whose dst is a slice of a local array")
	n := 0
	for _, fn := range c.Prog.FuncsIn("internal/aggregator") {
		if !strings.HasSuffix(c.Prog.Fset.Position(fn.Pos()).Filename, "aggregator_insert.go") {
			continue
		}
		n++
		for _, s := range core.CallsTo(fn, "builtin copy") {
			dst := s.Arg(0)
			if sl, ok := dst.(*ssa.Slice); ok {
				if a, isA := sl.X.(*ssa.Alloc); isA {
					if pt, isP := a.Type().Underlying().(*types.Pointer); isP {
						if _, isArr := pt.Elem().Underlying().(*types.Array); isArr {
							c.Fail("C03-R7", core.FuncName(fn)+"/copy-into-array", s.Pos(), "a value is copied into the fixed-size buffer "+core.Expr(sl)+" ("+pt.Elem().String()+"): copy truncates silently, a maximum-length string loses bytes and the row decodes to a different host/tag")
						}
					}
				}
			}
		}
	}
	c.Require(n > 0, "C03-R7", "internal/aggregator/aggregator_insert.go/copy", 0, fmt.Sprintf("%d encoder functions scanned, no copy into a fixed-size buffer", n), "no function of aggregator_insert.go found")
}

// C24-R5: the cache's total size and the per-entry size grow by the same amount.
func runC24Extra5(c *core.Check) {
	c.Decides += " R5 pointsCache.get adds to c.size exactly what it adds to the entry's rowsSize (plus 1 for a new range): evictLocked gives back rowsSize + number of ranges, so the total can neither drift below the real footprint nor go negative."
	c.Rule("C24-R5", "K6 co-update (equal increments)", 2, "every store c.size <- c.size + X in pointsCache.get has X = D or 1 + D where e.rowsSize <- e.rowsSize + D")
	fn := need(c, "C24-R5", "internal/api.(*pointsCache).get")
	if fn == nil {
		return
	}
	incOf := func(st *ssa.Store) (ssa.Value, bool) {
		b, ok := st.Val.(*ssa.BinOp)
		if !ok || b.Op != token.ADD {
			return nil, false
		}
		if ld, isLd := b.X.(*ssa.UnOp); isLd && ld.X == st.Addr {
			return b.Y, true
		}
		if ld, isLd := b.Y.(*ssa.UnOp); isLd && ld.X == st.Addr {
			return b.X, true
		}
		if ld, isLd := b.X.(*ssa.UnOp); isLd && core.Expr(ld.X) == core.Expr(st.Addr) {
			return b.Y, true
		}
		return nil, false
	}
	var d []string
	var dVal ssa.Value
	for _, w := range core.FieldStoresU([]*ssa.Function{fn}, "internal/api.cacheEntry", "rowsSize") {
		if inc, ok := incOf(w.Instr.(*ssa.Store)); ok {
			d = append(d, core.Expr(inc))
			dVal = inc
		} else {
			d = append(d, "?"+core.Expr(w.Val))
		}
	}
	sameAmount := func(a, b ssa.Value) bool {
		if a == b {
			return true
		}
		ca, okA := a.(*ssa.Call)
		cb, okB := b.(*ssa.Call)
		return okA && okB && core.CalleeName(&ca.Call) == "builtin len" && core.CalleeName(&cb.Call) == "builtin len" && ca.Call.Args[0] == cb.Call.Args[0]
	}
	if len(d) != 1 {
		c.Undecided("C24-R5", "internal/api.(*pointsCache).get/rowsSize", fn.Pos(), fmt.Sprintf("expected one increment of rowsSize, found %v", d))
		return
	}
	n := 0
	for _, w := range core.FieldStoresU([]*ssa.Function{fn}, "internal/api.pointsCache", "size") {
		st := w.Instr.(*ssa.Store)
		if b, isB := st.Val.(*ssa.BinOp); isB && b.Op == token.SUB {
			continue // eviction gives back what evictLocked reports
		}
		n++
		inc, ok := incOf(st)
		txt := "?"
		if ok {
			txt = core.Expr(inc)
		}
		okI := ok && dVal != nil && sameAmount(inc, dVal)
		if b, isB := inc.(*ssa.BinOp); ok && !okI && isB && b.Op == token.ADD {
			okI = (core.IsConstInt(b.X, 1) && sameAmount(b.Y, dVal)) || (core.IsConstInt(b.Y, 1) && sameAmount(b.X, dVal))
		}
		c.Require(okI, "C24-R5", fmt.Sprintf("internal/api.(*pointsCache).get/size-increment#%d", n), st.Pos(), "total grows by the entry's increment",
			"c.size grows by "+txt+" while the entry's rowsSize grows by "+d[0]+": evicting the entry later subtracts more than was added, the total drifts below the real footprint and the eviction loop stops too early (the cache exceeds its bound)")
	}
	if n == 0 {
		c.Undecided("C24-R5", "internal/api.(*pointsCache).get/size-increment", fn.Pos(), "no increment of c.size found")
	}
}

// C25-R8: a time bucket is skipped only when both its first and last row are outside the window.
func runC25Extra5(c *core.Check) {
	c.Decides += " R8 limitQueries skips a whole time bucket only under !inRange(first row) && !inRange(last row) (a bucket with one end inside the window is scanned row by row)."
	c.Rule("C25-R8", "K1 guard dominance (edge)", 1, "every back edge of the bucket loop of limitQueries that bypasses the row loop is taken under !inRange(rows[0]) and !inRange(rows[len-1])")
	fn := need(c, "C25-R8", "internal/api.limitQueries")
	if fn == nil {
		return
	}
	var header *ssa.BasicBlock
	for _, b := range fn.Blocks {
		if len(b.Instrs) == 0 {
			continue
		}
		if i, ok := b.Instrs[len(b.Instrs)-1].(*ssa.If); ok && core.Glob("(* < builtin len({0:[][]api.tsSelectRow}))", core.NormLit(i.Cond, true).Text) {
			header = b
		}
	}
	lp := (*core.Loop)(nil)
	if header != nil {
		lp = core.LoopOf(header)
	}
	if lp == nil {
		c.Undecided("C25-R8", "internal/api.limitQueries/bucket-loop", fn.Pos(), "loop over the time buckets not found")
		return
	}
	n := 0
	for _, l := range lp.Latches {
		if core.LoopOf(l) != nil {
			continue // header of the row loop: the bucket was scanned
		}
		n++
		var lits []core.Lit
		for _, g := range core.Facts(l) {
			if len(g.Alts) == 1 {
				lits = append(lits, g.Alts[0])
			}
		}
		if i, ok := l.Instrs[len(l.Instrs)-1].(*ssa.If); ok {
			lits = append(lits, core.NormLit(i.Cond, l.Succs[0] == header))
		}
		first, last := false, false
		for _, x := range lits {
			if x.Pol || !strings.HasPrefix(x.Text, "internal/api.inRange(") {
				continue
			}
			if strings.Contains(x.Text, "][0], ") {
				first = true
			}
			if strings.Contains(x.Text, "][(builtin len(") {
				last = true
			}
		}
		c.Require(first && last, "C25-R8", fmt.Sprintf("internal/api.limitQueries/bucket-skip#%d", n), l.Instrs[0].Pos(), "bucket skipped only when both ends are outside",
			fmt.Sprintf("a time bucket is skipped without both !inRange(first) and !inRange(last) being established (first=%v last=%v): rows of a timestamp that a page boundary cuts through are dropped, paging loses rows", first, last))
	}
	if n == 0 {
		c.Undecided("C25-R8", "internal/api.limitQueries/bucket-skip", fn.Pos(), "no bucket-skip edge found")
	}
}

// C27-R7/R8.
func runC27Extra5(c *core.Check) {
	c.Decides += " R7 funcTopK removes series without points from the evaluated operand before grouping and ranking them (an empty series has the lowest weight and would be chosen by bottomk); R8 window.moveOneLeft takes the bucket width wnd.s at the index it stores as the right edge wnd.r."
	c.Rule("C27-R7", "K6 must-pass-through", 1, "in funcTopK no Series.group call is reachable from ev.eval without ev.removeEmptySeries on its result")
	if fn := need(c, "C27-R7", "internal/promql.funcTopK"); fn != nil {
		evals := core.CallsTo(fn, "internal/promql.(*evaluator).eval")
		isGroup := core.IsCallTo("internal/promql.(*Series).group")
		if len(evals) == 0 {
			c.Undecided("C27-R7", "internal/promql.funcTopK/eval", fn.Pos(), "evaluation of the operand not found")
		}
		for i, e := range evals {
			res := e.Value()
			isRemove := func(in ssa.Instruction) bool {
				call, ok := in.(*ssa.Call)
				if !ok || core.CalleeName(&call.Call) != "internal/promql.(*evaluator).removeEmptySeries" {
					return false
				}
				return len(call.Call.Args) == 2 && core.Derives(call.Call.Args[1], res)
			}
			p := core.ReachWithout(e.Instr, isGroup, isRemove)
			c.Require(p == nil, "C27-R7", fmt.Sprintf("internal/promql.funcTopK/eval#%d", i+1), e.Pos(), "empty series removed before ranking",
				"the evaluated series are grouped and ranked without removeEmptySeries ("+pathStr(p)+"): bottomk picks a series that has no points in view, which is dropped from the final result, so fewer than k series are returned")
		}
	}
	c.Rule("C27-R8", "K7 provenance", 1, "in window.moveOneLeft the store wnd.s <- t[A] - t[A-1] uses for A the value stored into wnd.r")
	if fn := need(c, "C27-R8", "internal/promql.(*window).moveOneLeft"); fn != nil {
		var rVals []ssa.Value
		for _, w := range core.FieldStoresU([]*ssa.Function{fn}, "internal/promql.window", "r") {
			rVals = append(rVals, w.Val)
		}
		n := 0
		for _, w := range core.FieldStoresU([]*ssa.Function{fn}, "internal/promql.window", "s") {
			n++
			okS := false
			why := core.Expr(w.Val)
			if b, isB := w.Val.(*ssa.BinOp); isB && b.Op == token.SUB {
				ix := func(v ssa.Value) ssa.Value {
					if ld, isLd := v.(*ssa.UnOp); isLd {
						if ia, isIA := ld.X.(*ssa.IndexAddr); isIA {
							return ia.Index
						}
					}
					return nil
				}
				a, a1 := ix(b.X), ix(b.Y)
				if a != nil && a1 != nil {
					if m, isM := a1.(*ssa.BinOp); isM && m.Op == token.SUB && m.X == a && core.IsConstInt(m.Y, 1) {
						for _, r := range rVals {
							if r == a {
								okS = true
							}
						}
					}
				}
			}
			c.Require(okS && len(rVals) == 1, "C27-R8", fmt.Sprintf("internal/promql.(*window).moveOneLeft/store:s#%d", n), w.Instr.Pos(), "bucket width taken at the right edge",
				"wnd.s is set to "+why+", which is not t[r]-t[r-1] for the r stored as the window's right edge: where the bucket width changes (switch of level of detail) the window is extended with the wrong width and over-time functions see too few or too many points")
		}
		if n == 0 {
			c.Undecided("C27-R8", "internal/promql.(*window).moveOneLeft/store:s", fn.Pos(), "no store to window.s found")
		}
	}
}

// C31-R6/R7.
func runC31Extra5(c *core.Check) {
	c.Decides += " R6 the sender's pop callback derives the number of packets to re-send from the very net.Buffers value that WriteTo advanced; R7 packets dropped by writeLocked are accounted on the pool's fixed primary sender (the one that always has an upstream address and therefore reports them), not on whichever sender is currently active."
	c.Rule("C31-R6", "K7 provenance (same cell)", 1, "in every function of package balancer calling net.Buffers.WriteTo on cell X, the returned count derives from len(*X)")
	n := 0
	for _, fn := range c.Prog.FuncsIn("internal/balancer") {
		for _, s := range core.CallsTo(fn, "net.(*Buffers).WriteTo") {
			n++
			cell := s.Arg(0)
			okR := true
			cnt := 0
			for _, r := range core.Returns(fn) {
				vals := core.ReturnedValues(r)
				if len(vals) == 0 {
					continue
				}
				if _, isInt := vals[0].Type().Underlying().(*types.Basic); !isInt {
					continue
				}
				cnt++
				if !derivesFromLenOfCell(vals[0], cell, map[ssa.Value]bool{}) {
					okR = false
				}
			}
			c.Require(okR && cnt > 0, "C31-R6", fmt.Sprintf("%s/WriteTo#%d/remaining", core.FuncName(fn), n), s.Pos(), "re-send count read from the advanced buffers",
				"the count returned after WriteTo("+core.Expr(cell)+") is not computed from the length of that same value: WriteTo advances its receiver past what was written; measured on a copy, a write error in the middle of a batch makes the sender re-send packets the upstream already consumed")
		}
	}
	if n == 0 {
		c.Undecided("C31-R6", "internal/balancer/net.Buffers.WriteTo", 0, "no call found")
	}
	c.Rule("C31-R7", "K7 provenance", 1, "the receiver of wouldBlockBytes.Add in tcpPool.writeLocked is the field p.primary.wouldBlockBytes")
	if fn := need(c, "C31-R7", "internal/balancer.(*tcpPool).writeLocked"); fn != nil {
		m := 0
		for _, s := range core.CallsTo(fn, "sync/atomic.(*Int64).Add") {
			if !strings.HasSuffix(core.Expr(s.Arg(0)), ".wouldBlockBytes") {
				continue
			}
			m++
			e := core.Expr(s.Arg(0))
			c.Require(strings.HasSuffix(e, "}.primary.wouldBlockBytes"), "C31-R7", fmt.Sprintf("internal/balancer.(*tcpPool).writeLocked/wouldBlockBytes#%d", m), s.Pos(), "drops accounted on the fixed primary sender",
				"dropped bytes are accounted on "+e+": after a failover the active sender can be the secondary, which with a single upstream address never connects and never sends the drop report")
		}
		if m == 0 {
			c.Undecided("C31-R7", "internal/balancer.(*tcpPool).writeLocked/wouldBlockBytes", fn.Pos(), "no accounting of dropped bytes found")
		}
	}
}

func derivesFromLenOfCell(v, cell ssa.Value, seen map[ssa.Value]bool) bool {
	if seen[v] {
		return false
	}
	seen[v] = true
	switch x := v.(type) {
	case *ssa.Call:
		if core.CalleeName(&x.Call) == "builtin len" && len(x.Call.Args) == 1 {
			if ld, ok := x.Call.Args[0].(*ssa.UnOp); ok && ld.Op == token.MUL && ld.X == cell {
				return true
			}
		}
	case *ssa.BinOp:
		return derivesFromLenOfCell(x.X, cell, seen) || derivesFromLenOfCell(x.Y, cell, seen)
	case *ssa.Convert:
		return derivesFromLenOfCell(x.X, cell, seen)
	case *ssa.Phi:
		for _, e := range x.Edges {
			if !derivesFromLenOfCell(e, cell, seen) {
				return false
			}
		}
		return len(x.Edges) > 0
	}
	return false
}
