package props

import (
	"fmt"
	"go/token"
	"go/types"
	"strings"

	"golang.org/x/tools/go/ssa"

	"shverif/core"
)

// Fifth batch: rules for round-2 seeds of C03, C24, C25, C27, C31; see DESIGN.md §11.

func init() {
	Extend("C03", runC03Extra5,
		Mutant{Name: "seed-C03c-host-argument-built-in-fixed-buffer", File: "internal/aggregator/aggregator_insert.go", Rule: "C03-R7",
			Old: "	res = append(res, 1)\n	res = append(res, tag.S...)\n	res = chutil.AppendArgMinMaxBytesFloat32(res[:wasLen], res[wasLen+4:], value)\n	return res\n",
			New: "	var arg [format.MaxStringLen]byte\n	arg[0] = 1\n	n := copy(arg[1:], tag.S)\n	return chutil.AppendArgMinMaxBytesFloat32(res[:wasLen], arg[:1+n], value)\n"})
	Extend("C24", runC24Extra5,
		Mutant{Name: "seed-C24c-size-credited-for-replaced-rows", File: "internal/api/pcache.go", Rule: "C24-R5",
			Old: "	if _, ok := e.rows[tr]; !ok {\n		c.size += 1 + len(rows)\n	} else {\n		c.size += len(rows)\n	}",
			New: "	if old, ok := e.rows[tr]; !ok {\n		c.size += 1 + len(rows)\n	} else {\n		c.size += len(rows) - len(old.rows)\n	}"})
	Extend("C25", runC25Extra5,
		Mutant{Name: "seed-C25d-bucket-skipped-when-either-end-outside", File: "internal/api/table.go", Rule: "C25-R8",
			Old: "side != 0 && side == rowSide(rows[len(rows)-1], from, to, fromEnd) {", New: "side != 0 || rowSide(rows[len(rows)-1], from, to, fromEnd) != 0 {"},
		Mutant{Name: "revert-F25-has-more-before-window-test", File: "internal/api/table.go", Rule: "C25-R9",
			Old: "			if !inRange(row, from, to, fromEnd) {\n				continue\n			}\n			if len(limitedRows) == limit {\n				return limitedRows, true // a row of the window lies beyond the limit\n			}\n",
			New: "			if len(limitedRows) == limit {\n				return limitedRows, true\n			}\n			if !inRange(row, from, to, fromEnd) {\n				continue\n			}\n"},
		Mutant{Name: "revert-F25-zero-limit-has-more-for-any-bucket", File: "internal/api/table.go", Rule: "C25-R9",
			Old: "	if limit <= 0 {\n		for _, rows := range rowsByTime {", New: "	if limit <= 0 {\n		if len(rowsByTime) > 0 {\n			return nil, true\n		}\n		for _, rows := range rowsByTime {"},
		Mutant{Name: "revert-F24-bucket-skipped-when-both-ends-outside-on-any-side", File: "internal/api/table.go", Rule: "C25-R8",
			Old: "side != 0 && side == rowSide(rows[len(rows)-1], from, to, fromEnd) {", New: "side != 0 && rowSide(rows[len(rows)-1], from, to, fromEnd) != 0 {"})
	Extend("C27", runC27Extra5,
		Mutant{Name: "seed-C27c-window-step-read-at-left-edge", File: "internal/promql/functions.go", Rule: "C27-R8",
			Old: "		wnd.s = wnd.t[r] - wnd.t[r-1]", New: "		wnd.s = wnd.t[l] - wnd.t[l-1]"},
		Mutant{Name: "seed-C27d-topk-ranks-empty-series", File: "internal/promql/functions.go", Rule: "C27-R7", Occurrence: 0,
			Old: "	ev.removeEmptySeries(res)\n	type (\n		sortedSeriesGroup struct {", New: "	type (\n		sortedSeriesGroup struct {"})
	Extend("C31", runC31Extra5,
		Mutant{Name: "revert-F23-write-deadline-never-armed", File: "internal/balancer/egress.go", Rule: "C31-R8",
			Old: "		if writeDeadline.IsZero() || s.cfg.WriteTimeout-time.Until(writeDeadline) > writeTimeoutAccuracy {", New: "		if s.cfg.WriteTimeout-time.Until(writeDeadline) > writeTimeoutAccuracy {"},
		Mutant{Name: "seed-C31c-drops-accounted-on-active-sender", File: "internal/balancer/egress.go", Rule: "C31-R7",
			Old: "	p.primary.wouldBlockBytes.Add(int64(len(pkt)))", New: "	(*p.primPtr).wouldBlockBytes.Add(int64(len(pkt)))"},
		Mutant{Name: "seed-C31d-resend-count-from-unadvanced-copy", File: "internal/balancer/egress.go", Rule: "C31-R6",
			Old: "			_, err := bufs.WriteTo(conn)", New: "			rest := bufs\n			_, err := rest.WriteTo(conn)"})
}

// C03-R7: no tag string is copied into a fixed-size buffer on its way into the insert body.
func runC03Extra5(c *core.Check) {
	c.Decides += " R7 in the aggregator's insert encoders no string/bytes value is copied with copy() into a slice of a fixed-size local array (copy truncates silently; a 128-byte host name would lose its last byte behind the marker byte)."
	c.Rule("C03-R7", "K7 forbidden construct", 1, "no builtin copy(dst, src) in aggregator_insert.go whose dst is a slice of a local array")
	n := 0
	for _, fn := range c.Prog.FuncsIn("internal/aggregator") {
		if !strings.HasSuffix(c.Prog.Fset.Position(fn.Pos()).Filename, "aggregator_insert.go") {
			continue
		}
		n++
		for _, s := range core.CallsTo(fn, "builtin copy") {
			dst := s.Arg(0)
			if sl, ok := dst.(*ssa.Slice); ok {
				if a, isA := sl.X.(*ssa.Alloc); isA {
					if pt, isP := a.Type().Underlying().(*types.Pointer); isP {
						if _, isArr := pt.Elem().Underlying().(*types.Array); isArr {
							c.Fail("C03-R7", core.FuncName(fn)+"/copy-into-array", s.Pos(), "a value is copied into the fixed-size buffer "+core.Expr(sl)+" ("+pt.Elem().String()+"): copy truncates silently, a maximum-length string loses bytes and the row decodes to a different host/tag")
						}
					}
				}
			}
		}
	}
	c.Require(n > 0, "C03-R7", "internal/aggregator/aggregator_insert.go/copy", 0, fmt.Sprintf("%d encoder functions scanned, no copy into a fixed-size buffer", n), "no function of aggregator_insert.go found")
}

// C24-R5: the cache's total size and the per-entry size grow by the same amount.
func runC24Extra5(c *core.Check) {
	c.Decides += " R5 pointsCache.get adds to c.size exactly what it adds to the entry's rowsSize (plus 1 for a new range): evictLocked gives back rowsSize + number of ranges, so the total can neither drift below the real footprint nor go negative."
	c.Rule("C24-R5", "K6 co-update (equal increments)", 2, "every store c.size <- c.size + X in pointsCache.get has X = D or 1 + D where e.rowsSize <- e.rowsSize + D")
	fn := need(c, "C24-R5", "internal/api.(*pointsCache).get")
	if fn == nil {
		return
	}
	incOf := func(st *ssa.Store) (ssa.Value, bool) {
		b, ok := st.Val.(*ssa.BinOp)
		if !ok || b.Op != token.ADD {
			return nil, false
		}
		if ld, isLd := b.X.(*ssa.UnOp); isLd && ld.X == st.Addr {
			return b.Y, true
		}
		if ld, isLd := b.Y.(*ssa.UnOp); isLd && ld.X == st.Addr {
			return b.X, true
		}
		if ld, isLd := b.X.(*ssa.UnOp); isLd && core.Expr(ld.X) == core.Expr(st.Addr) {
			return b.Y, true
		}
		return nil, false
	}
	var d []string
	var dVal ssa.Value
	for _, w := range core.FieldStoresU([]*ssa.Function{fn}, "internal/api.cacheEntry", "rowsSize") {
		if inc, ok := incOf(w.Instr.(*ssa.Store)); ok {
			d = append(d, core.Expr(inc))
			dVal = inc
		} else {
			d = append(d, "?"+core.Expr(w.Val))
		}
	}
	sameAmount := func(a, b ssa.Value) bool {
		if a == b {
			return true
		}
		ca, okA := a.(*ssa.Call)
		cb, okB := b.(*ssa.Call)
		return okA && okB && core.CalleeName(&ca.Call) == "builtin len" && core.CalleeName(&cb.Call) == "builtin len" && ca.Call.Args[0] == cb.Call.Args[0]
	}
	if len(d) != 1 {
		c.Undecided("C24-R5", "internal/api.(*pointsCache).get/rowsSize", fn.Pos(), fmt.Sprintf("expected one increment of rowsSize, found %v", d))
		return
	}
	n := 0
	for _, w := range core.FieldStoresU([]*ssa.Function{fn}, "internal/api.pointsCache", "size") {
		st := w.Instr.(*ssa.Store)
		if b, isB := st.Val.(*ssa.BinOp); isB && b.Op == token.SUB {
			continue // eviction gives back what evictLocked reports
		}
		n++
		inc, ok := incOf(st)
		txt := "?"
		if ok {
			txt = core.Expr(inc)
		}
		okI := ok && dVal != nil && sameAmount(inc, dVal)
		if b, isB := inc.(*ssa.BinOp); ok && !okI && isB && b.Op == token.ADD {
			okI = (core.IsConstInt(b.X, 1) && sameAmount(b.Y, dVal)) || (core.IsConstInt(b.Y, 1) && sameAmount(b.X, dVal))
		}
		c.Require(okI, "C24-R5", fmt.Sprintf("internal/api.(*pointsCache).get/size-increment#%d", n), st.Pos(), "total grows by the entry's increment",
			"c.size grows by "+txt+" while the entry's rowsSize grows by "+d[0]+": evicting the entry later subtracts more than was added, the total drifts below the real footprint and the eviction loop stops too early (the cache exceeds its bound)")
	}
	if n == 0 {
		c.Undecided("C24-R5", "internal/api.(*pointsCache).get/size-increment", fn.Pos(), "no increment of c.size found")
	}
}

// C25-R8: a time bucket is skipped only when both its first and last row are outside the window.
func runC25Extra5(c *core.Check) {
	c.Decides += " R8 limitQueries skips a whole time bucket only when its first row is outside the window and its last row is outside on the same side (a bucket with one end inside the window, or with the window inside it, is scanned row by row)."
	c.Rule("C25-R8", "K1 guard dominance (edge)", 1, "every back edge of the bucket loop of limitQueries that bypasses the row loop is taken under rowSide(rows[0]) != 0 and rowSide(rows[0]) == rowSide(rows[len-1])")
	fn := need(c, "C25-R8", "internal/api.limitQueries")
	if fn == nil {
		return
	}
	var header *ssa.BasicBlock
	for _, b := range fn.Blocks {
		if len(b.Instrs) == 0 {
			continue
		}
		if i, ok := b.Instrs[len(b.Instrs)-1].(*ssa.If); ok && core.Glob("(* < builtin len({0:[][]api.tsSelectRow}))", core.NormLit(i.Cond, true).Text) {
			header = b
		}
	}
	lp := (*core.Loop)(nil)
	if header != nil {
		lp = core.LoopOf(header)
	}
	if lp == nil {
		c.Undecided("C25-R8", "internal/api.limitQueries/bucket-loop", fn.Pos(), "loop over the time buckets not found")
		return
	}
	n := 0
	for _, l := range lp.Latches {
		if core.LoopOf(l) != nil {
			continue // header of the row loop: the bucket was scanned
		}
		n++
		var lits []core.Lit
		for _, g := range core.Facts(l) {
			if len(g.Alts) == 1 {
				lits = append(lits, g.Alts[0])
			}
		}
		if i, ok := l.Instrs[len(l.Instrs)-1].(*ssa.If); ok {
			lits = append(lits, core.NormLit(i.Cond, l.Succs[0] == header))
		}
		// the first row is outside the window (rowSide(first) != 0) and the last row is on the same side
		first, same := false, false
		for _, x := range lits {
			if x.Op != token.EQL || x.X == nil {
				continue
			}
			xs, ys := core.Expr(x.X), core.Expr(x.Y)
			isSide := func(s, idx string) bool { return strings.HasPrefix(s, "internal/api.rowSide(") && strings.Contains(s, idx) }
			if !x.Pol && isSide(xs, "][0], ") && ys == "0" {
				first = true
			}
			if x.Pol && ((isSide(xs, "][0], ") && isSide(ys, "][(builtin len(")) || (isSide(ys, "][0], ") && isSide(xs, "][(builtin len("))) {
				same = true
			}
		}
		c.Require(first && same, "C25-R8", fmt.Sprintf("internal/api.limitQueries/bucket-skip#%d", n), l.Instrs[0].Pos(), "bucket skipped only when it lies wholly on one side of the window",
			fmt.Sprintf("a time bucket is skipped without rowSide(first) != 0 (%v) and rowSide(first) == rowSide(last) (%v) being established: rows of a timestamp that a page boundary cuts through (or that contains the whole window) are dropped, paging loses rows", first, same))
	}
	if n == 0 {
		c.Undecided("C25-R8", "internal/api.limitQueries/bucket-skip", fn.Pos(), "no bucket-skip edge found")
	}
	// R9 (F25): has-more is reported only on account of a row inside the window.
	c.Decides += " R9 limitQueries reports has-more only at a row for which inRange holds (rows outside the window never set the flag, also when the limit is zero)."
	c.Rule("C25-R9", "K1 guard dominance", 2, "every return of limitQueries whose has-more result is not the constant false is dominated by inRange(row) == true")
	m := 0
	for _, r := range core.Returns(fn) {
		vals := core.ReturnedValues(r)
		if len(vals) != 2 || core.ConstBool(vals[1], false) {
			continue
		}
		m++
		okH := core.ConstBool(vals[1], true) && core.Holds(r.Block(), core.T("internal/api.inRange(*)"))
		c.Require(okH, "C25-R9", fmt.Sprintf("internal/api.limitQueries/has-more#%d", m), r.Pos(), "has-more only for a row of the window",
			"has-more is returned as "+core.Expr(vals[1])+" without inRange(row) being established for some row: when the limit is reached (or is zero) and only rows outside the requested window remain, the client is told that more rows exist")
	}
	if m == 0 {
		c.Undecided("C25-R9", "internal/api.limitQueries/has-more", fn.Pos(), "no return with a has-more result found")
	}
}

// C27-R7/R8.
func runC27Extra5(c *core.Check) {
	c.Decides += " R7 funcTopK removes series without points from the evaluated operand before grouping and ranking them (an empty series has the lowest weight and would be chosen by bottomk); R8 window.moveOneLeft takes the bucket width wnd.s at the index it stores as the right edge wnd.r."
	c.Rule("C27-R7", "K6 must-pass-through", 1, "in funcTopK no Series.group call is reachable from ev.eval without ev.removeEmptySeries on its result")
	if fn := need(c, "C27-R7", "internal/promql.funcTopK"); fn != nil {
		evals := core.CallsTo(fn, "internal/promql.(*evaluator).eval")
		isGroup := core.IsCallTo("internal/promql.(*Series).group")
		if len(evals) == 0 {
			c.Undecided("C27-R7", "internal/promql.funcTopK/eval", fn.Pos(), "evaluation of the operand not found")
		}
		for i, e := range evals {
			res := e.Value()
			isRemove := func(in ssa.Instruction) bool {
				call, ok := in.(*ssa.Call)
				if !ok || core.CalleeName(&call.Call) != "internal/promql.(*evaluator).removeEmptySeries" {
					return false
				}
				return len(call.Call.Args) == 2 && core.Derives(call.Call.Args[1], res)
			}
			p := core.ReachWithout(e.Instr, isGroup, isRemove)
			c.Require(p == nil, "C27-R7", fmt.Sprintf("internal/promql.funcTopK/eval#%d", i+1), e.Pos(), "empty series removed before ranking",
				"the evaluated series are grouped and ranked without removeEmptySeries ("+pathStr(p)+"): bottomk picks a series that has no points in view, which is dropped from the final result, so fewer than k series are returned")
		}
	}
	c.Rule("C27-R8", "K7 provenance", 1, "in window.moveOneLeft the store wnd.s <- t[A] - t[A-1] uses for A the value stored into wnd.r")
	if fn := need(c, "C27-R8", "internal/promql.(*window).moveOneLeft"); fn != nil {
		var rVals []ssa.Value
		for _, w := range core.FieldStoresU([]*ssa.Function{fn}, "internal/promql.window", "r") {
			rVals = append(rVals, w.Val)
		}
		n := 0
		for _, w := range core.FieldStoresU([]*ssa.Function{fn}, "internal/promql.window", "s") {
			n++
			okS := false
			why := core.Expr(w.Val)
			if b, isB := w.Val.(*ssa.BinOp); isB && b.Op == token.SUB {
				ix := func(v ssa.Value) ssa.Value {
					if ld, isLd := v.(*ssa.UnOp); isLd {
						if ia, isIA := ld.X.(*ssa.IndexAddr); isIA {
							return ia.Index
						}
					}
					return nil
				}
				a, a1 := ix(b.X), ix(b.Y)
				if a != nil && a1 != nil {
					if m, isM := a1.(*ssa.BinOp); isM && m.Op == token.SUB && m.X == a && core.IsConstInt(m.Y, 1) {
						for _, r := range rVals {
							if r == a {
								okS = true
							}
						}
					}
				}
			}
			c.Require(okS && len(rVals) == 1, "C27-R8", fmt.Sprintf("internal/promql.(*window).moveOneLeft/store:s#%d", n), w.Instr.Pos(), "bucket width taken at the right edge",
				"wnd.s is set to "+why+", which is not t[r]-t[r-1] for the r stored as the window's right edge: where the bucket width changes (switch of level of detail) the window is extended with the wrong width and over-time functions see too few or too many points")
		}
		if n == 0 {
			c.Undecided("C27-R8", "internal/promql.(*window).moveOneLeft/store:s", fn.Pos(), "no store to window.s found")
		}
	}
}

// C31-R6/R7.
func runC31Extra5(c *core.Check) {
	defer runC31Deadline(c)
	c.Decides += " R6 the sender's pop callback derives the number of packets to re-send from the very net.Buffers value that WriteTo advanced; R7 packets dropped by writeLocked are accounted on the pool's fixed primary sender (the one that always has an upstream address and therefore reports them), not on whichever sender is currently active."
	c.Rule("C31-R6", "K7 provenance (same cell)", 1, "in every function of package balancer calling net.Buffers.WriteTo on cell X, the returned count derives from len(*X)")
	n := 0
	for _, fn := range c.Prog.FuncsIn("internal/balancer") {
		for _, s := range core.CallsTo(fn, "net.(*Buffers).WriteTo") {
			n++
			cell := s.Arg(0)
			okR := true
			cnt := 0
			for _, r := range core.Returns(fn) {
				vals := core.ReturnedValues(r)
				if len(vals) == 0 {
					continue
				}
				if _, isInt := vals[0].Type().Underlying().(*types.Basic); !isInt {
					continue
				}
				cnt++
				if !derivesFromLenOfCell(vals[0], cell, map[ssa.Value]bool{}) {
					okR = false
				}
			}
			c.Require(okR && cnt > 0, "C31-R6", fmt.Sprintf("%s/WriteTo#%d/remaining", core.FuncName(fn), n), s.Pos(), "re-send count read from the advanced buffers",
				"the count returned after WriteTo("+core.Expr(cell)+") is not computed from the length of that same value: WriteTo advances its receiver past what was written; measured on a copy, a write error in the middle of a batch makes the sender re-send packets the upstream already consumed")
		}
	}
	if n == 0 {
		c.Undecided("C31-R6", "internal/balancer/net.Buffers.WriteTo", 0, "no call found")
	}
	c.Rule("C31-R7", "K7 provenance", 1, "the receiver of wouldBlockBytes.Add in tcpPool.writeLocked is the field p.primary.wouldBlockBytes")
	if fn := need(c, "C31-R7", "internal/balancer.(*tcpPool).writeLocked"); fn != nil {
		m := 0
		for _, s := range core.CallsTo(fn, "sync/atomic.(*Int64).Add") {
			if !strings.HasSuffix(core.Expr(s.Arg(0)), ".wouldBlockBytes") {
				continue
			}
			m++
			e := core.Expr(s.Arg(0))
			c.Require(strings.HasSuffix(e, "}.primary.wouldBlockBytes"), "C31-R7", fmt.Sprintf("internal/balancer.(*tcpPool).writeLocked/wouldBlockBytes#%d", m), s.Pos(), "drops accounted on the fixed primary sender",
				"dropped bytes are accounted on "+e+": after a failover the active sender can be the secondary, which with a single upstream address never connects and never sends the drop report")
		}
		if m == 0 {
			c.Undecided("C31-R7", "internal/balancer.(*tcpPool).writeLocked/wouldBlockBytes", fn.Pos(), "no accounting of dropped bytes found")
		}
	}
}

// mayBeZeroTime reports whether v (through phis) can be the zero value constant of a struct type.
func mayBeZeroTime(v ssa.Value, seen map[ssa.Value]bool) bool {
	if seen[v] {
		return false
	}
	seen[v] = true
	switch x := v.(type) {
	case *ssa.Const:
		_, isStruct := x.Type().Underlying().(*types.Struct)
		return isStruct && x.Value == nil
	case *ssa.Phi:
		for _, e := range x.Edges {
			if mayBeZeroTime(e, seen) {
				return true
			}
		}
	}
	return false
}

// C31-R8 (F23): no arithmetic on the saturated distance to a zero time.
func runC31Deadline(c *core.Check) {
	c.Decides += " R8 in package balancer the duration to/from a time value that can still be the zero Time (time.Until / Time.Sub saturate at +-292 years) is never used in arithmetic unless IsZero() of that value was excluded: otherwise `timeout - time.Until(zero)` overflows, the refresh test is false for ever and the connection gets no write deadline (a stalled upstream blocks the sender without bound)."
	c.Rule("C31-R8", "K13 saturating arithmetic + K1", 1, "every time.Until(x)/x.Sub(y) in package balancer whose operand may be the zero Time and whose result feeds + or - is dominated by !x.IsZero()")
	n := 0
	for _, fn := range c.Prog.FuncsIn("internal/balancer") {
		for _, s := range core.CallsTo(fn, "time.Until", "time.(Time).Sub", "time.Since") {
			arg := s.Arg(0)
			if !mayBeZeroTime(arg, map[ssa.Value]bool{}) {
				continue
			}
			arith := false
			if v := s.Value(); v != nil {
				// time.Until(zero) saturates at the minimum duration: overflow when it is subtracted;
				// time.Since(zero) saturates at the maximum: overflow when something is added to it;
				// for Time.Sub either operand can be the zero time.
				callee := core.CalleeName(s.Common())
				for _, r := range core.Referrers(v) {
					b, ok := r.(*ssa.BinOp)
					if !ok {
						continue
					}
					switch {
					case callee == "time.Until" && b.Op == token.SUB && b.Y == v,
						callee == "time.Since" && b.Op == token.ADD,
						callee == "time.(Time).Sub" && (b.Op == token.SUB || b.Op == token.ADD):
						arith = true
					}
				}
			}
			if !arith {
				continue
			}
			n++
			okG := false
			for _, g := range core.Facts(s.Block()) {
				if len(g.Alts) != 1 || g.Alts[0].Pol {
					continue
				}
				if call, ok := g.Alts[0].Cond.(*ssa.Call); ok && core.CalleeName(&call.Call) == "time.(Time).IsZero" && call.Call.Args[0] == arg {
					okG = true
				}
			}
			c.Require(okG, "C31-R8", fmt.Sprintf("%s/%s#%d", core.FuncName(fn), shortCallee(s), n), s.Pos(), "zero time excluded before duration arithmetic",
				"the duration "+core.CalleeName(s.Common())+"("+core.Expr(arg)+") is used in + / - although the time can still be the zero Time (the duration saturates at about -292 years and the arithmetic overflows): the deadline refresh test stays false and SetWriteDeadline is never called on a new connection")
		}
	}
	c.Require(n > 0, "C31-R8", "internal/balancer/duration-arithmetic", 0, fmt.Sprintf("%d duration computations on possibly-zero times, all guarded", n), "no duration arithmetic on a possibly-zero time found (the write-deadline refresh of sendLoop was expected)")
}

func derivesFromLenOfCell(v, cell ssa.Value, seen map[ssa.Value]bool) bool {
	if seen[v] {
		return false
	}
	seen[v] = true
	switch x := v.(type) {
	case *ssa.Call:
		if core.CalleeName(&x.Call) == "builtin len" && len(x.Call.Args) == 1 {
			if ld, ok := x.Call.Args[0].(*ssa.UnOp); ok && ld.Op == token.MUL && ld.X == cell {
				return true
			}
		}
	case *ssa.BinOp:
		return derivesFromLenOfCell(x.X, cell, seen) || derivesFromLenOfCell(x.Y, cell, seen)
	case *ssa.Convert:
		return derivesFromLenOfCell(x.X, cell, seen)
	case *ssa.Phi:
		for _, e := range x.Edges {
			if !derivesFromLenOfCell(e, cell, seen) {
				return false
			}
		}
		return len(x.Edges) > 0
	}
	return false
}
