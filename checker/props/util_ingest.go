package props

import (
	"fmt"
	"go/constant"
	"go/token"
	"go/types"
	"os"

	"golang.org/x/tools/go/ssa"

	"shverif/core"
)

// Helpers shared by the ingest-path rule tables (C08, C10, C12, C13).

// fieldLoad returns the FieldAddr behind v when v is a load (*addr) of typ.field.
func fieldLoad(v ssa.Value, typ, field string) (*ssa.FieldAddr, bool) {
	u, ok := v.(*ssa.UnOp)
	if !ok || u.Op != token.MUL {
		return nil, false
	}
	fa, ok := u.X.(*ssa.FieldAddr)
	if !ok || !core.IsFieldU(fa, typ, field) {
		return nil, false
	}
	return fa, true
}

// strip looks through value-preserving wrappers (ChangeType, MakeInterface).
func strip(v ssa.Value) ssa.Value {
	for {
		switch x := v.(type) {
		case *ssa.ChangeType:
			v = x.X
		case *ssa.MakeInterface:
			v = x.X
		default:
			return v
		}
	}
}

// stripConv additionally looks through numeric conversions.
func stripConv(v ssa.Value) ssa.Value {
	for {
		switch x := v.(type) {
		case *ssa.ChangeType:
			v = x.X
		case *ssa.Convert:
			v = x.X
		default:
			return v
		}
	}
}

// constInt64 returns the integer value of an SSA constant.
func constInt64(v ssa.Value) (int64, bool) {
	c, ok := v.(*ssa.Const)
	if !ok || c.Value == nil || c.Value.Kind() != constant.Int {
		return 0, false
	}
	return constant.Int64Val(c.Value)
}

// isPlainCallTo matches *ssa.Call instructions (not go/defer) to the callees.
func isPlainCallTo(callees ...string) func(ssa.Instruction) bool {
	return func(in ssa.Instruction) bool {
		c, ok := in.(*ssa.Call)
		return ok && core.GlobAny(callees, core.CalleeName(&c.Call))
	}
}

// realReturns lists the returns of fn except the synthetic recover block.
func realReturns(fn *ssa.Function) []*ssa.Return {
	var out []*ssa.Return
	for _, r := range core.Returns(fn) {
		if len(r.Block().Preds) == 0 && r.Block().Index != 0 {
			continue
		}
		out = append(out, r)
	}
	return out
}

// mutexOps describes one mutex by a predicate over the receiver operand of
// Lock/Unlock (e.g. "&s.mu with s the method receiver").
type mutexOps struct {
	isMu func(ssa.Value) bool
}

func (m mutexOps) lock(in ssa.Instruction) bool {
	c, ok := in.(*ssa.Call)
	if !ok {
		return false
	}
	n := core.CalleeName(&c.Call)
	return (n == "sync.(*Mutex).Lock" || n == "sync.(*RWMutex).Lock") && len(c.Call.Args) > 0 && m.isMu(c.Call.Args[0])
}

func (m mutexOps) unlock(in ssa.Instruction) bool {
	c, ok := in.(*ssa.Call) // a deferred Unlock runs at function exit: it is an *ssa.Defer and does not match
	if !ok {
		return false
	}
	n := core.CalleeName(&c.Call)
	return (n == "sync.(*Mutex).Unlock" || n == "sync.(*RWMutex).Unlock") && len(c.Call.Args) > 0 && m.isMu(c.Call.Args[0])
}

// heldAt decides "the mutex is held whenever `at` executes" inside fn as a must
// property over paths: `at` is not reachable from function entry without passing a
// Lock, and not reachable from any (non-deferred) Unlock without passing a Lock.
// Calls to other functions are assumed not to change the state of this mutex
// (the repo's *Locked convention); function entry counts as not-held.
func (m mutexOps) heldAt(fn *ssa.Function, at ssa.Instruction) (bool, string) {
	target := func(in ssa.Instruction) bool { return in == at }
	if p := core.ReachFromEntryWithout(fn, target, m.lock); p != nil {
		return false, "reachable from function entry without Lock: " + pathStr(p)
	}
	for _, b := range fn.Blocks {
		for _, in := range b.Instrs {
			if !m.unlock(in) {
				continue
			}
			if p := core.ReachWithout(in, target, m.lock); p != nil {
				return false, "reachable after Unlock at " + core.FuncName(fn) + " without a new Lock: " + pathStr(p)
			}
		}
	}
	return true, ""
}

// recvFieldMutex builds the mutex predicate "&recv.field" for field `field` of the
// named struct typ where recv is exactly the SSA value base.
func recvFieldMutex(base ssa.Value, typ, field string) mutexOps {
	return mutexOps{isMu: func(v ssa.Value) bool {
		fa, ok := v.(*ssa.FieldAddr)
		return ok && core.IsField(fa, typ, field) && fa.X == base
	}}
}

// litOn finds, on the dominator chain of b, a single-alternative guard literal
// accepted by pred.
func litOn(b *ssa.BasicBlock, pred func(core.Lit) bool) (core.Lit, bool) {
	for _, g := range core.FactsL(b) {
		if len(g.Alts) == 1 && pred(g.Alts[0]) {
			return g.Alts[0], true
		}
	}
	return core.Lit{}, false
}

// paramIndex returns the index of v among fn's parameters, or -1.
func paramIndex(fn *ssa.Function, v ssa.Value) int {
	for i, p := range fn.Params {
		if ssa.Value(p) == v {
			return i
		}
	}
	return -1
}

// arrayLenOfField returns the length of the array-typed field typ.field.
func arrayLenOfField(fa *ssa.FieldAddr) (int64, bool) {
	t := fa.Type()
	if p, ok := t.Underlying().(*types.Pointer); ok {
		t = p.Elem()
	}
	a, ok := t.Underlying().(*types.Array)
	if !ok {
		return 0, false
	}
	return a.Len(), true
}

// instrOf returns v as an instruction when it is one.
func instrOf(v ssa.Value) ssa.Instruction {
	in, _ := v.(ssa.Instruction)
	return in
}

// allInstrs iterates over the instructions of fn.
func allInstrs(fn *ssa.Function, f func(ssa.Instruction)) {
	for _, b := range fn.Blocks {
		for _, in := range b.Instrs {
			f(in)
		}
	}
}

// fieldsTouched lists "Type.field" for every FieldAddr/Field instruction in fn.
func fieldsTouched(fn *ssa.Function) map[string]ssa.Instruction {
	out := map[string]ssa.Instruction{}
	allInstrs(fn, func(in ssa.Instruction) {
		var xt types.Type
		var idx int
		switch v := in.(type) {
		case *ssa.FieldAddr:
			xt, idx = v.X.Type(), v.Field
		case *ssa.Field:
			xt, idx = v.X.Type(), v.Field
		default:
			return
		}
		t := xt
		if p, ok := t.Underlying().(*types.Pointer); ok {
			t = p.Elem()
		}
		name := core.TypeName(t)
		if st, ok := t.Underlying().(*types.Struct); ok && idx < st.NumFields() {
			name += "." + st.Field(idx).Name()
		}
		if _, dup := out[name]; !dup {
			out[name] = in
		}
	})
	return out
}

// derivesThroughCalls is core.Derives extended through call results: v derives
// from src when it is computed from src by transparent operations or is the result
// of a call one of whose operands derives from src.
func derivesThroughCalls(v, src ssa.Value) bool {
	return dtc(v, src, map[ssa.Value]bool{})
}

func dtc(v, src ssa.Value, seen map[ssa.Value]bool) bool {
	if v == src {
		return true
	}
	if v == nil || seen[v] {
		return false
	}
	seen[v] = true
	switch x := v.(type) {
	case *ssa.Call:
		for _, a := range x.Call.Args {
			if dtc(a, src, seen) {
				return true
			}
		}
		if x.Call.IsInvoke() {
			return dtc(x.Call.Value, src, seen)
		}
		return false
	case *ssa.Phi:
		for _, e := range x.Edges {
			if dtc(e, src, seen) {
				return true
			}
		}
		return false
	case *ssa.Extract:
		return dtc(x.Tuple, src, seen)
	case *ssa.UnOp:
		return dtc(x.X, src, seen)
	case *ssa.FieldAddr:
		return dtc(x.X, src, seen)
	case *ssa.Field:
		return dtc(x.X, src, seen)
	case *ssa.IndexAddr:
		return dtc(x.X, src, seen)
	case *ssa.Index:
		return dtc(x.X, src, seen)
	case *ssa.Convert:
		return dtc(x.X, src, seen)
	case *ssa.ChangeType:
		return dtc(x.X, src, seen)
	case *ssa.Slice:
		return dtc(x.X, src, seen)
	}
	return false
}

// constantInt64 returns the exact integer value of a declared constant.
func constantInt64(k *types.Const) (int64, bool) {
	return constant.Int64Val(constant.ToInt(k.Val()))
}

// edgeLiteral returns the branch literal that holds on the CFG edge pred→succ.
func edgeLiteral(pred, succ *ssa.BasicBlock) (core.Lit, bool) {
	if len(pred.Instrs) == 0 || len(pred.Succs) != 2 || pred.Succs[0] == pred.Succs[1] {
		return core.Lit{}, false
	}
	ifi, ok := pred.Instrs[len(pred.Instrs)-1].(*ssa.If)
	if !ok {
		return core.Lit{}, false
	}
	if pred.Succs[0] == succ {
		return core.NormLit(ifi.Cond, true), true
	}
	return core.NormLit(ifi.Cond, false), true
}

// debugObs prints every obligation when SHV_OBS=1 (development aid).
func debugObs(c *core.Check) {
	if os.Getenv("SHV_OBS") != "1" {
		return
	}
	for _, o := range c.Obs {
		fmt.Printf("OB %-8s %-9s %s (%s) %s\n", o.Rule, o.Verdict, o.Site, o.Pos, o.Msg)
	}
}
