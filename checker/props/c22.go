package props

import (
	"fmt"
	"go/ast"
	"go/token"

	"golang.org/x/tools/go/ssa"

	"shverif/core"
)

func init() {
	Register(&Property{
		ID:   "C22",
		Pkgs: []string{"./internal/data_model"},
		Run:  runC22,
		Mutants: []Mutant{
			{Name: "level-without-table-resolution", File: "internal/data_model/timescale.go", Rule: "C22-R1",
				Old: "			levels:    []int64{_7d, _24h, _4h, _1h, _15m, _5m, _1m, _15s, _5s, _1s},", New: "			levels:    []int64{_7d, _24h, _4h, _1h, _15m, _5m, _1m, _15s * 2, _15s, _5s, _1s},"},
			{Name: "table-resolution-removed", File: "internal/data_model/timescale.go", Rule: "C22-R1",
				Old: "			_5s:  _1sTableSH6,\n", New: ""},
			{Name: "levels-out-of-order", File: "internal/data_model/timescale.go", Rule: "C22-R2",
				Old: "			levels:    []int64{_7d, _24h, _4h, _1h, _15m, _5m, _1m},", New: "			levels:    []int64{_7d, _24h, _4h, _1h, _5m, _15m, _1m},"},
			{Name: "later-switch-drops-a-level", File: "internal/data_model/timescale.go", Rule: "C22-R2",
				Old: "			levels:    []int64{_7d, _24h, _4h, _1h, _15m, _5m, _1m},", New: "			levels:    []int64{_7d, _24h, _1h, _15m, _5m, _1m},"},
			{Name: "level-not-dividing-the-coarser-one", File: "internal/data_model/timescale.go", Rule: "C22-R2",
				Old: "	_4h  = 4 * _1h", New: "	_4h  = 5 * _1h"},
			{Name: "finest-switch-does-not-reach-now", File: "internal/data_model/timescale.go", Rule: "C22-R3",
				Old: "			relSwitch: _0s,\n			levels:    []int64{_7d, _24h, _4h, _1h, _15m, _5m, _1m, _15s, _5s, _1s},", New: "			relSwitch: _1m,\n			levels:    []int64{_7d, _24h, _4h, _1h, _15m, _5m, _1m, _15s, _5s, _1s},"},
			{Name: "switch-edges-out-of-order", File: "internal/data_model/timescale.go", Rule: "C22-R3",
				Old: "			relSwitch: 52*_1h - 2*_1s,", New: "			relSwitch: 52*_24h - 2*_1s,"},
			{Name: "point-limit-above-slice-size", File: "internal/data_model/timescale.go", Rule: "C22-R4",
				Old: "	maxPoints = 7680 // horizontal resolution of 8K display", New: "	maxPoints = 8200 // horizontal resolution of 8K display"},
			{Name: "lod-appended-without-length-test", File: "internal/data_model/timescale.go", Rule: "C22-R5",
				Old: "		if lod.Step <= 0 || lod.Step > _1M || lod.Len <= 0 || !(pointQuery || lod.Len <= maxPoints) {", New: "		if lod.Step <= 0 || lod.Step > _1M || lod.Len < 0 {"},
			{Name: "lod-appended-without-step-upper-bound", File: "internal/data_model/timescale.go", Rule: "C22-R5",
				Old: "		if lod.Step <= 0 || lod.Step > _1M || lod.Len <= 0 || !(pointQuery || lod.Len <= maxPoints) {", New: "		if lod.Step <= 0 || lod.Len <= 0 || !(pointQuery || lod.Len <= maxPoints) {"},
			{Name: "zero-step-loops-forever", File: "internal/data_model/timescale.go", Rule: "C22-R6",
				Old: "	if step <= 0 {\n		// infinite loop guard", New: "	if step < 0 {\n		// infinite loop guard"},
		},
	})
}

const c22pkg = "internal/data_model"

type c22switch struct {
	rel    int64
	levels []int64
	pos    token.Pos
}

func runC22(c *core.Check) {
	c.Decides = "well-formedness of the level-of-detail tables and two guards, nothing about the time arithmetic: (R1) every step of lodLevels[Version6] and lodLevelsV3Monthly is a key of " +
		"LODTables[Version6] (a level always has a table resolution); (R2) each level list is strictly decreasing, each finer level divides the coarser one before it (so a coarse-aligned boundary " +
		"is aligned for the finer step), each later switch extends the earlier list as a prefix; (R3) the switch edges relSwitch are non-negative, strictly decreasing and the last one is 0 (the finest " +
		"list applies up to now; without it the newest part of a range would get no level); (R4) maxPoints <= MaxSlice; (R5) the only appendLOD call sites are dominated by 0 < Step <= _1M, 0 < Len " +
		"and (point query or Len <= maxPoints) on the very LOD value appended; (R6) in endOfLOD the stepping loop is dominated by 0 < step and the failing branch panics."
	c.NotDecided = "everything numeric over runtime values: strict monotonicity and exact spacing of the returned points, alignment in the configured time zone and week start, calendar-month stepping, " +
		"the total point limit over all levels, StartX/ViewStartX/ViewEndX, contiguity of the ranges handed to storage, shiftTimestamp/calcUTCOffset in internal/api/lod.go. " +
		"Left out as cosmetic: the source comment's request that the subtrahend of relSwitch be a multiple of the next switch's finest level has no effect on the stated behaviour (the edge is now-relative)."

	pk := c.Prog.Pkg(c22pkg)
	if pk == nil {
		c.Anchor("C22-R1", c22pkg)
		return
	}
	ver, okv := c.Prog.ConstStr(c22pkg, "Version6")
	if !okv {
		c.Anchor("C22-R1", c22pkg+".Version6")
		return
	}

	// ---- extract the tables ----------------------------------------------------------
	tables := map[int64]string{}
	var tablesPos token.Pos
	if lits, _ := c.Prog.VarLits(c22pkg, "LODTables"); len(lits) == 1 && lits[0] != nil {
		for _, k := range core.CompositeKeys(pk, lits[0]) {
			s, isStr := "", false
			if k.Val != nil {
				s, isStr = core.ConstExprString(pk, k.Expr)
			}
			if !isStr || s != ver {
				continue
			}
			inner, ok := ast.Unparen(k.Elt).(*ast.CompositeLit)
			if !ok {
				c.Undecided("C22-R1", c22pkg+".LODTables/"+ver, k.Pos, "table list is not a literal")
				continue
			}
			tablesPos = inner.Pos()
			for _, e := range core.CompositeKeys(pk, inner) {
				step, ok1 := core.ConstExprInt(pk, e.Expr)
				name, ok2 := core.ConstExprString(pk, e.Elt)
				if !ok1 || !ok2 {
					c.Undecided("C22-R1", c22pkg+".LODTables/entry", e.Pos, "table entry is not constant")
					continue
				}
				tables[step] = name
			}
		}
	} else {
		c.Anchor("C22-R1", c22pkg+".LODTables (single map literal)")
	}
	readSwitches := func(rule, what string, lit *ast.CompositeLit) []c22switch {
		var out []c22switch
		for _, el := range core.CompositeElems(lit) {
			sl, ok := ast.Unparen(el).(*ast.CompositeLit)
			if !ok {
				c.Undecided(rule, what+"/element", el.Pos(), "lodSwitch is not a literal")
				continue
			}
			re, le := core.StructLitField(pk, sl, "relSwitch"), core.StructLitField(pk, sl, "levels")
			sw := c22switch{pos: sl.Pos()}
			if re != nil { // absent field = zero value
				v, ok := core.ConstExprInt(pk, re)
				if !ok {
					c.Undecided(rule, what+"/relSwitch", re.Pos(), "relSwitch is not a constant")
					continue
				}
				sw.rel = v
			}
			ll, ok := ast.Unparen(le).(*ast.CompositeLit)
			if le == nil || !ok {
				c.Undecided(rule, what+"/levels", sl.Pos(), "levels is not a literal list")
				continue
			}
			for _, e := range core.CompositeElems(ll) {
				v, ok := core.ConstExprInt(pk, e)
				if !ok {
					c.Undecided(rule, what+"/level", e.Pos(), "level is not a constant")
					continue
				}
				sw.levels = append(sw.levels, v)
			}
			out = append(out, sw)
		}
		return out
	}
	lists := map[string][]c22switch{}
	if lits, _ := c.Prog.VarLits(c22pkg, "lodLevels"); len(lits) == 1 && lits[0] != nil {
		for _, k := range core.CompositeKeys(pk, lits[0]) {
			s, _ := core.ConstExprString(pk, k.Expr)
			if inner, ok := ast.Unparen(k.Elt).(*ast.CompositeLit); ok {
				lists["lodLevels["+s+"]"] = readSwitches("C22-R2", "lodLevels["+s+"]", inner)
			} else {
				c.Undecided("C22-R2", c22pkg+".lodLevels["+s+"]", k.Pos, "switch list is not a literal")
			}
		}
		if _, ok := lists["lodLevels["+ver+"]"]; !ok {
			c.Fail("C22-R2", c22pkg+".lodLevels/"+ver, lits[0].Pos(), "lodLevels has no entry for Version6, the version GetTimescale reads")
		}
	} else {
		c.Anchor("C22-R2", c22pkg+".lodLevels (single map literal)")
	}
	if lits, _ := c.Prog.VarLits(c22pkg, "lodLevelsV3Monthly"); len(lits) == 1 && lits[0] != nil {
		lists["lodLevelsV3Monthly"] = readSwitches("C22-R2", "lodLevelsV3Monthly", lits[0])
	} else {
		c.Anchor("C22-R2", c22pkg+".lodLevelsV3Monthly (single literal)")
	}
	for _, g := range []string{"LODTables", "lodLevels", "lodLevelsV3Monthly"} {
		n := 0
		for _, w := range core.GlobalWrites(c.Prog.Funcs(), c22pkg, g) {
			if w.Kind == "store" {
				n++
				if n == 1 {
					continue
				}
			}
			c.Fail("C22-R1", fmt.Sprintf("%s.%s/modified-in:%s", c22pkg, g, core.FuncName(w.Fn)), w.Instr.Pos(), "the table "+g+" is modified at run time: its literal is not what GetTimescale sees")
		}
	}
	month, okM := c.Prog.ConstInt64(c22pkg, "_1M")
	if !okM {
		c.Anchor("C22-R2", c22pkg+"._1M")
	}

	// ---- R1..R3 ------------------------------------------------------------------------
	c.Rule("C22-R1", "K5", 22, "every step in lodLevels[Version6] / lodLevelsV3Monthly is a key of LODTables[Version6]")
	c.Rule("C22-R2", "K5", 6, "each level list is strictly decreasing, every level divides its predecessor (calendar month excepted), each later switch has the earlier switch's list as a prefix")
	c.Rule("C22-R3", "K5", 6, "relSwitch edges are >= 0, strictly decreasing, the last is 0")
	for _, name := range core.SortedKeys(lists) {
		sws := lists[name]
		for i, sw := range sws {
			key := fmt.Sprintf("%s.%s/switch#%d", c22pkg, name, i+1)
			for _, lv := range sw.levels {
				_, has := tables[lv]
				c.Require(has, "C22-R1", fmt.Sprintf("%s/level:%ds", key, lv), sw.pos, "level is a table resolution",
					fmt.Sprintf("level step %ds has no entry in LODTables[%s] (defined at %s): LOD.Table() returns an empty table name for it", lv, ver, c.Prog.Pos(tablesPos)))
			}
			why := ""
			for j := 1; j < len(sw.levels); j++ {
				a, b := sw.levels[j-1], sw.levels[j]
				if b >= a {
					why = fmt.Sprintf("level %ds follows %ds: not strictly decreasing (GetTimescale never lets the step grow and relies on the order)", b, a)
				} else if b <= 0 {
					why = fmt.Sprintf("level %d is not positive", b)
				} else if a%b != 0 && !(okM && a == month) {
					why = fmt.Sprintf("level %ds does not divide the coarser %ds: the boundary where the level changes is not aligned to the finer step", b, a)
				}
			}
			if len(sw.levels) == 0 {
				why = "empty level list"
			} else if sw.levels[0] <= 0 {
				why = "non-positive level"
			}
			c.Require(why == "", "C22-R2", key+"/order", sw.pos, "levels strictly decreasing, each dividing its predecessor", why)
			if i > 0 {
				prev := sws[i-1].levels
				ok := len(prev) <= len(sw.levels)
				for j := 0; ok && j < len(prev); j++ {
					ok = prev[j] == sw.levels[j]
				}
				c.Require(ok, "C22-R2", key+"/extends", sw.pos, "extends the previous switch",
					fmt.Sprintf("switch %d (levels %v) does not extend switch %d (levels %v): a coarser level available for older data is missing for newer data", i+1, sw.levels, i, prev))
				c.Require(sw.rel < sws[i-1].rel, "C22-R3", key+"/edge-order", sw.pos, "edge closer to now than the previous one",
					fmt.Sprintf("relSwitch %d is not smaller than the previous switch's %d: finer levels must apply to newer data", sw.rel, sws[i-1].rel))
			}
			if i == len(sws)-1 {
				c.Require(sw.rel == 0, "C22-R3", key+"/last-edge", sw.pos, "last switch reaches now",
					fmt.Sprintf("the last switch has relSwitch %d != 0: the newest %d seconds of a range are covered by no level list", sw.rel, sw.rel))
			} else {
				c.Require(sw.rel > 0, "C22-R3", key+"/edge-sign", sw.pos, "edge in the past", fmt.Sprintf("relSwitch %d is not positive", sw.rel))
			}
		}
	}

	// ---- R4 ----------------------------------------------------------------------------
	c.Rule("C22-R4", "K5", 1, "maxPoints <= MaxSlice")
	mp, ok1 := c.Prog.ConstInt64(c22pkg, "maxPoints")
	ms, ok2 := c.Prog.ConstInt64(c22pkg, "MaxSlice")
	if !ok1 {
		c.Anchor("C22-R4", c22pkg+".maxPoints")
	}
	if !ok2 {
		c.Anchor("C22-R4", c22pkg+".MaxSlice")
	}
	if ok1 && ok2 {
		c.Require(mp > 0 && mp <= ms, "C22-R4", c22pkg+".maxPoints<=MaxSlice", token.NoPos, "point limit fits the slice size",
			fmt.Sprintf("maxPoints = %d exceeds MaxSlice = %d: a timescale accepted by the point limit does not fit the buffers sized by MaxSlice", mp, ms))
	}

	// ---- R5 ----------------------------------------------------------------------------
	c.Rule("C22-R5", "K1", 1, "every call of Timescale.appendLOD passes a LOD variable for which 0 < Step, !(_1M < Step), 0 < Len and (Mode == PointQuery or !(maxPoints < Len)) dominate the call")
	pq, ok3 := c.Prog.ConstInt64(c22pkg, "PointQuery")
	if !ok3 {
		c.Anchor("C22-R5", c22pkg+".PointQuery")
	}
	sites := core.Callers(c.Prog.Funcs(), c22pkg+".(*Timescale).appendLOD")
	keys := core.Ordinals(sites)
	for i, s := range sites {
		c.CallSites++
		c.Seen(core.FuncName(s.Fn))
		cell, _ := core.LoadAddr(s.Arg(1)).(*ssa.Alloc)
		if cell == nil {
			c.Undecided("C22-R5", keys[i], s.Pos(), "the appended LOD is not a local variable: "+core.Expr(s.Arg(1)))
			continue
		}
		fieldOfCell := func(v ssa.Value, f string) bool {
			fa, ok := core.LoadAddr(v).(*ssa.FieldAddr)
			return ok && fa.X == cell && tFieldName(fa) == f
		}
		isK := func(v ssa.Value, k int64) bool { n, ok := core.ConstInt(v); return ok && n == k }
		var stepLo, stepHi, lenLo, lenHi bool
		for _, g := range core.Facts(s.Block()) {
			all := func(pred func(core.Lit) bool) bool {
				for _, l := range g.Alts {
					if !pred(l) {
						return false
					}
				}
				return len(g.Alts) > 0
			}
			if all(func(l core.Lit) bool { return l.Op == token.LSS && l.Pol && isK(l.X, 0) && fieldOfCell(l.Y, "Step") }) {
				stepLo = true
			}
			if okM && all(func(l core.Lit) bool {
				return l.Op == token.LSS && !l.Pol && isK(l.X, month) && fieldOfCell(l.Y, "Step")
			}) {
				stepHi = true
			}
			if all(func(l core.Lit) bool { return l.Op == token.LSS && l.Pol && isK(l.X, 0) && fieldOfCell(l.Y, "Len") }) {
				lenLo = true
			}
			if ok1 && ok3 && all(func(l core.Lit) bool {
				if l.Op == token.LSS && !l.Pol && isK(l.X, mp) && fieldOfCell(l.Y, "Len") {
					return true
				}
				if l.Op == token.EQL && l.Pol && isK(l.Y, pq) {
					if fa, ok := core.LoadAddr(l.X).(*ssa.FieldAddr); ok && tFieldName(fa) == "Mode" {
						return true
					}
				}
				return false
			}) {
				lenHi = true
			}
		}
		c.Require(stepLo && stepHi && lenLo && lenHi, "C22-R5", keys[i], s.Pos(), "LOD appended under the Step/Len range test",
			fmt.Sprintf("appendLOD is reached without the range test on the appended LOD: 0<Step %v, Step<=_1M %v, 0<Len %v, (point query or Len<=maxPoints) %v; facts: %s", stepLo, stepHi, lenLo, lenHi, core.FactsString(s.Block())))
	}
	if len(sites) == 0 {
		c.Fail("C22-R5", c22pkg+".(*Timescale).appendLOD/callers", token.NoPos, "appendLOD has no caller")
	}

	// ---- R6 ----------------------------------------------------------------------------
	c.Rule("C22-R6", "K1", 2, "in endOfLOD every StepForward call (the loop) is dominated by 0 < step, and the branch taken otherwise ends in panic")
	if fn := need(c, "C22-R6", c22pkg+".endOfLOD"); fn != nil {
		steps := core.CallsTo(fn, c22pkg+".StepForward")
		ks := core.Ordinals(steps)
		for i, s := range steps {
			c.CallSites++
			okStep := core.ParamOf(s.Arg(1)) == 1
			c.Require(okStep && core.Holds(s.Block(), core.T("(0 < {1:int64})")), "C22-R6", ks[i], s.Pos(), "stepping under 0 < step",
				"endOfLOD steps forward without `0 < step` being established: a zero or negative step never reaches `end` (endless loop / unbounded point count)")
		}
		if len(steps) == 0 {
			c.Fail("C22-R6", c22pkg+".endOfLOD/StepForward", fn.Pos(), "endOfLOD does not call StepForward")
		}
		found := false
		for _, b := range fn.Blocks {
			if _, isPanic := b.Instrs[len(b.Instrs)-1].(*ssa.Panic); isPanic && core.Holds(b, core.F("(0 < {1:int64})")) {
				found = true
			}
		}
		c.Require(found, "C22-R6", c22pkg+".endOfLOD/panic", fn.Pos(), "non-positive step panics", "endOfLOD has no panic under !(0 < step)")
	}
}
