package props

import (
	"fmt"
	"go/token"
	"regexp"
	"strings"

	"golang.org/x/tools/go/ssa"

	"shverif/core"
)

// Fourth batch: rules for seeds that had been stored as "not caught" (C22-a, C25-a, C25-b,
// C27-b, C28-b) and for round-2 seeds of C22; see DESIGN.md §11.

func init() {
	Extend("C22", runC22Extra4,
		Mutant{Name: "seed-C22a-first-level-keeps-alignment-of-rejected-step", File: "internal/data_model/timescale.go", Rule: "C22-R8",
			Old: "					if len(res.LODs) == 0 {\n						lodStart = startOfLOD(start, lod.Step, args.Location, args.UTCOffset)\n					}\n", New: ""},
		Mutant{Name: "seed-C22c-point-limit-ignores-earlier-levels", File: "internal/data_model/timescale.go", Rule: "C22-R9",
			Old: "				n = resLen + lodLen + m", New: "				n = lodLen + m"},
		Mutant{Name: "seed-C22d-offset-checked-against-finest-step", File: "internal/data_model/timescale.go", Rule: "C22-R10",
			Old: "		if v%res.LODs[0].Step != 0 {", New: "		if v%res.LODs[len(res.LODs)-1].Step != 0 {"})
	Extend("C25", runC25Extra4,
		Mutant{Name: "revert-F22-one-NaN-per-query-instead-of-per-function", File: "internal/api/table.go", Rule: "C25-R7",
			Old: "				for range q.sel { // one column per function of this query\n					queryRows[ix].Data = append(queryRows[ix].Data, NaN())\n				}\n",
			New: "				queryRows[ix].Data = append(queryRows[ix].Data, NaN())\n"},
		Mutant{Name: "seed-C25a-stop-querying-levels-when-page-full", File: "internal/api/table.go", Rule: "C25-R5",
			Old: "			lod := lods[k]\n", New: "			lod := lods[k]\n			if rowsCount >= req.numResults {\n				break\n			}\n"},
		Mutant{Name: "seed-C25b-level-skip-treats-window-end-as-exclusive", File: "internal/api/table.go", Rule: "C25-R6",
			Old: "			if toTime < lod.FromSec || lod.ToSec < fromTime {", New: "			if toTime <= lod.FromSec || lod.ToSec < fromTime {"})
	Extend("C27", runC27Extra4,
		Mutant{Name: "seed-C27b-reduction-bound-from-coarsest-level", File: "internal/promql/engine.go", Rule: "C27-R6",
			Old: "	stepMin := ev.t.LODs[len(ev.t.LODs)-1].Step", New: "	stepMin := ev.t.LODs[0].Step"})
	Extend("C28", runC28Extra4,
		Mutant{Name: "revert-F21-cardinality-printed-only-with-labels", File: "internal/promql/parser/printer.go", Rule: "C28-R6",
			Old: "	if vm != nil && (len(vm.MatchingLabels) > 0 || vm.On || vm.Card == CardManyToOne || vm.Card == CardOneToMany) {", New: "	if vm != nil && (len(vm.MatchingLabels) > 0 || vm.On) {"},
		Mutant{Name: "seed-C28d-keyword-lookup-case-sensitive", File: "internal/promql/parser/lex.go", Rule: "C28-R7",
			Old: "key[strings.ToLower(word)]", New: "key[word]"},
		Mutant{Name: "seed-C28c-empty-on-clause-dropped", File: "internal/promql/parser/printer.go", Rule: "C28-R6",
			Old: "	if vm != nil && (len(vm.MatchingLabels) > 0 || vm.On || vm.Card == CardManyToOne || vm.Card == CardOneToMany) {", New: "	if vm != nil && (len(vm.MatchingLabels) > 0 || vm.Card == CardManyToOne || vm.Card == CardOneToMany) {"},
		Mutant{Name: "seed-C28b-escape-equal-to-maximum-rejected", File: "internal/promql/parser/lex.go", Rule: "C28-R5",
			Old: "	if x > max || 0xD800 <= x && x < 0xE000 {", New: "	if x >= max || 0xD800 <= x && x < 0xE000 {"})
}

var lodsIndexRe = regexp.MustCompile(`\.LODs\[(.*)\]\.Step$`)

// C22-R8/R9/R10.
func runC22Extra4(c *core.Check) {
	c.Decides += " R8 whenever GetTimescale measures a level from a start that may have been aligned (a phi with a startOfLOD edge), one alignment edge uses the very step the level is measured with (the first level starts on a boundary of its own step); R9 the number compared with maxPoints includes the points of the levels already emitted; R10 the offset check in GetTimescale and the re-alignment in Timescale.GetLODs use the same level's step."
	fn := need(c, "C22-R8", "internal/data_model.GetTimescale")
	if fn == nil {
		return
	}
	c.Rule("C22-R8", "K7 provenance", 2, "every endOfLOD(A, S, …) in GetTimescale whose A is a phi with startOfLOD edges has an edge startOfLOD(_, S, …) with the same S")
	n := 0
	for _, s := range core.CallsTo(fn, "internal/data_model.endOfLOD") {
		phi, ok := s.Arg(0).(*ssa.Phi)
		if !ok {
			continue
		}
		want := core.Expr(s.Arg(1))
		var steps []string
		for _, e := range phi.Edges {
			if call, isCall := e.(*ssa.Call); isCall && core.CalleeName(&call.Call) == "internal/data_model.startOfLOD" {
				steps = append(steps, core.Expr(call.Call.Args[1]))
			}
		}
		if len(steps) == 0 {
			// an inherited start (phi of phis): look one level down
			for _, e := range phi.Edges {
				if p2, isPhi := e.(*ssa.Phi); isPhi {
					for _, e2 := range p2.Edges {
						if call, isCall := e2.(*ssa.Call); isCall && core.CalleeName(&call.Call) == "internal/data_model.startOfLOD" {
							steps = append(steps, core.Expr(call.Call.Args[1]))
						}
					}
				}
			}
			if len(steps) == 0 {
				continue
			}
		}
		n++
		okS := false
		for _, st := range steps {
			if st == want {
				okS = true
			}
		}
		c.Require(okS, "C22-R8", fmt.Sprintf("internal/data_model.GetTimescale/endOfLOD#%d/aligned-start", n), s.Pos(), "level measured from a start aligned to its own step",
			"a level is measured with step "+want+" from a start that is only ever aligned to "+strings.Join(steps, ", ")+": when this is the first level its points do not lie on boundaries of its step")
	}
	if n == 0 {
		c.Undecided("C22-R8", "internal/data_model.GetTimescale/endOfLOD", fn.Pos(), "no level measurement with an aligned start found")
	}
	c.Rule("C22-R9", "K7 provenance", 1, "the value compared with maxPoints is (points emitted so far) + (two endOfLOD counts)")
	n = 0
	for _, b := range fn.Blocks {
		if len(b.Instrs) == 0 {
			continue
		}
		i, ok := b.Instrs[len(b.Instrs)-1].(*ssa.If)
		if !ok {
			continue
		}
		l := core.NormLit(i.Cond, true)
		if l.Op != token.LSS {
			continue
		}
		k, isK := core.ConstIntOf(l.X)
		if !isK || k < 1000 {
			continue
		}
		if _, yK := core.ConstIntOf(l.Y); yK {
			continue
		}
		var leaves []ssa.Value
		addLeaves(l.Y, &leaves)
		if len(leaves) < 2 {
			continue // a single value compared with the limit (sanity check of one level), not the running total
		}
		n++
		acc, cnt := false, 0
		for _, lf := range leaves {
			if ex, isEx := lf.(*ssa.Extract); isEx && ex.Index == 1 {
				cnt++
			}
			if p, isPhi := lf.(*ssa.Phi); isPhi && strings.Contains(core.Expr(p), ".Len") {
				acc = true
			}
		}
		c.Require(acc && cnt >= 2, "C22-R9", fmt.Sprintf("internal/data_model.GetTimescale/maxPoints-test#%d", n), condPos(i), "limit test counts the levels already emitted",
			"the number compared with maxPoints is "+core.Expr(l.Y)+", which does not include the running total of points of the levels already emitted: a long range crossing a level switch yields more than maxPoints points")
	}
	if n == 0 {
		c.Undecided("C22-R9", "internal/data_model.GetTimescale/maxPoints-test", fn.Pos(), "comparison of a sum with the point limit not found")
	}
	c.Rule("C22-R10", "K8 sibling agreement", 1, "the step dividing the offsets in GetTimescale and the step of startOfLOD in Timescale.GetLODs are LODs[i].Step with the same i")
	var guardIdx, alignIdx []string
	for _, b := range fn.Blocks {
		for _, in := range b.Instrs {
			if bo, ok := in.(*ssa.BinOp); ok && bo.Op == token.REM {
				if m := lodsIndexRe.FindStringSubmatch(core.Expr(bo.Y)); m != nil {
					guardIdx = append(guardIdx, m[1])
				}
			}
		}
	}
	if g := need(c, "C22-R10", "internal/data_model.(*Timescale).GetLODs"); g != nil {
		for _, s := range core.CallsTo(g, "internal/data_model.startOfLOD") {
			if m := lodsIndexRe.FindStringSubmatch(core.Expr(s.Arg(1))); m != nil {
				alignIdx = append(alignIdx, m[1])
			}
		}
	}
	if len(guardIdx) == 0 || len(alignIdx) == 0 {
		c.Undecided("C22-R10", "internal/data_model.GetTimescale/offset-step", fn.Pos(), fmt.Sprintf("offset check %v / re-alignment %v not recognised", guardIdx, alignIdx))
	} else {
		same := true
		for _, a := range append(append([]string{}, guardIdx...), alignIdx...) {
			if a != guardIdx[0] {
				same = false
			}
		}
		c.Require(same, "C22-R10", "internal/data_model.GetTimescale/offset-step", fn.Pos(), "offset verified against the step it is re-aligned with",
			fmt.Sprintf("offsets are verified to be multiples of LODs[%s].Step but GetLODs re-aligns the shifted start with LODs[%s].Step: an accepted offset is not a multiple of the alignment step and the storage ranges are shifted by a different amount than the points", strings.Join(guardIdx, ","), strings.Join(alignIdx, ",")))
	}
}

func addLeaves(v ssa.Value, out *[]ssa.Value) {
	if b, ok := v.(*ssa.BinOp); ok && b.Op == token.ADD {
		addLeaves(b.X, out)
		addLeaves(b.Y, out)
		return
	}
	*out = append(*out, v)
}

// C25-R5/R6.
func runC25Extra4(c *core.Check) {
	c.Decides += " R5 the per-level loop of getTableFromLODs is left only when the levels are exhausted or with an error (every level overlapping the window is queried, whatever was collected so far); R6 the level-skip test and the row-skip test treat the window bounds alike (both strict: toTime < t, t < fromTime)."
	fn := need(c, "C25-R5", "internal/api.(*requestHandler).getTableFromLODs")
	if fn == nil {
		return
	}
	c.Rule("C25-R5", "K6 loop exits", 1, "every edge leaving the loop over lods goes from the loop header, to a return of a non-nil error, or is taken under limitQueries' has-more result")
	// the loop over lods: header = block whose If compares an index with len(lods parameter)
	var header *ssa.BasicBlock
	for _, b := range fn.Blocks {
		if len(b.Instrs) == 0 {
			continue
		}
		if i, ok := b.Instrs[len(b.Instrs)-1].(*ssa.If); ok {
			if core.Glob("(* < builtin len({2:[]data_model.LOD}))", core.NormLit(i.Cond, true).Text) {
				header = b
			}
		}
	}
	if header == nil {
		c.Undecided("C25-R5", "internal/api.(*requestHandler).getTableFromLODs/lod-loop", fn.Pos(), "loop over the levels not found")
	} else if lp := core.LoopOf(header); lp == nil {
		c.Undecided("C25-R5", "internal/api.(*requestHandler).getTableFromLODs/lod-loop", fn.Pos(), "loop structure not recognised")
	} else {
		bad := ""
		var badPos token.Pos
		for b := range lp.Body {
			for _, s := range b.Succs {
				if lp.Body[s] || b == header {
					continue
				}
				// leaving from inside the body: only to an error return
				okExit := false
				if len(s.Instrs) > 0 {
					if r, isRet := s.Instrs[len(s.Instrs)-1].(*ssa.Return); isRet {
						vals := core.ReturnedValues(r)
						if len(vals) > 0 && nonNilErr(vals[len(vals)-1], s) {
							okExit = true
						}
					}
				}
				if !okExit && core.Holds(s, core.T("internal/api.limitQueries(*)#1")) {
					okExit = true // the level reported rows beyond the limit: has-more is known, later levels cannot add to this page
				}
				if !okExit {
					bad = fmt.Sprintf("block %d -> block %d under %s", b.Index, s.Index, core.FactsString(s))
					if len(s.Instrs) > 0 {
						badPos = s.Instrs[0].Pos()
					}
				}
			}
		}
		c.Require(bad == "", "C25-R5", "internal/api.(*requestHandler).getTableFromLODs/lod-loop", condPos(header.Instrs[len(header.Instrs)-1].(*ssa.If)), "all levels are visited",
			"the loop over the levels can be left early ("+bad+") "+c.Prog.Pos(badPos)+": rows of the remaining levels are neither merged nor counted, so the page misses rows that sort before collected ones and has-more is not set")
	}
	c.Rule("C25-R6", "K8 sibling agreement (boundaries)", 4, "every comparison of the window bounds with a level's or a row's time in getTableFromLODs is strict with the bound on the outside: (toTime < t), (t < fromTime)")
	n := 0
	for _, b := range fn.Blocks {
		if len(b.Instrs) == 0 {
			continue
		}
		i, ok := b.Instrs[len(b.Instrs)-1].(*ssa.If)
		if !ok {
			continue
		}
		l := core.NormLit(i.Cond, true)
		if l.Op != token.LSS || l.X == nil {
			continue
		}
		x, y := core.Expr(l.X), core.Expr(l.Y)
		isBound := func(s string) string {
			if !strings.Contains(s, ".req.toRow.Time") || !strings.Contains(s, ".req.fromRow.Time") {
				return ""
			}
			if strings.Contains(s, "9223372036854775807") {
				return "to"
			}
			return "from"
		}
		isTime := func(s string) bool {
			return strings.HasSuffix(s, ".FromSec") || strings.HasSuffix(s, ".ToSec") || strings.HasSuffix(s, ".time")
		}
		bx, by := isBound(x), isBound(y)
		if (bx == "" || !isTime(y)) && (by == "" || !isTime(x)) {
			continue
		}
		n++
		okB := (bx == "to" && isTime(y)) || (by == "from" && isTime(x))
		c.Require(okB, "C25-R6", fmt.Sprintf("internal/api.(*requestHandler).getTableFromLODs/window-test#%d", n), condPos(i), "window bound compared strictly from outside",
			"the window test "+l.String()+" treats a time equal to the bound as outside, while the row filter keeps such rows: a level that starts exactly at the window end is skipped and its boundary row is missing from the page")
	}
	// R7 (F22): NaN padding is per function, like appendRowValues.
	c.Decides += " R7 every NaN padding of a row in getTableFromLODs is repeated once per function of the storage query it stands for (a loop over that query's sel list, the bound appendRowValues uses for the values)."
	c.Rule("C25-R7", "K8 sibling agreement (loop bounds)", 2, "every append(row.Data, NaN()) in getTableFromLODs lies in an innermost loop bounded by len(<handlerWhat>.sel), as the value loop of handlerWhat.appendRowValues")
	{
		m := 0
		for _, s := range core.CallsTo(fn, "internal/api.NaN") {
			m++
			lp := core.InnermostLoop(s.Block())
			okL := false
			if lp != nil && len(lp.Header.Instrs) > 0 {
				if i, isIf := lp.Header.Instrs[len(lp.Header.Instrs)-1].(*ssa.If); isIf {
					okL = core.Glob("(* < builtin len(*.sel))", core.NormLit(i.Cond, true).Text)
				}
			}
			c.Require(okL, "C25-R7", fmt.Sprintf("internal/api.(*requestHandler).getTableFromLODs/NaN-padding#%d", m), s.Pos(), "padding repeated per function of the query",
				"a single NaN stands for a whole storage query here, while appendRowValues appends one value per function of the query (len(sel)): with 8 or more functions (two storage queries) a row missing from one query has fewer columns than requested functions")
		}
		if g := need(c, "C25-R7", "internal/api.(*handlerWhat).appendRowValues"); g != nil {
			okV := false
			for _, b := range g.Blocks {
				if len(b.Instrs) == 0 {
					continue
				}
				if i, isIf := b.Instrs[len(b.Instrs)-1].(*ssa.If); isIf && core.Glob("(* < builtin len(*.sel))", core.NormLit(i.Cond, true).Text) {
					okV = true
				}
			}
			c.Require(okV, "C25-R7", "internal/api.(*handlerWhat).appendRowValues/bound", g.Pos(), "values appended once per element of sel", "appendRowValues does not loop over len(w.sel): the reference bound of the padding rule is gone")
		}
		if m == 0 {
			c.Undecided("C25-R7", "internal/api.(*requestHandler).getTableFromLODs/NaN-padding", fn.Pos(), "no NaN padding found")
		}
	}
	if n < 4 {
		c.Undecided("C25-R6", "internal/api.(*requestHandler).getTableFromLODs/window-tests", fn.Pos(), fmt.Sprintf("expected 4 window tests (2 per level, 2 per row), found %d", n))
	}
}

// C27-R6.
func runC27Extra4(c *core.Check) {
	c.Decides += " R6 the step bound given to evalReductionRules (below which a range may be pushed down into the storage query) is the step of the last, finest level of the timescale."
	c.Rule("C27-R6", "K7 provenance", 1, "every stepMin argument of evalReductionRules is (a captured copy of) t.LODs[len(t.LODs)-1].Step")
	n := 0
	for _, s := range core.Callers(c.Prog.FuncsIn("internal/promql"), "internal/promql.evalReductionRules") {
		n++
		arg := s.Arg(2)
		var srcs []string
		if cell := core.CellOf(arg); cell != nil {
			if a := core.OuterCell(cell); a != nil {
				for _, st := range core.StoresTo(a) {
					srcs = append(srcs, core.Expr(st.Val))
				}
			}
		} else {
			srcs = append(srcs, core.Expr(arg))
		}
		okA := len(srcs) > 0
		for _, e := range srcs {
			m := lodsIndexRe.FindStringSubmatch(e)
			if m == nil || !core.Glob("(builtin len(*) - 1)", m[1]) {
				okA = false
			}
		}
		c.Require(okA, "C27-R6", fmt.Sprintf("%s/evalReductionRules#%d/stepMin", core.FuncName(s.Fn), n), s.Pos(), "reduction bound is the finest step",
			fmt.Sprintf("the step bound of the reduction rules is %v, not the step of the last (finest) level: with several levels a range that is shorter than the coarse step but longer than the fine one is no longer pushed down consistently, the reduced query differs from the engine's evaluation", srcs))
	}
	if n == 0 {
		c.Undecided("C27-R6", "internal/promql.evalReductionRules", 0, "no caller found")
	}
}

// C28-R5.
func runC28Extra4(c *core.Check) {
	c.Decides += " R5 lexEscape rejects a numeric escape only when its value is strictly above the maximum of its form (\\xff, \\377 and \\U0010ffff, which the printer's strconv.Quote can emit, are accepted)."
	c.Rule("C28-R5", "K1 boundary", 1, "the comparison of the escape value with max (phi of 255 / unicode.MaxRune) in lexEscape is (max < x)")
	fn := need(c, "C28-R5", "internal/promql/parser.lexEscape")
	if fn == nil {
		return
	}
	n := 0
	for _, b := range fn.Blocks {
		if len(b.Instrs) == 0 {
			continue
		}
		i, ok := b.Instrs[len(b.Instrs)-1].(*ssa.If)
		if !ok {
			continue
		}
		l := core.NormLit(i.Cond, true)
		if l.Op != token.LSS || l.X == nil {
			continue
		}
		isMax := func(v ssa.Value) bool {
			p, isPhi := v.(*ssa.Phi)
			if !isPhi {
				return false
			}
			has255, hasMaxRune := false, false
			for _, e := range p.Edges {
				if k, isK := core.ConstIntOf(e); isK {
					if k == 255 {
						has255 = true
					}
					if k == 0x10ffff {
						hasMaxRune = true
					}
				}
			}
			return has255 && hasMaxRune
		}
		if !isMax(l.X) && !isMax(l.Y) {
			continue
		}
		n++
		c.Require(isMax(l.X), "C28-R5", fmt.Sprintf("internal/promql/parser.lexEscape/max-test#%d", n), condPos(i), "value equal to the maximum is accepted",
			"lexEscape compares the escape value with its maximum as "+l.String()+": the maximum itself (\\xff, \\377, \\U0010ffff) is rejected, and a string the printer quotes with such an escape does not parse back")
	}
	if n == 0 {
		c.Undecided("C28-R5", "internal/promql/parser.lexEscape/max-test", fn.Pos(), "comparison with the per-form maximum not found")
	}
	// R6 (F21): every non-default part of the vector matching makes the clause appear.
	c.Decides += " R6 getMatchingStr prints the matching clause whenever the label list is non-empty, `on` is set, or the cardinality is not one-to-one (each of the three is an alternative of the guard of the clause)."
	c.Rule("C28-R6", "K1 guard alternatives", 1, "the guard of the Sprintf(\" %s (%s)\") in getMatchingStr has alternatives on MatchingLabels, On and Card")
	if g := need(c, "C28-R6", "internal/promql/parser.(*BinaryExpr).getMatchingStr"); g != nil {
		found := false
		for _, s := range core.CallsTo(g, "fmt.Sprintf") {
			k, ok := s.Arg(0).(*ssa.Const)
			if !ok || !strings.Contains(k.Value.ExactString(), " %s (%s)") || strings.Contains(k.Value.ExactString(), "group_") {
				continue
			}
			found = true
			have := map[string]bool{}
			for _, gd := range core.Facts(s.Block()) {
				for _, l := range gd.Alts {
					if !l.Pol {
						continue
					}
					for _, f := range []string{".MatchingLabels", ".On", ".Card"} {
						if strings.Contains(l.Text, "VectorMatching"+f) {
							have[f] = true
						}
					}
				}
			}
			var missing []string
			for _, f := range []string{".MatchingLabels", ".On", ".Card"} {
				if !have[f] {
					missing = append(missing, f)
				}
			}
			c.Require(len(missing) == 0, "C28-R6", "internal/promql/parser.(*BinaryExpr).getMatchingStr/clause-guard", s.Pos(), "clause printed for every non-default matching",
				fmt.Sprintf("the vector matching clause is not printed on account of %v alone: e.g. `a + ignoring() group_left b` (or `a + on() b`) prints as `a + b`, which parses back with different matching", missing))
		}
		_ = found
	}
	// R7: the keyword table holds lower-case spellings; the printer emits +Inf / NaN (fmt.Sprint of a float).
	c.Decides += " R7 every lookup in the lexer's keyword table is made with the lower-cased word (the table is lower-case, the printer writes the special numbers as +Inf, -Inf, NaN)."
	c.Rule("C28-R7", "K7 provenance", 1, "every lookup key[x] in package parser has x = strings.ToLower(…)")
	{
		n := 0
		for _, fn := range c.Prog.FuncsIn("internal/promql/parser") {
			for _, b := range fn.Blocks {
				for _, in := range b.Instrs {
					lk, ok := in.(*ssa.Lookup)
					if !ok {
						continue
					}
					ld, isLd := lk.X.(*ssa.UnOp)
					if !isLd {
						continue
					}
					gl, isGl := ld.X.(*ssa.Global)
					if !isGl || gl.Name() != "key" {
						continue
					}
					n++
					call, isCall := lk.Index.(*ssa.Call)
					okL := isCall && core.CalleeName(&call.Call) == "strings.ToLower"
					c.Require(okL, "C28-R7", fmt.Sprintf("%s/key-lookup#%d", core.FuncName(fn), n), lk.Pos(), "keyword lookup is case-insensitive",
						"the keyword table is consulted with "+core.Expr(lk.Index)+" instead of the lower-cased word: the printer's +Inf / NaN lex as identifiers, `foo < inf` prints as `foo < +Inf` and parses back as a comparison with a metric named Inf")
				}
			}
		}
		if n == 0 {
			c.Undecided("C28-R7", "internal/promql/parser/key", 0, "no lookup in the keyword table found")
		}
	}
	if g := need(c, "C28-R6", "internal/promql/parser.(*BinaryExpr).getMatchingStr"); g != nil {
		found := false
		for _, s := range core.CallsTo(g, "fmt.Sprintf") {
			if k, ok := s.Arg(0).(*ssa.Const); ok && strings.Contains(k.Value.ExactString(), " %s (%s)") {
				found = true
			}
		}
		if !found {
			c.Undecided("C28-R6", "internal/promql/parser.(*BinaryExpr).getMatchingStr/clause-guard", g.Pos(), "formatting of the matching clause not found")
		}
	}
}

// condPos is the source position of a branch (go/ssa gives If instructions no position).
func condPos(i *ssa.If) token.Pos {
	if p := i.Cond.Pos(); p.IsValid() {
		return p
	}
	for _, in := range i.Block().Instrs {
		if p := in.Pos(); p.IsValid() {
			return p
		}
	}
	return i.Parent().Pos()
}
