package props

import (
	"fmt"
	"strings"

	"golang.org/x/tools/go/ssa"

	"shverif/core"
)

// Ninth batch: rules for the round-h seeds that the tables did not report
// (C07-h, C20-h, C27-h); see DESIGN.md §11.

func init() {
	Extend("C07", runC07Extra9,
		Mutant{Name: "seed-C07h-ingestion-status-rows-sent-unfinished", File: "internal/agent/agent_shard_send.go", Rule: "C07-R6",
			Old: "		whaleWeight := item.FinishStringTop(rnd, config.StringTopCountSend) // all excess items are baked into Tail\n", New: "		whaleWeight := 0.0\n		if item.Key.Metric != format.BuiltinMetricIDIngestionStatus || item.Key.Tags[1] == 0 {\n			whaleWeight = item.FinishStringTop(rnd, config.StringTopCountSend)\n		}\n"})
	Extend("C20", runC20Extra9,
		Mutant{Name: "seed-C20h-group-found-by-single-probe", File: "internal/metajournal/meta_metrics.go", Rule: "C20-R12",
			Old: "	for _, g := range groupsOrdered {\n		if strings.HasPrefix(m.Name, g.Name) {\n			newGroup = g.ID\n			break\n		}\n	}", New: "	if len(groupsOrdered) != 0 {\n		if g := groupsOrdered[0]; strings.HasPrefix(m.Name, g.Name) {\n			newGroup = g.ID\n		}\n	}"})
	Extend("C27", runC27Extra9,
		Mutant{Name: "seed-C27h-quantile-over-time-sorts-the-series-buffer", File: "internal/promql/functions.go", Rule: "C27-R13",
			Old: "					vs := wnd.getCopyOfValues()", New: "					vs := wnd.getValues()"})
}

// C07-R6: every row handed to the sampler was finished first.
func runC07Extra9(c *core.Check) {
	c.Decides += " R6 in Shard.sampleBucket every row that reaches the sampler (sampler.Add) has passed through FinishStringTop with the send capacity on every path (no kind of row — built-in or not — is handed over with more top values than the send limit)."
	const rule = "C07-R6"
	c.Rule(rule, "K6 must-pass-through", 1, "no path from the head of the row loop of sampleBucket to (*sampler).Add avoids (*MultiItem).FinishStringTop")
	fn := need(c, rule, "internal/agent.(*Shard).sampleBucket")
	if fn == nil {
		return
	}
	adds := core.CallsTo(fn, "internal/data_model.(*sampler).Add", "internal/data_model.sampler.Add")
	if len(adds) == 0 {
		c.Undecided(rule, "internal/agent.(*Shard).sampleBucket/sampler.Add", fn.Pos(), "no call of sampler.Add found")
		return
	}
	loops := core.NatLoops(fn)
	for i, s := range adds {
		l := core.InnermostNatLoop(loops, s.Block())
		if l == nil {
			c.Undecided(rule, fmt.Sprintf("internal/agent.(*Shard).sampleBucket/sampler.Add#%d", i+1), s.Pos(), "sampler.Add is not inside the row loop")
			continue
		}
		// search from the loop header: a path to Add that does not pass FinishStringTop
		var first ssa.Instruction
		if len(l.Header.Instrs) > 0 {
			first = l.Header.Instrs[0]
		}
		isAdd := func(in ssa.Instruction) bool { return in == s.Instr }
		isFinish := core.IsCallTo("internal/data_model.(*MultiItem).FinishStringTop")
		p := core.ReachWithout(first, isAdd, isFinish)
		c.Require(p == nil, rule, fmt.Sprintf("internal/agent.(*Shard).sampleBucket/sampler.Add#%d", i+1), s.Pos(), "row finished before it is sampled",
			"a row can reach sampler.Add without FinishStringTop: it is sent with all the top values it collected (up to the ingest capacity) instead of the send limit, and its tail does not hold the folded rest")
	}
}

// C20-R12: the group of a metric is searched among all groups.
func runC20Extra9(c *core.Check) {
	c.Decides += " R12 calcGroupForMetricLocked applies its prefix test to the elements of a loop over the ordered group list (every group is a candidate until the first match): 'name is a prefix' is not monotone in the sort order, so a search that probes one position misses the group whenever another group's name sorts between the prefix and the metric name."
	const rule = "C20-R12"
	c.Rule(rule, "K4 loop shape", 1, "every strings.HasPrefix in calcGroupForMetricLocked is inside a loop whose element index is the loop counter of a range over the groups parameter; no binary search is used")
	fn := need(c, rule, "internal/metajournal.(*MetricsStorage).calcGroupForMetricLocked")
	if fn == nil {
		return
	}
	loops := core.NatLoops(fn)
	n := 0
	for _, s := range core.CallsTo(fn, "strings.HasPrefix") {
		n++
		l := core.InnermostNatLoop(loops, s.Block())
		ok := l != nil
		if ok {
			// the tested group is an element selected by a loop-carried index
			ok = false
			var walk func(v ssa.Value, d int) bool
			walk = func(v ssa.Value, d int) bool {
				if d > 8 || v == nil {
					return false
				}
				switch x := v.(type) {
				case *ssa.IndexAddr:
					if definedIn(l, x.Index) {
						return true
					}
					return walk(x.X, d+1)
				case *ssa.Index:
					return definedIn(l, x.Index) || walk(x.X, d+1)
				case *ssa.UnOp:
					return walk(x.X, d+1)
				case *ssa.FieldAddr:
					return walk(x.X, d+1)
				case *ssa.Field:
					return walk(x.X, d+1)
				case *ssa.Extract:
					// range over slice by value (rangeiter is for maps/strings; slices use index)
					return definedIn(l, x)
				}
				return false
			}
			ok = walk(s.Arg(1), 0)
		}
		c.Require(ok, rule, fmt.Sprintf("internal/metajournal.(*MetricsStorage).calcGroupForMetricLocked/HasPrefix#%d", n), s.Pos(), "prefix test applied to every group in turn",
			"the prefix test is made for "+core.Expr(s.Arg(1))+", which is not the element of a loop over the groups: only one position of the ordered list is probed, so a metric whose prefix group is not adjacent to it in the sort order falls into the default group")
	}
	for _, s := range core.Calls(fn) {
		cn := core.CalleeName(s.Common())
		if strings.Contains(cn, "BinarySearch") || strings.HasPrefix(cn, "sort.Search") {
			c.Fail(rule, "internal/metajournal.(*MetricsStorage).calcGroupForMetricLocked/"+cn, s.Pos(), "calcGroupForMetricLocked uses "+cn+": 'is a prefix of the metric name' is not monotone in the order of group names, a binary search cannot find the longest matching prefix")
		}
	}
	if n == 0 {
		c.Undecided(rule, "internal/metajournal.(*MetricsStorage).calcGroupForMetricLocked/HasPrefix", fn.Pos(), "no prefix test found")
	}
}

// definedIn reports whether v is an instruction of (a block of) the loop.
func definedIn(l *core.NatLoop, v ssa.Value) bool {
	in, ok := v.(ssa.Instruction)
	return ok && in.Block() != nil && l.Blocks[in.Block()]
}

// C27-R13: sorting is done on a private copy of a window.
func runC27Extra9(c *core.Check) {
	c.Decides += " R13 in package promql a slice handed to a sorting function is never the result of window.getValues (which may alias the series buffer when the window has no gap): a window is sorted only as a private copy (getCopyOfValues / a freshly appended slice), otherwise one window's sort reorders the points the neighbouring windows still have to read."
	const rule = "C27-R13"
	c.Rule(rule, "K9 ownership", 2, "the argument of every sort.Float64s / sort.Slice / slices.Sort* call in internal/promql is not rooted in (*window).getValues")
	n := 0
	for _, fn := range c.Prog.FuncsIn("internal/promql") {
		ord := 0
		for _, s := range core.CallsTo(fn, "sort.Float64s", "sort.Slice", "sort.SliceStable", "sort.Sort", "sort.Stable", "slices.Sort*") {
			n++
			ord++
			src := core.Expr(s.Arg(0))
			bad := strings.Contains(src, "(*window).getValues(") || strings.Contains(src, ".Values") && !strings.Contains(src, "append(")
			c.Require(!bad, rule, fmt.Sprintf("%s/sort#%d", core.FuncName(fn), ord), s.Pos(), "sorted slice is private",
				core.FuncName(fn)+" sorts "+src+" in place: when the window has no gap this is the series buffer itself, so the points are reordered under the windows that are evaluated next")
		}
	}
	if n < 2 {
		c.Undecided(rule, "internal/promql/sort-calls", 0, fmt.Sprintf("expected at least the two quantile sorts, found %d", n))
	}
}

// ---- C27-R14/R15 (F31–F33) --------------------------------------------------------------

func init() {
	Extend("C27", runC27Extra9b,
		Mutant{Name: "revert-F31-present-over-time-inverted", File: "internal/promql/functions.go", Rule: "C27-R15",
			Old: "				if p || t-ev.r < lastSeen { // a point exists inside the window (t-r, t]", New: "				if p || lastSeen < t-ev.r {"},
		Mutant{Name: "revert-F32-stdvar-of-nothing-is-zero", File: "internal/promql/functions.go", Rule: "C27-R14",
			Old: "		if cnt == 0 {\n			d0[i] = math.NaN() // every series is missing, no point\n			continue\n		}\n", New: ""},
		Mutant{Name: "revert-F33-group-of-nothing-is-one", File: "internal/promql/functions.go", Rule: "C27-R14",
			Old: "		res := math.NaN() // no point where every series is missing\n		for _, d := range ds {\n			if !math.IsNaN((*d.Values)[i]) {\n				res = 1\n				break\n			}\n		}\n		d0[i] = res", New: "		d0[i] = 1"})
}

// c27ReachesNaN reports whether v can be the result of math.NaN() (through phis).
func c27ReachesNaN(v ssa.Value, seen map[ssa.Value]bool) bool {
	if v == nil || seen[v] {
		return false
	}
	seen[v] = true
	switch x := v.(type) {
	case *ssa.Call:
		return core.CalleeName(&x.Call) == "math.NaN"
	case *ssa.Phi:
		for _, e := range x.Edges {
			if c27ReachesNaN(e, seen) {
				return true
			}
		}
	}
	return false
}

func runC27Extra9b(c *core.Check) {
	c.Decides += " R14 every per-timestamp aggregate kernel (sum, min, max, avg, stdvar, quantile, group; not count, whose value for an all-missing group is 0 by its own definition) has the all-missing outcome: some store into the result row can store math.NaN() (a kernel that only ever writes numbers invents a point where every series is missing); R15 present_over_time writes 1 for an absent point only under (t - range < last seen), i.e. while the last present point is inside the window."
	const r14 = "C27-R14"
	c.Rule(r14, "K7 provenance", 7, "each aggregate kernel contains a store into *ds[0].Values whose value can be math.NaN()")
	for _, name := range append(append([]string{}, c27Kernels...), "funcGroup") {
		if name == "funcCount" {
			// the number of present points of an all-missing group is 0 by count's own definition;
			// whether 0 or "no point" is wanted there is not something the property text settles
			continue
		}
		fn := need(c, r14, c27pkg+"."+name)
		if fn == nil {
			continue
		}
		stores, nanStore := 0, false
		for _, b := range fn.Blocks {
			for _, in := range b.Instrs {
				st, ok := in.(*ssa.Store)
				if !ok {
					continue
				}
				if _, isIA := st.Addr.(*ssa.IndexAddr); !isIA {
					continue
				}
				stores++
				if c27ReachesNaN(st.Val, map[ssa.Value]bool{}) {
					nanStore = true
				}
			}
		}
		if stores == 0 {
			c.Undecided(r14, c27pkg+"."+name+"/result-stores", fn.Pos(), "no store into the result row found")
			continue
		}
		c.Require(nanStore, r14, c27pkg+"."+name+"/all-missing-outcome", fn.Pos(), "kernel can yield 'no point'",
			name+" never stores math.NaN() into the result row: at a timestamp where every series of the group is missing it still produces a number, i.e. a point that no input has")
	}
	const r15 = "C27-R15"
	c.Rule(r15, "K1 guard dominance", 1, "in funcPresentOverTime the store of 1 is guarded by `present || (t - range < lastSeen)`")
	if fn := need(c, r15, c27pkg+".funcPresentOverTime"); fn != nil {
		n := 0
		for _, b := range fn.Blocks {
			for _, in := range b.Instrs {
				st, ok := in.(*ssa.Store)
				if !ok || !isFloatOne(st.Val) {
					continue
				}
				n++
				good := false
				for _, g := range core.Facts(b) {
					for _, l := range g.Alts {
						if l.Op.String() != "<" || !l.Pol {
							continue
						}
						// window start (a subtraction) on the left, the last-seen phi on the right
						_, subLeft := l.X.(*ssa.BinOp)
						_, phiRight := l.Y.(*ssa.Phi)
						if subLeft && phiRight {
							good = true
						}
					}
				}
				c.Require(good, r15, fmt.Sprintf("%s.funcPresentOverTime/store-1#%d", c27pkg, n), st.Pos(), "absent point counts as present only inside the window",
					"present_over_time writes 1 under "+core.FactsString(b)+", which does not contain `t - range < lastSeen`: the function reports a point where the window holds none (also before a series' first point) and none where it holds one")
			}
		}
		if n == 0 {
			c.Undecided(r15, c27pkg+".funcPresentOverTime/store-1", fn.Pos(), "no store of 1 found")
		}
	}
}

func isFloatOne(v ssa.Value) bool {
	k, ok := v.(*ssa.Const)
	if !ok || k.Value == nil {
		return false
	}
	return k.Value.ExactString() == "1"
}
