package props

import (
	"fmt"
	"strings"

	"golang.org/x/tools/go/ssa"

	"shverif/core"
)

// Ninth batch: rules for the round-h seeds that the tables did not report
// (C07-h, C20-h, C27-h); see DESIGN.md §11.

func init() {
	Extend("C07", runC07Extra9,
		Mutant{Name: "seed-C07h-ingestion-status-rows-sent-unfinished", File: "internal/agent/agent_shard_send.go", Rule: "C07-R6",
			Old: "		whaleWeight := item.FinishStringTop(rnd, config.StringTopCountSend) // all excess items are baked into Tail\n", New: "		whaleWeight := 0.0\n		if item.Key.Metric != format.BuiltinMetricIDIngestionStatus || item.Key.Tags[1] == 0 {\n			whaleWeight = item.FinishStringTop(rnd, config.StringTopCountSend)\n		}\n"})
	Extend("C20", runC20Extra9,
		Mutant{Name: "seed-C20h-group-found-by-single-probe", File: "internal/metajournal/meta_metrics.go", Rule: "C20-R12",
			Old: "	for _, g := range groupsOrdered {\n		if strings.HasPrefix(m.Name, g.Name) {\n			newGroup = g.ID\n			break\n		}\n	}", New: "	if len(groupsOrdered) != 0 {\n		if g := groupsOrdered[0]; strings.HasPrefix(m.Name, g.Name) {\n			newGroup = g.ID\n		}\n	}"})
	Extend("C27", runC27Extra9,
		Mutant{Name: "seed-C27h-quantile-over-time-sorts-the-series-buffer", File: "internal/promql/functions.go", Rule: "C27-R13",
			Old: "					vs := wnd.getCopyOfValues()", New: "					vs := wnd.getValues()"})
}

// C07-R6: every row handed to the sampler was finished first.
func runC07Extra9(c *core.Check) {
	c.Decides += " R6 in Shard.sampleBucket every row that reaches the sampler (sampler.Add) has passed through FinishStringTop with the send capacity on every path (no kind of row — built-in or not — is handed over with more top values than the send limit)."
	const rule = "C07-R6"
	c.Rule(rule, "K6 must-pass-through", 1, "no path from the head of the row loop of sampleBucket to (*sampler).Add avoids (*MultiItem).FinishStringTop")
	fn := need(c, rule, "internal/agent.(*Shard).sampleBucket")
	if fn == nil {
		return
	}
	adds := core.CallsTo(fn, "internal/data_model.(*sampler).Add", "internal/data_model.sampler.Add")
	if len(adds) == 0 {
		c.Undecided(rule, "internal/agent.(*Shard).sampleBucket/sampler.Add", fn.Pos(), "no call of sampler.Add found")
		return
	}
	loops := core.NatLoops(fn)
	for i, s := range adds {
		l := core.InnermostNatLoop(loops, s.Block())
		if l == nil {
			c.Undecided(rule, fmt.Sprintf("internal/agent.(*Shard).sampleBucket/sampler.Add#%d", i+1), s.Pos(), "sampler.Add is not inside the row loop")
			continue
		}
		// search from the loop header: a path to Add that does not pass FinishStringTop
		var first ssa.Instruction
		if len(l.Header.Instrs) > 0 {
			first = l.Header.Instrs[0]
		}
		isAdd := func(in ssa.Instruction) bool { return in == s.Instr }
		isFinish := core.IsCallTo("internal/data_model.(*MultiItem).FinishStringTop")
		p := core.ReachWithout(first, isAdd, isFinish)
		c.Require(p == nil, rule, fmt.Sprintf("internal/agent.(*Shard).sampleBucket/sampler.Add#%d", i+1), s.Pos(), "row finished before it is sampled",
			"a row can reach sampler.Add without FinishStringTop: it is sent with all the top values it collected (up to the ingest capacity) instead of the send limit, and its tail does not hold the folded rest")
	}
}

// C20-R12: the group of a metric is searched among all groups.
func runC20Extra9(c *core.Check) {
	c.Decides += " R12 calcGroupForMetricLocked applies its prefix test to the elements of a loop over the ordered group list (every group is a candidate until the first match): 'name is a prefix' is not monotone in the sort order, so a search that probes one position misses the group whenever another group's name sorts between the prefix and the metric name."
	const rule = "C20-R12"
	c.Rule(rule, "K4 loop shape", 1, "every strings.HasPrefix in calcGroupForMetricLocked is inside a loop whose element index is the loop counter of a range over the groups parameter; no binary search is used")
	fn := need(c, rule, "internal/metajournal.(*MetricsStorage).calcGroupForMetricLocked")
	if fn == nil {
		return
	}
	loops := core.NatLoops(fn)
	n := 0
	for _, s := range core.CallsTo(fn, "strings.HasPrefix") {
		n++
		l := core.InnermostNatLoop(loops, s.Block())
		ok := l != nil
		if ok {
			// the tested group is an element selected by a loop-carried index
			ok = false
			var walk func(v ssa.Value, d int) bool
			walk = func(v ssa.Value, d int) bool {
				if d > 8 || v == nil {
					return false
				}
				switch x := v.(type) {
				case *ssa.IndexAddr:
					if definedIn(l, x.Index) {
						return true
					}
					return walk(x.X, d+1)
				case *ssa.Index:
					return definedIn(l, x.Index) || walk(x.X, d+1)
				case *ssa.UnOp:
					return walk(x.X, d+1)
				case *ssa.FieldAddr:
					return walk(x.X, d+1)
				case *ssa.Field:
					return walk(x.X, d+1)
				case *ssa.Extract:
					// range over slice by value (rangeiter is for maps/strings; slices use index)
					return definedIn(l, x)
				}
				return false
			}
			ok = walk(s.Arg(1), 0)
		}
		c.Require(ok, rule, fmt.Sprintf("internal/metajournal.(*MetricsStorage).calcGroupForMetricLocked/HasPrefix#%d", n), s.Pos(), "prefix test applied to every group in turn",
			"the prefix test is made for "+core.Expr(s.Arg(1))+", which is not the element of a loop over the groups: only one position of the ordered list is probed, so a metric whose prefix group is not adjacent to it in the sort order falls into the default group")
	}
	for _, s := range core.Calls(fn) {
		cn := core.CalleeName(s.Common())
		if strings.Contains(cn, "BinarySearch") || strings.HasPrefix(cn, "sort.Search") {
			c.Fail(rule, "internal/metajournal.(*MetricsStorage).calcGroupForMetricLocked/"+cn, s.Pos(), "calcGroupForMetricLocked uses "+cn+": 'is a prefix of the metric name' is not monotone in the order of group names, a binary search cannot find the longest matching prefix")
		}
	}
	if n == 0 {
		c.Undecided(rule, "internal/metajournal.(*MetricsStorage).calcGroupForMetricLocked/HasPrefix", fn.Pos(), "no prefix test found")
	}
}

// definedIn reports whether v is an instruction of (a block of) the loop.
func definedIn(l *core.NatLoop, v ssa.Value) bool {
	in, ok := v.(ssa.Instruction)
	return ok && in.Block() != nil && l.Blocks[in.Block()]
}

// C27-R13: sorting is done on a private copy of a window.
func runC27Extra9(c *core.Check) {
	c.Decides += " R13 in package promql a slice handed to a sorting function is never the result of window.getValues (which may alias the series buffer when the window has no gap): a window is sorted only as a private copy (getCopyOfValues / a freshly appended slice), otherwise one window's sort reorders the points the neighbouring windows still have to read."
	const rule = "C27-R13"
	c.Rule(rule, "K9 ownership", 2, "the argument of every sort.Float64s / sort.Slice / slices.Sort* call in internal/promql is not rooted in (*window).getValues")
	n := 0
	for _, fn := range c.Prog.FuncsIn("internal/promql") {
		ord := 0
		for _, s := range core.CallsTo(fn, "sort.Float64s", "sort.Slice", "sort.SliceStable", "sort.Sort", "sort.Stable", "slices.Sort*") {
			n++
			ord++
			src := core.Expr(s.Arg(0))
			bad := strings.Contains(src, "(*window).getValues(") || strings.Contains(src, ".Values") && !strings.Contains(src, "append(")
			c.Require(!bad, rule, fmt.Sprintf("%s/sort#%d", core.FuncName(fn), ord), s.Pos(), "sorted slice is private",
				core.FuncName(fn)+" sorts "+src+" in place: when the window has no gap this is the series buffer itself, so the points are reordered under the windows that are evaluated next")
		}
	}
	if n < 2 {
		c.Undecided(rule, "internal/promql/sort-calls", 0, fmt.Sprintf("expected at least the two quantile sorts, found %d", n))
	}
}
