package props

import (
	"fmt"
	"go/token"
	"go/types"
	"strings"

	"golang.org/x/tools/go/ssa"

	"shverif/core"
)

func init() {
	const cs = "internal/data_model/chunked_storage2.go"
	const mc = "internal/pcache/mappings_cache.go"
	Register(&Property{
		ID:   "C21",
		Pkgs: []string{"./internal/data_model", "./internal/pcache"},
		Run:  runC21,
		Mutants: []Mutant{
			// R1
			{Name: "hash-test-dropped", File: cs, Rule: "C21-R1",
				Old: "	if h != actualHash {", New: "	if h != actualHash && s == 0 {"},
			{Name: "next-offset-assigned-before-hash-test", File: cs, Rule: "C21-R1",
				Old: "	actualHash := getHash(currentChunk[chunkHeaderSize+s:])\n", New: "	actualHash := getHash(currentChunk[chunkHeaderSize+s:])\n	c.nextOffset = nextChunkOffset\n"},
			{Name: "body-size-limit-dropped", File: cs, Rule: "C21-R1",
				Old: "	if s > ChunkSize {", New: "	if s > ChunkSize*1024 {"},
			{Name: "file-size-bound-forgets-hash", File: cs, Rule: "C21-R1",
				Old: "	nextChunkOffset := c.offset + chunkHeaderSize + s + chunkHashSize\n	if nextChunkOffset > c.initialFileSize {", New: "	nextChunkOffset := c.offset + chunkHeaderSize + s + chunkHashSize\n	if c.offset+chunkHeaderSize+s > c.initialFileSize {"},
			// R2
			{Name: "reader-size-field-at-wrong-offset", File: cs, Rule: "C21-R2",
				Old: "	s := int64(binary.LittleEndian.Uint32(currentChunk[4:]))", New: "	s := int64(binary.LittleEndian.Uint32(currentChunk[6:]))"},
			{Name: "reader-hash-excludes-previous-hash", File: cs, Rule: "C21-R2",
				Old: "	h := xxh3.Hash128(c.scratch[:chunkHashSize+chunkHeaderSize+s])", New: "	h := xxh3.Hash128(c.scratch[chunkHashSize : chunkHashSize+chunkHeaderSize+s])"},
			{Name: "getHash-swaps-halves", File: cs, Rule: "C21-R2",
				Old: "		Hi: binary.BigEndian.Uint64(b),\n		Lo: binary.BigEndian.Uint64(b[8:]),", New: "		Lo: binary.BigEndian.Uint64(b),\n		Hi: binary.BigEndian.Uint64(b[8:]),"},
			{Name: "writer-hash-little-endian", File: cs, Rule: "C21-R2",
				Old: "	chunk = binary.BigEndian.AppendUint64(chunk, h.Hi)\n	chunk = binary.BigEndian.AppendUint64(chunk, h.Lo)", New: "	chunk = binary.LittleEndian.AppendUint64(chunk, h.Hi)\n	chunk = binary.LittleEndian.AppendUint64(chunk, h.Lo)"},
			{Name: "writer-chain-not-advanced", File: cs, Rule: "C21-R2",
				Old: "	c.hash = h\n	c.offset += int64(len(chunk) - chunkHashSize)", New: "	c.offset += int64(len(chunk) - chunkHashSize)"},
			{Name: "writer-size-field-includes-header", File: cs, Rule: "C21-R2",
				Old: "uint32(len(chunk)-chunkHashSize-chunkHeaderSize))", New: "uint32(len(chunk)-chunkHashSize))"},
			// R3
			{Name: "remove-forgets-size", File: mc, Rule: "C21-R3",
				Old: "	size := elementSizeMem(k)\n	c.addSumSizeLocked(-size)\n", New: ""},
			{Name: "timestamp-update-forgets-old-ts", File: mc, Rule: "C21-R3",
				Old: "	c.addSumTSLocked(-int64(val.accessTS))\n	val.accessTS = accessTS\n	c.addSumTSLocked(int64(accessTS))\n	c.cache[str] = val", New: "	val.accessTS = accessTS\n	c.addSumTSLocked(int64(accessTS))\n	c.cache[str] = val"},
			{Name: "ttl-removal-under-read-lock", File: mc, Rule: "C21-R3",
				Old: "	c.mu.Lock()\n	defer c.mu.Unlock()\n\n	for _, p := range items {\n		c.removeItem(p.str, p.val.value, p.val.accessTS)", New: "	c.mu.RLock()\n	defer c.mu.RUnlock()\n\n	for _, p := range items {\n		c.removeItem(p.str, p.val.value, p.val.accessTS)"},
			{Name: "revert-fix-e8b74932-duplicate-in-batch", File: mc, Rule: "C21-R3",
				Old: "	if val, ok := c.cache[k]; ok { // AddValues filters against cache only, so batch with the same string twice gets here\n		if c.testMode {\n			panic(\"adding existing item\")\n		}\n		// must not account item twice, update it like GetValue does\n		c.addSumTSLocked(-int64(val.accessTS))\n		c.addSumTSLocked(int64(accessTS))\n		c.cache[k] = cacheValue{value: v, accessTS: accessTS}\n		return\n	}\n",
				New: "	if c.testMode {\n		if _, ok := c.cache[k]; ok {\n			panic(\"adding existing item\")\n		}\n	}\n"},
			{Name: "duplicate-overwrite-subtracts-wrong-field", File: mc, Rule: "C21-R3",
				Old: "		c.addSumTSLocked(-int64(val.accessTS))\n		c.addSumTSLocked(int64(accessTS))\n		c.cache[k] =", New: "		c.addSumTSLocked(-int64(val.value))\n		c.addSumTSLocked(int64(accessTS))\n		c.cache[k] ="},
			{Name: "duplicate-overwrite-counts-size-again", File: mc, Rule: "C21-R3",
				Old: "		// must not account item twice, update it like GetValue does\n", New: "		c.addSumSizeLocked(elementSizeMem(k))\n"},
			{Name: "load-without-dedup", File: mc, Rule: "C21-R3",
				Old: "			if _, ok := c.cache[val.str]; ok { // check existence for correct accounting\n				continue\n			}\n", New: ""},
			// R4
			{Name: "flood-marker-not-filtered", File: mc, Rule: "C21-R4",
				Old: "p.Value == 0 || p.Value == format.TagValueIDMappingFlood || p.Value == format.TagValueIDDoesNotExist", New: "p.Value == 0 || p.Value == format.TagValueIDDoesNotExist"},
			{Name: "slow-path-size-test-dropped", File: mc, Rule: "C21-R4",
				Old: "		if c.sumSize+size > maxSize {\n			break // we did not remove", New: "		if c.sumSize+size > maxSize && size > 1024 {\n			break // we did not remove"},
			{Name: "add-loop-over-unfiltered-pairs", File: mc, Rule: "C21-R4",
				Old: "	pairs = pairs[:nextPos]\n", New: "	_ = nextPos\n"},
			// R5
			{Name: "save-writes-ts-before-value", File: mc, Rule: "C21-R5",
				Old: "		chunk = basictl.IntWrite(chunk, v)\n		chunk = basictl.NatWrite(chunk, accessTS)", New: "		chunk = basictl.NatWrite(chunk, accessTS)\n		chunk = basictl.IntWrite(chunk, v)"},
			{Name: "load-uses-other-magic", File: mc, Rule: "C21-R5",
				Old: "		chunk, err := storage.ReadNext(data_model.ChunkedMagicMappings)", New: "		chunk, err := storage.ReadNext(data_model.ChunkedMagicAllMappings)"},
			{Name: "get-returns-stale-value-on-miss", File: mc, Rule: "C21-R5",
				Old: "		if c.testMode { // non-trivial cost, in production caller must track statistics\n			c.misses.Add(1)\n		}\n		return 0, false // simplify accounting", New: "		if c.testMode { // non-trivial cost, in production caller must track statistics\n			c.misses.Add(1)\n		}\n		return val.value, true // simplify accounting"},
		},
	})
}

const (
	c21DM  = "internal/data_model"
	c21PC  = "internal/pcache"
	tCS2   = "internal/data_model.ChunkedStorage2"
	mCS2   = "internal/data_model.(*ChunkedStorage2)."
	tMC    = "internal/pcache.MappingsCache"
	mMC    = "internal/pcache.(*MappingsCache)."
	xxh128 = "github.com/zeebo/xxh3.Hash128"
)

func runC21(c *core.Check) {
	c.Decides = "chunked storage framing and the mapping cache's bookkeeping discipline: (R1) ChunkedStorage2.ReadNext returns a chunk, and advances nextOffset/nextHash, only under magic == expected, body size <= ChunkSize, offset+header+size+hash <= initial file size and hash equality, and the returned slice is exactly the body; " +
		"(R2) finishChunk and ReadNext use the same header offsets/widths/byte order (after the 16-byte previous-hash prefix), the size field is the body length, putHash/getHash/the appended trailer agree on the 16-byte big-endian hash layout, both sides hash prevHash||header||body, " +
		"the file gets the chunk without the prefix and the chain (hash, offset) advances only after a successful write; (R3) every write of MappingsCache.cache happens with c.mu write-held (reads with it read-held), inserting helpers also under modifyMu, " +
		"each write is paired in its block with the size/access-time adjustments for the same key and timestamp, an insertion accounted as new is dominated by an absence test under the same lock, sumSize/sumTS have one writer each, locks are released on return; " +
		"(R4) AddValues inserts only elements of the filtered prefix of pairs, whose stores are dominated by the marker filter (empty string, 0, TagValueIDMappingFlood, TagValueIDDoesNotExist), and every addItem is dominated by a size test against maxSize; " +
		"(R5) Save and load use the same magic and the same primitive sequence (string,int,nat) on the same fields, GetValue/GetValueBytes return (v,true) only for the value looked up under the argument key with ok."
	c.NotDecided = "that a truncated/corrupted file yields exactly a prefix for every byte position (only the guards on the accepted chunk), hash collision resistance, eviction policy quality, that the cache never exceeds maxSize across concurrent SetSizeTTL, " +
		"accounting exactness under the interleaving GetValue-between-snapshot-and-removal (see report), marker values arriving through a saved file, and the generic sequential-codec engine (only this one codec pair is compared)."

	runC21Storage(c)
	runC21Cache(c)
}

func runC21Storage(c *core.Check) {
	hashSize, okHS := pkgConst(c, "C21-R2", c21DM, "chunkHashSize")
	hdrSize, okHD := pkgConst(c, "C21-R2", c21DM, "chunkHeaderSize")
	chunkSize, okCS := pkgConst(c, "C21-R1", c21DM, "ChunkSize")
	readNext := need(c, "C21-R1", mCS2+"ReadNext")
	finish := need(c, "C21-R2", mCS2+"finishChunk")
	if !okHS || !okHD || !okCS || readNext == nil || finish == nil {
		return
	}
	rl := layoutOf(c, "C21-R2", c21DM, "(*ChunkedStorage2).ReadNext")
	wl := layoutOf(c, "C21-R2", c21DM, "(*ChunkedStorage2).finishChunk")
	pl := layoutOf(c, "C21-R2", c21DM, "putHash")
	gl := layoutOf(c, "C21-R2", c21DM, "getHash")
	if rl == nil || wl == nil || pl == nil || gl == nil {
		return
	}

	// =================================================================== R2 (K3 fixed)
	c.Rule("C21-R2", "K3 fixed layout + K7", 10, "finishChunk header layout = ReadNext header layout (offsets relative to the scratch buffer that starts with the previous hash); putHash, getHash and the appended hash trailer share one 16-byte big-endian layout; "+
		"prefix+header tile [0,chunkHashSize+chunkHeaderSize); size field = body length; both sides hash prevHash||header||body; the chain advances only after a successful write")
	_, pAcc := singleRoot(c, "C21-R2", c21DM+".putHash", pl, true)
	_, gAcc := singleRoot(c, "C21-R2", c21DM+".getHash", gl, false)
	if pAcc != nil && gAcc != nil {
		requireTile(c, "C21-R2", c21DM+".putHash/tiles", pl.Fn.Pos(), pAcc, hashSize, "hash written by putHash")
		requireTile(c, "C21-R2", c21DM+".getHash/tiles", gl.Fn.Pos(), gAcc, hashSize, "hash read by getHash")
		requireAgree(c, "C21-R2", "putHash<->getHash", gl.Fn.Pos(), pAcc, gAcc, core.CompareOpts{})
	}
	runs := wl.AppendRunsOf()
	if len(runs) != 1 {
		c.Undecided("C21-R2", mCS2+"finishChunk/trailer", wl.Fn.Pos(), fmt.Sprintf("expected one run of AppendUint64 calls (the hash trailer), found %d", len(runs)))
	} else if gAcc != nil {
		requireTile(c, "C21-R2", mCS2+"finishChunk/trailer-tiles", wl.Fn.Pos(), runs[0], hashSize, "appended hash trailer")
		requireAgree(c, "C21-R2", "finishChunk-trailer<->getHash", wl.Fn.Pos(), runs[0], gAcc, core.CompareOpts{})
	}
	wRoot, wAcc := singleRoot(c, "C21-R2", mCS2+"finishChunk", wl, true)
	rRoot, rAcc := singleRoot(c, "C21-R2", mCS2+"ReadNext", rl, false)
	var magicRead, sizeRead *ssa.Call
	if wAcc != nil && rAcc != nil && pAcc != nil {
		// writer: prefix written by putHash(chunk, c.hash) + header
		ph := core.CallsTo(finish, c21DM+".putHash")
		prefixOK := len(ph) == 1 && len(finish.Params) == 2 && ph[0].Arg(0) == ssa.Value(finish.Params[1]) && core.LoadsField(ph[0].Arg(1), tCS2, "hash")
		c.Require(prefixOK && strings.HasPrefix(wAcc[0].RootDesc, "param#0 "), "C21-R2", mCS2+"finishChunk/prefix", wl.Fn.Pos(), "putHash(chunk, c.hash) fills the prefix of the chunk parameter",
			"finishChunk must put the previous hash c.hash at the start of its chunk parameter with putHash (the hash chain) and write the header into the same buffer")
		full := append(append([]core.LayoutAccess{}, pAcc...), wAcc...)
		requireTile(c, "C21-R2", mCS2+"finishChunk/tiles", wl.Fn.Pos(), full, hashSize+hdrSize, "previous hash + header written by finishChunk")
		// reader: same scratch buffer, filled by putHash(c.scratch, c.hash)
		rph := core.CallsTo(readNext, c21DM+".putHash")
		rv, isField := rRoot.(*types.Var)
		rPrefix := len(rph) == 1 && core.LoadsField(rph[0].Arg(0), tCS2, "scratch") && core.LoadsField(rph[0].Arg(1), tCS2, "hash") && isField && rv.IsField() && rv.Name() == "scratch"
		c.Require(rPrefix, "C21-R2", mCS2+"ReadNext/prefix", rl.Fn.Pos(), "putHash(c.scratch, c.hash) fills the prefix of the scratch buffer the header is parsed from",
			"ReadNext must place c.hash at the start of c.scratch with putHash and parse the header from c.scratch")
		requireAgree(c, "C21-R2", "finishChunk<->ReadNext", rl.Fn.Pos(), wAcc, rAcc, core.CompareOpts{})
		rfull := append(append([]core.LayoutAccess{}, pAcc...), rAcc...)
		requireTile(c, "C21-R2", mCS2+"ReadNext/tiles", rl.Fn.Pos(), rfull, hashSize+hdrSize, "previous hash + header parsed by ReadNext")
		_ = wRoot
		// size field = len(chunk) - prefix - header; magic field = c.magic
		for _, a := range wAcc {
			call := core.SSACallAt(finish, a.Call)
			if call == nil {
				continue
			}
			switch a.Off {
			case hashSize:
				c.Require(core.LoadsField(call.Call.Args[2], tCS2, "magic"), "C21-R2", mCS2+"finishChunk/magic-field", a.Pos, "magic field is c.magic", "the first header field is not c.magic: "+core.Expr(call.Call.Args[2]))
			case hashSize + 4:
				k, m := linShape(core.LinOf(peelConv(call.Call.Args[2])), linTerm{1, isLenOf(finish.Params[1])})
				c.Require(m && k == -(hashSize+hdrSize), "C21-R2", mCS2+"finishChunk/size-field", a.Pos, "size field = len(chunk) - prefix - header = body length",
					fmt.Sprintf("the size field must be len(chunk)-%d (body length); found %s", hashSize+hdrSize, core.LinOf(peelConv(call.Call.Args[2]))))
			}
		}
		for _, a := range rAcc {
			switch a.Off {
			case hashSize:
				magicRead = core.SSACallAt(readNext, a.Call)
			case hashSize + 4:
				sizeRead = core.SSACallAt(readNext, a.Call)
			}
		}
	}
	// writer hashing and chain advance
	hcalls := core.CallsTo(finish, xxh128)
	if len(hcalls) != 1 {
		c.Undecided("C21-R2", mCS2+"finishChunk/hash", finish.Pos(), fmt.Sprintf("expected one Hash128 call, found %d", len(hcalls)))
	} else {
		hc := hcalls[0]
		ph := core.CallsTo(finish, c21DM+".putHash")
		ok := hc.Arg(0) == ssa.Value(finish.Params[1]) && len(ph) == 1 && core.Dominates(ph[0].Instr, hc.Instr)
		for _, a := range wAcc {
			if call := core.SSACallAt(finish, a.Call); call == nil || !core.Dominates(call, hc.Instr) {
				ok = false
			}
		}
		c.Require(ok, "C21-R2", mCS2+"finishChunk/hash-covers", hc.Pos(), "hash = Hash128(prevHash||header||body) computed after prefix and header were written",
			"the chunk hash must be computed over the whole chunk parameter after putHash and both header fields were written")
		// appended halves come from this hash; file gets chunk[hashSize:]
		var hCell *ssa.Alloc
		for _, ref := range core.Referrers(hc.Value()) {
			if st, isSt := ref.(*ssa.Store); isSt {
				hCell, _ = st.Addr.(*ssa.Alloc)
			}
		}
		trailerOK := len(runs) == 1
		if len(runs) == 1 {
			for _, a := range runs[0] {
				call := core.SSACallAt(finish, a.Call)
				if call == nil {
					trailerOK = false
					continue
				}
				v := call.Call.Args[2]
				fromHash := false
				if u, isU := v.(*ssa.UnOp); isU {
					if fa, isFA := u.X.(*ssa.FieldAddr); isFA && hCell != nil && fa.X == ssa.Value(hCell) {
						fromHash = len(core.StoresTo(hCell)) == 1
					}
				}
				if f, isF := v.(*ssa.Field); isF && f.X == hc.Value() {
					fromHash = true
				}
				trailerOK = trailerOK && fromHash
			}
		}
		c.Require(trailerOK, "C21-R2", mCS2+"finishChunk/trailer-value", hc.Pos(), "the appended trailer is the computed hash", "the hash halves appended to the chunk are not the fields of the Hash128 result")
		var wr *core.Site
		for _, s := range core.Calls(finish) {
			s := s
			if s.Callee == "dynamic" && core.LoadsField(s.Common().Value, tCS2, "WriteAt") {
				wr = &s
			}
		}
		if wr == nil {
			c.Undecided("C21-R2", mCS2+"finishChunk/WriteAt", finish.Pos(), "call through the WriteAt field not found")
		} else {
			sl, isSl := wr.Common().Args[1].(*ssa.Slice)
			lowOK := false
			if isSl && sl.High == nil && sl.Low != nil {
				if k, isK := kInt64(sl.Low); isK && k == hashSize {
					if call, isC := sl.X.(*ssa.Call); isC && strings.HasSuffix(core.CalleeName(&call.Call), "AppendUint64") {
						lowOK = true
					}
				}
			}
			c.Require(lowOK && core.LoadsField(wr.Common().Args[0], tCS2, "offset"), "C21-R2", mCS2+"finishChunk/file-bytes", wr.Pos(), "the file receives header||body||hash (chunk without the previous-hash prefix) at c.offset",
				"WriteAt must be given c.offset and the finished chunk without its chunkHashSize-byte prefix")
			wrOK := func(b *ssa.BasicBlock) bool { return eqFact(b, true, isVal(wr.Value()), isNil) }
			adv := 0
			for _, f := range []string{"hash", "offset"} {
				for _, w := range core.FieldWrites([]*ssa.Function{finish}, tCS2, f) {
					adv++
					valOK := true
					if f == "hash" {
						u, isU := w.Val.(*ssa.UnOp)
						valOK = isU && hCell != nil && u.X == ssa.Value(hCell)
					} else {
						// offset += len(written chunk) - hashSize
						k, m := linShape(core.LinOf(w.Val), linTerm{1, loadsField(tCS2, "offset")}, linTerm{1, func(v ssa.Value) bool {
							call, isC := peelConv(v).(*ssa.Call)
							return isC && core.CalleeName(&call.Call) == "builtin len" && isSl && call.Call.Args[0] == sl.X
						}})
						valOK = m && k == -hashSize
					}
					c.Require(wrOK(w.Instr.Block()) && valOK, "C21-R2", fmt.Sprintf("%sfinishChunk/chain-%s#%d", mCS2, f, adv), w.Instr.Pos(), "chain advanced after the write succeeded, by the written chunk",
						fmt.Sprintf("c.%s is advanced without WriteAt having returned nil (guard=%v) or not by the written chunk (value ok=%v)", f, wrOK(w.Instr.Block()), valOK))
				}
			}
			if adv < 2 {
				c.Fail("C21-R2", mCS2+"finishChunk/chain", finish.Pos(), "finishChunk must advance both c.hash (to the chunk's hash) and c.offset after a successful write; the next chunk would otherwise chain to the wrong hash")
			}
		}
	}

	// =================================================================== R1 (K1)
	c.Rule("C21-R1", "K1 guard-dominance (linear bounds)", 3, "ReadNext returns a non-empty chunk, and stores nextOffset/nextHash, only under magic == expected magic, size <= ChunkSize, offset+header+size+hash <= initialFileSize and Hash128(prefix||header||body) == stored hash; the returned slice is the body")
	if magicRead == nil || sizeRead == nil || len(readNext.Params) != 2 {
		c.Undecided("C21-R1", mCS2+"ReadNext/header-reads", readNext.Pos(), "the header reads (magic, size) were not located by the layout engine")
		return
	}
	isS := derivesFrom(sizeRead)
	var hashCall, getCall *ssa.Call
	for _, s := range core.CallsTo(readNext, xxh128) {
		hashCall, _ = s.Instr.(*ssa.Call)
	}
	for _, s := range core.CallsTo(readNext, c21DM+".getHash") {
		getCall, _ = s.Instr.(*ssa.Call)
	}
	guards := func(b *ssa.BasicBlock) []string {
		var miss []string
		if !eqFact(b, true, isVal(magicRead), isVal(readNext.Params[1])) {
			miss = append(miss, "magic read from the header == expected magic parameter")
		}
		if !geFactWith(b, func(e core.Lin) bool { k, m := linShape(e, linTerm{-1, isS}); return m && k <= chunkSize }) {
			miss = append(miss, fmt.Sprintf("body size <= ChunkSize (%d)", chunkSize))
		}
		if !geFactWith(b, func(e core.Lin) bool {
			k, m := linShape(e, linTerm{1, loadsField(tCS2, "initialFileSize")}, linTerm{-1, loadsField(tCS2, "offset")}, linTerm{-1, isS})
			return m && k <= -(hdrSize+hashSize)
		}) {
			miss = append(miss, fmt.Sprintf("offset + header(%d) + size + hash(%d) <= initialFileSize", hdrSize, hashSize))
		}
		if hashCall == nil || getCall == nil || !eqFact(b, true, isVal(hashCall), isVal(getCall)) {
			miss = append(miss, "Hash128(...) == getHash(...)")
		}
		return miss
	}
	n := 0
	for _, r := range liveReturns(readNext) {
		if !isNil(r.Results[1]) || isNil(r.Results[0]) {
			continue
		}
		n++
		miss := guards(r.Block())
		// returned slice is the body: scratch[hashSize:][hdr : hdr+s]
		sl, isSl := r.Results[0].(*ssa.Slice)
		bodyOK := false
		if isSl && sl.Low != nil && sl.High != nil {
			lo, isLo := kInt64(sl.Low)
			hk, hm := linShape(core.LinOf(sl.High), linTerm{1, isS})
			if in, isIn := sl.X.(*ssa.Slice); isIn && in.High == nil && in.Low != nil && core.LoadsField(in.X, tCS2, "scratch") {
				if base, isB := kInt64(in.Low); isB && base == hashSize && isLo && lo == hdrSize && hm && hk == hdrSize {
					bodyOK = true
				}
			}
		}
		if !bodyOK {
			miss = append(miss, "returned slice = scratch[hash:][header : header+size] (exactly the body)")
		}
		c.Require(len(miss) == 0, "C21-R1", fmt.Sprintf("%sReadNext/return-chunk#%d", mCS2, n), r.Pos(), "chunk returned only under magic, size, file-size and hash tests; it is the body", "ReadNext returns a chunk without: "+strings.Join(miss, "; "))
	}
	if n == 0 {
		c.Undecided("C21-R1", mCS2+"ReadNext/return-chunk", readNext.Pos(), "no return of a non-nil chunk with nil error found")
	}
	for _, f := range []string{"nextOffset", "nextHash"} {
		for i, w := range core.FieldWrites([]*ssa.Function{readNext}, tCS2, f) {
			miss := guards(w.Instr.Block())
			if f == "nextHash" && w.Val != ssa.Value(getCall) {
				miss = append(miss, "nextHash = the hash read from the file (which was tested equal to the computed one)")
			}
			if f == "nextOffset" {
				k, m := linShape(core.LinOf(w.Val), linTerm{1, loadsField(tCS2, "offset")}, linTerm{1, isS})
				if !m || k != hdrSize+hashSize {
					miss = append(miss, "nextOffset = offset + header + size + hash")
				}
			}
			c.Require(len(miss) == 0, "C21-R1", fmt.Sprintf("%sReadNext/%s#%d", mCS2, f, i+1), w.Instr.Pos(), f+" advanced only after all tests", "c."+f+" is assigned without: "+strings.Join(miss, "; "))
		}
	}
	// reader hashes prefix||header||body and reads the stored hash right after the body
	if hashCall != nil && getCall != nil {
		var probs []string
		if sl, ok := hashCall.Call.Args[0].(*ssa.Slice); ok && sl.Low == nil && sl.High != nil && core.LoadsField(sl.X, tCS2, "scratch") {
			if k, m := linShape(core.LinOf(sl.High), linTerm{1, isS}); !m || k != hashSize+hdrSize {
				probs = append(probs, fmt.Sprintf("Hash128 must cover scratch[:%d+size], covers [: %s]", hashSize+hdrSize, core.LinOf(sl.High)))
			}
		} else {
			probs = append(probs, "Hash128 argument is not a prefix of c.scratch (previous hash must be included)")
		}
		if sl, ok := getCall.Call.Args[0].(*ssa.Slice); ok && sl.High == nil && sl.Low != nil {
			in, isIn := sl.X.(*ssa.Slice)
			k, m := linShape(core.LinOf(sl.Low), linTerm{1, isS})
			base, isB := int64(0), false
			if isIn && in.Low != nil && in.High == nil && core.LoadsField(in.X, tCS2, "scratch") {
				base, isB = kInt64(in.Low)
			}
			if !m || !isB || base+k != hashSize+hdrSize {
				probs = append(probs, "getHash must read right after the body (scratch offset hash+header+size)")
			}
		} else {
			probs = append(probs, "getHash argument is not an open-ended slice after the body")
		}
		rph := core.CallsTo(readNext, c21DM+".putHash")
		if len(rph) != 1 || !core.Dominates(rph[0].Instr, hashCall) {
			probs = append(probs, "putHash(c.scratch, c.hash) does not dominate the hash computation")
		}
		// the second ReadAt fills header+body+hash at scratch[hash:]
		filled := false
		for _, s := range core.Calls(readNext) {
			if s.Callee != "dynamic" || !core.LoadsField(s.Common().Value, tCS2, "ReadAt") {
				continue
			}
			if sl, ok := s.Common().Args[0].(*ssa.Slice); ok && sl.Low == nil && sl.High != nil {
				if k, m := linShape(core.LinOf(sl.High), linTerm{1, isS}); m && k == hdrSize+hashSize && core.Dominates(s.Instr, hashCall) && core.LoadsField(s.Common().Args[1], tCS2, "offset") {
					filled = true
				}
			}
		}
		if !filled {
			probs = append(probs, "no ReadAt(scratch[hash:][:header+size+hash], c.offset) dominating the hash computation")
		}
		c.Require(len(probs) == 0, "C21-R2", mCS2+"ReadNext/hash-covers", hashCall.Pos(), "reader hashes prevHash||header||body of the bytes read at c.offset and compares with the trailer after the body", strings.Join(probs, "; "))
	}
}

func runC21Cache(c *core.Check) {
	fns := c.Prog.FuncsIn(c21PC)
	// =================================================================== R3 (K6 + K4)
	c.Rule("C21-R3", "K4 lock discipline (local) + K6 co-update + K2", 30, "every store/delete on MappingsCache.cache is made with c.mu write-held (reads: read-held), helpers (addItem/removeItem/addSum*Locked) are called only by holders, insertions additionally under modifyMu; "+
		"each write is paired in its block with addSumSizeLocked/addSumTSLocked for the same key / timestamp (overwrite: -old +new timestamp); an insertion accounted as new is dominated by an absence test made under the same write lock; sumSize/sumTS are written only by their helpers; locks are released on every return")
	helpers := []string{mMC + "addItem", mMC + "removeItem", mMC + "addSumSizeLocked", mMC + "addSumTSLocked"}
	exempt := []string{c21PC + ".NewMappingsCache"}
	whoMayCall(c, "C21-R3", fns, mMC+"addItem", []string{mMC + "AddValues"}, "only AddValues inserts (after its filter and size tests)")
	whoMayCall(c, "C21-R3", fns, mMC+"removeItem", []string{mMC + "AddValues", mMC + "RemoveByTTL"}, "eviction paths")
	whoMayCall(c, "C21-R3", fns, mMC+"addSumSizeLocked", []string{mMC + "addItem", mMC + "removeItem", mMC + "load"}, "size accounting moves only with insert/delete")
	whoMayCall(c, "C21-R3", fns, mMC+"addSumTSLocked", []string{mMC + "addItem", mMC + "removeItem", mMC + "load", mMC + "GetValue", mMC + "GetValueBytes"}, "timestamp accounting moves only with insert/delete/touch")
	for _, f := range []struct{ field, owner string }{{"sumSize", mMC + "addSumSizeLocked"}, {"sumTS", mMC + "addSumTSLocked"}} {
		for i, w := range core.FieldWrites(fns, tMC, f.field) {
			c.Require(core.FuncName(w.Fn) == f.owner, "C21-R3", fmt.Sprintf("%s-writer#%d:%s", f.field, i+1, core.FuncName(w.Fn)), w.Instr.Pos(), "single writer", "MappingsCache."+f.field+" is written outside "+f.owner)
		}
	}
	for _, fn := range fns {
		name := core.FuncName(fn)
		isHelper := inFuncs(name, helpers)
		if inFuncs(name, exempt) {
			continue
		}
		for i, op := range core.MinLockOps(fn) {
			if fa, ok := op.Addr.(*ssa.FieldAddr); ok && isHelper && (core.IsField(fa, tMC, "mu") || core.IsField(fa, tMC, "modifyMu")) {
				c.Fail("C21-R3", fmt.Sprintf("%s/lock-op#%d", name, i+1), op.Instr.Pos(), "a caller-holds-lock helper operates the cache mutexes itself")
			}
		}
		var locks *core.HeldLocks
		lk := func() *core.HeldLocks {
			if locks == nil {
				locks = core.AnalyzeLocks(fn)
			}
			return locks
		}
		need := func(in ssa.Instruction, recv ssa.Value, field string, min int, what string, n int) bool {
			lvl, reach := lk().Level(in, mutexKey(recv, field))
			if !reach {
				return true
			}
			want := "write"
			if min == core.LockR {
				want = "read"
			}
			return c.Require(lvl >= min, "C21-R3", fmt.Sprintf("%s/%s#%d", name, what, n), in.Pos(), what+" with c."+field+" "+want+"-held",
				fmt.Sprintf("%s in %s without %s held for %s (held here: %s)", what, name, mutexKey(recv, field), want, lk().HeldAt(in)))
		}
		cnt := map[string]int{}
		if !isHelper {
			for _, b := range fn.Blocks {
				for _, in := range b.Instrs {
					switch x := in.(type) {
					case *ssa.MapUpdate:
						if core.LoadsField(x.Map, tMC, "cache") {
							cnt["w"]++
							need(in, fieldBaseOf(x.Map), "mu", core.LockW, "cache-write", cnt["w"])
						}
					case *ssa.UnOp:
						for _, f := range []string{"cache", "sumSize", "sumTS"} {
							if x.Op == token.MUL && core.IsField(x.X, tMC, f) {
								cnt["r"+f]++
								need(in, fieldBaseOf(x.X), "mu", core.LockR, "read:"+f, cnt["r"+f])
							}
						}
					case ssa.CallInstruction:
						callee := core.CalleeName(x.Common())
						if callee == "builtin delete" && len(x.Common().Args) == 2 && core.LoadsField(x.Common().Args[0], tMC, "cache") {
							cnt["w"]++
							need(in, fieldBaseOf(x.Common().Args[0]), "mu", core.LockW, "cache-write", cnt["w"])
						}
						for _, h := range helpers {
							if callee == h {
								c.CallSites++
								cnt[h]++
								short := strings.TrimPrefix(h, mMC)
								need(in, x.Common().Args[0], "mu", core.LockW, "call:"+short, cnt[h])
								if h == mMC+"addItem" {
									need(in, x.Common().Args[0], "modifyMu", core.LockW, "call:"+short+"/modifyMu", cnt[h])
								}
							}
						}
					}
				}
			}
		}
		// releases
		if ops := core.MinLockOps(fn); len(ops) > 0 && !isHelper {
			keys := map[string]bool{}
			for _, op := range ops {
				if fa, ok := op.Addr.(*ssa.FieldAddr); ok && (core.IsField(fa, tMC, "mu") || core.IsField(fa, tMC, "modifyMu")) {
					keys[op.Mutex] = true
				}
			}
			for i, r := range liveReturns(fn) {
				for _, k := range core.SortedKeys(keys) {
					lvl, reach := lk().Level(r, k)
					if !reach {
						continue
					}
					c.Require(lvl == core.LockNone || lk().DeferredRelease(r, k), "C21-R3", fmt.Sprintf("%s/return#%d/released:%s", name, i+1, k[strings.LastIndex(k, ".")+1:]), r.Pos(), "mutex released on return",
						"return with "+k+" held and no deferred release registered")
				}
			}
		}
		// co-update per block
		for _, b := range fn.Blocks {
			for _, in := range b.Instrs {
				var key ssa.Value
				var stored ssa.Value
				kind := ""
				switch x := in.(type) {
				case *ssa.MapUpdate:
					if core.LoadsField(x.Map, tMC, "cache") {
						kind, key, stored = "update", x.Key, x.Value
					}
				case *ssa.Call:
					if core.CalleeName(&x.Call) == "builtin delete" && len(x.Call.Args) == 2 && core.LoadsField(x.Call.Args[0], tMC, "cache") {
						kind, key = "delete", x.Call.Args[1]
					}
				}
				if kind == "" {
					continue
				}
				cnt["co"]++
				c21CoUpdate(c, fn, b, in, kind, key, stored, fmt.Sprintf("%s/cache-%s#%d", name, kind, cnt["co"]), lk(), isHelper)
			}
		}
	}
	c21Filter(c)
	c21Codec(c, fns)
}

// c21CoUpdate checks the accounting calls that accompany one write of the cache map.
// callerHolds is true for the helpers that the rule proves to be called only with the
// receiver's c.mu write-held (who-may-call + lock level at every call site + the helper
// never operates the mutex): inside them a lookup on the receiver's map is made under
// that write lock although the local lock analysis sees no Lock in the function.
func c21CoUpdate(c *core.Check, fn *ssa.Function, b *ssa.BasicBlock, in ssa.Instruction, kind string, key, stored ssa.Value, site string, locks *core.HeldLocks, callerHolds bool) {
	keyText := core.Expr(key)
	// lockedLookup: a comma-ok lookup of the same key in c.cache evaluated with c.mu write-held
	lockedLookup := func(v ssa.Value) *ssa.Lookup {
		lu, ok := v.(*ssa.Lookup)
		if !ok || !lu.CommaOk || !core.LoadsField(lu.X, tMC, "cache") || core.Expr(lu.Index) != keyText {
			return nil
		}
		base := fieldBaseOf(lu.X)
		if lvl, _ := locks.Level(lu, mutexKey(base, "mu")); lvl == core.LockW {
			return lu
		}
		if callerHolds && len(fn.Params) > 0 && base == ssa.Value(fn.Params[0]) {
			return lu
		}
		return nil
	}
	// oldTSLookup: the lookup whose entry's accessTS the value v is
	oldTSLookup := func(v ssa.Value, at ssa.Instruction) *ssa.Lookup {
		switch x := v.(type) {
		case *ssa.Field: // val.accessTS of `val, ok := c.cache[k]`
			if !core.IsField(x, "internal/pcache.cacheValue", "accessTS") {
				return nil
			}
			if ex, ok := x.X.(*ssa.Extract); ok && ex.Index == 0 {
				return lockedLookup(ex.Tuple)
			}
		case *ssa.UnOp: // load of <cell>.accessTS, cell last filled by the lookup
			fa, ok := x.X.(*ssa.FieldAddr)
			if x.Op != token.MUL || !ok || !core.IsField(fa, "internal/pcache.cacheValue", "accessTS") {
				return nil
			}
			a, ok := fa.X.(*ssa.Alloc)
			if !ok {
				return nil
			}
			for _, st := range core.StoresTo(a) {
				ex, isEx := st.Val.(*ssa.Extract)
				if !isEx || ex.Index != 0 || !core.Dominates(st, at) {
					continue
				}
				lu := lockedLookup(ex.Tuple)
				if lu == nil {
					continue
				}
				// no other store into the cell (whole or its accessTS field) between the lookup and the use
				other := core.ReachWithout(st, func(i ssa.Instruction) bool {
					s2, isSt := i.(*ssa.Store)
					if !isSt || s2 == st {
						return false
					}
					if s2.Addr == ssa.Value(a) {
						return true
					}
					f2, isFA := s2.Addr.(*ssa.FieldAddr)
					return isFA && f2.X == ssa.Value(a) && core.IsField(f2, "internal/pcache.cacheValue", "accessTS")
				}, func(i ssa.Instruction) bool { return i == at })
				if other == nil {
					return lu
				}
			}
		}
		return nil
	}
	// candidate expressions of the access time carried by the stored value
	tsCands := map[string]bool{}
	if u, ok := stored.(*ssa.UnOp); ok && u.Op == token.MUL {
		tsCands[strings.TrimPrefix(core.Expr(u.X), "&")+".accessTS"] = true
		if a, isA := u.X.(*ssa.Alloc); isA {
			for _, ref := range core.Referrers(a) {
				if fa, isFA := ref.(*ssa.FieldAddr); isFA && core.IsField(fa, "internal/pcache.cacheValue", "accessTS") {
					for _, r2 := range core.Referrers(fa) {
						if st, isSt := r2.(*ssa.Store); isSt && st.Addr == ssa.Value(fa) {
							tsCands[core.Expr(st.Val)] = true
						}
					}
				}
			}
		}
	}
	var sizePos, sizeNeg, tsPos, tsNeg bool
	var tsNegLookup *ssa.Lookup
	for _, x := range b.Instrs {
		call, ok := x.(*ssa.Call)
		if !ok || len(call.Call.Args) != 2 {
			continue
		}
		arg := call.Call.Args[1]
		neg := false
		if u, isU := arg.(*ssa.UnOp); isU && u.Op == token.SUB {
			neg, arg = true, u.X
		}
		switch core.CalleeName(&call.Call) {
		case mMC + "addSumSizeLocked":
			if es, isC := arg.(*ssa.Call); isC && core.CalleeName(&es.Call) == c21PC+".elementSizeMem" && core.Expr(es.Call.Args[0]) == keyText {
				if neg {
					sizeNeg = true
				} else {
					sizePos = true
				}
			}
		case mMC + "addSumTSLocked":
			inner := peelConv(arg)
			if neg {
				tsNeg = true
				// the old timestamp is the accessTS of the entry a write-locked lookup of the same key returned
				if lu := oldTSLookup(inner, call); lu != nil {
					tsNegLookup = lu
				}
			} else if tsCands[core.Expr(inner)] {
				tsPos = true
			}
		}
	}
	// presence knowledge under the write lock
	var presentLu, absentLu *ssa.Lookup
	for _, g := range core.Facts(b) {
		if len(g.Alts) != 1 {
			continue
		}
		ex, ok := g.Alts[0].Cond.(*ssa.Extract)
		if !ok || ex.Index != 1 {
			continue
		}
		lu := lockedLookup(ex.Tuple)
		if lu == nil {
			continue
		}
		if g.Alts[0].Pol {
			presentLu = lu
		} else {
			absentLu = lu
		}
	}
	present, absent := presentLu != nil, absentLu != nil
	tsNegFromLookup := tsNegLookup != nil && tsNegLookup == presentLu
	switch {
	case kind == "delete":
		c.Require(sizeNeg && tsNeg && !sizePos && !tsPos, "C21-R3", site, in.Pos(), "delete paired with -size(key) and -timestamp",
			fmt.Sprintf("delete(c.cache, k) is not paired in its block with addSumSizeLocked(-elementSizeMem(k)) (found=%v) and addSumTSLocked(-ts) (found=%v)", sizeNeg, tsNeg))
	case present:
		c.Require(tsNeg && tsNegFromLookup && tsPos && !sizePos && !sizeNeg, "C21-R3", site, in.Pos(), "overwrite of an existing key: -old timestamp (read under the lock) +new timestamp, size untouched",
			fmt.Sprintf("overwrite of an existing entry must subtract the old access time of the entry returned by the write-locked lookup that reported it present (found=%v, from that lookup=%v), add the stored one (found=%v) and leave the size alone (size touched=%v)", tsNeg, tsNegFromLookup, tsPos, sizePos || sizeNeg))
	default:
		c.Require(sizePos && tsPos && !sizeNeg && !tsNeg, "C21-R3", site, in.Pos(), "insert paired with +size(key) and +timestamp of the stored value",
			fmt.Sprintf("insertion into c.cache is not paired in its block with addSumSizeLocked(elementSizeMem(key)) (found=%v) and addSumTSLocked(int64(stored accessTS)) (found=%v)", sizePos, tsPos))
		c.Require(absent, "C21-R3", site+"/absent-under-lock", in.Pos(), "insertion accounted as new is dominated by an absence test under the write lock",
			"the entry is accounted as new (+size, +timestamp) but no test `_, ok := c.cache[key]; !ok` made under the same write lock dominates the store: if the key is already present (e.g. the same string twice in one AddValues batch) sumSize/sumTS count it twice while the map holds one entry")
	}
}

// c21Filter: C21-R4.
func c21Filter(c *core.Check) {
	c.Rule("C21-R4", "K1 guard-dominance + K7 provenance", 3, "AddValues: stores into the pairs slice are dominated by the marker filter on the stored element (len(Str)!=0, Value not 0 / TagValueIDMappingFlood / TagValueIDDoesNotExist) and advance the kept-count in the same block; "+
		"addItem arguments are elements of pairs[:kept-count]; every addItem is dominated by a size test against maxSize (batch test on the accumulated size of the kept elements, or per element)")
	add := need(c, "C21-R4", mMC+"AddValues")
	if add == nil || len(add.Params) != 3 {
		return
	}
	pairs := add.Params[2]
	flood, ok1 := core.PkgConstInt64(c.Prog.Pkg("internal/format"), "TagValueIDMappingFlood")
	dne, ok2 := core.PkgConstInt64(c.Prog.Pkg("internal/format"), "TagValueIDDoesNotExist")
	if !ok1 || !ok2 {
		c.Anchor("C21-R4", "internal/format.TagValueIDMappingFlood/TagValueIDDoesNotExist")
		return
	}
	pairT := "internal/data_model/gen2/internal.StatshouseMapping"
	if n, ok := namedU(pairs.Type().Underlying().(*types.Slice).Elem()); ok {
		pairT = core.TypeName(n.Origin())
	}
	var kept ssa.Value // the kept-count value
	var keptBlock *ssa.BasicBlock
	var memPhi ssa.Value
	n := 0
	for _, b := range add.Blocks {
		for _, in := range b.Instrs {
			st, ok := in.(*ssa.Store)
			if !ok {
				continue
			}
			ia, ok := st.Addr.(*ssa.IndexAddr)
			if !ok || ia.X != ssa.Value(pairs) {
				continue
			}
			n++
			key := fmt.Sprintf("%sAddValues/pairs-store#%d", mMC, n)
			var miss []string
			ld, isLd := st.Val.(*ssa.UnOp)
			var cell ssa.Value
			if isLd && ld.Op == token.MUL {
				cell = ld.X
			}
			fieldOf := func(f string) func(ssa.Value) bool {
				return func(v ssa.Value) bool {
					u, ok := v.(*ssa.UnOp)
					if !ok || u.Op != token.MUL {
						return false
					}
					fa, ok := u.X.(*ssa.FieldAddr)
					return ok && cell != nil && fa.X == cell && loadsFieldU(u, pairT, f)
				}
			}
			if cell == nil {
				miss = append(miss, "stored element is not the loop element")
			}
			for _, k := range []struct {
				v    int64
				name string
			}{{0, "0"}, {flood, "TagValueIDMappingFlood"}, {dne, "TagValueIDDoesNotExist"}} {
				if !eqFact(b, false, fieldOf("Value"), isConstInt(k.v)) {
					miss = append(miss, "Value != "+k.name)
				}
			}
			if !eqFact(b, false, func(v ssa.Value) bool {
				call, ok := v.(*ssa.Call)
				return ok && core.CalleeName(&call.Call) == "builtin len" && fieldOf("Str")(call.Call.Args[0])
			}, isConstInt(0)) {
				miss = append(miss, "len(Str) != 0")
			}
			// index is the kept-count, incremented in this block only
			if phi, isPhi := ia.Index.(*ssa.Phi); isPhi {
				okPhi := true
				for _, e := range phi.Edges {
					switch x := e.(type) {
					case *ssa.Const:
						if k, _ := kInt64(x); k != 0 {
							okPhi = false
						}
					case *ssa.BinOp:
						one, is1 := kInt64(x.Y)
						if x.Op != token.ADD || x.X != ssa.Value(phi) || !is1 || one != 1 || x.Block() != b {
							okPhi = false
						}
					case *ssa.Phi:
						if x != phi {
							okPhi = false
						}
					default:
						okPhi = false
					}
				}
				if okPhi {
					kept, keptBlock = phi, b
				} else {
					miss = append(miss, "the store index is not a counter that starts at 0 and is incremented only together with a filtered store")
				}
			} else {
				miss = append(miss, "the store index is not the kept-count")
			}
			c.Require(len(miss) == 0, "C21-R4", key, st.Pos(), "element kept only after the marker filter; kept-count advances with it", "pairs[kept] = p is not dominated by / paired with: "+strings.Join(miss, "; "))
		}
	}
	if n == 0 {
		c.Undecided("C21-R4", mMC+"AddValues/pairs-store", add.Pos(), "no compaction store into the pairs parameter found")
		return
	}
	// accumulated size of kept elements: phi incremented by elementSizeMem(p.Str) in the kept block
	if keptBlock != nil {
		for _, in := range keptBlock.Instrs {
			if bo, ok := in.(*ssa.BinOp); ok && bo.Op == token.ADD {
				if call, isC := bo.Y.(*ssa.Call); isC && core.CalleeName(&call.Call) == c21PC+".elementSizeMem" {
					if phi, isPhi := bo.X.(*ssa.Phi); isPhi {
						okPhi := true
						for _, e := range phi.Edges {
							if k, isK := kInt64(e); isK && k == 0 {
								continue
							}
							if e == ssa.Value(bo) || e == ssa.Value(phi) {
								continue
							}
							okPhi = false
						}
						if okPhi {
							memPhi = phi
						}
					}
				}
			}
		}
	}
	isMax := func(v ssa.Value) bool {
		call, ok := v.(*ssa.Call)
		return ok && core.CalleeName(&call.Call) == "sync/atomic.(*Int64).Load" && core.IsField(call.Call.Args[0], tMC, "maxSize")
	}
	for i, s := range core.CallsTo(add, mMC+"addItem") {
		key := fmt.Sprintf("%sAddValues/addItem#%d", mMC, i+1)
		var miss []string
		// provenance: key/value are fields of an element of pairs[:kept]
		fromKept := func(v ssa.Value) bool {
			u, ok := v.(*ssa.UnOp)
			if !ok {
				return false
			}
			fa, ok := u.X.(*ssa.FieldAddr)
			if !ok {
				return false
			}
			cell, ok := fa.X.(*ssa.Alloc)
			if !ok {
				return false
			}
			sts := core.CellStores(cell)
			if len(sts) == 0 {
				return false
			}
			for _, st := range sts {
				el, ok := st.Val.(*ssa.UnOp)
				if !ok {
					return false
				}
				ia, ok := el.X.(*ssa.IndexAddr)
				if !ok {
					return false
				}
				sl, ok := ia.X.(*ssa.Slice)
				if !ok || sl.X != ssa.Value(pairs) || sl.Low != nil || sl.High == nil || sl.High != kept {
					return false
				}
				if !core.Dominates(st, s.Instr) {
					return false
				}
			}
			return true
		}
		if !fromKept(s.Arg(1)) || !fromKept(s.Arg(2)) || !loadsFieldU(s.Arg(1), pairT, "Str") || !loadsFieldU(s.Arg(2), pairT, "Value") {
			miss = append(miss, "key and value are the Str/Value of an element of pairs[:kept-count] loaded in this iteration")
		}
		// size test
		keyText := core.Expr(s.Arg(1))
		batch := memPhi != nil && geFactWith(s.Block(), func(e core.Lin) bool {
			k, m := linShape(e, linTerm{1, isMax}, linTerm{-1, loadsField(tMC, "sumSize")}, linTerm{-1, isVal(memPhi)})
			return m && k <= 0
		})
		per := geFactWith(s.Block(), func(e core.Lin) bool {
			k, m := linShape(e, linTerm{1, isMax}, linTerm{-1, loadsField(tMC, "sumSize")}, linTerm{-1, func(v ssa.Value) bool {
				call, ok := v.(*ssa.Call)
				return ok && core.CalleeName(&call.Call) == c21PC+".elementSizeMem" && core.Expr(call.Call.Args[0]) == keyText
			}})
			return m && k <= 0
		})
		if !batch && !per {
			miss = append(miss, "sumSize + (accumulated size of the kept elements | elementSizeMem(key)) <= maxSize")
		}
		c.Require(len(miss) == 0, "C21-R4", key, s.Pos(), "addItem of a filtered element under a size test", "addItem is not dominated by / fed from: "+strings.Join(miss, "; "))
	}
}

// c21Codec: C21-R5.
func c21Codec(c *core.Check, fns []*ssa.Function) {
	c.Rule("C21-R5", "K3 sequential (this codec pair) + K5 + K1", 5, "Save's item writer and load use the same primitive sequence (string,int,nat) chained on one buffer, applied to key/value/accessTS on both sides, under the same chunk magic; "+
		"GetValue/GetValueBytes return (v,true) only for the value field of a lookup of the argument key that reported ok")
	save := need(c, "C21-R5", mMC+"Save")
	load := need(c, "C21-R5", mMC+"load")
	if save == nil || load == nil {
		return
	}
	bt := "internal/vkgo/basictl."
	// writer: the closure that calls FinishItem
	var item *ssa.Function
	for _, f := range core.WithAnon(save) {
		if f != save && len(core.CallsTo(f, mCS2+"FinishItem")) > 0 {
			item = f
		}
	}
	if item == nil || len(item.Params) != 3 {
		c.Undecided("C21-R5", mMC+"Save/item-writer", save.Pos(), "the closure that serialises one item (and calls FinishItem) was not found")
		return
	}
	var wseq []string
	var wcalls []core.Site
	for _, s := range core.Calls(item) {
		if strings.HasPrefix(s.Callee, bt) && strings.HasSuffix(s.Callee, "Write") {
			wseq = append(wseq, strings.TrimSuffix(strings.TrimPrefix(s.Callee, bt), "Write"))
			wcalls = append(wcalls, s)
		}
	}
	var rseq []string
	var rcalls []core.Site
	for _, s := range core.Calls(load) {
		if strings.HasPrefix(s.Callee, bt) && strings.HasSuffix(s.Callee, "Read") {
			rseq = append(rseq, strings.TrimSuffix(strings.TrimPrefix(s.Callee, bt), "Read"))
			rcalls = append(rcalls, s)
		}
	}
	var probs []string
	if strings.Join(wseq, ",") != strings.Join(rseq, ",") || len(wseq) != 3 {
		probs = append(probs, fmt.Sprintf("primitive sequences differ: Save writes [%s], load reads [%s]", strings.Join(wseq, ","), strings.Join(rseq, ",")))
	} else {
		// writer: one block, each value is the i-th parameter, buffer chained through the captured cell
		for i, s := range wcalls {
			if s.Block() != wcalls[0].Block() || (i > 0 && !core.Dominates(wcalls[i-1].Instr, s.Instr)) {
				probs = append(probs, "the item writer is not straight-line")
			}
			if s.Arg(1) != ssa.Value(item.Params[i]) {
				probs = append(probs, fmt.Sprintf("write #%d does not serialise parameter #%d of the item writer", i+1, i))
			}
		}
		// reader: chained, straight dominance, destinations key / value / accessTS
		dests := []struct{ typ, field string }{{"internal/pcache.cacheKeyValue", "str"}, {"internal/pcache.cacheValue", "value"}, {"internal/pcache.cacheValue", "accessTS"}}
		for i, s := range rcalls {
			if i > 0 {
				if !isExtract(rcalls[i-1].Value(), 0)(s.Arg(0)) || !core.Dominates(rcalls[i-1].Instr, s.Instr) || !eqFact(s.Block(), true, isExtract(rcalls[i-1].Value(), 1), isNil) {
					probs = append(probs, fmt.Sprintf("read #%d does not continue from the remainder of read #%d after its error was tested nil", i+1, i))
				}
			}
			if !core.IsField(s.Arg(1), dests[i].typ, dests[i].field) {
				probs = append(probs, fmt.Sprintf("read #%d does not decode into %s.%s", i+1, dests[i].typ, dests[i].field))
			}
		}
		// callers of the item writer pass key, value, accessTS
		ncall := 0
		for _, s := range core.Calls(save) {
			mk, isMk := s.Common().Value.(*ssa.MakeClosure)
			u, isU := s.Common().Value.(*ssa.UnOp)
			target := false
			if isMk && mk.Fn == ssa.Value(item) {
				target = true
			}
			if isU {
				if a, isA := u.X.(*ssa.Alloc); isA {
					for _, st := range core.CellStores(a) {
						if m2, ok := st.Val.(*ssa.MakeClosure); ok && m2.Fn == ssa.Value(item) {
							target = true
						}
					}
				}
			}
			if s.Callee == core.FuncName(item) {
				target = true
			}
			if !target {
				continue
			}
			ncall++
			args := s.Common().Args
			if len(args) != 3 {
				continue
			}
			vOK := strings.HasSuffix(core.Expr(args[1]), ".value") && strings.HasSuffix(core.Expr(args[2]), ".accessTS")
			if !vOK {
				probs = append(probs, fmt.Sprintf("a call of the item writer does not pass (key, <entry>.value, <entry>.accessTS): (%s, %s, %s)", core.Expr(args[0]), core.Expr(args[1]), core.Expr(args[2])))
			}
		}
		if ncall == 0 {
			probs = append(probs, "no call of the item writer found in Save")
		}
	}
	c.Require(len(probs) == 0, "C21-R5", "Save<->load/shape", save.Pos(), "Save and load agree: string(key), int(value), nat(accessTS)", strings.Join(probs, "; "))
	// magic
	var wm, rm int64 = -1, -2
	for _, s := range core.CallsTo(save, mCS2+"StartWriteChunk") {
		wm, _ = kInt64(s.Arg(1))
	}
	for _, s := range core.CallsTo(load, mCS2+"ReadNext") {
		rm, _ = kInt64(s.Arg(1))
	}
	c.Require(wm == rm, "C21-R5", "Save<->load/magic", load.Pos(), fmt.Sprintf("same chunk magic 0x%x", wm), fmt.Sprintf("Save writes chunks with magic 0x%x but load expects 0x%x: a saved cache never reloads", wm, rm))
	// load consumes the chunk returned by ReadNext
	for i, s := range core.CallsTo(load, mCS2+"ReadNext") {
		ok := len(rcalls) > 0 && core.Derives(rcalls[0].Arg(0), s.Value()) && eqFact(rcalls[0].Block(), true, isExtract(s.Value(), 1), isNil)
		c.Require(ok, "C21-R5", fmt.Sprintf("%sload/ReadNext#%d/consumed", mMC, i+1), s.Pos(), "items are decoded from the chunk ReadNext returned without error", "the first read does not start from the chunk returned by ReadNext under err == nil")
	}
	// GetValue siblings
	for _, nm := range []string{"GetValue", "GetValueBytes"} {
		fn := need(c, "C21-R5", mMC+nm)
		if fn == nil || len(fn.Params) != 3 {
			continue
		}
		n := 0
		for _, r := range liveReturns(fn) {
			vals := core.ReturnedValues(r)
			if !core.ConstBool(vals[1], true) {
				if !core.ConstBool(vals[1], false) {
					n++
					c.Fail("C21-R5", fmt.Sprintf("%s%s/return#%d", mMC, nm, n), r.Pos(), "found-flag is not a constant: "+core.Expr(vals[1]))
				}
				continue
			}
			n++
			// value = <cell>.value where every store into cell is the #0 of a lookup of c.cache[param key], and the latest lookup's ok holds
			ok := false
			why := "returned value is not the value field of the looked-up entry"
			if u, isU := vals[0].(*ssa.UnOp); isU {
				if fa, isFA := u.X.(*ssa.FieldAddr); isFA && core.IsField(fa, "internal/pcache.cacheValue", "value") {
					if cell, isA := fa.X.(*ssa.Alloc); isA {
						ok = true
						var lookups []*ssa.Lookup
						for _, ref := range core.Referrers(cell) {
							switch x := ref.(type) {
							case *ssa.Store:
								if x.Addr != ssa.Value(cell) {
									continue
								}
								ex, isEx := x.Val.(*ssa.Extract)
								if !isEx {
									ok, why = false, "the entry variable is assigned from something else than a cache lookup"
									continue
								}
								lu, isLU := ex.Tuple.(*ssa.Lookup)
								if !isLU || !core.LoadsField(lu.X, tMC, "cache") || stripStringConv(lu.Index) != ssa.Value(fn.Params[2]) {
									ok, why = false, "the lookup key is not the key argument"
									continue
								}
								lookups = append(lookups, lu)
							}
						}
						// the ok of a lookup that dominates the return must hold, and no later lookup into the cell may be un-tested
						okHeld := false
						for _, lu := range lookups {
							if !core.Dominates(lu, r) {
								continue
							}
							tested := eqOK(r.Block(), lu)
							// a later dominating lookup overrides an earlier one
							later := false
							for _, l2 := range lookups {
								if l2 != lu && core.Dominates(lu, l2) && core.Dominates(l2, r) {
									later = true
								}
							}
							if !later {
								okHeld = tested
							}
						}
						if !okHeld {
							ok, why = false, "the last lookup that filled the entry is not known to have reported ok on this path"
						}
					}
				}
			}
			c.Require(ok, "C21-R5", fmt.Sprintf("%s%s/return#%d", mMC, nm, n), r.Pos(), "(v,true) only for the entry found under the argument key", nm+" returns found=true but "+why)
		}
	}
}

func stripStringConv(v ssa.Value) ssa.Value {
	if cv, ok := v.(*ssa.Convert); ok {
		return cv.X
	}
	return v
}

// eqOK reports whether the comma-ok of the lookup is known true at b.
func eqOK(b *ssa.BasicBlock, lu *ssa.Lookup) bool {
	for _, g := range core.Facts(b) {
		if len(g.Alts) != 1 || !g.Alts[0].Pol {
			continue
		}
		if ex, ok := g.Alts[0].Cond.(*ssa.Extract); ok && ex.Tuple == ssa.Value(lu) && ex.Index == 1 {
			return true
		}
	}
	return false
}
