package props

import (
	"fmt"
	"go/constant"
	"go/token"
	"go/types"
	"strings"

	"golang.org/x/tools/go/ssa"

	"shverif/core"
)

// Second batch of rules added from seeded changes (second-round seeds and the seeds
// of C14, C28, C31); see DESIGN.md §11.

func init() {
	Extend("C14", runC14Extra,
		Mutant{Name: "seed-C14a-bytes-reader-keeps-old-value-for-empty-string", File: "internal/vkgo/basictl/basictl.go", Rule: "C14-R5",
			Old: "	} else {\n		*dst = (*dst)[:0]\n	}\n", New: "	}\n"},
		Mutant{Name: "seed-C14b-equal-length-block-kept-compressed", File: "internal/compress/lz4.go", Rule: "C14-R6",
			Old: "	if compressedSize >= len(originaldata) {", New: "	if compressedSize > len(originaldata) {"})
	Extend("C31", runC31Extra,
		Mutant{Name: "seed-C31a-timer-callback-skips-timeout-on-empty-buffer", File: "internal/balancer/egress.go", Rule: "C31-R4",
			Old: "		timeout = true\n		b.cond.Broadcast()", New: "		if b.wi == 0 {\n			return\n		}\n		timeout = true\n		b.cond.Broadcast()"},
		Mutant{Name: "seed-C31b-failover-returns-callers-buffer", File: "internal/balancer/egress.go", Rule: "C31-R5",
			Old: "	if pkt, ok := (*p.secPtr).buf.push(pkt); ok {", New: "	if _, ok := (*p.secPtr).buf.push(pkt); ok {"})
	Extend("C29", runC29Extra,
		Mutant{Name: "seed-C29c-granted-user-keeps-priority", File: "internal/util/queue/round_robin_queue.go", Rule: "C29-R5",
			Old: "		nextUser.order = q.incOrder()\n", New: ""})
	Extend("C08", runC08Extra,
		Mutant{Name: "seed-C08c-resolution-hash-over-stale-scratch", File: "internal/data_model/mapped_metric_header.go", Rule: "C08-R9",
			Old: "	scratch = h.OriginalMarshalAppend(scratch[:0])", New: "	scratch = h.OriginalMarshalAppend(scratch)"})
	Extend("C20", runC20Extra,
		Mutant{Name: "seed-C20d-state-hash-over-stale-scratch", File: "internal/metajournal/journal_fast.go", Rule: "C20-R9",
			Old: "	scratch = entry.WriteTL1(scratch[:0])", New: "	scratch = entry.WriteTL1(scratch)"},
		Mutant{Name: "seed-C20c-diff-empty-when-first-event-exceeds-budget", File: "internal/metajournal/journal_fast_rpc.go", Rule: "C20-R10",
			Old: "		ret.Events = append(ret.Events, event.Event)\n		bytesSize += len(event.Name)\n		bytesSize += len(event.Data)\n		bytesSize += 60\n",
			New: "		bytesSize += len(event.Name)\n		bytesSize += len(event.Data)\n		bytesSize += 60\n		if bytesSize > maxBytes {\n			return false\n		}\n		ret.Events = append(ret.Events, event.Event)\n"})
	Extend("C18", runC18Extra,
		Mutant{Name: "seed-C18c-rotate-to-not-fsynced", File: "internal/vkgo/binlog/fsbinlog/writer.go", Rule: "C18-R9",
			Old: "	if err := prevChunkFd.Sync(); err != nil {", New: "	if err := error(nil); err != nil {"},
		Mutant{Name: "seed-C18d-magic-read-without-length-check", File: "internal/vkgo/binlog/fsbinlog/reader.go", Rule: "C18-R10",
			Old: "		if len(buff) < 4 {\n			processErr = binlog.ErrorNotEnoughData\n			continue\n		}\n", New: ""})
	Extend("C13", runC13Extra2,
		Mutant{Name: "seed-C13c-tcp-buffer-without-header-room", File: "internal/receiver/receiver_tcp.go", Rule: "C13-R7",
			Old: "	data := make([]byte, 4+MaxTCPFrameBody)", New: "	data := make([]byte, MaxTCPFrameBody)"},
		Mutant{Name: "seed-C13d-msgpack-bound-assumes-float64-encoding", File: "internal/receiver/msgpack.go", Rule: "C13-R8",
			Old: "basictl.CheckLengthSanity(buf, numValues, 1)", New: "basictl.CheckLengthSanity(buf, numValues, msgp.Float64Size)"})
	Extend("C28", runC28Extra,
		Mutant{Name: "seed-C28a-plain-offset-printed-before-offset-list", File: "internal/promql/parser/printer.go", Rule: "C28-R4",
			Old: "	var sb strings.Builder\n	if len(offsetEx) != 0 {", New: "	var sb strings.Builder\n	if offset != 0 {\n		fmt.Fprintf(&sb, \" offset %ds\", offset)\n		offset = 0\n	}\n	if len(offsetEx) != 0 {"})
	Extend("C09", runC09Extra,
		Mutant{Name: "seed-C09c-startup-scan-skips-short-files", File: "internal/agent/disk_cache.go", Rule: "C09-R8",
			Old: "		d.waitingFilesTail = append(d.waitingFilesTail, waitingFile{name: dn, size: st.Size()})", New: "		if st.Size() < headerSize {\n			continue\n		}\n		d.waitingFilesTail = append(d.waitingFilesTail, waitingFile{name: dn, size: st.Size()})"})
	Extend("C01", runC01Extra,
		Mutant{Name: "seed-C01d-window-rejections-before-shutdown-guard", File: "internal/aggregator/aggregator_handlers.go", Rule: "C01-G8",
			Old: "	if a.bucketsToSend == nil {\n		// We are in shutdown, recentBuckets stopped moving.", New: "	if a.bucketsToSend == nil && args.IsSetSpare() {\n		// We are in shutdown, recentBuckets stopped moving."})
}

func init() {
	Extend("C03", runC03Extra,
		Mutant{Name: "seed-C03a-resize-stops-at-old-size", File: "internal/data_model/ch_unique.go", Rule: "C03-R5",
			Old: "	for i := 0; i < oldSize || ch.buf[i] != 0; i++ {", New: "	for i := 0; i < oldSize; i++ {"},
		Mutant{Name: "seed-C03b-string-length-in-one-byte", File: "internal/aggregator/aggregator_insert.go", Rule: "C03-R6", Occurrence: 1,
			Old: "		res = rowbinary.AppendString(res, S)\n", New: "		res = append(res, byte(len(S)))\n		res = append(res, S...)\n"})
	Extend("C06", runC06Extra,
		Mutant{Name: "seed-C06b-fair-key-read-at-loop-index", File: "internal/data_model/sampling.go", Rule: "C06-R5",
			Old: "					h.items[i].fairKey[j] = h.items[i].Item.Key.Tags[x]", New: "					h.items[i].fairKey[j] = h.items[i].Item.Key.Tags[j]"})
}

// C03-R5: the sketch's resize relocation loop also walks the collision tail after the old half.
// C03-R6: no length prefix of the insert body is narrowed to one byte.
func runC03Extra(c *core.Check) {
	c.Decides += " R5 the unique sketch's resize keeps relocating past the old size while cells are occupied (an element that wrapped around the end of the old table must be moved, otherwise a later merge inserts the same hash twice and exact-mode counts are off); R6 no length in the insert-body encoders is narrowed to a single byte (RowBinary lengths are varints; tag values may be 128 bytes long)."
	c.Rule("C03-R5", "K1 loop exit", 1, "the relocation loop of ChUnique.resize exits only under !(i < oldSize) && buf[i] == 0")
	if fn := need(c, "C03-R5", "internal/data_model.(*ChUnique).resize"); fn != nil {
		n := 0
		for _, r := range core.Returns(fn) {
			if len(r.Block().Preds) == 0 && r.Block().Index != 0 {
				continue
			}
			n++
			ok := core.Holds(r.Block(), core.T("(*.buf[phi(*)] == 0)")) && core.Holds(r.Block(), core.F("(phi(*) < *)"))
			c.Require(ok, "C03-R5", fmt.Sprintf("internal/data_model.(*ChUnique).resize/relocation-loop-exit#%d", n), r.Pos(), "loop leaves only at an empty cell beyond the old size",
				"the relocation loop of resize is left without `buf[i] == 0` (facts at exit: "+core.FactsString(r.Block())+"): elements of a collision chain that wrapped around the end of the old table stay misplaced, and the same hash is inserted again by a later merge")
		}
		if n == 0 {
			c.Undecided("C03-R5", "internal/data_model.(*ChUnique).resize/relocation-loop-exit", fn.Pos(), "no return found")
		}
	}
	c.Rule("C03-R6", "K7 forbidden narrowing", 1, "in the aggregator's insert encoders no value appended to the body is uint8(len(x))")
	n := 0
	for _, fn := range c.Prog.FuncsIn("internal/aggregator") {
		pos := c.Prog.Fset.Position(fn.Pos())
		if !strings.HasSuffix(pos.Filename, "aggregator_insert.go") {
			continue
		}
		n++
		for _, b := range fn.Blocks {
			for _, in := range b.Instrs {
				cv, ok := in.(*ssa.Convert)
				if !ok {
					continue
				}
				bt, isB := cv.Type().Underlying().(*types.Basic)
				if !isB || bt.Kind() != types.Uint8 {
					continue
				}
				if call, isCall := cv.X.(*ssa.Call); isCall && core.CalleeName(&call.Call) == "builtin len" {
					c.Fail("C03-R6", core.FuncName(fn)+"/byte(len)", cv.Pos(), "a length is narrowed to one byte in the insert encoder ("+core.Expr(cv)+"): RowBinary string lengths are varints, a 128-byte tag value is written as 0x80 and the rest of the body is mis-framed")
				}
			}
		}
	}
	c.Require(n > 0, "C03-R6", "internal/aggregator/aggregator_insert.go", 0, fmt.Sprintf("%d encoder functions scanned, no one-byte length prefix", n), "no function of aggregator_insert.go found")
}

// C06-R5: the fair key is read at the configured tag index.
func runC06Extra(c *core.Check) {
	c.Decides += " R5 each component of a row's fair key is the tag at the index configured in the metric's FairKeyIndex (not at the position in that list), so the fair-key level partitions rows by the configured tag."
	c.Rule("C06-R5", "K7 provenance", 1, "every store into SamplingMultiItemPair.fairKey[j] takes Key.Tags[x] with x loaded from FairKeyIndex")
	n := 0
	for _, fn := range c.Prog.FuncsIn("internal/data_model") {
		for _, b := range fn.Blocks {
			for _, in := range b.Instrs {
				st, ok := in.(*ssa.Store)
				if !ok {
					continue
				}
				ia, isIA := st.Addr.(*ssa.IndexAddr)
				if !isIA || !core.IsField(ia.X, "internal/data_model.SamplingMultiItemPair", "fairKey") {
					continue
				}
				n++
				good := false
				if ld, isLd := st.Val.(*ssa.UnOp); isLd {
					if src, isSrc := ld.X.(*ssa.IndexAddr); isSrc && strings.HasSuffix(core.Expr(src.X), ".Key.Tags") {
						good = strings.Contains(core.Expr(src.Index), ".FairKeyIndex[")
					}
				}
				c.Require(good, "C06-R5", fmt.Sprintf("%s/store:fairKey#%d", core.FuncName(fn), n), st.Pos(), "fair key component read at the configured tag index",
					"a fair-key component is "+core.Expr(st.Val)+", not Key.Tags[FairKeyIndex[j]]: rows are partitioned by the wrong tag, so a small fair key is sampled together with its flooding neighbour")
			}
		}
	}
	if n == 0 {
		c.Undecided("C06-R5", "internal/data_model/fairKey", 0, "no store into fairKey found")
	}
}

func isZeroReslice(v ssa.Value) bool {
	sl, ok := v.(*ssa.Slice)
	if !ok || sl.Low != nil || sl.High == nil {
		return false
	}
	k, ok := sl.High.(*ssa.Const)
	return ok && k.Value != nil && k.Value.String() == "0"
}

// ---- C14 ---------------------------------------------------------------------------
func runC14Extra(c *core.Check) {
	c.Decides += " R5 every basictl reader that decodes into a destination pointer assigns the destination on every successful path (a reused object must not keep the previous value, e.g. for an empty string); R6 the frame writer keeps the compressed form only when it is strictly shorter than the payload (the reader treats 'length equals original size' as stored raw)."
	c.Rule("C14-R5", "K6 must-pass-through", 8, "in package basictl, no nil-error return of a function `XRead*(r []byte, dst *T, …)` is reachable from entry without a store through dst (or handing dst to another reader)")
	for _, fn := range c.Prog.FuncsIn("internal/vkgo/basictl") {
		if fn.Parent() != nil || len(fn.Params) < 2 || !strings.Contains(fn.Name(), "Read") {
			continue
		}
		dst := fn.Params[1]
		if _, isPtr := dst.Type().Underlying().(*types.Pointer); !isPtr {
			continue
		}
		res := fn.Signature.Results()
		if res.Len() < 2 || res.At(res.Len()-1).Type().String() != "error" {
			continue
		}
		name := core.FuncName(fn)
		c.Seen(name)
		assigns := func(in ssa.Instruction) bool {
			switch x := in.(type) {
			case *ssa.Store:
				for _, v := range baseChain(x.Addr) {
					if v == dst {
						return true
					}
				}
			case ssa.CallInstruction:
				for _, a := range x.Common().Args {
					if a == dst {
						return true
					}
				}
			}
			return false
		}
		okRet := func(in ssa.Instruction) bool {
			r, ok := in.(*ssa.Return)
			if !ok {
				return false
			}
			vals := core.ReturnedValues(r)
			return isNilConst(vals[len(vals)-1])
		}
		p := core.ReachFromEntryWithout(fn, okRet, assigns)
		c.Require(p == nil, "C14-R5", name+"/assigns-destination", fn.Pos(), "destination assigned on every successful path",
			"the reader can return success without writing its destination: decoding into a reused object keeps the value of the previous message (the []byte and string variants of a field then disagree) "+pathStr(p))
	}

	c.Rule("C14-R6", "K1", 1, "in compress.CompressAndFrame the branch that keeps the LZ4 block is guarded by compressedSize < len(payload)")
	if fn := need(c, "C14-R6", "internal/compress.CompressAndFrame"); fn != nil {
		n := 0
		for _, b := range fn.Blocks {
			for _, in := range b.Instrs {
				sl, ok := in.(*ssa.Slice)
				if !ok || sl.High == nil || !strings.Contains(core.Expr(sl.High), "CompressBlockHC(") {
					continue
				}
				n++
				c.Require(core.Holds(b, core.T("(*CompressBlockHC(*)#0 < builtin len({0:[]byte}))")), "C14-R6", fmt.Sprintf("internal/compress.CompressAndFrame/keep-compressed#%d", n), sl.Pos(),
					"compressed form kept only when strictly shorter",
					"the frame keeps the LZ4 block although it may be exactly as long as the payload: Decompress treats `originalSize == len(data)` as stored raw and returns the LZ4 block as the payload; facts: "+core.FactsString(b))
			}
		}
		if n == 0 {
			c.Undecided("C14-R6", "internal/compress.CompressAndFrame/keep-compressed", fn.Pos(), "no reslice to the compressed size found")
		}
	}
}

// ---- C31 ---------------------------------------------------------------------------
func runC31Extra(c *core.Check) {
	c.Decides += " R4 the swap-timeout callback sets the timeout flag and wakes the sender on every path (an early return would leave the sender waiting with no timer pending); R5 writeLocked hands back, on success, the spare buffer it received from the push that succeeded, never the caller's own slice (which is now queued for sending)."
	c.Rule("C31-R4", "K6 must-pass-through", 2, "every return of the timer callback of pktBuffer.swap is preceded by the store timeout=true and by Broadcast/Signal")
	if fn := need(c, "C31-R4", "internal/balancer.(*pktBuffer).swap$1"); fn != nil {
		setsFlag := func(in ssa.Instruction) bool {
			st, ok := in.(*ssa.Store)
			if !ok || !core.ConstBool(st.Val, true) {
				return false
			}
			_, isFree := st.Addr.(*ssa.FreeVar)
			return isFree
		}
		live := func(in ssa.Instruction) bool {
			return core.IsReturn(in) && (in.Block().Index == 0 || len(in.Block().Preds) > 0)
		}
		p := core.ReachFromEntryWithout(fn, live, setsFlag)
		c.Require(p == nil, "C31-R4", "internal/balancer.(*pktBuffer).swap$1/sets-timeout", fn.Pos(), "timeout flag set on every path",
			"the timer callback can return without setting the timeout flag: the timer is armed once per swap, so the sender then waits until 20% of the buffer fills and a lone packet is never forwarded "+pathStr(p))
		p = core.ReachFromEntryWithout(fn, live, core.IsCallTo("sync.(*Cond).Broadcast", "sync.(*Cond).Signal"))
		c.Require(p == nil, "C31-R4", "internal/balancer.(*pktBuffer).swap$1/wakes-sender", fn.Pos(), "sender woken on every path",
			"the timer callback can return without waking the sender "+pathStr(p))
	}
	c.Rule("C31-R5", "K7 value provenance", 2, "every nil-error return of tcpPool.writeLocked returns the first result of a pktBuffer.push call whose ok result is established true at the return")
	if fn := need(c, "C31-R5", "internal/balancer.(*tcpPool).writeLocked"); fn != nil {
		n := 0
		for _, r := range core.Returns(fn) {
			vals := core.ReturnedValues(r)
			if len(vals) != 2 || !isNilConst(vals[1]) {
				continue
			}
			n++
			ok := false
			if ex, isEx := vals[0].(*ssa.Extract); isEx && ex.Index == 0 {
				if call, isCall := ex.Tuple.(*ssa.Call); isCall && core.CalleeName(&call.Call) == "internal/balancer.(*pktBuffer).push" {
					for _, g := range core.Facts(r.Block()) {
						if len(g.Alts) == 1 && g.Alts[0].Pol {
							if okv, isOk := g.Alts[0].Cond.(*ssa.Extract); isOk && okv.Tuple == call && okv.Index == 1 {
								ok = true
							}
						}
					}
				}
			}
			c.Require(ok, "C31-R5", fmt.Sprintf("internal/balancer.(*tcpPool).writeLocked/return-nil#%d", n), r.Pos(), "spare buffer of the successful push handed back",
				"on success writeLocked returns "+core.Expr(vals[0])+" instead of the spare buffer swapped out by the successful push: the caller reuses a slice that is queued for sending, so the next packet overwrites the queued one")
		}
		if n == 0 {
			c.Undecided("C31-R5", "internal/balancer.(*tcpPool).writeLocked/returns", fn.Pos(), "no successful return found")
		}
	}
}

// ---- C29 ---------------------------------------------------------------------------
func runC29Extra(c *core.Check) {
	c.Decides += " R5 a user that was just granted and still has waiting queries is re-inserted into the priority tree only after its order was replaced by a fresh incOrder() value (round robin: it goes behind every user already waiting)."
	c.Rule("C29-R5", "K6 ordering", 1, "in Queue.nextQueryLocked every ReplaceOrInsert of the granted user is dominated by a store user.order <- incOrder()")
	fn := need(c, "C29-R5", "internal/util/queue.(*Queue).nextQueryLocked")
	if fn == nil {
		return
	}
	var orderStores []*ssa.Store
	for _, b := range fn.Blocks {
		for _, in := range b.Instrs {
			if st, ok := in.(*ssa.Store); ok && core.IsField(st.Addr, "internal/util/queue.user", "order") {
				if call, isCall := st.Val.(*ssa.Call); isCall && core.CalleeName(&call.Call) == "internal/util/queue.(*Queue).incOrder" {
					orderStores = append(orderStores, st)
				}
			}
		}
	}
	sites := core.CallsTo(fn, "github.com/petar/GoLLRB/llrb.(*LLRB).ReplaceOrInsert")
	keys := core.Ordinals(sites)
	for i, s := range sites {
		ok := false
		for _, st := range orderStores {
			if core.Dominates(st, s.Instr) {
				ok = true
			}
		}
		c.Require(ok, "C29-R5", keys[i], s.Pos(), "granted user re-queued with a fresh order",
			"the granted user goes back into the priority tree with its old order: it is granted again before users that were already waiting")
	}
	if len(sites) == 0 {
		c.Undecided("C29-R5", "internal/util/queue.(*Queue).nextQueryLocked/ReplaceOrInsert", fn.Pos(), "no re-insertion of the granted user found")
	}
}

// ---- C08 / C20: marshal-and-hash from an empty buffer --------------------------------
func runC08Extra(c *core.Check) {
	c.Decides += " R9 the resolution hash is taken over a buffer that OriginalMarshalAppend filled starting from length 0 (the caller's scratch holds unrelated bytes: the mapped key, earlier events)."
	c.Rule("C08-R9", "K7", 1, "in MappedMetricHeader.OriginalHash the argument of OriginalMarshalAppend is scratch[:0]")
	if fn := need(c, "C08-R9", "internal/data_model.(*MappedMetricHeader).OriginalHash"); fn != nil {
		sites := core.CallsTo(fn, "internal/data_model.(*MappedMetricHeader).OriginalMarshalAppend")
		for i, s := range sites {
			c.Require(isZeroReslice(s.Arg(1)), "C08-R9", fmt.Sprintf("internal/data_model.(*MappedMetricHeader).OriginalHash/marshal#%d", i+1), s.Pos(), "marshalled from an empty buffer",
				"the hashed buffer is appended to "+core.Expr(s.Arg(1))+" without truncating it: the send second then depends on whatever the scratch held (mapping-cache state, previous events), so agents disagree on placement")
		}
		if len(sites) == 0 {
			c.Undecided("C08-R9", "internal/data_model.(*MappedMetricHeader).OriginalHash/marshal", fn.Pos(), "no OriginalMarshalAppend call")
		}
	}
}

func runC20Extra(c *core.Check) {
	c.Decides += " R9 the per-event state hash is taken over a buffer serialised from length 0 (the scratch is threaded through all events of a batch); R10 the journal diff appends an event before it applies the item/byte budget, so the first pending event is always delivered (an event larger than the byte budget must not stall a replica forever)."
	c.Rule("C20-R9", "K7", 1, "in hashWithoutVersionJournalEvent the argument of WriteTL1 is scratch[:0]")
	if fn := need(c, "C20-R9", "internal/metajournal.hashWithoutVersionJournalEvent"); fn != nil {
		sites := core.CallsTo(fn, "*MetadataEvent).WriteTL1")
		for i, s := range sites {
			c.Require(isZeroReslice(s.Arg(1)), "C20-R9", fmt.Sprintf("internal/metajournal.hashWithoutVersionJournalEvent/serialise#%d", i+1), s.Pos(), "serialised from an empty buffer",
				"the event is hashed together with whatever the scratch buffer held (the previous events of the batch): replicas with the same journal but different batching report different state hashes")
		}
		if len(sites) == 0 {
			c.Undecided("C20-R9", "internal/metajournal.hashWithoutVersionJournalEvent/serialise", fn.Pos(), "no WriteTL1 call")
		}
	}
	c.Rule("C20-R10", "K6 ordering", 1, "in the diff iterator every `return false` (stop) is dominated by the append of the current event")
	if fn := need(c, "C20-R10", "internal/metajournal.(*JournalFast).getJournalDiffLocked3Limits$1"); fn != nil {
		var app ssa.Instruction
		for _, b := range fn.Blocks {
			for _, in := range b.Instrs {
				if st, ok := in.(*ssa.Store); ok && strings.HasSuffix(core.Expr(st.Addr), ".Events") {
					if call, isCall := st.Val.(*ssa.Call); isCall && core.CalleeName(&call.Call) == "builtin append" {
						app = st
					}
				}
			}
		}
		if app == nil {
			c.Undecided("C20-R10", "internal/metajournal.(*JournalFast).getJournalDiffLocked3Limits$1/append", fn.Pos(), "no append to the response events found")
		} else {
			n := 0
			for _, r := range core.Returns(fn) {
				v := core.ReturnedValues(r)[0]
				if !core.ConstBool(v, false) {
					continue
				}
				n++
				c.Require(core.Dominates(app, r), "C20-R10", fmt.Sprintf("internal/metajournal.(*JournalFast).getJournalDiffLocked3Limits$1/stop#%d", n), r.Pos(), "budget applied after the event was appended",
					"the iteration can stop before appending the current event: a single event larger than the byte budget makes every diff empty and the replica never advances")
			}
		}
	}
}

// ---- C18 ---------------------------------------------------------------------------
func runC18Extra(c *core.Check) {
	c.Decides += " R9 after ROTATE_TO was written to the old chunk, that chunk is fsynced on every path before it is closed and before rotate reports success (later commits report offsets beyond it); R10 the replay loop reads the 4-byte event magic only after checking that 4 bytes are available (a truncated tail of 1..3 bytes ends replay cleanly instead of panicking)."
	c.Rule("C18-R9", "K6 must-pass-through", 1, "in binlogWriter.rotate no Close of the old chunk and no nil return is reachable from the write of ROTATE_TO without Sync on the same file")
	if fn := need(c, "C18-R9", "internal/vkgo/binlog/fsbinlog.(*binlogWriter).rotate"); fn != nil {
		var wr *core.Site
		for _, s := range core.Calls(fn) {
			if strings.HasSuffix(s.Callee, ".Write") && len(fn.Params) > 1 {
				for _, a := range s.Common().Args {
					if a == fn.Params[1] {
						s := s
						wr = &s
					}
				}
			}
		}
		if wr == nil {
			c.Undecided("C18-R9", "internal/vkgo/binlog/fsbinlog.(*binlogWriter).rotate/write-rotate-to", fn.Pos(), "write of the ROTATE_TO record not found")
		} else {
			file := wr.Arg(0)
			sameFile := func(ci ssa.CallInstruction) bool {
				com := ci.Common()
				if com.IsInvoke() {
					return com.Value == file
				}
				return len(com.Args) > 0 && com.Args[0] == file
			}
			isSync := func(in ssa.Instruction) bool {
				ci, ok := in.(ssa.CallInstruction)
				return ok && strings.HasSuffix(core.CalleeName(ci.Common()), ".Sync") && sameFile(ci)
			}
			target := func(in ssa.Instruction) bool {
				if ci, ok := in.(ssa.CallInstruction); ok && strings.HasSuffix(core.CalleeName(ci.Common()), ".Close") && sameFile(ci) {
					return true
				}
				if r, ok := in.(*ssa.Return); ok {
					vals := core.ReturnedValues(r)
					return isNilConst(vals[len(vals)-1])
				}
				return false
			}
			p := core.ReachWithout(wr.Instr, target, isSync)
			c.Require(p == nil, "C18-R9", "internal/vkgo/binlog/fsbinlog.(*binlogWriter).rotate/rotate-to-synced", wr.Pos(), "ROTATE_TO is fsynced before the chunk is closed",
				"the old chunk can be closed / rotate can succeed without fsync after ROTATE_TO was written: the next Commit reports a position beyond bytes that a power loss can still drop, and replay of the rotated chunk then fails "+pathStr(p))
		}
	}
	c.Rule("C18-R10", "K1 bounds", 1, "every binary.LittleEndian.Uint32(b) in readUncompressedFile is dominated by !(len(b) < 4)")
	if fn := need(c, "C18-R10", "internal/vkgo/binlog/fsbinlog.(*binlogReader).readUncompressedFile"); fn != nil {
		var sites []core.Site
		for _, s := range core.CallsTo(fn, "encoding/binary.(littleEndian).Uint32") {
			// the dispatch read on the raw replay buffer (the diagnostic re-read of the aligned copy is downstream of it)
			if call, ok := s.Arg(1).(*ssa.Call); ok && strings.HasSuffix(core.CalleeName(&call.Call), "(*readBuffer).Bytes") {
				sites = append(sites, s)
			}
		}
		keys := core.Ordinals(sites)
		for i, s := range sites {
			b := core.Expr(s.Arg(1))
			c.Require(core.Holds(s.Block(), core.F("(builtin len("+b+") < 4)")), "C18-R10", keys[i], s.Pos(), "magic read under a length check",
				"the event magic is read from "+b+" without `len >= 4`: a truncated binlog whose tail is 1..3 bytes long makes replay panic instead of stopping at the last complete event")
		}
		if len(sites) == 0 {
			c.Undecided("C18-R10", "internal/vkgo/binlog/fsbinlog.(*binlogReader).readUncompressedFile/magic", fn.Pos(), "no magic read found")
		}
	}
}

// ---- C13 ---------------------------------------------------------------------------
func runC13Extra2(c *core.Check) {
	c.Decides += " R7 the stream receive buffer holds a maximum-size frame (4-byte length header + MaxTCPFrameBody); R8 the element size used in the msgpack pre-allocation bounds does not exceed the smallest wire encoding of the element (1 byte for numbers — fixint, float32 and float64 are all accepted —, 2 for a map entry, 3 for a [value,count] pair), so no valid batch is rejected."
	c.Rule("C13-R7", "K5 constant relation", 1, "make([]byte, L) of TCP.receiveLoop has L >= 4 + MaxTCPFrameBody")
	if fn := need(c, "C13-R7", "internal/receiver.(*TCP).receiveLoop"); fn != nil {
		var maxBody int64 = -1
		if pk := c.Prog.Pkg("internal/receiver"); pk != nil {
			if o, ok := pk.Types.Scope().Lookup("MaxTCPFrameBody").(*types.Const); ok {
				maxBody, _ = constant.Int64Val(constant.ToInt(o.Val()))
			}
		}
		n := 0
		for _, b := range fn.Blocks {
			for _, in := range b.Instrs {
				// make([]byte, constant) is lowered to a heap array + slice
				al, ok := in.(*ssa.Alloc)
				if !ok {
					continue
				}
				arr, isArr := al.Type().Underlying().(*types.Pointer).Elem().Underlying().(*types.Array)
				if !isArr || core.TypeName(arr.Elem()) != "byte" && core.TypeName(arr.Elem()) != "uint8" {
					continue
				}
				n++
				c.Require(maxBody > 0 && arr.Len() >= 4+maxBody, "C13-R7", fmt.Sprintf("internal/receiver.(*TCP).receiveLoop/buffer#%d", n), al.Pos(), "buffer holds header + maximum body",
					fmt.Sprintf("the receive buffer has %d bytes but an accepted frame needs up to 4+%d: a frame near the maximum never completes, Read is called with an empty slice and the loop spins forever", arr.Len(), maxBody))
			}
		}
		if n == 0 || maxBody < 0 {
			c.Undecided("C13-R7", "internal/receiver.(*TCP).receiveLoop/buffer", fn.Pos(), "receive buffer allocation or MaxTCPFrameBody not found")
		}
	}
	c.Rule("C13-R8", "K5 constant table", 5, "CheckLengthSanity(buf, n, size) in the msgpack decoder: size <= smallest encoding of the element allocated with n")
	minEnc := map[string]int64{"float64": 1, "int64": 1, "[2]float64": 3, "internal/data_model/gen2/tl.DictFieldStringStringBytes": 2, "internal/data_model/gen2/tlstatshouse.MetricBytes": 1}
	for _, name := range []string{"internal/receiver.msgpackUnmarshalStatshouseMetric", "internal/receiver.msgpackUnmarshalStatshouseAddMetricBatch"} {
		fn := need(c, "C13-R8", name)
		if fn == nil {
			continue
		}
		sites := core.CallsTo(fn, "internal/vkgo/basictl.CheckLengthSanity")
		keys := core.Ordinals(sites)
		for i, s := range sites {
			k, isK := s.Arg(2).(*ssa.Const)
			// the allocation bounded by this count
			elem := ""
			for _, b := range fn.Blocks {
				for _, in := range b.Instrs {
					if mk, ok := in.(*ssa.MakeSlice); ok && core.Derives(mk.Len, s.Arg(1)) {
						if sl, isSl := mk.Type().Underlying().(*types.Slice); isSl {
							elem = core.TypeName(sl.Elem())
						}
					}
				}
			}
			lim, known := minEnc[elem]
			switch {
			case !isK || elem == "":
				c.Undecided("C13-R8", keys[i], s.Pos(), "cannot relate the bound to an allocation / non-constant element size (element "+elem+")")
			case !known:
				c.Undecided("C13-R8", keys[i], s.Pos(), "element type "+elem+" is not in the smallest-encoding table")
			default:
				c.Require(k.Int64() >= 1 && k.Int64() <= lim, "C13-R8", keys[i], s.Pos(), fmt.Sprintf("element size %d <= smallest encoding %d of %s", k.Int64(), lim, elem),
					fmt.Sprintf("the bound assumes %d bytes per %s but its smallest msgpack encoding takes %d: valid batches (e.g. float32-encoded values near the end of the packet) are rejected as too long", k.Int64(), elem, lim))
			}
		}
	}
}

// ---- C28 ---------------------------------------------------------------------------
func runC28Extra(c *core.Check) {
	c.Decides += " R4 the printer writes the offset list before the plain offset (the parser's addOffset accepts `offset [..] offset d` but rejects a list after a plain offset)."
	c.Rule("C28-R4", "K6 ordering", 1, "in offsetString the write guarded by len(offsetEx) != 0 is not reachable after the write guarded by offset != 0")
	fn := need(c, "C28-R4", "internal/promql/parser.offsetString")
	if fn == nil {
		return
	}
	isWrite := func(in ssa.Instruction) bool {
		ci, ok := in.(ssa.CallInstruction)
		if !ok {
			return false
		}
		n := core.CalleeName(ci.Common())
		return n == "fmt.Fprintf" || strings.HasPrefix(n, "strings.(*Builder).Write")
	}
	var plain, list []ssa.Instruction
	for _, b := range fn.Blocks {
		for _, in := range b.Instrs {
			if !isWrite(in) {
				continue
			}
			switch {
			case core.Holds(b, core.F("(builtin len({1:[]int64}) == 0)")):
				list = append(list, in)
			case core.Holds(b, core.F("({0:int64} == 0)")):
				plain = append(plain, in)
			}
		}
	}
	if len(plain) == 0 || len(list) == 0 {
		c.Undecided("C28-R4", "internal/promql/parser.offsetString/writes", fn.Pos(), "cannot classify the writes of the plain offset and of the offset list")
		return
	}
	bad := false
	for _, p := range plain {
		if core.ReachWithout(p, func(in ssa.Instruction) bool {
			for _, l := range list {
				if l == in {
					return true
				}
			}
			return false
		}, nil) != nil {
			bad = true
		}
	}
	c.Require(!bad, "C28-R4", "internal/promql/parser.offsetString/list-before-plain", fn.Pos(), "offset list printed before the plain offset",
		"the plain offset can be printed before the offset list: the parser rejects `offset 5m offset [1m]` (offset may not be set multiple times), so the printed text of a selector carrying both does not parse back")
}

// ---- C09 ---------------------------------------------------------------------------
func runC09Extra(c *core.Check) {
	c.Decides += " R8 the startup scan registers every regular file of the shard directory: no file is skipped because of its size (a file holding only a torn header must be counted and later deleted, otherwise reported sizes differ from the disk and the file leaks)."
	c.Rule("C09-R8", "K1", 1, "in makeDiscCacheShard the registration of a scanned file (append to waitingFilesTail) is not guarded by any test of the file size")
	fn := need(c, "C09-R8", "internal/agent.makeDiscCacheShard")
	if fn == nil {
		return
	}
	n := 0
	for _, w := range core.FieldWrites([]*ssa.Function{fn}, "internal/agent.diskCacheShard", "waitingFilesTail") {
		n++
		sized := ""
		for _, g := range core.Facts(w.Instr.Block()) {
			for _, l := range g.Alts {
				if strings.Contains(l.Text, ".Size(") {
					sized = l.String()
				}
			}
		}
		c.Require(sized == "", "C09-R8", fmt.Sprintf("internal/agent.makeDiscCacheShard/register-file#%d", n), w.Instr.Pos(), "every scanned file registered",
			"scanned files are registered only under "+sized+": files outside that size are neither counted in the reported totals nor ever deleted")
	}
	if n == 0 {
		c.Undecided("C09-R8", "internal/agent.makeDiscCacheShard/register-file", fn.Pos(), "no registration of scanned files found")
	}
}

// ---- C01 ---------------------------------------------------------------------------
func runC01Extra(c *core.Check) {
	c.Decides += " G8 the aggregator's time-window rejections (which tell the agent to discard) are decided only while the aggregator is not shutting down: during shutdown the recent window is frozen, so fresh seconds would look 'too far in the future' and be discarded although never inserted."
	c.Rule("C01-G8", "K1", 3, "every discard=true return of handleSendSourceBucket that depends on the recent window (future / beyond historic window) is dominated by bucketsToSend != nil")
	fn := need(c, "C01-G8", "internal/aggregator.(*Aggregator).handleSendSourceBucket")
	if fn == nil {
		return
	}
	n := 0
	for _, r := range core.Returns(fn) {
		if len(r.Block().Preds) == 0 && r.Block().Index != 0 {
			continue
		}
		vals := core.ReturnedValues(r)
		if len(vals) != 3 || !core.ConstBool(vals[2], true) {
			continue
		}
		window := false
		for _, g := range core.Facts(r.Block()) {
			for _, l := range g.Alts {
				if strings.Contains(l.Text, ".recentBuckets[") {
					window = true
				}
			}
		}
		if !window {
			continue
		}
		n++
		c.Require(core.Holds(r.Block(), core.F("(*.bucketsToSend == nil)")), "C01-G8", fmt.Sprintf("internal/aggregator.(*Aggregator).handleSendSourceBucket/window-rejection#%d", n), r.Pos(),
			"window rejection only while running", "a window-based discard verdict can be given while the aggregator is shutting down (bucketsToSend == nil, window frozen): agents erase seconds that were never inserted")
	}
}

var _ = token.EQL
