package props

import (
	"fmt"
	"go/constant"
	"go/token"
	"go/types"

	"golang.org/x/tools/go/ssa"

	"shverif/core"
)

func init() {
	Register(&Property{
		ID:   "C31",
		Pkgs: []string{"./internal/balancer"},
		Run:  runC31,
		Mutants: []Mutant{
			{Name: "revert-F13-timer-callback-does-not-signal", File: "internal/balancer/egress.go", Rule: "C31-R1",
				Old: "		timeout = true\n		b.cond.Broadcast() // wake up waiter below, otherwise it sleeps until next push\n",
				New: "		timeout = true\n"},
			{Name: "push-does-not-signal", File: "internal/balancer/egress.go", Rule: "C31-R1",
				Old: "	b.wi++\n	b.cond.Signal()\n", New: "	b.wi++\n"},
			{Name: "close-sets-flag-outside-mutex", File: "internal/balancer/egress.go", Rule: "C31-R1",
				Old: "	b.mu.Lock()\n	b.closed = true\n	b.mu.Unlock()\n	b.cond.Broadcast()\n",
				New: "	b.closed = true\n	b.cond.Broadcast()\n"},
			{Name: "would-block-without-accounting", File: "internal/balancer/egress.go", Rule: "C31-R2",
				Old: "	p.primary.wouldBlockBytes.Add(int64(len(pkt)))\n	return pkt, errWouldBlock\n",
				New: "	return pkt, errWouldBlock\n"},
			{Name: "drop-after-primary-only", File: "internal/balancer/egress.go", Rule: "C31-R2",
				Old: "	if pkt, ok := (*p.secPtr).buf.push(pkt); ok {\n		select {",
				New: "	if pkt, ok := (*p.secPtr).buf.push(pkt); ok && len(pkt) < pktBodyMax {\n		select {"},
			{Name: "drop-not-counted", File: "internal/balancer/egress.go", Rule: "C31-R2",
				Old: "		if errors.Is(err, errWouldBlock) {\n			e.stats.droppedPackets.Add(1)\n		}\n		return pkt\n",
				New: "		if errors.Is(err, errWouldBlock) && len(pkt) > pktHeadLen {\n			e.stats.droppedPackets.Add(1)\n		}\n		return pkt\n"},
			{Name: "frame-length-includes-header", File: "internal/balancer/handler.go", Rule: "C31-R3",
				Old: "binary.LittleEndian.PutUint32(h.pkt[:pktHeadLen], uint32(len(pkt)))",
				New: "binary.LittleEndian.PutUint32(h.pkt[:pktHeadLen], uint32(len(h.pkt)))"},
			{Name: "frame-body-overwrites-header", File: "internal/balancer/handler.go", Rule: "C31-R3",
				Old: "h.pkt = append(h.pkt[:pktHeadLen], pkt...)", New: "h.pkt = append(h.pkt[:0], pkt...)"},
		},
	})
}

const (
	tPktBuffer = "internal/balancer.pktBuffer"
	fnWriteLk  = "internal/balancer.(*tcpPool).writeLocked"
	fnWritePkt = "internal/balancer.(*Egress).WritePacketLocked"
	fnPush     = "internal/balancer.(*pktBuffer).push"
	fnRaw      = "internal/balancer.(*handler).HandleMetricsBatchRaw"
)

func runC31(c *core.Check) {
	c.Decides = "(R1, K12+K4) the sender waiting in pktBuffer.swap cannot miss a wakeup: every store to a variable read by the wait loop's predicate " +
		"(pktBuffer.wi, pktBuffer.closed, the batch-timeout flag set by the swapWaitMax timer callback) made outside the waiting function happens with pktBuffer.mu held " +
		"and is followed on every path by Signal/Broadcast on pktBuffer.cond; Wait is called in a re-testing loop with the mutex held; " +
		"(R2, K1/K6) tcpPool.writeLocked reports errWouldBlock only when the pool is closed or after the push to the primary and to the secondary buffer both failed and " +
		"wouldBlockBytes was increased by len(pkt) (which sendLoop reports upstream), nil only for a packet accepted by a push; Egress.WritePacketLocked counts droppedPackets on " +
		"every would-block path and forwardedPackets exactly on the nil-error path; " +
		"(R3, K3) HandleMetricsBatchRaw frames the packet as 4-byte little-endian len(body) at [0,pktHeadLen) followed by the body and hands that buffer to WritePacketLocked."
	c.NotDecided = "ordering of packets across the primary/secondary swap, the one-second timing bound itself (only that the timeout wakes the sender), behaviour on upstream write errors " +
		"(pop's re-send window), reconnection, and that the upstream peer decodes the frame."

	fns := c.Prog.FuncsIn("internal/balancer")

	// ---- R1 -------------------------------------------------------------------------
	c.Rule("C31-R1", "K12 missed-signal + K4", 8, "every store to a variable of the wait predicate of pktBuffer.swap (wi, closed, timeout flag) outside swap itself is made under pktBuffer.mu and followed on all paths by Signal/Broadcast on pktBuffer.cond; Wait sits in a loop, under the mutex")
	rep := core.RunMissedSignal(c, &core.CondSpec{Rule: "C31-R1", Type: tPktBuffer, CondField: "cond", Mutex: "mu", Funcs: fns}, nil)
	if rep.Waits != 1 || len(rep.Vars) != 3 {
		c.Undecided("C31-R1", "shape", token.NoPos, fmt.Sprintf("expected one Wait on pktBuffer.cond with a predicate over three variables (wi, closed, timeout), found %d wait(s) over %v", rep.Waits, rep.Vars))
	}
	if rep.Stores < 3 {
		c.Undecided("C31-R1", "writers", token.NoPos, fmt.Sprintf("expected at least the three writers push (wi), close (closed) and the timer callback (timeout), found %d store(s)", rep.Stores))
	}

	// ---- R2 -------------------------------------------------------------------------
	c.Rule("C31-R2", "K1+K6", 10, "writeLocked: error returns are `pool closed` or `both pushes failed, wouldBlockBytes.Add(len(pkt)) executed`; nil returns are under a successful push; WritePacketLocked: droppedPackets.Add on every errors.Is(err, errWouldBlock) path, forwardedPackets.Add exactly on the err == nil path")
	if fn := need(c, "C31-R2", fnWriteLk); fn != nil {
		pushes := core.CallsTo(fn, fnPush)
		if len(pushes) != 2 {
			c.Undecided("C31-R2", fnWriteLk+"/shape", fn.Pos(), fmt.Sprintf("expected two push attempts (primary, secondary), found %d", len(pushes)))
		} else {
			// the two attempts go to different buffers
			c.Require(core.Expr(pushes[0].Arg(0)) != core.Expr(pushes[1].Arg(0)), "C31-R2", fnWriteLk+"/two-buffers", pushes[1].Pos(),
				"the two push attempts address different buffers", "both push attempts address the same buffer "+core.Expr(pushes[0].Arg(0)))
			okLit := func(s core.Site, pol bool) func(core.Lit) bool {
				return func(l core.Lit) bool {
					ex, isEx := l.Cond.(*ssa.Extract)
					return isEx && ex.Tuple == s.Value() && ex.Index == 1 && l.Pol == pol
				}
			}
			isAdd := func(in ssa.Instruction) bool {
				ci, ok := in.(*ssa.Call)
				if !ok || core.CalleeName(&ci.Call) != "sync/atomic.(*Int64).Add" || len(ci.Call.Args) != 2 {
					return false
				}
				if !core.IsField(ci.Call.Args[0], "internal/balancer.tcpSender", "wouldBlockBytes") {
					return false
				}
				// the amount is len(pkt) of the packet being written
				for _, v := range valueTree(ci.Call.Args[1]) {
					if call, ok := v.(*ssa.Call); ok && core.CalleeName(&call.Call) == "builtin len" && len(call.Call.Args) == 1 && call.Call.Args[0] == ssa.Value(fn.Params[1]) {
						return true
					}
				}
				return false
			}
			n := 0
			for _, r := range core.Returns(fn) {
				n++
				key := fmt.Sprintf("%s/return#%d", fnWriteLk, n)
				errV := core.ReturnedValues(r)[1]
				switch {
				case isNilConst(errV):
					ok := holdsLit(r.Block(), okLit(pushes[0], true)) || holdsLit(r.Block(), okLit(pushes[1], true))
					c.Require(ok, "C31-R2", key, r.Pos(), "success is reported for a packet accepted by a push",
						"writeLocked reports success on a path where no push accepted the packet; facts: "+core.FactsString(r.Block()))
				case isGlobalLoad(errV, "internal/balancer", "errWouldBlock"):
					if holdsLit(r.Block(), selectCaseLit("internal/balancer.tcpPool", "closed")) {
						c.Pass("C31-R2", key, r.Pos(), "would-block because the pool is closed (shutdown)")
						continue
					}
					both := holdsLit(r.Block(), okLit(pushes[0], false)) && holdsLit(r.Block(), okLit(pushes[1], false))
					if !c.Require(both, "C31-R2", key, r.Pos(), "drop only after both buffers refused the packet",
						"writeLocked drops the packet (errWouldBlock) on a path where the primary and the secondary push have not both failed; facts: "+core.FactsString(r.Block())) {
						continue
					}
					ret := r
					p := core.ReachFromEntryWithout(fn, func(in ssa.Instruction) bool { return in == ssa.Instruction(ret) }, isAdd)
					c.Require(p == nil, "C31-R2", key+"/accounted", r.Pos(), "the dropped bytes are added to wouldBlockBytes (reported upstream by sendLoop)",
						"writeLocked drops the packet without adding len(pkt) to wouldBlockBytes on the path "+pathStr(p))
				default:
					c.Fail("C31-R2", key, r.Pos(), "writeLocked returns an error that is neither nil nor errWouldBlock: "+core.Expr(errV))
				}
			}
		}
	}
	if fn := need(c, "C31-R2", fnWritePkt); fn != nil {
		calls := core.CallsTo(fn, fnWriteLk)
		if len(calls) != 1 {
			c.Undecided("C31-R2", fnWritePkt+"/shape", fn.Pos(), "expected exactly one call of writeLocked")
		} else {
			call := calls[0]
			isErr := func(v ssa.Value) bool {
				ex, ok := v.(*ssa.Extract)
				return ok && ex.Tuple == call.Value() && ex.Index == 1
			}
			statAdd := func(field string) func(ssa.Instruction) bool {
				return func(in ssa.Instruction) bool {
					ci, ok := in.(*ssa.Call)
					return ok && core.CalleeName(&ci.Call) == "sync/atomic.(*Uint64).Add" && len(ci.Call.Args) == 2 &&
						core.IsField(ci.Call.Args[0], "internal/balancer.egressStatsAtomic", field) && constIs(ci.Call.Args[1], 1)
				}
			}
			nilLit := func(pol bool) func(core.Lit) bool {
				return func(l core.Lit) bool { return l.Op == token.EQL && isErr(l.X) && isNilConst(l.Y) && l.Pol == pol }
			}
			wbLit := func(pol bool) func(core.Lit) bool {
				return func(l core.Lit) bool {
					ci, ok := l.Cond.(*ssa.Call)
					return ok && core.CalleeName(&ci.Call) == "errors.Is" && isErr(ci.Call.Args[0]) && isGlobalLoad(ci.Call.Args[1], "internal/balancer", "errWouldBlock") && l.Pol == pol
				}
			}
			// counters only where they belong
			for _, b := range fn.Blocks {
				for _, in := range b.Instrs {
					if statAdd("forwardedPackets")(in) {
						c.Require(holdsLit(b, nilLit(true)), "C31-R2", fnWritePkt+"/forwarded-guard", in.Pos(), "forwardedPackets counted under err == nil",
							"forwardedPackets is incremented on a path where writeLocked returned an error; facts: "+core.FactsString(b))
					}
					if statAdd("droppedPackets")(in) {
						c.Require(holdsLit(b, wbLit(true)), "C31-R2", fnWritePkt+"/dropped-guard", in.Pos(), "droppedPackets counted under errors.Is(err, errWouldBlock)",
							"droppedPackets is incremented on a path that is not the would-block path; facts: "+core.FactsString(b))
					}
				}
			}
			// every would-block path counts a drop, every success path counts a forward
			for _, chk := range []struct {
				name  string
				lit   func(core.Lit) bool
				field string
			}{{"would-block", wbLit(true), "droppedPackets"}, {"success", nilLit(true), "forwardedPackets"}} {
				entries := edgesWhere(fn, chk.lit)
				if len(entries) == 0 {
					c.Fail("C31-R2", fnWritePkt+"/"+chk.name+"-branch", call.Pos(), "WritePacketLocked does not branch on the "+chk.name+" outcome of writeLocked, so "+chk.field+" cannot be counted per outcome")
					continue
				}
				for i, e := range entries {
					p := reachFromBlock(e, core.IsReturn, statAdd(chk.field))
					c.Require(p == nil, "C31-R2", fmt.Sprintf("%s/%s#%d->%s", fnWritePkt, chk.name, i+1, chk.field), call.Pos(),
						"every "+chk.name+" path increments "+chk.field, "a "+chk.name+" path returns without incrementing "+chk.field+": "+pathStr(p))
				}
			}
		}
	}

	// ---- R3 -------------------------------------------------------------------------
	c.Rule("C31-R3", "K3 fixed layout", 5, "HandleMetricsBatchRaw: h.pkt = append(h.pkt[:pktHeadLen], body...); PutUint32(h.pkt[:pktHeadLen], uint32(len(body))) with pktHeadLen == 4; that buffer is what WritePacketLocked receives")
	if fn := need(c, "C31-R3", fnRaw); fn != nil {
		headLen, okConst := intConst(c, "internal/balancer", "pktHeadLen")
		if !okConst {
			c.Anchor("C31-R3", "internal/balancer.pktHeadLen")
		}
		c.Require(headLen == 4, "C31-R3", "internal/balancer.pktHeadLen", fn.Pos(), "header length equals the width of the uint32 length field", fmt.Sprintf("pktHeadLen is %d but the length field written by PutUint32 is 4 bytes wide", headLen))
		puts := core.CallsTo(fn, "encoding/binary.(littleEndian).PutUint32")
		writes := core.CallsTo(fn, fnWritePkt)
		var appends []core.Site
		for _, s := range core.CallsTo(fn, "builtin append") {
			appends = append(appends, s)
		}
		body := ssa.Value(fn.Params[1])
		isHeadSlice := func(v ssa.Value) bool {
			sl, ok := v.(*ssa.Slice)
			if !ok || sl.Low != nil && !constIs(sl.Low, 0) || sl.High == nil || !constIs(sl.High, headLen) {
				return false
			}
			return core.LoadsField(sl.X, "internal/balancer.handler", "pkt")
		}
		if len(puts) != 1 || len(writes) != 1 || len(appends) != 1 {
			c.Undecided("C31-R3", fnRaw+"/shape", fn.Pos(), fmt.Sprintf("expected one append, one PutUint32 and one WritePacketLocked, found %d/%d/%d", len(appends), len(puts), len(writes)))
		} else {
			ap, put, wr := appends[0], puts[0], writes[0]
			c.Require(isHeadSlice(ap.Arg(0)) && ap.Arg(1) == body, "C31-R3", fnRaw+"/body-after-header", ap.Pos(),
				"body appended at offset pktHeadLen of h.pkt", "the frame is not built as append(h.pkt[:pktHeadLen], body...): "+core.Expr(ap.Value()))
			var st *ssa.Store
			for _, r := range core.Referrers(ap.Value()) {
				if s, ok := r.(*ssa.Store); ok && core.IsField(s.Addr, "internal/balancer.handler", "pkt") {
					st = s
				}
			}
			c.Require(st != nil && core.Dominates(st, put.Instr), "C31-R3", fnRaw+"/frame-stored", ap.Pos(), "the frame is stored in h.pkt before the length is written", "the appended frame is not stored to h.pkt before PutUint32")
			lenOK := false
			if cv, ok := put.Arg(2).(*ssa.Convert); ok {
				if call, ok := cv.X.(*ssa.Call); ok && core.CalleeName(&call.Call) == "builtin len" && call.Call.Args[0] == body {
					lenOK = true
				}
			}
			c.Require(isHeadSlice(put.Arg(1)) && lenOK, "C31-R3", fnRaw+"/length-field", put.Pos(), "little-endian uint32(len(body)) written at h.pkt[0:pktHeadLen)",
				"the length field is not PutUint32(h.pkt[:pktHeadLen], uint32(len(body))): "+core.Expr(put.Arg(1))+" <- "+core.Expr(put.Arg(2)))
			// no other store to h.pkt between building the frame and sending it
			sent := core.LoadsField(wr.Arg(1), "internal/balancer.handler", "pkt") && core.Dominates(put.Instr, wr.Instr)
			if st != nil && sent {
				p := core.ReachWithout(st, isStoreToField("internal/balancer.handler", "pkt"), func(in ssa.Instruction) bool { return in == wr.Instr })
				sent = p == nil
			}
			c.Require(sent, "C31-R3", fnRaw+"/frame-sent", wr.Pos(), "WritePacketLocked receives the framed h.pkt", "WritePacketLocked does not receive the buffer that was just framed (or h.pkt is reassigned in between): "+core.Expr(wr.Arg(1)))
		}
	}
	debugObs(c)
}

// ---- small helpers shared by the lock/queue properties -----------------------------

// holdsLit reports whether a literal satisfying pred is established at b (all
// alternatives of some guard on the dominator chain satisfy it).
func holdsLit(b *ssa.BasicBlock, pred func(core.Lit) bool) bool {
	for _, g := range core.Facts(b) {
		all := len(g.Alts) > 0
		for _, l := range g.Alts {
			if !pred(l) {
				all = false
				break
			}
		}
		if all {
			return true
		}
	}
	return false
}

// edgesWhere lists the blocks entered by a branch edge whose literal satisfies pred.
func edgesWhere(fn *ssa.Function, pred func(core.Lit) bool) []*ssa.BasicBlock {
	var out []*ssa.BasicBlock
	for _, b := range fn.Blocks {
		for _, s := range b.Succs {
			if l, ok := core.EdgeLit(b, s); ok && pred(l) {
				out = append(out, s)
			}
		}
	}
	return out
}

func isGlobalLoad(v ssa.Value, pkg, name string) bool {
	u, ok := v.(*ssa.UnOp)
	if !ok || u.Op != token.MUL {
		return false
	}
	g, ok := u.X.(*ssa.Global)
	return ok && core.Rel(g.Pkg.Pkg.Path()) == pkg && g.Name() == name
}

func constIs(v ssa.Value, n int64) bool {
	k, ok := v.(*ssa.Const)
	if !ok || k.Value == nil || k.Value.Kind() != constant.Int {
		return false
	}
	x, exact := constant.Int64Val(k.Value)
	return exact && x == n
}

// intConst resolves a package-level integer constant through the type checker.
func intConst(c *core.Check, pkg, name string) (int64, bool) {
	pk := c.Prog.Pkg(pkg)
	if pk == nil || pk.Types == nil {
		return 0, false
	}
	k, ok := pk.Types.Scope().Lookup(name).(*types.Const)
	if !ok {
		return 0, false
	}
	v, exact := constant.Int64Val(constant.ToInt(k.Val()))
	return v, exact
}

// valueTree lists v and the values it is computed from through conversions and arithmetic.
func valueTree(v ssa.Value) []ssa.Value {
	var out []ssa.Value
	seen := map[ssa.Value]bool{}
	var walk func(ssa.Value)
	walk = func(x ssa.Value) {
		if x == nil || seen[x] {
			return
		}
		seen[x] = true
		out = append(out, x)
		switch y := x.(type) {
		case *ssa.Convert:
			walk(y.X)
		case *ssa.ChangeType:
			walk(y.X)
		case *ssa.BinOp:
			walk(y.X)
			walk(y.Y)
		case *ssa.UnOp:
			walk(y.X)
		}
	}
	walk(v)
	return out
}

// selectCaseLit matches the literal "the select took case k" where case k receives from
// the channel held in the given field.
func selectCaseLit(typ, field string) func(core.Lit) bool {
	return func(l core.Lit) bool {
		if l.Op != token.EQL || !l.Pol {
			return false
		}
		ex, ok := l.X.(*ssa.Extract)
		if !ok || ex.Index != 0 {
			return false
		}
		sel, ok := ex.Tuple.(*ssa.Select)
		k, isConst := l.Y.(*ssa.Const)
		if !ok || !isConst || k.Value == nil {
			return false
		}
		idx, exact := constant.Int64Val(constant.ToInt(k.Value))
		if !exact || idx < 0 || int(idx) >= len(sel.States) {
			return false
		}
		st := sel.States[idx]
		return st.Dir == types.RecvOnly && core.LoadsField(st.Chan, typ, field)
	}
}
