package props

import (
	"fmt"
	"go/constant"
	"go/token"
	"go/types"

	"golang.org/x/tools/go/ssa"

	"shverif/core"
)

// Shared helpers of the data-model properties C02..C07.

const (
	dmPkg  = "internal/data_model"
	aggPkg = "internal/aggregator"
	agtPkg = "internal/agent"
)

// holdsPred reports whether some guard on the dominator chain of b has every
// alternative satisfying p (K1 with a structural matcher instead of a text glob).
func holdsPred(b *ssa.BasicBlock, p func(core.Lit) bool) bool {
	for _, g := range core.Facts(b) {
		all := len(g.Alts) > 0
		for _, l := range g.Alts {
			if !p(l) {
				all = false
				break
			}
		}
		if all {
			return true
		}
	}
	return false
}

// constFloat reports whether v is the numeric constant f.
func constFloat(v ssa.Value, f float64) bool {
	c, ok := v.(*ssa.Const)
	if !ok || c.Value == nil {
		return false
	}
	if c.Value.Kind() != constant.Int && c.Value.Kind() != constant.Float {
		return false
	}
	x, _ := constant.Float64Val(c.Value)
	return x == f
}

func isConst(v ssa.Value) bool { _, ok := v.(*ssa.Const); return ok }

// dmStripConv removes value-preserving wrappers (interface boxing, named-type changes).
func dmStripConv(v ssa.Value) ssa.Value {
	for {
		switch x := v.(type) {
		case *ssa.MakeInterface:
			v = x.X
		case *ssa.ChangeType:
			v = x.X
		default:
			return v
		}
	}
}

// dmFieldLoad reports whether v is a load of field `field` of struct type `typ`
// (module-relative type name) and returns the base (pointer or address) it is read from.
func dmFieldLoad(v ssa.Value, typ, field string) (base ssa.Value, ok bool) {
	switch x := v.(type) {
	case *ssa.UnOp:
		if x.Op == token.MUL {
			if fa, isFA := x.X.(*ssa.FieldAddr); isFA && core.IsFieldA(fa, typ, field) {
				return fa.X, true
			}
		}
	case *ssa.Field:
		if core.IsFieldA(x, typ, field) {
			return x.X, true
		}
	}
	return nil, false
}

// fieldPath follows v backwards through loads of the named fields (last name is the
// outermost selection): fieldPath(v, "MetricMeta", "NoSampleAgent") returns X for
// v == X.MetricMeta.NoSampleAgent. Embedded-field hops are followed silently.
func fieldPath(v ssa.Value, names ...string) (ssa.Value, bool) {
	for i := len(names) - 1; i >= 0; i-- {
		nv, ok := fieldStep(v, names[i])
		if !ok {
			return nil, false
		}
		v = nv
	}
	return v, true
}

func fieldStep(v ssa.Value, name string) (ssa.Value, bool) {
	for hops := 0; hops < 4; hops++ {
		var fa *ssa.FieldAddr
		switch x := v.(type) {
		case *ssa.UnOp:
			if x.Op != token.MUL {
				return nil, false
			}
			f, ok := x.X.(*ssa.FieldAddr)
			if !ok {
				return nil, false
			}
			fa = f
		case *ssa.FieldAddr:
			fa = x
		case *ssa.Field:
			st, ok := x.X.Type().Underlying().(*types.Struct)
			if !ok {
				return nil, false
			}
			if st.Field(x.Field).Name() == name {
				return x.X, true
			}
			if st.Field(x.Field).Embedded() {
				v = x.X
				continue
			}
			return nil, false
		default:
			return nil, false
		}
		pt, ok := fa.X.Type().Underlying().(*types.Pointer)
		if !ok {
			return nil, false
		}
		st, ok := pt.Elem().Underlying().(*types.Struct)
		if !ok {
			return nil, false
		}
		f := st.Field(fa.Field)
		if f.Name() == name {
			return fa.X, true
		}
		return nil, false
	}
	return nil, false
}

// sameAddr reports whether two addresses denote the same location structurally:
// identical SSA values, or the same field / constant-or-identical index of the same
// base address, or loads of the same address (go/ssa has no CSE, so `s.Tail` read
// twice gives two values).
func sameAddr(a, b ssa.Value) bool { return sameAddrD(a, b, 0) }

func sameAddrD(a, b ssa.Value, d int) bool {
	if a == b {
		return true
	}
	if a == nil || b == nil || d > 8 {
		return false
	}
	switch x := a.(type) {
	case *ssa.FieldAddr:
		y, ok := b.(*ssa.FieldAddr)
		return ok && x.Field == y.Field && types.Identical(x.X.Type(), y.X.Type()) && sameAddrD(x.X, y.X, d+1)
	case *ssa.Field:
		y, ok := b.(*ssa.Field)
		return ok && x.Field == y.Field && types.Identical(x.X.Type(), y.X.Type()) && sameAddrD(x.X, y.X, d+1)
	case *ssa.IndexAddr:
		y, ok := b.(*ssa.IndexAddr)
		return ok && sameAddrD(x.X, y.X, d+1) && sameIndex(x.Index, y.Index)
	case *ssa.UnOp:
		y, ok := b.(*ssa.UnOp)
		return ok && x.Op == token.MUL && y.Op == token.MUL && sameAddrD(x.X, y.X, d+1)
	case *ssa.Const:
		y, ok := b.(*ssa.Const)
		return ok && x.Value != nil && y.Value != nil && constant.Compare(x.Value, token.EQL, y.Value)
	case *ssa.Convert:
		y, ok := b.(*ssa.Convert)
		return ok && types.Identical(x.Type(), y.Type()) && sameAddrD(x.X, y.X, d+1)
	case *ssa.ChangeType:
		y, ok := b.(*ssa.ChangeType)
		return ok && types.Identical(x.Type(), y.Type()) && sameAddrD(x.X, y.X, d+1)
	case *ssa.Extract:
		y, ok := b.(*ssa.Extract)
		return ok && x.Index == y.Index && x.Tuple == y.Tuple
	}
	return false
}

func sameIndex(a, b ssa.Value) bool {
	if a == b {
		return true
	}
	ca, ok1 := a.(*ssa.Const)
	cb, ok2 := b.(*ssa.Const)
	return ok1 && ok2 && ca.Value != nil && cb.Value != nil && constant.Compare(ca.Value, token.EQL, cb.Value)
}

// mulOperands returns the operands of a multiplication.
func mulOperands(v ssa.Value) (x, y ssa.Value, ok bool) {
	b, isB := v.(*ssa.BinOp)
	if !isB || b.Op != token.MUL {
		return nil, nil, false
	}
	return b.X, b.Y, true
}

// timesFactor reports whether v == other * factor (either order) and returns other.
func timesFactor(v ssa.Value, isFactor func(ssa.Value) bool) (other ssa.Value, ok bool) {
	x, y, isMul := mulOperands(v)
	if !isMul {
		return nil, false
	}
	switch {
	case isFactor(y) && !isFactor(x):
		return x, true
	case isFactor(x) && !isFactor(y):
		return y, true
	}
	return nil, false
}

// callsResolved lists the call sites in fns whose resolved callee (static, closure
// literal or single-assignment closure variable) is target.
func callsResolved(fns []*ssa.Function, target *ssa.Function) []core.Site {
	var out []core.Site
	for _, fn := range fns {
		for _, s := range core.Calls(fn) {
			if core.ResolveCallee(s.Common()) == target {
				out = append(out, s)
			}
		}
	}
	return out
}

// siteKeys gives position-independent keys "caller/what#n" for a list of instructions.
func instrKeys(what string, ins []ssa.Instruction) []string {
	cnt := map[string]int{}
	keys := make([]string, len(ins))
	for i, in := range ins {
		k := core.FuncName(in.Parent()) + "/" + what
		cnt[k]++
		keys[i] = fmt.Sprintf("%s#%d", k, cnt[k])
	}
	return keys
}

// dmRealReturns lists the returns of fn except the bare return of the recover block.
func dmRealReturns(fn *ssa.Function) []*ssa.Return {
	var out []*ssa.Return
	for _, r := range core.Returns(fn) {
		if len(r.Block().Preds) == 0 && r.Block().Index != 0 {
			continue
		}
		out = append(out, r)
	}
	return out
}

// funcsOf returns the functions of the listed packages, including anonymous ones.
func funcsOf(c *core.Check, pkgs ...string) []*ssa.Function { return c.Prog.FuncsIn(pkgs...) }

// reachAfter reports whether `to` can execute after `from` (same block later, or a
// successor block).
func reachAfter(from, to ssa.Instruction) bool {
	return core.ReachWithout(from, func(in ssa.Instruction) bool { return in == to }, nil) != nil
}
