package props

// Helpers shared by the SQL-backed properties C15, C16, C17 and C19 (metadata database
// on top of the binlog-backed sqlite engine). Everything here works on SSA value
// identity, resolved callees/fields/constants and parsed SQL shapes (core/sql.go) —
// never on names of locals or on source text.

import (
	"fmt"
	"go/constant"
	"go/token"
	"go/types"
	"sort"
	"strings"

	"golang.org/x/tools/go/ssa"

	"shverif/core"
)

const (
	sqPkgMeta   = "internal/metadata"
	sqPkgSqlite = "internal/sqlite"
	sqPkgTL     = "internal/data_model/gen2/internal"

	sqTEngine     = "internal/sqlite.Engine"
	sqTSqliteConn = "internal/sqlite.sqliteConn"
	sqTDBV2       = "internal/metadata.DBV2"

	sqFnRowsNext = "internal/sqlite.(*Rows).Next"
)

// sqPkgs are the packages whose bodies the SQL rules inspect: the metadata package,
// the engine, and the only importer of the metadata package (so that liveness of the
// exported entry points is decided on the whole set of their callers in the quick tier).
var sqPkgs = []string{"./internal/metadata", "./internal/sqlite", "./cmd/statshouse-metadata"}

var sqEngineDoFns = []string{"internal/sqlite.(*Engine).Do", "internal/sqlite.(*Engine).DoWithOffset"}

// ---- constants ------------------------------------------------------------------------

// sqConstOf resolves a package-level integer constant through the type-checked program.
func sqConstOf(c *core.Check, rule, pkgRel, name string) (int64, bool) {
	pk := c.Prog.Pkg(pkgRel)
	if pk == nil || pk.Types == nil {
		c.Anchor(rule, pkgRel+"."+name)
		return 0, false
	}
	k, ok := pk.Types.Scope().Lookup(name).(*types.Const)
	if !ok || k.Val().Kind() != constant.Int {
		c.Anchor(rule, pkgRel+"."+name)
		return 0, false
	}
	v, exact := constant.Int64Val(k.Val())
	if !exact {
		c.Anchor(rule, pkgRel+"."+name)
		return 0, false
	}
	return v, true
}

// ---- transaction closures ---------------------------------------------------------------

// sqDoClosure is a function literal passed to Engine.Do / DoWithOffset.
type sqDoClosure struct {
	Fn   *ssa.Function
	Call core.Site // the Do call
}

// sqDoClosures lists the closures passed to Engine.Do / DoWithOffset by fns; a callback
// that is not a function literal (or named function) is reported undecided.
func sqDoClosures(c *core.Check, rule string, fns []*ssa.Function) []sqDoClosure {
	var out []sqDoClosure
	sites := core.Callers(fns, sqEngineDoFns...)
	keys := core.Ordinals(sites)
	for i, s := range sites {
		if core.FuncPkg(s.Fn) == sqPkgSqlite {
			continue // Do forwards its callback to DoWithOffset / doWithoutWait
		}
		cb := s.Arg(3)
		switch v := cb.(type) {
		case *ssa.MakeClosure:
			out = append(out, sqDoClosure{Fn: v.Fn.(*ssa.Function), Call: s})
		case *ssa.Function:
			out = append(out, sqDoClosure{Fn: v, Call: s})
		default:
			c.Undecided(rule, keys[i]+"/callback", s.Pos(), "the transaction callback is not a function literal: "+core.Expr(cb))
		}
	}
	return out
}

// ---- reaching definitions for cells and nil-facts ----------------------------------------

// sqResolveLoad maps a load of an address-taken / captured variable to the set of values
// that may be in the variable at that load (the values of the stores reaching it inside
// the function). Other values map to themselves.
func sqResolveLoad(v ssa.Value) []ssa.Value {
	u, ok := v.(*ssa.UnOp)
	if !ok || u.Op != token.MUL {
		return []ssa.Value{v}
	}
	cell := core.CellOf(v)
	if cell == nil {
		return []ssa.Value{v}
	}
	stores, entry := core.ReachingStores(cell, u)
	if entry || len(stores) == 0 {
		return []ssa.Value{v}
	}
	var out []ssa.Value
	for _, st := range stores {
		out = append(out, st.Val)
	}
	return out
}

// sqPhiLeaves flattens nested phis.
func sqPhiLeaves(v ssa.Value) []ssa.Value {
	var out []ssa.Value
	seen := map[ssa.Value]bool{}
	var walk func(ssa.Value)
	walk = func(x ssa.Value) {
		if seen[x] {
			return
		}
		seen[x] = true
		if p, ok := x.(*ssa.Phi); ok {
			for _, e := range p.Edges {
				walk(e)
			}
			return
		}
		out = append(out, x)
	}
	walk(v)
	return out
}

// sqNilFact is a dominating fact `v == nil` (Pol true) / `v != nil` (Pol false) with v
// resolved to the set of definitions it may come from.
type sqNilFact struct {
	Defs []ssa.Value
	Pol  bool
}

// sqNilFacts lists the single-alternative nil comparisons known at block b.
func sqNilFacts(b *ssa.BasicBlock) []sqNilFact {
	var out []sqNilFact
	for _, g := range core.Facts(b) {
		if len(g.Alts) != 1 {
			continue
		}
		l := g.Alts[0]
		if l.Op != token.EQL || !isNilConst(l.Y) {
			continue
		}
		var defs []ssa.Value
		for _, d := range sqResolveLoad(l.X) {
			for _, leaf := range sqPhiLeaves(d) {
				if !isNilConst(leaf) { // a nil alternative satisfies `== nil` trivially
					defs = append(defs, leaf)
				}
			}
		}
		out = append(out, sqNilFact{Defs: defs, Pol: l.Pol})
	}
	return out
}

func sqSameSet(a, b []ssa.Value) bool {
	in := func(x ssa.Value, s []ssa.Value) bool {
		for _, y := range s {
			if x == y {
				return true
			}
		}
		return false
	}
	for _, x := range a {
		if !in(x, b) {
			return false
		}
	}
	for _, y := range b {
		if !in(y, a) {
			return false
		}
	}
	return len(a) > 0
}

// sqKnownNil reports whether at block b it is established that the error value(s) vs —
// exactly this set of definitions — compared equal to nil.
func sqKnownNil(b *ssa.BasicBlock, vs ...ssa.Value) bool {
	for _, f := range sqNilFacts(b) {
		if f.Pol && sqSameSet(f.Defs, vs) {
			return true
		}
	}
	return false
}

// sqErrResult returns the error result of a call: the call itself for a single result, or
// the Extract of the last tuple element (nil when never extracted).
func sqErrResult(call ssa.Value) ssa.Value {
	if call == nil {
		return nil
	}
	t, ok := call.Type().(*types.Tuple)
	if !ok {
		return call
	}
	return sqExtractOf(call, t.Len()-1)
}

// sqExtractOf returns the Extract #idx of a tuple-valued call (nil when absent).
func sqExtractOf(call ssa.Value, idx int) ssa.Value {
	for _, r := range core.Referrers(call) {
		if e, ok := r.(*ssa.Extract); ok && e.Index == idx {
			return e
		}
	}
	return nil
}

// ---- rows -> query -------------------------------------------------------------------------

// sqRowsNextCall returns the (*Rows).Next call a branch literal tests.
func sqRowsNextCall(l core.Lit) *ssa.Call {
	call, ok := l.Cond.(*ssa.Call)
	if !ok || core.CalleeName(&call.Call) != sqFnRowsNext {
		return nil
	}
	return call
}

// sqRowsQuery resolves the Rows object a (*Rows).X call operates on to the unique
// Conn.Query site whose result is in the variable at that point.
func sqRowsQuery(call *ssa.Call) *core.SQLSite {
	if len(call.Call.Args) == 0 {
		return nil
	}
	a, ok := call.Call.Args[0].(*ssa.Alloc)
	if !ok {
		return nil
	}
	stores, entry := core.ReachingStores(a, call)
	if entry || len(stores) != 1 {
		return nil
	}
	qc, ok := stores[0].Val.(*ssa.Call)
	if !ok {
		return nil
	}
	q, ok := core.SQLSiteOf(core.Site{Fn: qc.Parent(), Instr: qc, Callee: core.CalleeName(&qc.Call)})
	if !ok {
		return nil
	}
	return q
}

// sqRowFound reports whether block b is dominated by `rows.Next() == want` for the rows
// of a query accepted by pred; the query is returned.
func sqRowFound(b *ssa.BasicBlock, want bool, pred func(*core.SQLSite) bool) *core.SQLSite {
	for _, g := range core.Facts(b) {
		if len(g.Alts) != 1 || g.Alts[0].Pol != want {
			continue
		}
		call := sqRowsNextCall(g.Alts[0])
		if call == nil {
			continue
		}
		if q := sqRowsQuery(call); q != nil && pred(q) {
			return q
		}
	}
	return nil
}

// ---- flows through cells ---------------------------------------------------------------------

// sqFlowsFrom reports whether v is computed from src through conversions, arithmetic,
// phis, selections and variables of the enclosing function (address-taken or captured
// variables are followed through the stores made to them inside that function).
func sqFlowsFrom(v, src ssa.Value) bool { return sqFlows(v, src, map[ssa.Value]bool{}) }

func sqFlows(v, src ssa.Value, seen map[ssa.Value]bool) bool {
	if v == nil {
		return false
	}
	if v == src {
		return true
	}
	if seen[v] {
		return false
	}
	seen[v] = true
	switch x := v.(type) {
	case *ssa.Phi:
		for _, e := range x.Edges {
			if sqFlows(e, src, seen) {
				return true
			}
		}
	case *ssa.Convert:
		return sqFlows(x.X, src, seen)
	case *ssa.ChangeType:
		return sqFlows(x.X, src, seen)
	case *ssa.MakeInterface:
		return sqFlows(x.X, src, seen)
	case *ssa.BinOp:
		return sqFlows(x.X, src, seen) || sqFlows(x.Y, src, seen)
	case *ssa.Extract:
		return sqFlows(x.Tuple, src, seen)
	case *ssa.Slice:
		return sqFlows(x.X, src, seen) || sqFlows(x.Low, src, seen) || sqFlows(x.High, src, seen)
	case *ssa.Field:
		return sqFlows(x.X, src, seen)
	case *ssa.UnOp:
		if x.Op == token.MUL {
			if cell := core.CellOf(x); cell != nil {
				fn := x.Parent()
				for _, b := range fn.Blocks {
					for _, in := range b.Instrs {
						if st, ok := in.(*ssa.Store); ok && st.Addr == cell && sqFlows(st.Val, src, seen) {
							return true
						}
					}
				}
				return false
			}
		}
		return sqFlows(x.X, src, seen)
	case *ssa.FieldAddr:
		return sqFlows(x.X, src, seen)
	}
	return false
}

// ---- parameters behind captured variables -------------------------------------------------------

// sqParamBehind resolves a bound value to the parameter of the enclosing top-level
// function it denotes: the parameter itself, or a load of the variable the parameter
// was spilled into (captured by the closure), provided no other store to that variable
// can reach the use inside the closure.
func sqParamBehind(v ssa.Value, at ssa.Instruction) *ssa.Parameter {
	for {
		if cv, ok := v.(*ssa.Convert); ok {
			v = cv.X
			continue
		}
		break
	}
	if p, ok := v.(*ssa.Parameter); ok {
		return p
	}
	cell := core.CellOf(v)
	if cell == nil {
		return nil
	}
	p := core.ParamOfCell(cell)
	if p == nil {
		return nil
	}
	if stores, _ := core.ReachingStores(cell, at); len(stores) != 0 {
		// a store inside this function reaches the use; the entry store of the spilled
		// parameter lives in the parent, so any local reaching store overrides it
		if _, isAlloc := cell.(*ssa.Alloc); !isAlloc {
			return nil
		}
		for _, st := range stores {
			if st.Val != ssa.Value(p) {
				return nil
			}
		}
	}
	return p
}

func sqParamIndex(p *ssa.Parameter) int {
	for i, q := range p.Parent().Params {
		if q == p {
			return i
		}
	}
	return -1
}

// ---- schema ----------------------------------------------------------------------------------

// sqMetaSchema resolves and parses the metadata schema literal: the constant string the
// package variable `scheme` is initialised with. It also checks (under `rule`) that
// this literal is what OpenDB hands to the engine as Options.Scheme and that nothing
// reassigns the variable — otherwise the parsed text would not be the schema in force.
func sqMetaSchema(c *core.Check, rule string) *core.SQLSchema {
	text, pos, ok := c.Prog.GlobalStringInit(sqPkgMeta, "scheme")
	if !ok {
		c.Anchor(rule, sqPkgMeta+".scheme")
		return nil
	}
	sc := core.ParseSchema(text)
	for _, e := range sc.Errs {
		c.Undecided(rule, "schema/parse", pos, "schema literal: "+e)
	}
	if len(sc.Errs) > 0 {
		return nil
	}
	stores := core.GlobalStores(c.Prog.Funcs(), sqPkgMeta, "scheme")
	c.Require(len(stores) == 0, rule, "schema/"+sqPkgMeta+".scheme/not-reassigned", pos,
		"the schema variable is assigned only by its initialiser", "the schema variable is reassigned at run time: the literal is not the schema in force")
	if fn := need(c, rule, sqPkgMeta+".OpenDB"); fn != nil {
		passed := false
		for _, b := range fn.Blocks {
			for _, in := range b.Instrs {
				st, isStore := in.(*ssa.Store)
				if !isStore || !core.IsField(st.Addr, "internal/sqlite.Options", "Scheme") {
					continue
				}
				if u, isLoad := st.Val.(*ssa.UnOp); isLoad && u.Op == token.MUL {
					if g, isGlobal := u.X.(*ssa.Global); isGlobal && g.Name() == "scheme" && core.Rel(g.Pkg.Pkg.Path()) == sqPkgMeta {
						passed = true
					}
				}
			}
		}
		c.Require(passed, rule, "schema/"+sqPkgMeta+".OpenDB/Options.Scheme", fn.Pos(),
			"OpenDB passes the schema literal to the engine", "OpenDB does not pass the schema variable as sqlite.Options.Scheme: the literal analysed is not the schema the engine creates")
	}
	return sc
}

func sqNeedTable(c *core.Check, rule string, sc *core.SQLSchema, name string) *core.SQLTable {
	if sc == nil {
		return nil
	}
	t := sc.Tables[name]
	if t == nil {
		c.Anchor(rule, "table "+name+" of the schema literal")
	}
	return t
}

// ---- liveness ----------------------------------------------------------------------------------

// sqLiveFunc reports whether the (outermost) function has a caller or is used as a value
// anywhere in the loaded program (calls through interfaces are matched by method name).
func sqLiveFunc(c *core.Check, fn *ssa.Function) bool {
	for fn.Parent() != nil {
		fn = fn.Parent()
	}
	name := core.FuncName(fn)
	all := c.Prog.Funcs()
	if len(core.Callers(all, name)) > 0 || len(core.FuncValueUses(all, name)) > 0 {
		return true
	}
	if fn.Signature.Recv() != nil {
		for _, f := range all {
			for _, s := range core.Calls(f) {
				if s.Common().IsInvoke() && s.Common().Method.Name() == fn.Name() {
					return true
				}
			}
		}
	}
	return false
}

// ---- un-logged writes (C16-R2 = C17-R6 = C19-R4) ---------------------------------------------------

// sqCacheFate classifies the event buffer a transaction function returns.
type sqCacheFate struct {
	// untouched: the buffer handed in (or nil / an empty re-slice of it) is returned, so
	// the engine sees no event. via lists the predecessor blocks through which this
	// happens when the value is a phi (nil = on every path to the return).
	untouched bool
	via       []*ssa.BasicBlock
	// delegated: the buffer is a result of a callee that got the buffer; the callee is
	// analysed on its own.
	delegated *ssa.Function
	dParam    int
	dRes      int
	undecided string
}

func sqIsEventWriter(fn *ssa.Function) bool {
	return fn != nil && fn.Name() == "WriteTL1Boxed" && fn.Signature.Recv() != nil && core.FuncPkg(fn) == sqPkgTL
}

func sqClassifyCache(v ssa.Value, cache *ssa.Parameter) sqCacheFate {
	switch x := v.(type) {
	case *ssa.Parameter:
		if x == cache {
			return sqCacheFate{untouched: true}
		}
		return sqCacheFate{undecided: "the returned buffer is a different parameter " + core.Expr(v)}
	case *ssa.Const:
		if x.Value == nil {
			return sqCacheFate{untouched: true}
		}
	case *ssa.Slice:
		f := sqClassifyCache(x.X, cache)
		if f.untouched || f.undecided != "" {
			return f
		}
		return sqCacheFate{undecided: "re-slice of an event buffer " + core.Expr(v)}
	case *ssa.Phi:
		out := sqCacheFate{}
		for i, e := range x.Edges {
			f := sqClassifyCache(e, cache)
			switch {
			case f.undecided != "":
				return f
			case f.delegated != nil:
				return sqCacheFate{undecided: "the returned buffer merges a callee result with other values: " + core.Expr(v)}
			case f.untouched:
				out.untouched = true
				if f.via == nil {
					out.via = append(out.via, x.Block().Preds[i])
				} else {
					out.via = append(out.via, f.via...)
				}
			}
		}
		return out
	case *ssa.Call:
		return sqClassifyCacheCall(x, 0, cache)
	case *ssa.Extract:
		if call, ok := x.Tuple.(*ssa.Call); ok {
			return sqClassifyCacheCall(call, x.Index, cache)
		}
	}
	return sqCacheFate{undecided: "cannot classify the returned event buffer " + core.Expr(v)}
}

func sqClassifyCacheCall(call *ssa.Call, res int, cache *ssa.Parameter) sqCacheFate {
	callee, ok := call.Call.Value.(*ssa.Function)
	if !ok || call.Call.IsInvoke() {
		return sqCacheFate{undecided: "the returned event buffer comes from a dynamic call " + core.Expr(call)}
	}
	if sqIsEventWriter(callee) {
		return sqCacheFate{} // a boxed TL event (>= 4 bytes) was appended
	}
	for i, a := range call.Call.Args {
		if a == ssa.Value(cache) && len(callee.Blocks) > 0 {
			return sqCacheFate{delegated: callee, dParam: i, dRes: res}
		}
	}
	return sqCacheFate{undecided: "the returned event buffer is the result of " + core.CalleeName(&call.Call) + ", which is neither a TL event writer nor a function given the buffer"}
}

type sqUnloggedKey struct {
	fn       *ssa.Function
	par, res int
}

// sqRuleUnloggedWrites implements C16-R2 under the given rule id: in every transaction
// callback passed to Engine.Do (and, transitively, every helper the event buffer is
// delegated to) a return that yields the untouched buffer with a possibly-nil error
// must not be reachable after a writing statement. The engine treats an empty buffer as
// a read (`shouldWriteBinlog := len(buffer) > 0`), keeps the change and logs nothing.
// One obligation per writing site, keyed function/callee#ordinal.
func sqRuleUnloggedWrites(c *core.Check, rule string) {
	fns := c.Prog.FuncsIn(sqPkgMeta, "cmd/statshouse-metadata")
	sum := core.NewSQLSummary(c.Prog.FuncsIn(sqPkgMeta, sqPkgSqlite, "cmd/statshouse-metadata"))
	done := map[sqUnloggedKey]bool{}
	var analyse func(fn *ssa.Function, par, res int)
	analyse = func(fn *ssa.Function, par, res int) {
		k := sqUnloggedKey{fn, par, res}
		if done[k] {
			return
		}
		done[k] = true
		name := core.FuncName(fn)
		c.Seen(name)
		if par >= len(fn.Params) || fn.Signature.Results().Len() < 2 {
			c.Undecided(rule, name+"/signature", fn.Pos(), "not a (…, buffer, …) -> (…, buffer, error) transaction function")
			return
		}
		cache := fn.Params[par]
		errIdx := fn.Signature.Results().Len() - 1
		// writing sites of this function
		var writes []core.Site
		for _, s := range core.Calls(fn) {
			if sum.IsWriteInstr(s.Instr) {
				writes = append(writes, s)
			}
		}
		keys := core.Ordinals(writes)
		type badRet struct {
			ret *ssa.Return
			via []*ssa.BasicBlock
		}
		var bad []badRet
		n := 0
		for _, r := range core.Returns(fn) {
			if len(r.Block().Preds) == 0 && r.Block().Index != 0 {
				continue // recover block
			}
			n++
			vals := core.ReturnedValues(r)
			f := sqClassifyCache(vals[res], cache)
			if f.undecided != "" {
				c.Undecided(rule, fmt.Sprintf("%s/return#%d", name, n), r.Pos(), f.undecided)
				continue
			}
			if f.delegated != nil {
				analyse(f.delegated, f.dParam, f.dRes)
				continue
			}
			if !f.untouched {
				continue
			}
			ev := vals[errIdx]
			if !isNilConst(ev) && nonNilErr(ev, r.Block()) {
				continue // the engine rolls the savepoint back
			}
			bad = append(bad, badRet{r, f.via})
		}
		for i, w := range writes {
			c.CallSites++
			var hit *ssa.Return
			for _, br := range bad {
				isRet := func(in ssa.Instruction) bool { return in == ssa.Instruction(br.ret) }
				if br.via == nil {
					if core.ReachWithout(w.Instr, isRet, nil) != nil {
						hit = br.ret
					}
				} else {
					for _, p := range br.via {
						last := p.Instrs[len(p.Instrs)-1]
						isLast := func(in ssa.Instruction) bool { return in == last }
						if w.Block() == p || core.ReachWithout(w.Instr, isLast, nil) != nil {
							hit = br.ret
						}
					}
				}
				if hit != nil {
					break
				}
			}
			what := w.Callee
			if q, ok := core.SQLSiteOf(w); ok {
				what = q.Desc()
			}
			if hit == nil {
				c.Pass(rule, keys[i], w.Pos(), "after this write ("+what+") every return carries a binlog event or a non-nil error")
			} else {
				c.Fail(rule, keys[i], w.Pos(), fmt.Sprintf("un-logged write: after %s the callback can return the untouched event buffer with a nil error (%s); "+
					"the engine treats an empty buffer as a read, keeps the change and appends nothing to the binlog, so replicas and databases rebuilt from the binlog never see it",
					what, c.Prog.Pos(hit.Pos())))
			}
		}
	}
	for _, d := range sqDoClosures(c, rule, fns) {
		if len(d.Fn.Params) < 2 {
			c.Undecided(rule, core.FuncName(d.Fn)+"/signature", d.Fn.Pos(), "transaction callback without (Conn, []byte) parameters")
			continue
		}
		if !sqLiveFunc(c, d.Fn) {
			c.Pass(rule, core.FuncName(d.Fn)+"/dead-code", d.Fn.Pos(), "the function creating this transaction has no caller in the loaded program (dead code): it cannot execute, not analysed")
			c.Note("%s: %s has no caller in the loaded program; its transaction callback is not analysed", rule, core.FuncName(d.Fn.Parent()))
			continue
		}
		analyse(d.Fn, 1, 0)
	}
}

// ---- small utilities ----------------------------------------------------------------------------

func sqSortedStrings(m map[string]bool) []string {
	out := make([]string, 0, len(m))
	for k := range m {
		out = append(out, k)
	}
	sort.Strings(out)
	return out
}

func sqShortFn(fn *ssa.Function) string {
	n := core.FuncName(fn)
	if i := strings.LastIndex(n, "/"); i >= 0 {
		return n[i+1:]
	}
	return n
}

// connRoot reports whether v is a parameter of type sqlite.Conn of its function.
func sqConnParam(v ssa.Value) *ssa.Parameter {
	p, ok := v.(*ssa.Parameter)
	if !ok || core.TypeName(p.Type()) != core.ConnType {
		return nil
	}
	return p
}

// sqCellLitOf returns the variable cell a branch literal tests directly (`if flag`),
// together with the load instruction.
func sqCellLitOf(l core.Lit) (cell ssa.Value, load *ssa.UnOp) {
	cell, load, _ = sqCellLitPol(l)
	return cell, load
}

// sqCellLitPol is sqCellLitOf that also yields the truth value the literal asserts for the
// variable; `flag == true` / `flag != false` spellings are treated like `flag`.
func sqCellLitPol(l core.Lit) (cell ssa.Value, load *ssa.UnOp, val bool) {
	v, pol := l.Cond, l.Pol
	if l.Op == token.EQL {
		switch {
		case core.ConstBool(l.Y, true):
			v = l.X
		case core.ConstBool(l.Y, false):
			v, pol = l.X, !pol
		default:
			return nil, nil, false
		}
	} else if l.Op != 0 {
		return nil, nil, false
	}
	u, ok := v.(*ssa.UnOp)
	if !ok || u.Op != token.MUL {
		return nil, nil, false
	}
	if cell = core.CellOf(u); cell == nil {
		return nil, nil, false
	}
	return cell, u, pol
}

// sqHoldsDisj reports whether some guard on the dominator chain of b has every one of its
// alternatives accepted by at least one of the predicates (a disjunctive fact).
func sqHoldsDisj(b *ssa.BasicBlock, preds ...func(core.Lit) bool) bool {
	for _, g := range core.Facts(b) {
		all := len(g.Alts) > 0
		for _, l := range g.Alts {
			m := false
			for _, p := range preds {
				if p(l) {
					m = true
					break
				}
			}
			if !m {
				all = false
				break
			}
		}
		if all {
			return true
		}
	}
	return false
}

// sqLitIsValue builds a predicate: the literal tests value v directly with the polarity.
func sqLitIsValue(v ssa.Value, pol bool) func(core.Lit) bool {
	return func(l core.Lit) bool { return l.Op == 0 && l.Cond == v && l.Pol == pol }
}

// sqLitCmpConst builds a predicate: the literal is `x op k` (op after normalisation: == or <)
// with x accepted by isX, the integer constant k on the right, and the polarity.
func sqLitCmpConst(op token.Token, isX func(ssa.Value) bool, k int64, pol bool) func(core.Lit) bool {
	return func(l core.Lit) bool {
		return l.Op == op && l.Pol == pol && isX(l.X) && core.IsConstInt(l.Y, k)
	}
}

// sqLitNil builds a predicate: the literal is `v == nil` with the polarity, v being one of
// the definitions (after resolving variable loads and phis, ignoring nil alternatives).
func sqLitNil(pol bool, defs ...ssa.Value) func(core.Lit) bool {
	return func(l core.Lit) bool {
		if l.Op != token.EQL || !isNilConst(l.Y) || l.Pol != pol {
			return false
		}
		var got []ssa.Value
		for _, d := range sqResolveLoad(l.X) {
			for _, leaf := range sqPhiLeaves(d) {
				if !isNilConst(leaf) {
					got = append(got, leaf)
				}
			}
		}
		return sqSameSet(got, defs)
	}
}

// sqUniqueParam returns the only parameter of fn whose type renders as typ (nil when
// there is none or several): a way to name a parameter without its identifier or index.
func sqUniqueParam(fn *ssa.Function, typ string) *ssa.Parameter {
	var found *ssa.Parameter
	for _, p := range fn.Params {
		if core.ShortType(p.Type()) == typ {
			if found != nil {
				return nil
			}
			found = p
		}
	}
	return found
}

// sqArgOrigin resolves the idx-th argument (receiver = 0) of a call to the parameter of
// the calling function (or of the function enclosing the calling closure) it denotes.
func sqArgOrigin(s core.Site, idx int) *ssa.Parameter {
	v := s.Arg(idx)
	if v == nil {
		return nil
	}
	return sqParamBehind(v, s.Instr)
}

// sqFieldStores lists the stores to field `field` of the named struct type `typ`, looking
// through type aliases (tlmetadata.X = internal.MetadataX): core.FieldWrites compares
// the static type of the address operand, which is the alias for composite literals.
func sqFieldStores(fns []*ssa.Function, typ, field string) []*ssa.Store {
	var out []*ssa.Store
	for _, fn := range fns {
		for _, b := range fn.Blocks {
			for _, in := range b.Instrs {
				st, ok := in.(*ssa.Store)
				if !ok {
					continue
				}
				fa, ok := st.Addr.(*ssa.FieldAddr)
				if !ok {
					continue
				}
				t := types.Unalias(fa.X.Type())
				if p, ok := t.Underlying().(*types.Pointer); ok {
					t = types.Unalias(p.Elem())
				}
				n, ok := t.(*types.Named)
				if !ok || core.TypeName(n.Origin()) != typ {
					continue
				}
				if s, ok := n.Underlying().(*types.Struct); ok && fa.Field < s.NumFields() && s.Field(fa.Field).Name() == field {
					out = append(out, st)
				}
			}
		}
	}
	return out
}

// conjuncts decomposes a boolean built with && (go/ssa lowers `a && b` to a phi of the
// constant false and b, b being evaluated in a block reached only when a holds) into the
// literals that must all hold for it to be true. The order of the operands does not
// matter to the callers. ok is false when the value is a phi of another shape.
func sqConjuncts(v ssa.Value) (lits []core.Lit, ok bool) {
	ph, isPhi := v.(*ssa.Phi)
	if !isPhi {
		return []core.Lit{core.NormLit(v, true)}, true
	}
	idx := -1
	for i, e := range ph.Edges {
		if core.ConstBool(e, false) {
			continue
		}
		if idx >= 0 {
			return nil, false
		}
		idx = i
	}
	if idx < 0 || len(ph.Edges) < 2 {
		return nil, false
	}
	rest, ok := sqConjuncts(ph.Edges[idx])
	if !ok {
		return nil, false
	}
	lits = append(lits, rest...)
	for _, g := range core.Facts(ph.Block().Preds[idx]) {
		if g.Block.Dominates(ph.Block()) {
			continue // holds at the && as a whole, not an operand of it
		}
		if len(g.Alts) != 1 {
			return nil, false
		}
		l := g.Alts[0]
		if inner, isInner := l.Cond.(*ssa.Phi); isInner && l.Op == 0 && l.Pol {
			sub, ok := sqConjuncts(inner)
			if !ok {
				return nil, false
			}
			lits = append(lits, sub...)
			continue
		}
		lits = append(lits, l)
	}
	return lits, true
}

// sqConjunctsAre reports whether the literals are exactly one match for each predicate.
func sqConjunctsAre(lits []core.Lit, preds ...func(core.Lit) bool) bool {
	if len(lits) != len(preds) {
		return false
	}
	used := make([]bool, len(lits))
	for _, p := range preds {
		found := false
		for i, l := range lits {
			if !used[i] && p(l) {
				used[i], found = true, true
				break
			}
		}
		if !found {
			return false
		}
	}
	return true
}
