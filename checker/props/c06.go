package props

import (
	"fmt"
	"go/token"
	"go/types"

	"golang.org/x/tools/go/ssa"

	"shverif/core"
)

func init() {
	Register(&Property{
		ID:   "C06",
		Pkgs: []string{"./internal/data_model", "./internal/aggregator"},
		Run:  runC06,
		Mutants: []Mutant{
			// R1 (= C05-R3 on sampler.run)
			{Name: "group-kept-and-sampled", File: "internal/data_model/sampling.go", Rule: "C06-R1",
				Old: "			h.run(s[i])\n		} else {\n			h.SampleF(h, s[i])\n		}", New: "			h.run(s[i])\n		}\n		h.SampleF(h, s[i])"},
			// R2
			{Name: "comparator-uses-float-ratio", File: "internal/data_model/sampling.go", Rule: "C06-R2",
				Old: "return s[i].sumSize*s[j].weight < s[j].sumSize*s[i].weight // comparing rational numbers",
				New: "return float64(s[i].sumSize)/float64(s[i].weight) < float64(s[j].sumSize)/float64(s[j].weight)"},
			{Name: "comparator-not-cross-multiplied", File: "internal/data_model/sampling.go", Rule: "C06-R2",
				Old: "return s[i].sumSize*s[j].weight < s[j].sumSize*s[i].weight // comparing rational numbers",
				New: "return s[i].sumSize*s[i].weight < s[j].sumSize*s[j].weight"},
			{Name: "threshold-in-floats", File: "internal/data_model/sampling.go", Rule: "C06-R2",
				Old: "		if s[i].budget < s[i].budgetDenom*s[i].sumSize {\n			break // SF > 1",
				New: "		if float64(s[i].budget)/float64(s[i].budgetDenom) < float64(s[i].sumSize) {\n			break // SF > 1"},
			{Name: "threshold-ignores-denominator", File: "internal/data_model/sampling.go", Rule: "C06-R2",
				Old: "		if s[i].budget < s[i].budgetDenom*s[i].sumSize {\n			break // SF > 1",
				New: "		if s[i].budget < s[i].sumSize {\n			break // SF > 1"},
			{Name: "kept-size-not-subtracted", File: "internal/data_model/sampling.go", Rule: "C06-R2",
				Old: "			g.budget -= s[i].sumSize\n			sumWeight -= s[i].weight\n", New: "			sumWeight -= s[i].weight\n"},
			{Name: "kept-weight-not-subtracted", File: "internal/data_model/sampling.go", Rule: "C06-R2",
				Old: "			g.budget -= s[i].sumSize\n			sumWeight -= s[i].weight\n", New: "			g.budget -= s[i].sumSize\n"},
			{Name: "share-ignores-weight", File: "internal/data_model/sampling.go", Rule: "C06-R2",
				Old: "		if !s[i].FixedBudget {\n			s[i].budget = g.budget * s[i].weight\n			s[i].budgetDenom = sumWeight\n		}\n		if s[i].budget < s[i].budgetDenom*s[i].sumSize {",
				New: "		if !s[i].FixedBudget {\n			s[i].budget = g.budget\n			s[i].budgetDenom = sumWeight\n		}\n		if s[i].budget < s[i].budgetDenom*s[i].sumSize {"},
			// R3
			{Name: "quota-rounded-up", File: "internal/data_model/sampling.go", Rule: "C06-R3",
				Old: "		quota := int(float64(sfNum) / float64(sfDenom))\n", New: "		quota := int(math.Ceil(float64(sfNum) / float64(sfDenom)))\n"},
			{Name: "quota-ignores-size", File: "internal/data_model/sampling.go", Rule: "C06-R3",
				Old: "		sfNum := g.budget * int64(g.items[i].Size)\n", New: "		sfNum := g.budget * int64(len(g.items))\n"},
			{Name: "quota-not-stored", File: "internal/data_model/sampling.go", Rule: "C06-R3",
				Old: "		g.items[i].Size = quota\n", New: ""},
			{Name: "keep-reports-doubled-quota", File: "internal/data_model/sampling.go", Rule: "C06-R3",
				Old: "		h.KeepF(p.Item, p.BucketTs, uint32(p.Size))", New: "		h.KeepF(p.Item, p.BucketTs, uint32(p.Size*2))"},
			// R4: the known finding F14 itself is on the tree; this control adds a second, different scaling
			{Name: "budget-scaled-in-callback", File: "internal/aggregator/aggregator.go", Rule: "C06-R4",
				Old: "KeepF:            func(item *data_model.MultiItem, _ uint32, quota uint32) { keepF(item.Key, quota) },",
				New: "KeepF:            func(item *data_model.MultiItem, _ uint32, quota uint32) { keepF(item.Key, quota+quota/2) },"},
		},
	})
}

func runC06(c *core.Check) {
	c.Decides = "only the exact-arithmetic and pass-through skeleton of fair sampling: (R1 = C05-R3 for sampler.run) every partition is disposed by exactly one of keep / recursive run / SampleF, the first loop's break hands its index to the second; " +
		"(R2) the sort comparator of run is the cross-multiplied int64 comparison size_i*weight_j < size_j*weight_i and the keep/sample threshold is budget < budgetDenom*sumSize on the same partition, both without any float conversion; " +
		"non-fixed partitions get budget = parentBudget*weight over denominator sumWeight in both loops, and the kept branch subtracts the kept size from the parent budget and the kept weight from sumWeight; " +
		"(R3) sampleQuota computes quota = int(float(budget*size) / float(budgetDenom*sumSize)) (truncation), stores it as the row's Size before keep/discard, keeps iff quota >= 1, and keep reports uint32(Size) unchanged to KeepF; " +
		"(R4, known finding F14) the quota KeepF receives reaches tlstatshouse.MetricBudget.Budget unchanged."
	c.NotDecided = "monotonicity of sample factors in size/weight, `within share ⇒ factor 1` over whole hierarchies, that kept size never exceeds the budget, that host budgets sum to at most the total budget (R4 only shows the quota is not altered after sampling), rounding of RoundF, partition weights."
	all := c.Prog.Funcs()
	c06R1(c)
	c06R2(c)
	c06R3(c)
	c06R4(c, all)
}

func c06R1(c *core.Check) {
	const R = "C06-R1"
	c.Rule(R, "K6 exactly-once disposal", 1, "sampler.run disposes every partition of its slice exactly once, in index order, by one of {samplerGroup.keep, sampler.run, SampleF}; the break of the first loop hands the same index to the second loop (same analysis as C05-R3)")
	fn := need(c, R, tSampler+"run")
	if fn == nil {
		return
	}
	groupArg := func(in ssa.Instruction) (ssa.Value, bool) {
		ci, ok := in.(ssa.CallInstruction)
		if !ok {
			return nil, false
		}
		cc := ci.Common()
		switch core.CalleeName(cc) {
		case tGroupKeep:
			return cc.Args[0], true
		case tSampler + "run":
			return cc.Args[1], true
		}
		if isCfgCall(in, "SampleF") && len(cc.Args) == 2 {
			return cc.Args[1], true
		}
		return nil, false
	}
	t := &core.Tiling{Fn: fn, Dispose: groupArg}
	t.Run()
	tileReport(c, R, fn, t, "partition disposal")
}

// hasFloat reports whether a float conversion or float-typed operation occurs in the expression tree of v.
func hasFloat(v ssa.Value, depth int) bool {
	if v == nil || depth > 10 {
		return false
	}
	if b, ok := v.Type().Underlying().(*types.Basic); ok && b.Info()&types.IsFloat != 0 {
		return true
	}
	switch x := v.(type) {
	case *ssa.BinOp:
		return hasFloat(x.X, depth+1) || hasFloat(x.Y, depth+1)
	case *ssa.Convert:
		return hasFloat(x.X, depth+1)
	case *ssa.UnOp:
		if x.Op != token.MUL {
			return hasFloat(x.X, depth+1)
		}
	}
	return false
}

// groupField: v is a load of field `field` of an element of the partition slice; returns the element address.
func groupField(v ssa.Value, field string) (*ssa.IndexAddr, bool) {
	base, ok := dmFieldLoad(v, dmPkg+".samplerGroup", field)
	if !ok {
		return nil, false
	}
	ia, ok := base.(*ssa.IndexAddr)
	return ia, ok
}

func c06R2(c *core.Check) {
	const R = "C06-R2"
	c.Rule(R, "K1/K7 exact rational comparisons", 7, "run's sort comparator is sumSize[i]*weight[j] < sumSize[j]*weight[i] in int64; the break threshold of the keep loop is budget < budgetDenom*sumSize of the same partition in int64 and the keep call is under its negation; "+
		"in both loops non-fixed partitions get budget = g.budget*weight and budgetDenom = sumWeight; after a keep of a non-fixed partition g.budget -= sumSize and sumWeight -= weight")
	fn := need(c, R, tSampler+"run")
	if fn == nil {
		return
	}
	name := core.FuncName(fn)
	// ---- comparator -------------------------------------------------------------------
	var cmp *ssa.Function
	for _, s := range core.CallsTo(fn, "sort.Slice", "sort.SliceStable") {
		cmp = core.ResolveCallee(&ssa.CallCommon{Value: s.Arg(1)})
	}
	if cmp == nil || len(cmp.Params) != 2 || len(dmRealReturns(cmp)) != 1 {
		c.Undecided(R, name+"/sort", fn.Pos(), "cannot resolve the comparator of the partition sort")
	} else {
		ret := dmRealReturns(cmp)[0]
		v := ret.Results[0]
		ok, why := false, ""
		if bo, isB := v.(*ssa.BinOp); isB && (bo.Op == token.LSS || bo.Op == token.GTR) {
			lo, hi := bo.X, bo.Y
			if bo.Op == token.GTR {
				lo, hi = bo.Y, bo.X
			}
			// lo = size[a]*weight[b], hi = size[b]*weight[a] with a = i (param 0), b = j (param 1)
			idxOf := func(v ssa.Value, field string) ssa.Value {
				if ia, ok := groupField(v, field); ok {
					return ia.Index
				}
				return nil
			}
			prod := func(v ssa.Value) (sizeIdx, weightIdx ssa.Value) {
				x, y, isMul := mulOperands(v)
				if !isMul {
					return nil, nil
				}
				if s := idxOf(x, "sumSize"); s != nil {
					return s, idxOf(y, "weight")
				}
				return idxOf(y, "sumSize"), idxOf(x, "weight")
			}
			ls, lw := prod(lo)
			hs, hw := prod(hi)
			i, j := ssa.Value(cmp.Params[0]), ssa.Value(cmp.Params[1])
			switch {
			case hasFloat(v.(*ssa.BinOp).X, 0) || hasFloat(v.(*ssa.BinOp).Y, 0):
				why = "the comparison is carried out in floating point"
			case ls == nil || lw == nil || hs == nil || hw == nil:
				why = "the operands are not products sumSize*weight of partitions"
			case ls == i && lw == j && hs == j && hw == i:
				ok = true
			default:
				why = "the products are not cross-multiplied as size[i]*weight[j] < size[j]*weight[i] (ascending size/weight ratio)"
			}
		} else {
			why = "the comparator does not return a < comparison: " + core.Expr(v)
		}
		c.Require(ok, R, name+"/sort/comparator", ret.Pos(), "partitions ordered by exact size/weight ratio (cross-multiplied int64)",
			"the partition sort does not compare the exact rationals size/weight: "+why+"; water-filling then serves partitions in the wrong order and a partition within its share can be sampled")
	}
	// ---- threshold and keep ---------------------------------------------------------------
	keeps := core.CallsTo(fn, tGroupKeep)
	loops := core.NatLoops(fn)
	thresholdOn := func(l core.Lit, elem *ssa.IndexAddr) bool {
		if l.Op != token.LSS {
			return false
		}
		bi, ok1 := groupField(l.X, "budget")
		x, y, isMul := mulOperands(l.Y)
		if !ok1 || !isMul || hasFloat(l.X, 0) || hasFloat(l.Y, 0) {
			return false
		}
		d, okd := groupField(x, "budgetDenom")
		s, oks := groupField(y, "sumSize")
		if !okd || !oks {
			d, okd = groupField(y, "budgetDenom")
			s, oks = groupField(x, "sumSize")
		}
		if !okd || !oks {
			return false
		}
		same := func(a *ssa.IndexAddr) bool { return a.Index == elem.Index && tilingCell(a.X) == tilingCell(elem.X) }
		return same(bi) && same(d) && same(s)
	}
	nThr := 0
	var keepLoop *core.NatLoop
	var keptElem *ssa.IndexAddr
	for _, s := range keeps {
		elem, _ := core.Deref2IndexAddr(s.Arg(0))
		if elem == nil {
			continue
		}
		if holdsPred(s.Block(), func(l core.Lit) bool { return !l.Pol && thresholdOn(l, elem) }) {
			nThr++
			keepLoop = core.InnermostNatLoop(loops, s.Block())
			keptElem = elem
			c.Pass(R, name+"/keep-under-threshold", s.Pos(), "partition kept whole only when budget >= budgetDenom*sumSize (exact int64)")
		}
	}
	if nThr != 1 || keepLoop == nil {
		c.Fail(R, name+"/keep-under-threshold", fn.Pos(), fmt.Sprintf("expected exactly one samplerGroup.keep guarded by the exact threshold !(budget < budgetDenom*sumSize) on the kept partition, found %d: the `within share ⇒ kept whole` decision is not the exact rational comparison", nThr))
		return
	}
	// the loop is left (towards the sampling loop) exactly under the threshold
	edges, err := keepLoop.IterationCounts(func(ssa.Instruction) bool { return false })
	if err == nil {
		for _, e := range edges {
			if e.Back || e.From == keepLoop.Header || e.To == nil {
				continue
			}
			ifi, ok := e.From.Instrs[len(e.From.Instrs)-1].(*ssa.If)
			okBreak := false
			if ok {
				l := core.NormLit(ifi.Cond, e.From.Succs[0] == e.To)
				okBreak = l.Pol && thresholdOn(l, keptElem)
			}
			c.Require(okBreak, R, name+"/break-threshold", e.From.Instrs[len(e.From.Instrs)-1].Pos(), "keep loop is left exactly when budget < budgetDenom*sumSize",
				"the loop that keeps partitions within budget is left under another condition than budget < budgetDenom*sumSize (int64) of the current partition")
		}
	}
	// ---- budgets of non-fixed partitions, both loops ----------------------------------------
	gCell := core.ParamCell(fn, 1)
	isParentBudget := func(v ssa.Value) bool {
		if gCell == nil {
			return false
		}
		fa, ok := core.Deref(v).(*ssa.FieldAddr)
		return ok && core.IsField(fa, dmPkg+".samplerGroup", "budget") && fa.X == ssa.Value(gCell)
	}
	var denomVals []ssa.Value
	nb := 0
	for _, w := range core.FieldWrites([]*ssa.Function{fn}, dmPkg+".samplerGroup", "budget") {
		st := w.Instr.(*ssa.Store)
		elem, isElem := st.Addr.(*ssa.FieldAddr).X.(*ssa.IndexAddr)
		if !isElem {
			continue // g.budget itself: handled below
		}
		// the RoundF store of the recursion branch is numeric (not decided): skip stores whose value is a conversion of a call
		if cv, ok := w.Val.(*ssa.Convert); ok {
			if _, isCall := cv.X.(*ssa.Call); isCall {
				continue
			}
		}
		nb++
		x, y, isMul := mulOperands(w.Val)
		ok := false
		if isMul {
			wi, okw := groupField(y, "weight")
			pb := x
			if !okw {
				wi, okw = groupField(x, "weight")
				pb = y
			}
			ok = okw && wi.Index == elem.Index && isParentBudget(pb) && !hasFloat(w.Val, 0)
		}
		notFixed := holdsPred(st.Block(), func(l core.Lit) bool {
			fi, okf := groupField(l.Cond, "FixedBudget")
			return l.Op == 0 && !l.Pol && okf && fi.Index == elem.Index
		})
		c.Require(ok && notFixed, R, fmt.Sprintf("%s/share#%d", name, nb), st.Pos(), "non-fixed partition gets parentBudget*weight",
			"a partition's budget numerator is set to "+core.Expr(w.Val)+" instead of g.budget*weight under !FixedBudget: shares are no longer weight-proportional")
	}
	for _, w := range core.FieldWrites([]*ssa.Function{fn}, dmPkg+".samplerGroup", "budgetDenom") {
		if core.IntConstIs(w.Val, 1) {
			continue // after rounding for the recursion
		}
		denomVals = append(denomVals, w.Val)
	}
	c.Require(nb == 2 && len(denomVals) == 2 && denomVals[0] == denomVals[1], R, name+"/share/denominator", fn.Pos(), "both loops use the same running sumWeight as denominator",
		fmt.Sprintf("expected the two loops to assign budget (found %d) and the same sumWeight value as budgetDenom (found %d)", nb, len(denomVals)))
	// ---- decrement after keep -----------------------------------------------------------------
	var keepSite core.Site
	for _, s := range keeps {
		if core.InnermostNatLoop(loops, s.Block()) == keepLoop {
			if e, _ := core.Deref2IndexAddr(s.Arg(0)); e == keptElem {
				keepSite = s
			}
		}
	}
	okBudget, okWeight := false, false
	for _, b := range fn.Blocks {
		if !keepLoop.Blocks[b] || !keepSite.Block().Dominates(b) {
			continue
		}
		notFixed := holdsPred(b, func(l core.Lit) bool {
			fi, okf := groupField(l.Cond, "FixedBudget")
			return l.Op == 0 && !l.Pol && okf && fi.Index == keptElem.Index
		})
		if !notFixed {
			continue
		}
		for _, in := range b.Instrs {
			switch x := in.(type) {
			case *ssa.Store:
				if fa, ok := x.Addr.(*ssa.FieldAddr); ok && core.IsField(fa, dmPkg+".samplerGroup", "budget") && gCell != nil && fa.X == ssa.Value(gCell) {
					if bo, ok := x.Val.(*ssa.BinOp); ok && bo.Op == token.SUB && isParentBudget(bo.X) {
						if si, oks := groupField(bo.Y, "sumSize"); oks && si.Index == keptElem.Index {
							okBudget = true
						}
					}
				}
			case *ssa.BinOp:
				if x.Op == token.SUB && len(denomVals) > 0 {
					if wi, okw := groupField(x.Y, "weight"); okw && wi.Index == keptElem.Index && core.Derives(denomVals[0], x) && core.Derives(x.X, denomVals[0]) {
						okWeight = true
					}
				}
			}
		}
	}
	c.Require(okBudget, R, name+"/kept/budget-=size", keepSite.Pos(), "kept size leaves the parent budget", "after keeping a non-fixed partition its size is not subtracted from the parent budget (g.budget -= sumSize): later partitions are offered budget that is already spent")
	c.Require(okWeight, R, name+"/kept/sumWeight-=weight", keepSite.Pos(), "kept weight leaves the weight sum", "after keeping a non-fixed partition its weight is not subtracted from sumWeight: the remaining partitions get less than their share")
}

func c06R3(c *core.Check) {
	const R = "C06-R3"
	c.Rule(R, "K7 value provenance", 4, "sampleQuota: row.Size := int(float64(g.budget*int64(row.Size)) / float64(g.budgetDenom*g.sumSize)) before the disposal of that row, discard under quota < 1, keep otherwise; SamplingMultiItemPair.keep passes uint32(p.Size) as the quota argument of KeepF")
	fn := need(c, R, tSampler+"sampleQuota")
	if fn != nil {
		name := core.FuncName(fn)
		gCell := core.ParamCell(fn, 1)
		gField := func(v ssa.Value, field string) bool {
			fa, ok := core.Deref(v).(*ssa.FieldAddr)
			return ok && gCell != nil && core.IsField(fa, dmPkg+".samplerGroup", field) && fa.X == ssa.Value(gCell)
		}
		ws := core.FieldWrites([]*ssa.Function{fn}, dmPkg+".SamplingMultiItemPair", "Size")
		if len(ws) != 1 {
			c.Fail(R, name+"/quota-stored", fn.Pos(), fmt.Sprintf("expected exactly one assignment of the computed quota to the row's Size (KeepF reports Size as the quota), found %d", len(ws)))
		} else {
			st := ws[0].Instr.(*ssa.Store)
			elem, _ := st.Addr.(*ssa.FieldAddr).X.(*ssa.IndexAddr)
			quota := st.Val
			ok, why := false, ""
			cv, isCv := quota.(*ssa.Convert)
			if !isCv || core.TypeName(cv.Type()) != "int" {
				why = "the quota is not an int(...) truncation of a quotient: " + core.Expr(quota)
			} else if q, isQ := cv.X.(*ssa.BinOp); !isQ || q.Op != token.QUO {
				why = "the quota is not int(numerator / denominator) — a rounding function or other expression is applied: " + core.Expr(cv.X)
			} else {
				num, okn := q.X.(*ssa.Convert)
				den, okd := q.Y.(*ssa.Convert)
				if !okn || !okd {
					why = "numerator / denominator are not float conversions of integer products"
				} else {
					nx, ny, nm := mulOperands(num.X)
					dx, dy, dm := mulOperands(den.X)
					okNum, okDen := false, false
					if nm {
						sizeOf := func(v ssa.Value) bool {
							c2, ok := v.(*ssa.Convert)
							if !ok {
								return false
							}
							base, okf := dmFieldLoad(c2.X, dmPkg+".SamplingMultiItemPair", "Size")
							ia, oki := base.(*ssa.IndexAddr)
							return okf && oki && elem != nil && ia.Index == elem.Index
						}
						okNum = (gField(nx, "budget") && sizeOf(ny)) || (gField(ny, "budget") && sizeOf(nx))
					}
					if dm {
						okDen = (gField(dx, "budgetDenom") && gField(dy, "sumSize")) || (gField(dy, "budgetDenom") && gField(dx, "sumSize"))
					}
					switch {
					case !okNum:
						why = "the numerator is not g.budget * size of this row: " + core.Expr(num.X)
					case !okDen:
						why = "the denominator is not g.budgetDenom * g.sumSize: " + core.Expr(den.X)
					default:
						ok = true
					}
				}
			}
			c.Require(ok, R, name+"/quota", st.Pos(), "quota = floor(budget*size / (budgetDenom*sumSize))", "sampleQuota: "+why+": quotas are no longer proportional to reported sizes / can exceed the share")
			// the store precedes the disposal calls of the same row; keep iff quota >= 1
			for _, s := range core.CallsTo(fn, tPair+"keep", tPair+"discard") {
				c.CallSites++
				e, _ := core.Deref2IndexAddr(s.Arg(0))
				sameRow := e != nil && elem != nil && e.Index == elem.Index
				isKeep := s.Callee == tPair+"keep"
				guard := holdsPred(s.Block(), func(l core.Lit) bool {
					return l.Op == token.LSS && l.X == quota && core.IntConstIs(l.Y, 1) && l.Pol == !isKeep
				})
				key := core.Ordinals([]core.Site{s})[0]
				c.Require(sameRow && core.Dominates(st, s.Instr) && guard, R, key, s.Pos(), "row disposed after its Size became the quota; keep iff quota >= 1",
					"the row is kept/discarded before its Size was replaced by the quota, or not under `quota < 1` ⇒ discard / otherwise keep; facts: "+core.FactsString(s.Block()))
			}
		}
	}
	if fn := need(c, R, tPair+"keep"); fn != nil {
		for _, s := range core.Calls(fn) {
			if !isCfgCall(s.Instr, "KeepF") {
				continue
			}
			c.CallSites++
			q := s.Common().Args[2]
			ok := false
			if cv, isCv := q.(*ssa.Convert); isCv {
				if base, isF := dmFieldLoad(cv.X, dmPkg+".SamplingMultiItemPair", "Size"); isF && base == ssa.Value(fn.Params[0]) {
					ok = true
				}
			}
			c.Require(ok, R, core.FuncName(fn)+"/KeepF/quota", s.Pos(), "KeepF receives uint32(p.Size)", "keep reports "+core.Expr(q)+" as the quota instead of the row's Size unchanged")
		}
	}
}

// c06R4: the quota parameter of the KeepF closure of calcHostMetricBudgets reaches
// MetricBudget.Budget unchanged.
func c06R4(c *core.Check, all []*ssa.Function) {
	const R = "C06-R4"
	c.Rule(R, "K7 value provenance", 1, "in calcHostMetricBudgets the value stored into tlstatshouse.MetricBudget.Budget is the quota parameter the sampler's KeepF callback received (passed through local closures unchanged); MetricBudget.Budget is written nowhere else")
	const tyBudget = genPkg + ".StatshouseMetricBudget"
	fn := need(c, R, aggPkg+".(*Aggregator).calcHostMetricBudgets")
	if fn == nil {
		return
	}
	name := core.FuncName(fn)
	type ctx struct {
		fn    *ssa.Function
		quota int
	}
	visited := map[*ssa.Function]int{}
	nStore, nPass := 0, 0
	var walk func(x ctx, depth int)
	walk = func(x ctx, depth int) {
		if _, done := visited[x.fn]; done || depth > 4 {
			return
		}
		visited[x.fn] = x.quota
		c.Seen(core.FuncName(x.fn))
		isQuota := func(v ssa.Value) bool { return core.ParamOrSpill(x.fn, v, x.quota) }
		for _, w := range core.FieldStoresU([]*ssa.Function{x.fn}, tyBudget, "Budget") {
			nStore++
			// key: parent function + ordinal of the store, independent of closure numbering and local names
			key := fmt.Sprintf("%s/store:MetricBudget.Budget#%d", name, nStore)
			c.Require(isQuota(w.Val), R, key, w.Instr.Pos(), "the budget handed to the agent is the quota the sampler computed",
				"the budget handed to agents is "+core.Expr(w.Val)+", not the quota the sampler passed to KeepF ("+core.Expr(x.fn.Params[x.quota])+") unchanged: it is scaled after sampling, so the per-host budgets can add up to more than the total budget (e.g. two metrics of size 40, total 100: 80+80 = 160)")
		}
		for _, s := range core.Calls(x.fn) {
			g := core.ResolveCallee(s.Common())
			if g == nil || g.Parent() == nil {
				continue
			}
			for j, a := range s.Common().Args {
				if isQuota(a) {
					walk(ctx{g, j}, depth+1)
				} else if core.Derives(a, x.fn.Params[x.quota]) && !isQuota(a) {
					nPass++
					c.Fail(R, fmt.Sprintf("%s/quota-passed-on#%d", name, nPass), s.Pos(), "the quota is altered ("+core.Expr(a)+") before it is handed to "+core.FuncName(g)+", which builds the agents' budgets")
					walk(ctx{g, j}, depth+1) // keep checking what happens to it further down
				}
			}
		}
	}
	roots := 0
	for _, w := range keepFStores([]*ssa.Function{fn}) {
		if mc, ok := w.Val.(*ssa.MakeClosure); ok {
			roots++
			walk(ctx{mc.Fn.(*ssa.Function), 2}, 0)
		}
	}
	if roots != 1 {
		c.Undecided(R, name+"/KeepF", fn.Pos(), fmt.Sprintf("expected exactly one KeepF closure in calcHostMetricBudgets, found %d", roots))
	}
	if nStore == 0 {
		c.Undecided(R, name+"/store:MetricBudget.Budget", fn.Pos(), "no store to MetricBudget.Budget reachable from the KeepF callback")
	}
	// K2: no other writer of MetricBudget.Budget in hand-written code
	for _, w := range core.FieldStoresU(all, tyBudget, "Budget") {
		if _, ok := visited[w.Fn]; ok {
			continue
		}
		if core.FuncPkg(w.Fn) == genPkg {
			continue // generated codec
		}
		c.Fail(R, core.FuncName(w.Fn)+"/store:MetricBudget.Budget", w.Instr.Pos(), "MetricBudget.Budget is written in "+core.FuncName(w.Fn)+", outside the sampler callback of calcHostMetricBudgets: that budget is not a sampler quota")
	}
}
