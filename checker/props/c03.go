package props

import (
	"fmt"
	"go/constant"
	"go/token"
	"go/types"
	"os"
	"strings"

	"golang.org/x/tools/go/ssa"

	"shverif/core"
)

func init() {
	Register(&Property{
		ID: "C03",
		Pkgs: []string{"./internal/aggregator", "./internal/data_model", "./internal/chutil",
			"./internal/vkgo/kittenhouseclient/rowbinary"},
		Run: runC03,
		Mutants: []Mutant{
			// ---- R2 ----
			{Name: "builtin-item-inserted-and-sampled", File: "internal/aggregator/aggregator_insert.go", Rule: "C03-R2",
				Old: "\t\t\t\t\t\t})\n\t\t\t\t\t\tcontinue\n", New: "\t\t\t\t\t\t})\n"},
			{Name: "item-silently-dropped", File: "internal/aggregator/aggregator_insert.go", Rule: "C03-R2",
				Old: "\t\t\t\taccountMetric := item.Key.Metric\n",
				New: "\t\t\t\taccountMetric := item.Key.Metric\n\t\t\t\tif whaleWeight < 0 {\n\t\t\t\t\tcontinue\n\t\t\t\t}\n"},
			{Name: "sampler-without-KeepF", File: "internal/aggregator/aggregator_insert.go", Rule: "C03-R2",
				Old: "\t\tKeepF:          func(item *data_model.MultiItem, bucketTs uint32, _ uint32) { insertItem(item, item.SF, bucketTs) },\n", New: ""},
			{Name: "unsampled-builtin-scaled", File: "internal/aggregator/aggregator_insert.go", Rule: "C03-R2",
				Old: "insertItem(item, 1, b.time)", New: "insertItem(item, 2, b.time)"},
			{Name: "keepF-inserts-twice", File: "internal/aggregator/aggregator_insert.go", Rule: "C03-R2",
				Old: "{ insertItem(item, item.SF, bucketTs) },", New: "{ insertItem(item, item.SF, bucketTs); insertItem(item, item.SF, bucketTs) },"},
			// ---- R4 ----
			{Name: "skipDegree-bumped-on-insert", File: "internal/data_model/ch_unique.go", Rule: "C03-R4",
				Old: "\tch.insertImpl(hashValue)\n\tch.shrinkIfNeed()\n", New: "\tch.insertImpl(hashValue)\n\tch.skipDegree++\n\tch.shrinkIfNeed()\n"},
			{Name: "shrink-below-exact-limit", File: "internal/data_model/ch_unique.go", Rule: "C03-R4",
				Old: "\tif ch.itemsCount > uniquesHashMaxSize {\n\t\tfor ch.itemsCount > uniquesHashMaxSize {",
				New: "\tif ch.itemsCount > uniquesHashMaxSize/4 {\n\t\tfor ch.itemsCount > uniquesHashMaxSize/4 {"},
			{Name: "size-always-estimated", File: "internal/data_model/ch_unique.go", Rule: "C03-R4",
				Old: "\tif ch.skipDegree == 0 {\n\t\treturn uint64(ch.itemsCount)\n\t}\n\n\tres :=", New: "\tres :="},
			{Name: "size-exact-branch-returns-buffer-size", File: "internal/data_model/ch_unique.go", Rule: "C03-R4",
				Old: "\tif ch.skipDegree == 0 {\n\t\treturn uint64(ch.itemsCount)\n\t}", New: "\tif ch.skipDegree == 0 {\n\t\treturn uint64(ch.bufSize())\n\t}"},
			// ---- R1 ----
			{Name: "unique-count-before-skip-degree", File: "internal/data_model/ch_unique.go", Rule: "C03-R1",
				Old: "\tbuf = append(buf, uint8(ch.skipDegree))\n\n\tn := binary.PutUvarint(tmp[:], uint64(ch.itemsCount))\n\tbuf = append(buf, tmp[:n]...)\n",
				New: "\tn := binary.PutUvarint(tmp[:], uint64(ch.itemsCount))\n\tbuf = append(buf, tmp[:n]...)\n\tbuf = append(buf, uint8(ch.skipDegree))\n"},
			{Name: "unique-reader-big-endian", File: "internal/data_model/ch_unique.go", Rule: "C03-R1",
				Old: "return uint32(b0) | uint32(b1)<<8 | uint32(b2)<<16 | uint32(b3)<<24, nil",
				New: "return uint32(b3) | uint32(b2)<<8 | uint32(b1)<<16 | uint32(b0)<<24, nil"},
			{Name: "empty-unique-one-byte", File: "internal/vkgo/kittenhouseclient/rowbinary/rowbinary.go", Rule: "C03-R1",
				Old: "return append(buf, 0, 0) // SkipDegree, ItemCount", New: "return append(buf, 0) // ItemCount"},
			{Name: "centroid-weight-float64", File: "internal/vkgo/kittenhouseclient/rowbinary/rowbinary.go", Rule: "C03-R1",
				Old: "\t\tbinary.LittleEndian.PutUint32(tmp[:], math.Float32bits(float32(centroid.Weight*sampleFactor)))\n\t\tbuf = append(buf, tmp[:4]...)\n",
				New: "\t\tbinary.LittleEndian.PutUint64(tmp[:], math.Float64bits(centroid.Weight*sampleFactor))\n\t\tbuf = append(buf, tmp[:8]...)\n"},
			{Name: "tdigest-column-loop-off-by-one", File: "internal/chutil/tdigest.go", Rule: "C03-R1",
				Old: "\t\tfor j := uint64(0); j < n; j++ {", New: "\t\tfor j := uint64(1); j < n; j++ {"},
			{Name: "unique-column-not-in-row", File: "internal/aggregator/aggregator_insert.go", Rule: "C03-R1",
				Old: "\tres = value.HLL.MarshallAppend(res)\n", New: ""},
		},
	})
}

const (
	c03Outer   = "internal/aggregator.(*Aggregator).rowDataMarshalAppendPositions"
	c03Unique  = "internal/data_model.ChUnique"
	c03UniqueM = "internal/data_model.(*ChUnique)."
)

func runC03(c *core.Check) {
	c.Decides = "(R1) the wire shape (token sequence over U8/U32/F32/UVARINT/STAR, extracted from the AST in statement order with resolved callees) of the unique-state " +
		"writers ChUnique.MarshallAppend / Marshall equals the shape of the readers ChUnique.ReadFrom / UmMarshall and of every row of chutil.ColUnique.DecodeColumn; " +
		"rowbinary.AppendCentroids equals every row of chutil.ColTDigest.DecodeColumn (and data_model.ChDigest.ReadFrom); every reader repetition is bounded exactly by the " +
		"decoded uvarint count; the constant encodings (nil ChUnique, AppendEmptyUnique, AppendEmptyCentroids) are concrete instances accepted by those readers; " +
		"multiValueMarshal/appendValueStat call exactly those encoders, centroids before unique state. " +
		"(R2) in rowDataMarshalAppendPositions' item loop every iteration path disposes the item exactly once: either the direct insertItem call (constant sample factor 1) " +
		"or sampler.Add; insertItem (resolved structurally as the closure calling appendKeys+multiValueMarshal) is otherwise called only, and exactly once per call, from the closure installed as " +
		"KeepF of the SamplerConfig the Add-ed sampler was built from; the closure variable is never reassigned or leaked. " +
		"(R4) ChUnique.skipDegree is written only by Reset (constant 0), shrinkIfNeed (+1, guarded by itemsCount > uniquesHashMaxSize), Merge (another sketch's skipDegree) and " +
		"UmMarshall/ReadFrom/MergeRead (decoded byte); every return of Size not provably under skipDegree != 0 returns itemsCount (exact mode). " +
		"(R5) sendToClickhouse returns nil only on HTTP 200: decided by C01-G3, not repeated here."
	c.NotDecided = "equality of the merged values themselves (count/min/max/sum per key), that ChUnique.itemsCount equals the number of words emitted after it (data-structure invariant " +
		"of insertImpl/rehash), that the centroid count written equals the number of centroids ranged over, field order inside a centroid (mean/weight), the sampler's own keep/discard " +
		"logic (C05), identity of the item passed to insertItem/Add, whole-struct copies of ChUnique; the argMin/argMax codec pair (length word governs optional parts and " +
		"appendArgMinMaxTag rewrites the buffer in place: not a sequential shape) and R3 (getTableDesc column list vs row token sequence: the column kinds live in the ClickHouse schema, " +
		"not in Go source) are left out."

	c03R2(c)
	c03R4(c)
	c03R1(c)
	if os.Getenv("SHV_C03_DEBUG") != "" {
		for _, o := range c.Obs {
			fmt.Println("DEBUG", o.Verdict, o.Rule, o.Site, "|", o.Msg)
		}
	}
}

// ===================================================================================
// R2: single disposition of every aggregated item
// ===================================================================================

// closureUses finds every use of the function value created from target inside outer
// (and its nested closures): calls, and anything else (escapes).
type closureUse struct {
	fn   *ssa.Function
	call ssa.CallInstruction // nil for an escaping use
	in   ssa.Instruction
}

func closureUses(outer, target *ssa.Function) (uses []closureUse, cellStores int, problems []string) {
	var followVal func(fn *ssa.Function, v ssa.Value)
	var followCell func(fn *ssa.Function, cell ssa.Value)
	followVal = func(fn *ssa.Function, v ssa.Value) {
		for _, r := range core.Referrers(v) {
			switch r := r.(type) {
			case *ssa.DebugRef:
			case ssa.CallInstruction:
				isArg := false
				for _, a := range r.Common().Args {
					if a == v {
						isArg = true
					}
				}
				if r.Common().Value == v && !isArg && !r.Common().IsInvoke() {
					uses = append(uses, closureUse{fn: fn, call: r, in: r})
				} else {
					uses = append(uses, closureUse{fn: fn, in: r})
				}
			case *ssa.Store:
				if r.Val == v {
					if _, isAlloc := r.Addr.(*ssa.Alloc); isAlloc {
						cellStores++
						followCell(fn, r.Addr)
						continue
					}
				}
				uses = append(uses, closureUse{fn: fn, in: r})
			default:
				uses = append(uses, closureUse{fn: fn, in: r})
			}
		}
	}
	seenCell := map[ssa.Value]bool{}
	followCell = func(fn *ssa.Function, cell ssa.Value) {
		if seenCell[cell] {
			return
		}
		seenCell[cell] = true
		for _, r := range core.Referrers(cell) {
			switch r := r.(type) {
			case *ssa.DebugRef:
			case *ssa.UnOp:
				if r.Op == token.MUL && r.X == cell {
					followVal(fn, r)
				}
			case *ssa.Store:
				if r.Addr == cell {
					if mc, ok := r.Val.(*ssa.MakeClosure); !ok || mc.Fn != ssa.Value(target) {
						problems = append(problems, "the variable holding the closure is also assigned "+core.Expr(r.Val))
					}
				} else {
					uses = append(uses, closureUse{fn: fn, in: r})
				}
			case *ssa.MakeClosure:
				inner := r.Fn.(*ssa.Function)
				for i, b := range r.Bindings {
					if b == cell && i < len(inner.FreeVars) {
						followCell(inner, inner.FreeVars[i])
					}
				}
			default:
				uses = append(uses, closureUse{fn: fn, in: r})
			}
		}
	}
	for _, b := range outer.Blocks {
		for _, in := range b.Instrs {
			if mc, ok := in.(*ssa.MakeClosure); ok && mc.Fn == ssa.Value(target) {
				followVal(outer, mc)
			}
		}
	}
	return uses, cellStores, problems
}

// loopOf returns the innermost natural loop (header, body set) containing block b.
func loopOf(fn *ssa.Function, b *ssa.BasicBlock) (*ssa.BasicBlock, map[*ssa.BasicBlock]bool) {
	var bestH *ssa.BasicBlock
	var best map[*ssa.BasicBlock]bool
	bodies := map[*ssa.BasicBlock]map[*ssa.BasicBlock]bool{}
	for _, t := range fn.Blocks {
		for _, h := range t.Succs {
			if !h.Dominates(t) {
				continue
			}
			body := bodies[h]
			if body == nil {
				body = map[*ssa.BasicBlock]bool{h: true}
				bodies[h] = body
			}
			stack := []*ssa.BasicBlock{t}
			for len(stack) > 0 {
				x := stack[len(stack)-1]
				stack = stack[:len(stack)-1]
				if body[x] {
					continue
				}
				body[x] = true
				stack = append(stack, x.Preds...)
			}
		}
	}
	for h, body := range bodies {
		if body[b] && (best == nil || len(body) < len(best)) {
			bestH, best = h, body
		}
	}
	return bestH, best
}

type pathEnd struct {
	count int
	how   string
	path  []int
}

// countPaths enumerates (block, events-so-far) states from start and returns the ends
// of paths: reaching `header` again, leaving `body` (nil body = whole function, ends are
// returns). Counts saturate at 2.
func countPaths(start, header *ssa.BasicBlock, body map[*ssa.BasicBlock]bool, isEvent func(ssa.Instruction) bool) []pathEnd {
	type state struct {
		b *ssa.BasicBlock
		n int
	}
	type item struct {
		s    state
		path []int
	}
	var ends []pathEnd
	seen := map[state]bool{}
	queue := []item{{state{start, 0}, []int{start.Index}}}
	seen[state{start, 0}] = true
	for len(queue) > 0 {
		it := queue[0]
		queue = queue[1:]
		n := it.s.n
		for _, in := range it.s.b.Instrs {
			if isEvent(in) && n < 2 {
				n++
			}
		}
		if len(it.s.b.Instrs) > 0 {
			switch it.s.b.Instrs[len(it.s.b.Instrs)-1].(type) {
			case *ssa.Return:
				ends = append(ends, pathEnd{n, "returns", it.path})
				continue
			case *ssa.Panic:
				continue
			}
		}
		for _, s := range it.s.b.Succs {
			switch {
			case header != nil && s == header:
				ends = append(ends, pathEnd{n, "next iteration", it.path})
			case body != nil && !body[s]:
				if it.s.b != header {
					ends = append(ends, pathEnd{n, "leaves the loop", append(append([]int{}, it.path...), s.Index)})
				}
			default:
				ns := state{s, n}
				if !seen[ns] {
					seen[ns] = true
					queue = append(queue, item{ns, append(append([]int{}, it.path...), s.Index)})
				}
			}
		}
	}
	return ends
}

func c03R2(c *core.Check) {
	const rule = "C03-R2"
	c.Rule(rule, "K6+K2+K7", 8, "in rowDataMarshalAppendPositions' item loop every iteration path performs exactly one of {direct insertItem call with constant sample factor 1, sampler.Add}; "+
		"insertItem is otherwise called only (exactly once per call) from the closure installed as KeepF of the config the Add-ed sampler is built from; the closure variable is assigned once and never leaked")
	fn := need(c, rule, c03Outer)
	mvm := need(c, rule, "internal/aggregator.multiValueMarshal")
	ak := need(c, rule, "internal/aggregator.appendKeys")
	addFn := need(c, rule, "internal/data_model.(*sampler).Add")
	newS := need(c, rule, "internal/data_model.NewSampler")
	if fn == nil || mvm == nil || ak == nil || addFn == nil || newS == nil {
		return
	}
	// insertItem: the closure of the function that writes rows
	var cands []*ssa.Function
	for _, a := range fn.AnonFuncs {
		if len(core.CallsTo(a, core.FuncName(mvm))) > 0 && len(core.CallsTo(a, core.FuncName(ak))) > 0 {
			cands = append(cands, a)
		}
	}
	if len(cands) != 1 {
		c.Undecided(rule, c03Outer+"/row-writer-closure", fn.Pos(), fmt.Sprintf("expected exactly one closure that calls appendKeys and multiValueMarshal (insertItem), found %d", len(cands)))
		return
	}
	ins := cands[0]
	c.Seen(core.FuncName(ins))
	uses, _, problems := closureUses(fn, ins)
	c.Require(len(problems) == 0, rule, c03Outer+"/insertItem/single-assignment", ins.Pos(), "the insertItem variable is assigned once", strings.Join(problems, "; "))

	// the sampler fed by Add and its KeepF closure
	adds := core.CallsTo(fn, core.FuncName(addFn))
	if len(adds) == 0 {
		c.Undecided(rule, c03Outer+"/sampler.Add", fn.Pos(), "no call of (*sampler).Add in rowDataMarshalAppendPositions")
		return
	}
	var keepF *ssa.Function
	for i, a := range adds {
		c.CallSites++
		key := fmt.Sprintf("%s/sampler.Add#%d/KeepF", c03Outer, i+1)
		k, why := keepFOfSampler(a)
		if k == nil {
			c.Fail(rule, key, a.Pos(), "items are handed to a sampler whose KeepF is not a closure that can insert them: "+why)
			continue
		}
		callsIns := false
		for _, u := range uses {
			if u.fn == k && u.call != nil {
				callsIns = true
			}
		}
		if c.Require(callsIns, rule, key, a.Pos(), "the sampler's KeepF ("+core.FuncName(k)+") calls insertItem",
			"the KeepF closure of the sampler that receives the items never calls insertItem: sampled items are not inserted") {
			keepF = k
		}
	}

	// who calls insertItem
	var direct []ssa.CallInstruction
	nd, nk := 0, 0
	for _, u := range uses {
		switch {
		case u.call == nil:
			c.Fail(rule, fmt.Sprintf("%s/insertItem/escape:%T", core.FuncName(u.fn), u.in), u.in.Pos(), "the insertItem closure is used as a value (stored/passed), so its callers cannot be enumerated")
		case u.fn == fn:
			nd++
			c.CallSites++
			direct = append(direct, u.call)
			c.Pass(rule, fmt.Sprintf("%s/insertItem#%d/caller", c03Outer, nd), u.call.Pos(), "direct (unsampled) call in the marshal function")
		case keepF != nil && u.fn == keepF:
			nk++
			c.CallSites++
			c.Pass(rule, fmt.Sprintf("%s/insertItem#%d/caller", core.FuncName(u.fn), nk), u.call.Pos(), "called from the sampler's KeepF")
		default:
			c.Fail(rule, fmt.Sprintf("%s/insertItem/caller", core.FuncName(u.fn)), u.call.Pos(), "insertItem is called from "+core.FuncName(u.fn)+", which is neither the item loop nor the sampler's KeepF: rows can be inserted twice")
		}
	}
	isIns := func(in ssa.Instruction) bool {
		for _, u := range uses {
			if u.call != nil && ssa.Instruction(u.call) == in {
				return true
			}
		}
		return false
	}
	// KeepF inserts exactly once per call
	if keepF != nil && len(keepF.Blocks) > 0 {
		bad := ""
		for _, e := range countPaths(keepF.Blocks[0], nil, nil, isIns) {
			if e.count != 1 {
				bad = fmt.Sprintf("a path through KeepF (blocks %v) calls insertItem %s", e.path, times(e.count))
			}
		}
		c.Require(bad == "", rule, core.FuncName(keepF)+"/exactly-one-insert", keepF.Pos(), "every path through KeepF inserts the kept item exactly once", bad)
	}
	// direct calls: constant factor 1
	sfIdx := -1
	nFloat := 0
	for i, p := range ins.Params {
		if b, ok := p.Type().Underlying().(*types.Basic); ok && b.Kind() == types.Float64 {
			sfIdx = i
			nFloat++
		}
	}
	for i, d := range direct {
		key := fmt.Sprintf("%s/insertItem#%d/sample-factor", c03Outer, i+1)
		if nFloat != 1 || sfIdx >= len(d.Common().Args) {
			c.Undecided(rule, key, d.Pos(), "cannot identify the sample-factor parameter of insertItem (expected exactly one float64 parameter)")
			continue
		}
		arg := d.Common().Args[sfIdx]
		k, ok := arg.(*ssa.Const)
		isOne := ok && k.Value != nil && constant.Compare(constant.ToFloat(k.Value), token.EQL, constant.MakeFloat64(1))
		// the SF of the very row that is inserted is also 1 here: rows are created with SF = 1 and only the sampler
		// (which this row bypasses) changes it (C05-R1) — accepting it keeps the rule silent on that behaviour-preserving edit
		if base, isSF := dmFieldLoad(arg, tyItem, "SF"); isSF {
			for _, a := range d.Common().Args {
				if a == base {
					isOne = true
				}
			}
		}
		c.Require(isOne, rule, key, d.Pos(), "unsampled insert uses sample factor 1", "the direct (unsampled) insertItem call passes sample factor "+core.Expr(arg)+", not the constant 1: counts of rows that were never sampled would be scaled")
	}
	// the item loop
	h, body := loopOf(fn, adds[0].Block())
	if h == nil {
		c.Undecided(rule, c03Outer+"/item-loop", adds[0].Pos(), "sampler.Add is not inside a loop")
		return
	}
	isAdd := core.IsCallTo(core.FuncName(addFn))
	for _, d := range direct {
		if !body[d.Block()] {
			c.Undecided(rule, c03Outer+"/item-loop/direct-call-outside", d.Pos(), "a direct insertItem call lies outside the loop that feeds sampler.Add: dispositions cannot be paired per item")
		}
	}
	for _, a := range adds {
		if !body[a.Block()] {
			c.Undecided(rule, c03Outer+"/item-loop/add-outside", a.Pos(), "a second sampler.Add lies outside the item loop")
		}
	}
	dropped, twice := "", ""
	for _, e := range countPaths(h, h, body, or(isIns, isAdd)) {
		switch e.count {
		case 0:
			dropped = fmt.Sprintf("iteration path (blocks %v, %s) neither inserts the item nor hands it to the sampler: the key is missing from the insert body", e.path, e.how)
		case 2:
			twice = fmt.Sprintf("iteration path (blocks %v, %s) disposes the item more than once (insertItem and/or sampler.Add): the key can be inserted twice", e.path, e.how)
		}
	}
	c.Require(dropped == "", rule, c03Outer+"/item-loop/no-path-without-disposition", h.Instrs[0].Pos(), "every iteration path disposes the item", dropped)
	c.Require(twice == "", rule, c03Outer+"/item-loop/no-path-with-two-dispositions", h.Instrs[0].Pos(), "no iteration path disposes the item twice", twice)
}

func times(n int) string {
	switch n {
	case 0:
		return "zero times"
	case 1:
		return "once"
	}
	return "more than once"
}

// keepFOfSampler follows sampler.Add's receiver back to NewSampler(config) and returns
// the closure stored into config.KeepF.
func keepFOfSampler(add core.Site) (*ssa.Function, string) {
	recv, ok := add.Arg(0).(*ssa.Alloc)
	if !ok {
		return nil, "receiver " + core.Expr(add.Arg(0)) + " is not a local sampler variable"
	}
	sts := core.StoresTo(recv)
	if len(sts) != 1 {
		return nil, fmt.Sprintf("the sampler variable is assigned %d times", len(sts))
	}
	call, ok := sts[0].Val.(*ssa.Call)
	if !ok || core.CalleeName(&call.Call) != "internal/data_model.NewSampler" || len(call.Call.Args) != 1 {
		return nil, "the sampler is not the result of data_model.NewSampler: " + core.Expr(sts[0].Val)
	}
	ld, ok := call.Call.Args[0].(*ssa.UnOp)
	if !ok {
		return nil, "NewSampler's config is not a local composite literal"
	}
	cfg, ok := ld.X.(*ssa.Alloc)
	if !ok {
		return nil, "NewSampler's config is not a local composite literal"
	}
	var k *ssa.Function
	n := 0
	for _, r := range core.Referrers(cfg) {
		fa, ok := r.(*ssa.FieldAddr)
		if !ok || !core.IsField(fa, "internal/data_model.SamplerConfig", "KeepF") {
			continue
		}
		for _, rr := range core.Referrers(fa) {
			if st, ok := rr.(*ssa.Store); ok && st.Addr == fa {
				n++
				if mc, ok := st.Val.(*ssa.MakeClosure); ok {
					k, _ = mc.Fn.(*ssa.Function)
				}
			}
		}
	}
	if n != 1 || k == nil {
		return nil, fmt.Sprintf("SamplerConfig.KeepF is set %d time(s) to a function literal in the config passed to NewSampler", n)
	}
	return k, ""
}

// ===================================================================================
// R4: exact mode of the unique sketch
// ===================================================================================

func c03R4(c *core.Check) {
	const rule = "C03-R4"
	c.Rule(rule, "K2+K1", 9, "ChUnique.skipDegree is written only by Reset (constant 0), shrinkIfNeed (+1 under itemsCount > uniquesHashMaxSize), Merge (another sketch's skipDegree), "+
		"UmMarshall/ReadFrom/MergeRead (decoded byte); every return of Size that is not under skipDegree != 0 returns itemsCount")
	pk := c.Prog.Pkg("internal/data_model")
	var maxSize constant.Value
	if pk != nil && pk.Types != nil {
		if k, ok := pk.Types.Scope().Lookup("uniquesHashMaxSize").(*types.Const); ok {
			maxSize = k.Val()
		}
	}
	if maxSize == nil {
		c.Anchor(rule, "internal/data_model.uniquesHashMaxSize")
		return
	}
	for _, n := range []string{"Reset", "shrinkIfNeed", "Merge", "UmMarshall", "ReadFrom", "MergeRead", "Size"} {
		need(c, rule, c03UniqueM+n)
	}
	sameRecvField := func(v ssa.Value, recv ssa.Value, field string) bool {
		u, ok := v.(*ssa.UnOp)
		if !ok || u.Op != token.MUL {
			return false
		}
		fa, ok := u.X.(*ssa.FieldAddr)
		return ok && fa.X == recv && core.IsField(fa, c03Unique, field)
	}
	writes := core.FieldWrites(c.Prog.Funcs(), c03Unique, "skipDegree")
	cnt := map[string]int{}
	for _, w := range writes {
		fname := core.FuncName(w.Fn)
		cnt[fname]++
		key := fmt.Sprintf("%s/store:skipDegree#%d", fname, cnt[fname])
		pos := w.Instr.Pos()
		fa, _ := w.Addr.(*ssa.FieldAddr)
		if fa == nil || w.Kind != "store" {
			c.Fail(rule, key, pos, "unexpected kind of write to ChUnique.skipDegree")
			continue
		}
		switch fname {
		case c03UniqueM + "Reset":
			k, ok := w.Val.(*ssa.Const)
			c.Require(ok && k.Value != nil && constant.Sign(constant.ToInt(k.Value)) == 0, rule, key, pos, "Reset stores 0", "Reset stores "+core.Expr(w.Val)+" into skipDegree, not 0: a fresh sketch would not be exact")
		case c03UniqueM + "shrinkIfNeed":
			bin, ok := w.Val.(*ssa.BinOp)
			incr := false
			if ok && bin.Op == token.ADD && sameRecvField(bin.X, fa.X, "skipDegree") {
				if k, ok := bin.Y.(*ssa.Const); ok && k.Value != nil && constant.Compare(constant.ToInt(k.Value), token.EQL, constant.MakeInt64(1)) {
					incr = true
				}
			}
			if !incr {
				c.Fail(rule, key, pos, "shrinkIfNeed stores "+core.Expr(w.Val)+", not skipDegree+1")
				continue
			}
			guarded := false
			for _, g := range core.Facts(w.Instr.Block()) {
				if len(g.Alts) != 1 {
					continue
				}
				l := g.Alts[0]
				if l.Op != token.LSS || !l.Pol {
					continue
				}
				k, ok := l.X.(*ssa.Const)
				if ok && k.Value != nil && constant.Compare(constant.ToInt(k.Value), token.EQL, maxSize) && sameRecvField(l.Y, fa.X, "itemsCount") {
					guarded = true
				}
			}
			c.Require(guarded, rule, key, pos, "thinning only above the exact-mode limit",
				"skipDegree is incremented without the guard itemsCount > uniquesHashMaxSize ("+maxSize.String()+") on the same sketch: estimates stop being exact below the limit; facts: "+core.FactsString(w.Instr.Block()))
		case c03UniqueM + "Merge":
			ok := core.LoadsField(w.Val, c03Unique, "skipDegree") && !sameRecvField(w.Val, fa.X, "skipDegree")
			c.Require(ok, rule, key, pos, "Merge takes the peer's skipDegree", "Merge stores "+core.Expr(w.Val)+" into skipDegree, which is not the other sketch's skipDegree")
		case c03UniqueM + "UmMarshall", c03UniqueM + "ReadFrom", c03UniqueM + "MergeRead":
			ok := false
			if cv, isConv := w.Val.(*ssa.Convert); isConv {
				if ex, isEx := cv.X.(*ssa.Extract); isEx && ex.Index == 0 {
					if call, isCall := ex.Tuple.(*ssa.Call); isCall && strings.HasSuffix(core.CalleeName(&call.Call), ".ReadByte") {
						ok = true
					}
				}
			}
			c.Require(ok, rule, key, pos, "decoder stores the decoded skip-degree byte", "decoder stores "+core.Expr(w.Val)+" into skipDegree, which is not a byte read from the input")
		default:
			c.Fail(rule, key, pos, "ChUnique.skipDegree is written in "+fname+", which is not one of Reset/shrinkIfNeed/Merge/UmMarshall/ReadFrom/MergeRead: a sketch below the exact-mode limit can stop being exact")
		}
	}
	if fn := c.Prog.Func(c03UniqueM + "Size"); fn != nil && len(fn.Params) > 0 {
		recv := fn.Params[0]
		n := 0
		for _, r := range core.Returns(fn) {
			if len(r.Block().Preds) == 0 && r.Block().Index != 0 {
				continue
			}
			n++
			key := fmt.Sprintf("%sSize/return#%d", c03UniqueM, n)
			estimate := false
			exact := false
			for _, g := range core.Facts(r.Block()) {
				if len(g.Alts) != 1 {
					continue
				}
				l := g.Alts[0]
				if l.Op == token.EQL && sameRecvField(l.X, recv, "skipDegree") {
					if k, ok := l.Y.(*ssa.Const); ok && k.Value != nil && constant.Sign(constant.ToInt(k.Value)) == 0 {
						if l.Pol {
							exact = true
						} else {
							estimate = true
						}
					}
				}
			}
			if estimate {
				c.Pass(rule, key, r.Pos(), "estimate branch (skipDegree != 0)")
				continue
			}
			v := core.ReturnedValues(r)[0]
			isCount := false
			if cv, ok := v.(*ssa.Convert); ok && sameRecvField(cv.X, recv, "itemsCount") {
				isCount = true
			}
			msg := "exact mode returns itemsCount"
			if !exact {
				msg = "return not under skipDegree != 0 returns itemsCount"
			}
			c.Require(isCount, rule, key, r.Pos(), msg, "Size returns "+core.Expr(v)+" on a path where skipDegree may be 0 (exact mode); it must return itemsCount there")
		}
	}
}

// ===================================================================================
// R1: codec shapes
// ===================================================================================

type c03Codec struct {
	pkg, name string
	mode      core.ShapeMode
	rows      bool // column decoder: the shape is STAR(rows)(value)
}

func c03R1(c *core.Check) {
	const rule = "C03-R1"
	c.Rule(rule, "K3 sequential codec shape", 17, "shape(ChUnique.MarshallAppend) = shape(ChUnique.Marshall) = shape(ChUnique.ReadFrom) = shape(ChUnique.UmMarshall) = row shape of ColUnique.DecodeColumn; "+
		"shape(rowbinary.AppendCentroids) = row shape of ColTDigest.DecodeColumn = shape(ChDigest.ReadFrom); reader repetitions are bounded by the decoded uvarint; constant encodings "+
		"(nil sketch, AppendEmptyUnique, AppendEmptyCentroids) are accepted instances; the row writer calls these encoders, centroids before unique state")
	x := core.NewShapeExtractor(c.Prog)
	nIssue := 0
	extract := func(cd c03Codec) (core.ShapeSeq, bool) {
		full := cd.pkg + "." + cd.name
		before := len(x.Issues)
		s, ok := x.Extract(cd.pkg, cd.name, cd.mode, -1)
		if !ok {
			c.Anchor(rule, full)
			return nil, false
		}
		c.Seen(full)
		good := true
		for _, is := range x.Issues[before:] {
			nIssue++
			good = false
			c.Undecided(rule, fmt.Sprintf("%s/idiom#%d", full, nIssue), is.Pos, "codec shape cannot be extracted exactly: "+is.Msg)
		}
		if !good {
			return nil, false
		}
		if cd.rows {
			if len(s) != 1 || s[0].Kind != "STAR" || !s[0].Ext || s[0].Count != nil {
				c.Undecided(rule, full+"/rows", token.NoPos, "column decoder is not a single repetition over rows: "+s.String())
				return nil, false
			}
			s = s[0].Sub[0]
		}
		return s, true
	}
	type family struct {
		name    string
		readers []c03Codec
		writers []c03Codec
		consts  []c03Codec // writers that emit constant bytes only
	}
	fams := []family{
		{
			name: "unique-state",
			readers: []c03Codec{
				{"internal/data_model", "(*ChUnique).ReadFrom", core.ShapeReader, false},
				{"internal/data_model", "(*ChUnique).UmMarshall", core.ShapeReader, false},
				{"internal/chutil", "(*ColUnique).DecodeColumn", core.ShapeReader, true},
			},
			writers: []c03Codec{
				{"internal/data_model", "(*ChUnique).MarshallAppend", core.ShapeWriter, false},
				{"internal/data_model", "(*ChUnique).Marshall", core.ShapeWriter, false},
			},
			consts: []c03Codec{{"internal/vkgo/kittenhouseclient/rowbinary", "AppendEmptyUnique", core.ShapeWriter, false}},
		},
		{
			name: "tdigest-centroids",
			readers: []c03Codec{
				{"internal/chutil", "(*ColTDigest).DecodeColumn", core.ShapeReader, true},
				{"internal/data_model", "(*ChDigest).ReadFrom", core.ShapeReader, false},
			},
			writers: []c03Codec{{"internal/vkgo/kittenhouseclient/rowbinary", "AppendCentroids", core.ShapeWriter, false}},
			consts:  []c03Codec{{"internal/vkgo/kittenhouseclient/rowbinary", "AppendEmptyCentroids", core.ShapeWriter, false}},
		},
	}
	for _, fam := range fams {
		// readers: all equal, repetitions counted
		var ref core.ShapeSeq
		refName := ""
		for _, rd := range fam.readers {
			s, ok := extract(rd)
			if !ok {
				continue
			}
			full := rd.pkg + "." + rd.name
			c.Require(c03AllCounted(s), rule, full+"/repetitions-counted", token.NoPos, "reader shape "+s.String()+": every repetition is bounded by the decoded count",
				"reader shape "+s.String()+" has a repetition whose count is not exactly the value of a previously decoded, unmodified count token (`for i := 0; i < count; i++`): the reader consumes a different number of elements than the writer announces")
			if ref == nil {
				ref, refName = s, full
				continue
			}
			c.Require(s.String() == ref.String(), rule, full+"/shape=="+refName, token.NoPos, "same shape as "+refName+": "+s.String(),
				"reader shapes differ: "+full+" reads "+s.String()+" but "+refName+" reads "+ref.String())
		}
		if ref == nil {
			continue
		}
		check := func(w c03Codec, mustConst bool) {
			s, ok := extract(w)
			if !ok {
				return
			}
			full := w.pkg + "." + w.name
			nGen := 0
			for i, alt := range core.TopAlternatives(s) {
				if b, isConst := core.ConstBytes(alt); isConst {
					okc, decided, why := core.MatchConst(ref, b)
					key := fmt.Sprintf("%s/const-instance#%d accepted-by %s", full, i+1, refName)
					if !decided {
						c.Undecided(rule, key, token.NoPos, fmt.Sprintf("cannot decide whether the constant encoding % x is accepted by reader shape %s: %s", b, ref.String(), why))
						continue
					}
					c.Require(okc, rule, key, token.NoPos, fmt.Sprintf("constant encoding % x is an instance of %s", b, ref.String()),
						fmt.Sprintf("constant encoding % x written by %s is not an instance of the reader shape %s: %s", b, full, ref.String(), why))
					continue
				}
				nGen++
				g := core.Normalize(core.Generalize(alt), nil)
				c.Require(!mustConst && g.Key() == ref.Key(), rule, fmt.Sprintf("%s/shape#%d==%s", full, nGen, refName), token.NoPos,
					"writer shape "+g.Key()+" equals reader shape",
					"writer "+full+" emits "+alt.String()+" (normalised "+g.Key()+") but reader "+refName+" consumes "+ref.Key())
			}
		}
		for _, w := range fam.writers {
			check(w, false)
		}
		for _, w := range fam.consts {
			check(w, true)
		}
	}
	// wiring: the row writer uses exactly these encoders, centroids column before the unique column
	wire := func(fnName string, first, second string) {
		fn := need(c, rule, fnName)
		if fn == nil {
			return
		}
		a := core.CallsTo(fn, first)
		b := core.CallsTo(fn, second)
		ordered := len(a) == 1 && len(b) == 1 && core.Dominates(a[0].Instr, b[0].Instr)
		// from the point where the row starts (appendKeys, else function entry) no return is reached without both encoders
		skip := ""
		for _, must := range []string{first, second} {
			var p *core.PathTo
			if keys := core.CallsTo(fn, "internal/aggregator.appendKeys"); len(keys) > 0 {
				p = core.ReachWithout(keys[0].Instr, core.IsReturn, core.IsCallTo(must))
			} else {
				p = core.ReachFromEntryWithout(fn, core.IsReturn, core.IsCallTo(must))
			}
			if p != nil {
				skip = "a row can be finished without " + must + " (" + pathStr(p) + ")"
			}
		}
		c.Require(ordered && skip == "", rule, fnName+"/encoders", fn.Pos(), "every row passes "+first+" then "+second+" exactly once each",
			fmt.Sprintf("%s must encode the percentiles column with %s and then the uniq_state column with %s exactly once each (found %d and %d calls, ordered=%v) %s",
				fnName, first, second, len(a), len(b), ordered, skip))
	}
	wire("internal/aggregator.multiValueMarshal", "internal/vkgo/kittenhouseclient/rowbinary.AppendCentroids", c03UniqueM+"MarshallAppend")
	wire("internal/aggregator.appendValueStat", "internal/vkgo/kittenhouseclient/rowbinary.AppendEmptyCentroids", "internal/vkgo/kittenhouseclient/rowbinary.AppendEmptyUnique")
}

// c03AllCounted reports whether every STAR of a reader shape carries an exact count.
func c03AllCounted(s core.ShapeSeq) bool {
	for _, n := range s {
		if n.Kind == "STAR" && n.Count == nil {
			return false
		}
		for _, sub := range n.Sub {
			if !c03AllCounted(sub) {
				return false
			}
		}
	}
	return true
}
