package props

import (
	"fmt"
	"go/token"
	"go/types"
	"strings"

	"golang.org/x/tools/go/ssa"

	"shverif/core"
)

func init() {
	const f = "internal/api/tscache2.go"
	const ft = "internal/api/tscache2_trim.go"
	const fi = "internal/api/tscache2_inflight.go"
	Register(&Property{
		ID:   "C23",
		Pkgs: []string{"./internal/api"},
		Run:  runC23,
		Mutants: []Mutant{
			// R1
			{Name: "invalidation-cleared-unconditionally", File: f, Rule: "C23-R1",
				Old: "				if chunk.loadStartedAt < chunk.invalidatedAt {\n					// chunk has been invalidated while loading\n				} else {\n					chunk.invalidatedAt = 0\n				}\n",
				New: "				chunk.invalidatedAt = 0\n"},
			{Name: "invalidation-cleared-on-failed-load", File: f, Rule: "C23-R1",
				Old: "			chunk.loading--\n		}\n		chunk.mu.Unlock()\n", New: "			chunk.loading--\n			chunk.invalidatedAt = 0\n		}\n		chunk.mu.Unlock()\n"},
			{Name: "invalidate-without-chunk-lock", File: f, Rule: "C23-R1",
				Old: "	c.mu.Lock()\n	c.invalidatedAt = timeNow\n	c.mu.Unlock()\n", New: "	c.invalidatedAt = timeNow\n"},
			// R2
			{Name: "invalidated-chunk-served-without-wait", File: f, Rule: "C23-R2",
				Old: "		if time.Duration(l.timeNow-c.invalidatedAt) >= l.staleAcceptPeriod {\n			wait = true\n		}\n", New: "		wait = l.staleAcceptPeriod < 0\n"},
			{Name: "invalidated-chunk-not-reloaded", File: f, Rule: "C23-R2",
				Old: "	} else if c.invalidatedAt != 0 {\n		load = true\n", New: "	} else if c.invalidatedAt != 0 {\n		load = l.staleAcceptPeriod == 0\n"},
			{Name: "stale-accept-for-every-request", File: f, Rule: "C23-R2",
				Old: "	if q.play == 1 {\n		return time.Second\n	}\n	return 0\n", New: "	if q.play == 1 {\n		return time.Second\n	}\n	return time.Second\n"},
			{Name: "await-and-copy-swapped", File: f, Rule: "C23-R2",
				Old: "		if v.wait {\n			v.await(l)\n		} else {\n			v.copy(l, info)\n		}\n", New: "		if !v.wait {\n			v.await(l)\n		} else {\n			v.copy(l, info)\n		}\n"},
			// R3
			{Name: "awaiter-not-answered-on-error", File: f, Rule: "C23-R3",
				Old: "			a.loaderChan <- err\n", New: "			if err == nil {\n				a.loaderChan <- err\n			}\n"},
			{Name: "awaiters-of-detached-chunk-skipped", File: f, Rule: "C23-R3",
				Old: "		chunk.mu.Unlock()\n		// copy data to awaiters\n", New: "		chunk.mu.Unlock()\n		if !attached {\n			start = end\n			end += b.chunkSize\n			continue\n		}\n		// copy data to awaiters\n"},
			{Name: "awaiters-not-swapped-out", File: f, Rule: "C23-R3",
				Old: "		chunk.awaiters, awaiters = awaiters, chunk.awaiters\n", New: "		awaiters = chunk.awaiters\n"},
			{Name: "loader-result-sent-only-on-success", File: f, Rule: "C23-R3",
				Old: "	l.waitC <- err\n	startPostLoad := time.Now()\n", New: "	if err == nil {\n		l.waitC <- err\n	}\n	startPostLoad := time.Now()\n"},
			// R4
			{Name: "chunk-size-without-accounting", File: f, Rule: "C23-R4",
				Old: "				info.sizeS[l.mode] += chunkSize - chunk.size\n				chunk.size = chunkSize\n", New: "				chunk.size = chunkSize\n"},
			{Name: "chunk-size-delta-after-store", File: f, Rule: "C23-R4",
				Old: "				info.sizeS[l.mode] += chunkSize - chunk.size\n				chunk.size = chunkSize\n", New: "				chunk.size = chunkSize\n				info.sizeS[l.mode] += chunkSize - chunk.size\n"},
			{Name: "trim-forgets-size", File: ft, Rule: "C23-R4",
				Old: "			info.sizeS[mode] -= b.chunks[k].size\n			b.chunks[k].size = 0\n", New: "			b.chunks[k].size = 0\n"},
			// R5
			{Name: "cache-hit-aliases-cached-rows", File: f, Rule: "C23-R5",
				Old: "		dataHit[i] = make([]tsSelectRow, len(chunkData[i]))\n		copy(dataHit[i], chunkData[i])\n", New: "		dataHit[i] = chunkData[i]\n"},
			{Name: "cache-aliases-request-buffer", File: f, Rule: "C23-R5",
				Old: "					chunk.data[i] = append(chunk.data[i][:0], chunkData[i]...)\n", New: "					chunk.data[i] = chunkData[i]\n"},
			{Name: "awaiter-aliases-loader-buffer", File: f, Rule: "C23-R5",
				Old: "					a.loaderData[i] = append(a.loaderData[i][:0], chunkData[j]...)\n", New: "					a.loaderData[i] = chunkData[j]\n"},
			// R6
			{Name: "runtime-info-updated-without-lock", File: f, Rule: "C23-R6",
				Old: "func (c *cache2) updateRuntimeInfo(step, user string, info *cache2UpdateInfo) {\n	c.mu.Lock()\n	defer c.mu.Unlock()\n",
				New: "func (c *cache2) updateRuntimeInfo(step, user string, info *cache2UpdateInfo) {\n"},
			{Name: "remove-bucket-without-shard-lock", File: f, Rule: "C23-R6",
				Old: "func (shard *cache2Shard) removeBucket(b *cache2Bucket, info *cache2UpdateInfo) {\n	shard.mu.Lock()\n	defer shard.mu.Unlock()\n",
				New: "func (shard *cache2Shard) removeBucket(b *cache2Bucket, info *cache2UpdateInfo) {\n"},
			{Name: "trim-reports-size-after-unlock", File: ft, Rule: "C23-R6",
				Old: "			size, maxSize := c.effectiveSizeLocked(), c.limits.maxSizeSoft\n			c.mu.Unlock()\n", New: "			c.mu.Unlock()\n			size, maxSize := c.effectiveSizeLocked(), c.limits.maxSizeSoft\n"},
			{Name: "inflight-early-return-keeps-lock", File: fi, Rule: "C23-R6",
				Old: "	if !ok {\n		c.mu.Unlock()\n		return\n	}\n", New: "	if !ok {\n		return\n	}\n"},
			{Name: "new-loader-forgets-bucket-unlock", File: f, Rule: "C23-R6",
				Old: "	defer bucket.mu.Unlock()                                  // bucket returned locked\n", New: ""},
		},
	})
}

const (
	tCache2   = "internal/api.cache2"
	tShard2   = "internal/api.cache2Shard"
	tBucket2  = "internal/api.cache2Bucket"
	tChunk2   = "internal/api.cache2Chunk"
	tLoader2  = "internal/api.cache2Loader"
	tLChunk2  = "internal/api.cache2LoaderChunk"
	tAwaiter2 = "internal/api.cache2Awaiter"
	tInfo2    = "internal/api.cache2UpdateInfo"
	pLoader2  = "internal/api.(*cache2Loader)."
	pLChunk2  = "internal/api.(*cache2LoaderChunk)."
)

func runC23(c *core.Check) {
	c.Decides = "(R1, K1+K2+K4) cache2Chunk.invalidatedAt is written only by cache2Chunk.invalidate (its time argument, under the chunk mutex) and cleared only in loadChunks under the chunk mutex when the load succeeded (err == nil), " +
		"the chunk is still attached and !(loadStartedAt < invalidatedAt) for that chunk; " +
		"(R2, K1) maybeAddChunk decides `no load` only for a chunk with data, not force-loaded, loaded after its range ended and invalidatedAt == 0; it decides `load without waiting` (serve cached rows now) only for such a chunk or for an " +
		"invalidated one under `timeNow - invalidatedAt < staleAcceptPeriod`; staleAcceptPeriod is written only from cache2StaleAcceptPeriod, which is non-zero only under play == 1; awaitCopyChunks serves cached rows (copy) only when !wait; " +
		"(R3, K6) loadChunks sends the loader's own result on l.waitC exactly once on every path (not in a loop); under the chunk mutex it takes the awaiter list and resets it, and for every chunk of the loader — attached or not, success or error — " +
		"every awaiter taken is sent exactly one value on its own channel; await appends one awaiter and counts one expected value; run counts one expected value for the one loadChunks goroutine it starts; " +
		"(R4, K6) every store to cache2Chunk.size is preceded in the same block by the matching cache2UpdateInfo.sizeS delta computed from the old size; " +
		"(R5, K7) every row slice stored into request data (cache2Loader.data / cache2Awaiter.loaderData) or into cache2Chunk.data by the loader code is freshly made or `append(dst[:0], src...)` into the destination's own storage — never an alias of the other side; " +
		"(R6, K4) cache2.*Locked/*Unlocked, cache2Shard.*Unlocked, cache2Bucket.*Unlocked and the unexported helpers that touch guarded fields without locking are only called with the receiver's mutex held; cache2 runtime/limit/inflight fields and " +
		"cache2Shard.bucketM are accessed under their mutex; cache2/cache2Shard/cache2Bucket mutexes are balanced on every path; getOrCreateLockedBucket returns its bucket locked (documented) and newLoader unlocks it and calls init with it held."
	c.NotDecided = "schedules (that no request waits forever, that trimming converges), placement arithmetic of slots within chunks, the hand-over of cache2Chunk mutexes through slices " +
		"(maybeAddChunk/awaitCopyChunks/removeChunksNotUsedAfterUnlocked lock chunks in one place and unlock them in another: beyond a per-function must-analysis), cache2Bucket field accesses made through l.bucket, " +
		"allocCond/trimCond signalling (writers signal conditionally, DESIGN K12), memory accounting returning to zero."

	fns := c.Prog.FuncsIn("internal/api")
	var cfns []*ssa.Function // the series-cache code
	for _, fn := range fns {
		n := core.FuncName(fn)
		for _, pre := range []string{"internal/api.(*cache2", "internal/api.(cache2", "internal/api.newCache2", "internal/api.cache2", "internal/api.sizeofCache2", "internal/api.DebugCache", "internal/api.contextWithCache2"} {
			if strings.HasPrefix(n, pre) {
				cfns = append(cfns, fn)
				break
			}
		}
	}
	an := &core.LockAnalyzer{}

	// ---- R1 -------------------------------------------------------------------------
	c.Rule("C23-R1", "K1+K2+K4", 4, "invalidatedAt = 0 only in loadChunks under err == nil, attached, !(loadStartedAt < invalidatedAt), chunk mutex held; every other store is cache2Chunk.invalidate storing its argument under the mutex")
	loadFn := need(c, "C23-R1", pLoader2+"loadChunks")
	nInv := 0
	for _, fw := range core.FieldWrites(fns, tChunk2, "invalidatedAt") {
		st, ok := fw.Instr.(*ssa.Store)
		if !ok {
			continue
		}
		fa := st.Addr.(*ssa.FieldAddr)
		if _, fresh := fa.X.(*ssa.Alloc); fresh {
			continue
		}
		nInv++
		name := core.FuncName(fw.Fn)
		c.Seen(name)
		key := fmt.Sprintf("%s/invalidatedAt=#%d", name, nInv)
		held := an.Info(fw.Fn).HeldAt(st, core.ObjKey(fa.X)+".mu") == core.HeldWrite
		c.Require(held, "C23-R1", key+"/mutex", st.Pos(), "store under the chunk mutex", "invalidatedAt is written without holding the chunk's mutex: the clearing test in loadChunks and an invalidation can interleave")
		switch {
		case constIs(st.Val, 0):
			lits := litsAt(st.Block())
			errNil := findLit(lits, func(l core.Lit) bool {
				ex, isEx := l.X.(*ssa.Extract)
				if l.Op != token.EQL || !l.Pol || !isEx || ex.Index != 1 || !isNilConst(l.Y) {
					return false
				}
				call, isCall := ex.Tuple.(*ssa.Call)
				return isCall && isDynCallOnField(call, tCache2, "loader")
			}) != nil
			attached := findLit(lits, func(l core.Lit) bool { return !l.Pol && isFieldLoadOf(l.Cond, tChunk2, "detached", fa.X) }) != nil
			fresh := findLit(lits, func(l core.Lit) bool {
				return l.Op == token.LSS && !l.Pol && isFieldLoadOf(l.X, tChunk2, "loadStartedAt", fa.X) && isFieldLoadOf(l.Y, tChunk2, "invalidatedAt", fa.X)
			}) != nil
			ok := fw.Fn == loadFn && errNil && attached && fresh
			c.Require(ok, "C23-R1", key, st.Pos(), "cleared after a successful load of an attached chunk that was not invalidated while loading",
				fmt.Sprintf("invalidatedAt is cleared without all of: in loadChunks (%v), load succeeded (%v), chunk attached (%v), !(loadStartedAt < invalidatedAt) (%v): rows loaded before an invalidation would be served as fresh; facts: %s",
					fw.Fn == loadFn, errNil, attached, fresh, litsString(lits)))
		case name == "internal/api.(*cache2Chunk).invalidate":
			_, isParam := st.Val.(*ssa.Parameter)
			c.Require(isParam, "C23-R1", key, st.Pos(), "invalidate records the invalidation time it was given", "cache2Chunk.invalidate stores "+core.Expr(st.Val)+" instead of its time argument")
		default:
			c.Fail("C23-R1", key, st.Pos(), "invalidatedAt is written outside cache2Chunk.invalidate and the clearing site of loadChunks: "+core.Expr(st.Val))
		}
	}

	// ---- R2 -------------------------------------------------------------------------
	c.Rule("C23-R2", "K1", 9, "maybeAddChunk: load=false only with data, !forceLoad, !(loadStartedAt<end), invalidatedAt==0; wait=false only then or under timeNow-invalidatedAt < staleAcceptPeriod; staleAcceptPeriod comes from cache2StaleAcceptPeriod (non-zero only for play==1); copy only under !wait")
	if fn := need(c, "C23-R2", pLoader2+"maybeAddChunk"); fn != nil {
		loader, chunk := ssa.Value(fn.Params[0]), ssa.Value(fn.Params[2])
		phiOf := func(field string) (*ssa.Phi, ssa.Value, *ssa.Store) {
			for _, b := range fn.Blocks {
				for _, in := range b.Instrs {
					if st, ok := in.(*ssa.Store); ok && core.IsField(st.Addr, tLChunk2, field) {
						p, _ := st.Val.(*ssa.Phi)
						return p, st.Val, st
					}
				}
			}
			return nil, nil, nil
		}
		loadPhi, loadVal, loadSt := phiOf("load")
		waitPhi, waitVal, _ := phiOf("wait")
		if loadSt == nil || waitVal == nil {
			c.Undecided("C23-R2", pLoader2+"maybeAddChunk/shape", fn.Pos(), "stores of cache2LoaderChunk.load / wait not found")
		} else if loadPhi == nil || waitPhi == nil || loadPhi.Block() != waitPhi.Block() {
			okConst := core.ConstBool(loadVal, true) && core.ConstBool(waitVal, true)
			if !okConst {
				c.Undecided("C23-R2", pLoader2+"maybeAddChunk/shape", loadSt.Pos(), "load/wait are not decided by one branch structure (phi of constants): "+core.Expr(loadVal)+" / "+core.Expr(waitVal))
			} else {
				c.Pass("C23-R2", pLoader2+"maybeAddChunk/always", loadSt.Pos(), "always loads and waits")
			}
		} else {
			usable := func(l core.Lit) bool {
				return l.Op == token.EQL && !l.Pol && isFieldLoadOf(l.X, tChunk2, "data", chunk) && isNilConst(l.Y)
			}
			notForced := func(l core.Lit) bool { return !l.Pol && isFieldLoadOf(l.Cond, tLoader2, "forceLoad", loader) }
			complete := func(l core.Lit) bool {
				return l.Op == token.LSS && !l.Pol && isFieldLoadOf(l.X, tChunk2, "loadStartedAt", chunk) && isFieldLoadOf(l.Y, tChunk2, "end", chunk)
			}
			notInvalidated := func(l core.Lit) bool {
				return l.Op == token.EQL && l.Pol && isFieldLoadOf(l.X, tChunk2, "invalidatedAt", chunk) && constIs(l.Y, 0)
			}
			staleOK := func(l core.Lit) bool {
				if l.Op != token.LSS || !l.Pol || !isFieldLoadOf(l.Y, tLoader2, "staleAcceptPeriod", loader) {
					return false
				}
				for _, v := range valueTree(l.X) {
					if sub, ok := v.(*ssa.BinOp); ok && sub.Op == token.SUB && isFieldLoadOf(sub.X, tLoader2, "timeNow", loader) && isFieldLoadOf(sub.Y, tChunk2, "invalidatedAt", chunk) {
						return true
					}
				}
				return false
			}
			for i, pred := range loadPhi.Block().Preds {
				lits := litsAt(pred)
				if l, ok := core.EdgeLit(pred, loadPhi.Block()); ok {
					lits = append(lits, litAt{l, loadPhi.Block()})
				}
				has := func(p func(core.Lit) bool) bool { return findLit(lits, p) != nil }
				base := has(usable) && has(notForced) && has(complete)
				key := fmt.Sprintf("%smaybeAddChunk/decision#%d", pLoader2, i+1)
				lv, wv := loadPhi.Edges[i], waitPhi.Edges[i]
				switch {
				case core.ConstBool(lv, true) && core.ConstBool(wv, true):
					c.Pass("C23-R2", key, loadSt.Pos(), "load and wait")
				case core.ConstBool(lv, false) && core.ConstBool(wv, false):
					c.Require(base && has(notInvalidated), "C23-R2", key, loadSt.Pos(), "cached rows served without reload only for a complete, not invalidated chunk",
						"a chunk is served from the cache without reloading on a path that has not established data != nil, !forceLoad, !(loadStartedAt < end) and invalidatedAt == 0: an invalidated slot returns rows of an older load; facts: "+litsString(lits))
				case core.ConstBool(lv, true) && core.ConstBool(wv, false):
					ok := base && (has(notInvalidated) || has(staleOK))
					c.Require(ok, "C23-R2", key, loadSt.Pos(), "cached rows served while reloading only if not invalidated or within the stale-accept period",
						"a chunk's cached rows are returned without waiting for the reload on a path where the chunk may be invalidated and the stale-accept test `timeNow - invalidatedAt < staleAcceptPeriod` was not passed; facts: "+litsString(lits))
				default:
					c.Undecided("C23-R2", key, loadSt.Pos(), "load/wait decision is not a pair of constants on this path: "+core.Expr(lv)+" / "+core.Expr(wv))
				}
			}
		}
	}
	// staleAcceptPeriod provenance
	nStale := 0
	for _, fw := range core.FieldWrites(fns, tLoader2, "staleAcceptPeriod") {
		st, ok := fw.Instr.(*ssa.Store)
		if !ok {
			continue
		}
		nStale++
		call, isCall := st.Val.(*ssa.Call)
		c.Require(isCall && core.CalleeName(&call.Call) == "internal/api.cache2StaleAcceptPeriod", "C23-R2", fmt.Sprintf("%s/staleAcceptPeriod=#%d", core.FuncName(fw.Fn), nStale), st.Pos(),
			"staleAcceptPeriod comes from cache2StaleAcceptPeriod(query)", "staleAcceptPeriod is set to "+core.Expr(st.Val)+", not to cache2StaleAcceptPeriod(query)")
	}
	if fn := need(c, "C23-R2", "internal/api.cache2StaleAcceptPeriod"); fn != nil {
		for i, r := range core.Returns(fn) {
			v := core.ReturnedValues(r)[0]
			key := fmt.Sprintf("internal/api.cache2StaleAcceptPeriod/return#%d", i+1)
			if constIs(v, 0) {
				c.Pass("C23-R2", key, r.Pos(), "no stale accept")
				continue
			}
			play1 := holdsLit(r.Block(), func(l core.Lit) bool {
				return l.Op == token.EQL && l.Pol && isFieldLoadOf(l.X, "internal/api.queryBuilder", "play", fn.Params[0]) && constIs(l.Y, 1)
			})
			c.Require(play1, "C23-R2", key, r.Pos(), "stale accept only for play == 1", "a non-zero stale-accept period is returned outside play == 1: non-play requests would accept rows older than an invalidation; facts: "+core.FactsString(r.Block()))
		}
	}
	if fn := need(c, "C23-R2", pLoader2+"awaitCopyChunks"); fn != nil {
		for i, s := range core.CallsTo(fn, pLChunk2+"copy") {
			v := s.Arg(0)
			ok := holdsLit(s.Block(), func(l core.Lit) bool {
				u, isLd := l.Cond.(*ssa.UnOp)
				return !l.Pol && isLd && u.Op == token.MUL && core.IsField(u.X, tLChunk2, "wait") && u.X.(*ssa.FieldAddr).X == v
			})
			c.Require(ok, "C23-R2", fmt.Sprintf("%sawaitCopyChunks/copy#%d", pLoader2, i+1), s.Pos(), "cached rows are copied out only for a chunk decided !wait",
				"copy (serve cached rows) is called for a chunk on a path that has not established !wait for that chunk; facts: "+core.FactsString(s.Block()))
		}
	}

	// ---- R3 -------------------------------------------------------------------------
	c.Rule("C23-R3", "K6 exactly-once", 9, "loadChunks: one send on l.waitC on every path; awaiters taken and reset under the chunk mutex; per loader chunk, per taken awaiter exactly one send on its channel; await/run count one expected value per awaiter / per load goroutine")
	if fn := loadFn; fn != nil {
		// (a) own result
		var own []*ssa.Send
		var aw []*ssa.Send
		for _, b := range fn.Blocks {
			for _, in := range b.Instrs {
				if sd, ok := in.(*ssa.Send); ok {
					switch {
					case core.LoadsField(sd.Chan, tLoader2, "waitC"):
						own = append(own, sd)
					case core.LoadsField(sd.Chan, tAwaiter2, "loaderChan"):
						aw = append(aw, sd)
					}
				}
			}
		}
		key := pLoader2 + "loadChunks/waitC"
		if c.Require(len(own) == 1, "C23-R3", key+"/single", fn.Pos(), "one send of the loader's result", fmt.Sprintf("expected exactly one send on l.waitC in loadChunks, found %d (run counts one expected value for it)", len(own))) {
			sd := own[0]
			isSd := func(in ssa.Instruction) bool { return in == ssa.Instruction(sd) }
			p := core.ReachFromEntryWithout(fn, core.IsReturn, isSd)
			c.Require(p == nil && !core.OnCycle(sd), "C23-R3", key+"/every-path", sd.Pos(), "sent exactly once on every path",
				"the loader's result is not sent on l.waitC exactly once on every path (a path returns without it, or the send is in a loop): the requester waits forever or the goroutine blocks: "+pathStr(p))
		}
		// (b) awaiters
		key = pLoader2 + "loadChunks/awaiters"
		if c.Require(len(aw) == 1, "C23-R3", key+"/single", fn.Pos(), "one send site for awaiters", fmt.Sprintf("expected exactly one send on awaiter.loaderChan, found %d", len(aw))) {
			sd := aw[0]
			inner := rangeLoopOf(sd)
			var outer *rangeLoop
			if inner != nil {
				outer = rangeLoopOf(inner.header.Instrs[len(inner.header.Instrs)-1])
			}
			switch {
			case inner == nil || outer == nil:
				c.Undecided("C23-R3", key+"/shape", sd.Pos(), "the awaiter send is not inside a range-over-awaiters loop nested in a range-over-chunks loop")
			default:
				// the awaiter whose channel is used is the element of the ranged slice at the loop index
				elemOK := false
				if ld, ok := sd.Chan.(*ssa.UnOp); ok {
					if fa, ok := ld.X.(*ssa.FieldAddr); ok {
						elemOK = elementOfRange(fa.X, inner)
					}
				}
				c.Require(elemOK, "C23-R3", key+"/own-channel", sd.Pos(), "each awaiter is answered on its own channel", "the channel written is not the loaderChan of the awaiter of this iteration: "+core.Expr(sd.Chan))
				// the ranged slice is chunk.awaiters taken under the chunk mutex and reset there
				taken, ok := inner.slice.(*ssa.UnOp)
				var chunkPtr ssa.Value
				if ok && taken.Op == token.MUL && core.IsField(taken.X, tChunk2, "awaiters") {
					chunkPtr = taken.X.(*ssa.FieldAddr).X
				}
				swapped := false
				if chunkPtr != nil {
					li := an.Info(fn)
					mu := core.ObjKey(chunkPtr) + ".mu"
					for _, in := range taken.Block().Instrs {
						if st, isSt := in.(*ssa.Store); isSt && isFieldOfBase(st.Addr, tChunk2, "awaiters", chunkPtr) && isNilConst(st.Val) &&
							core.Dominates(taken, st) && li.HeldAt(taken, mu) == core.HeldWrite && li.HeldAt(st, mu) == core.HeldWrite {
							swapped = true
						}
					}
					// chunk is the loader chunk of the outer iteration
					if !fromRangeElem(chunkPtr, outer) {
						chunkPtr = nil
					}
				}
				c.Require(chunkPtr != nil && swapped, "C23-R3", key+"/taken-under-lock", sd.Pos(), "the awaiter list of the iteration's chunk is taken and reset under the chunk mutex",
					"the awaiters answered are not `chunk.awaiters` of the current loader chunk read and reset to nil in one critical section of the chunk mutex: an awaiter appended meanwhile is lost, or the list is answered again by the next load")
				isSd := func(in ssa.Instruction) bool { return in == ssa.Instruction(sd) }
				isHdr := func(l *rangeLoop) func(ssa.Instruction) bool {
					last := l.header.Instrs[len(l.header.Instrs)-1]
					return func(in ssa.Instruction) bool { return in == last }
				}
				p1 := reachFromBlock(inner.body, isHdr(inner), isSd)
				p2 := core.ReachWithout(sd, isSd, isHdr(inner))
				c.Require(p1 == nil && p2 == nil, "C23-R3", key+"/exactly-once", sd.Pos(), "every iteration over an awaiter sends exactly one value",
					"an awaiter can be skipped or answered twice in the loop over the taken awaiters (skipped: "+pathStr(p1)+", twice: "+pathStr(p2)+"): the waiting request never returns or the loader blocks")
				p3 := reachFromBlock(outer.body, isHdr(outer), isHdr(inner))
				c.Require(p3 == nil, "C23-R3", key+"/every-chunk", sd.Pos(), "every loader chunk (attached or not, success or error) answers its awaiters",
					"an iteration over the loader's chunks can reach the next chunk without running the awaiter loop: awaiters of that chunk are never answered: "+pathStr(p3))
			}
		}
	}
	// await: one awaiter appended and one expected value counted, run: one per goroutine
	for _, name := range []string{pLChunk2 + "await", pLoader2 + "run"} {
		fn := need(c, "C23-R3", name)
		if fn == nil {
			continue
		}
		var producers []ssa.Instruction
		for _, b := range fn.Blocks {
			for _, in := range b.Instrs {
				switch x := in.(type) {
				case *ssa.Store:
					if core.IsField(x.Addr, tChunk2, "awaiters") {
						producers = append(producers, in)
					}
				case *ssa.Go:
					if core.CalleeName(x.Common()) == pLoader2+"loadChunks" {
						producers = append(producers, in)
					}
				}
			}
		}
		var counts []*ssa.Store
		for _, d := range deltasOf([]*ssa.Function{fn}, tLoader2, "waitN") {
			if d.kind == "inc" && constIs(d.amount, 1) {
				counts = append(counts, d.st)
			} else {
				c.Fail("C23-R3", name+"/waitN", d.st.Pos(), "waitN is changed by something other than +1: "+core.Expr(d.st.Val))
			}
		}
		ok := len(producers) == 1 && len(counts) == 1 && producers[0].Block() == counts[0].Block() && !core.OnCycle(producers[0])
		c.Require(ok, "C23-R3", name+"/one-expected-value-per-producer", fn.Pos(), "one value expected (waitN++) per value that will be sent",
			fmt.Sprintf("%s registers %d producer(s) of a value on waitC (awaiter appended / loadChunks started) but counts %d expected value(s), or not in the same block: wait() reads a different number of values than will be sent", name, len(producers), len(counts)))
	}

	// ---- R4 -------------------------------------------------------------------------
	c.Rule("C23-R4", "K6 co-update", 2, "every store to cache2Chunk.size is preceded in its block by info.sizeS[mode] += new - old (or -= old when cleared)")
	nSize := 0
	for _, fw := range core.FieldWrites(fns, tChunk2, "size") {
		st, ok := fw.Instr.(*ssa.Store)
		if !ok {
			continue
		}
		fa := st.Addr.(*ssa.FieldAddr)
		if _, fresh := fa.X.(*ssa.Alloc); fresh {
			continue
		}
		nSize++
		c.Seen(core.FuncName(fw.Fn))
		key := fmt.Sprintf("%s/size=#%d", core.FuncName(fw.Fn), nSize)
		paired := false
		for _, in := range st.Block().Instrs {
			if in == ssa.Instruction(st) {
				break
			}
			ds, isSt := in.(*ssa.Store)
			if !isSt {
				continue
			}
			ia, isIA := ds.Addr.(*ssa.IndexAddr)
			if !isIA || !core.IsField(ia.X, tInfo2, "sizeS") {
				continue
			}
			bin, isBin := ds.Val.(*ssa.BinOp)
			if !isBin || !sameLoadOf(bin.X, ia) {
				continue
			}
			oldSize := func(v ssa.Value) bool { return isFieldLoadOf(v, tChunk2, "size", fa.X) }
			switch {
			case constIs(st.Val, 0) && bin.Op == token.SUB && oldSize(bin.Y):
				paired = true
			case bin.Op == token.ADD:
				if d, ok := bin.Y.(*ssa.BinOp); ok && d.Op == token.SUB && oldSize(d.Y) && (d.X == st.Val || core.Expr(d.X) == core.Expr(st.Val)) {
					paired = true
				}
			}
		}
		c.Require(paired, "C23-R4", key, st.Pos(), "size change is accounted in info.sizeS from the old size",
			"cache2Chunk.size is set to "+core.Expr(st.Val)+" without a preceding `info.sizeS[mode] += new - old` (or `-= old`) in the same block: the cache's memory accounting drifts and never returns to zero")
	}

	// ---- R5 -------------------------------------------------------------------------
	c.Rule("C23-R5", "K7 no aliasing", 3, "row slices stored into request data or into the cached chunk are make()+copy or append(dst[:0], src...) into the destination's own element")
	nRows := 0
	for _, fn := range fns {
		n := core.FuncName(fn)
		if !strings.HasPrefix(n, pLoader2) && !strings.HasPrefix(n, pLChunk2) {
			continue
		}
		for _, b := range fn.Blocks {
			for _, in := range b.Instrs {
				st, ok := in.(*ssa.Store)
				if !ok {
					continue
				}
				ia, ok := st.Addr.(*ssa.IndexAddr)
				if !ok || !isRowSlice(st.Val.Type()) {
					continue
				}
				nRows++
				c.Seen(n)
				key := fmt.Sprintf("%s/rows=#%d", n, nRows)
				okVal, why := false, ""
				switch v := st.Val.(type) {
				case *ssa.MakeSlice:
					okVal = true // fresh storage cannot alias anything
				case *ssa.Call:
					why = "not append(dst[:0], src...) into the destination's own element: " + core.Expr(v)
					if core.CalleeName(&v.Call) == "builtin append" && len(v.Call.Args) == 2 {
						if sl, ok := v.Call.Args[0].(*ssa.Slice); ok && sl.High != nil && constIs(sl.High, 0) && (sl.Low == nil || constIs(sl.Low, 0)) {
							okVal = core.Expr(sl.X) == strings.TrimPrefix(core.Expr(ia), "&")
						}
					}
				case *ssa.Const:
					okVal = v.Value == nil
				default:
					why = "stores " + core.Expr(st.Val) + ", which shares its backing array with another owner"
				}
				c.Require(okVal, "C23-R5", key, st.Pos(), "rows are copied, not shared",
					"a row slice is stored into "+core.Expr(ia)+" by reference ("+why+"): request results and cached chunks would share memory, so a later load or tag remap rewrites rows another request is reading")
			}
		}
	}

	// ---- R6 -------------------------------------------------------------------------
	c.Rule("C23-R6", "K4 lock discipline", 90, "*Locked/*Unlocked functions of cache2, cache2Shard, cache2Bucket called with the receiver's mutex held; cache2 runtime fields and cache2Shard.bucketM accessed under the mutex; mutexes balanced; getOrCreateLockedBucket returns locked, newLoader unlocks and runs init under it")
	bucketEffect := core.LockEffect{Func: "internal/api.(*cache2Shard).getOrCreateLockedBucket", Op: core.OpLock, On: "result", Type: tBucket2, Field: "mu",
		Reason: "documented in the code: the bucket is returned locked so that it cannot be deleted while the loader is initialised; the caller unlocks"}
	rep := core.RunLockDiscipline(c, &core.LockSpec{
		RuleCalls: "C23-R6", RuleAccess: "C23-R6", RuleBalance: "C23-R6",
		Funcs: cfns, CallerFuncs: fns,
		Effects: []core.LockEffect{bucketEffect},
		Types: []core.GuardedType{
			{Type: tCache2, Mutex: "mu", CheckReads: true, Suffixes: []string{"Locked", "Unlocked"},
				Fields:        []string{"info", "infoM", "limits", "shutdownF", "inflightBytes", "inflightReqID", "inflightReqM"},
				ReadOnlyCalls: []string{"internal/api.(*cache2RuntimeInfo).size", "internal/api.(*cache2RuntimeInfo).age"}},
			{Type: tShard2, Mutex: "mu", CheckReads: true, Suffixes: []string{"Locked", "Unlocked"}, Fields: []string{"bucketM"}},
			{Type: tBucket2, Mutex: "mu", Suffixes: []string{"Locked", "Unlocked"}},
		},
	})
	if fn := need(c, "C23-R6", "internal/api.(*cache2).newLoader"); fn != nil {
		gets := core.CallsTo(fn, bucketEffect.Func)
		inits := core.CallsTo(fn, pLoader2+"init")
		if len(gets) != 1 || len(inits) != 1 {
			c.Undecided("C23-R6", "internal/api.(*cache2).newLoader/shape", fn.Pos(), "expected one getOrCreateLockedBucket and one init call")
		} else {
			bucket := gets[0].Value()
			held := rep.An.Info(fn).HeldAt(inits[0].Instr, core.ObjKey(bucket)+".mu") == core.HeldWrite
			same := false
			for _, fw := range core.FieldWrites([]*ssa.Function{fn}, tLoader2, "bucket") {
				if st, ok := fw.Instr.(*ssa.Store); ok && st.Val == bucket && st.Addr.(*ssa.FieldAddr).X == inits[0].Arg(0) {
					same = true
				}
			}
			c.Require(held && same, "C23-R6", "internal/api.(*cache2).newLoader/init-under-bucket-lock", inits[0].Pos(), "init runs with the loader's bucket locked",
				"cache2Loader.init (which edits the bucket's chunk list without locking) is not called with the mutex of the bucket stored in the loader held")
		}
		whoMayCall(c, "C23-R6", fns, pLoader2+"init", []string{"internal/api.(*cache2).newLoader"}, "init edits bucket.times/chunks relying on the bucket lock taken by newLoader")
	}
	debugObs(c)
}

func isRowSlice(t types.Type) bool {
	sl, ok := t.Underlying().(*types.Slice)
	if !ok {
		return false
	}
	n, ok := sl.Elem().(*types.Named)
	return ok && core.TypeName(n) == "internal/api.tsSelectRow"
}

// sameLoadOf: v loads the element the IndexAddr ia addresses (same address value, or an
// address with the same canonical expression).
func sameLoadOf(v ssa.Value, ia *ssa.IndexAddr) bool {
	u, ok := v.(*ssa.UnOp)
	if !ok || u.Op != token.MUL {
		return false
	}
	return u.X == ssa.Value(ia) || core.Expr(u.X) == core.Expr(ia)
}

// rangeLoop describes a `for i, v := range slice` loop as lowered by go/ssa
// (rangeindex.loop: idx' = idx+1; if idx' < len(slice) goto body).
type rangeLoop struct {
	header *ssa.BasicBlock
	body   *ssa.BasicBlock
	index  ssa.Value // idx' (the incremented index used in the body)
	slice  ssa.Value
}

// rangeLoopOf finds the innermost range-over-slice loop containing the instruction.
func rangeLoopOf(in ssa.Instruction) *rangeLoop {
	var best *rangeLoop
	fn := in.Parent()
	for _, h := range fn.Blocks {
		if len(h.Instrs) == 0 {
			continue
		}
		ifi, ok := h.Instrs[len(h.Instrs)-1].(*ssa.If)
		if !ok {
			continue
		}
		cmp, ok := ifi.Cond.(*ssa.BinOp)
		if !ok || cmp.Op != token.LSS {
			continue
		}
		ln, ok := cmp.Y.(*ssa.Call)
		if !ok || core.CalleeName(&ln.Call) != "builtin len" {
			continue
		}
		inc, ok := cmp.X.(*ssa.BinOp)
		if !ok || inc.Op != token.ADD || !constIs(inc.Y, 1) {
			continue
		}
		if phi, ok := inc.X.(*ssa.Phi); !ok || phi.Block() != h {
			continue
		}
		body := h.Succs[0]
		// the instruction must be strictly inside the loop body
		if in.Block() == h {
			continue
		}
		if in.Block() != body && !reachesBlockAvoiding(body, in.Block(), h) {
			continue
		}
		l := &rangeLoop{header: h, body: body, index: inc, slice: ln.Call.Args[0]}
		// innermost: prefer the loop whose header is reachable from the other's body
		if best == nil || reachesBlockAvoiding(best.body, h, best.header) {
			best = l
		}
	}
	return best
}

func reachesBlockAvoiding(from, to, avoid *ssa.BasicBlock) bool {
	if from == to {
		return true
	}
	seen := map[*ssa.BasicBlock]bool{from: true, avoid: true}
	work := []*ssa.BasicBlock{from}
	for len(work) > 0 {
		b := work[0]
		work = work[1:]
		for _, s := range b.Succs {
			if s == to {
				return true
			}
			if !seen[s] {
				seen[s] = true
				work = append(work, s)
			}
		}
	}
	return false
}

// elementOfRange: obj is (the local copy of) slice[index] of the loop.
func elementOfRange(obj ssa.Value, l *rangeLoop) bool {
	for _, v := range baseChain(obj) {
		switch x := v.(type) {
		case *ssa.IndexAddr:
			if x.X == l.slice && x.Index == l.index {
				return true
			}
		case *ssa.Index:
			if x.X == l.slice && x.Index == l.index {
				return true
			}
		}
	}
	return false
}

// fromRangeElem: ptr is read from a field of the loop's element.
func fromRangeElem(ptr ssa.Value, l *rangeLoop) bool { return elementOfRange(ptr, l) }
