// Package props holds the per-property rule tables.
package props

import (
	"sort"

	"shverif/core"
)

// Property describes one property check.
type Property struct {
	ID string
	// Pkgs are the package patterns (module-relative, "./internal/agent") loaded in the quick tier.
	Pkgs []string
	// WholeProgram makes the thorough tier load ./... for who-may-write / who-may-call rules.
	Run func(c *core.Check)
	// Mutants are the positive controls (selftest).
	Mutants []Mutant
}

// Mutant is a positive control: a small compile-clean edit of an anchored file that
// must make the named rule report a violation.
type Mutant struct {
	Name       string
	File       string // repo-relative
	Old        string // text replaced (must occur exactly once unless Occurrence is set)
	Occurrence int    // 1-based occurrence of Old to replace when it occurs several times (0: must be unique)
	New        string
	Rule       string // rule expected to fire
}

var registry = map[string]*Property{}

// Register adds a property.
func Register(p *Property) { registry[p.ID] = p }

type extension struct {
	run     func(c *core.Check)
	mutants []Mutant
}

var extensions = map[string][]extension{}
var extended = map[string]bool{}

// Extend adds further rules (and their positive controls) to a registered property;
// used for rules added after a seeded change showed a gap. Order of init() does not matter.
func Extend(id string, run func(c *core.Check), mutants ...Mutant) {
	extensions[id] = append(extensions[id], extension{run, mutants})
}

// Get returns the property with the id (with its extensions applied).
func Get(id string) *Property {
	p := registry[id]
	if p == nil || extended[id] {
		return p
	}
	extended[id] = true
	base := p.Run
	exts := extensions[id]
	p.Run = func(c *core.Check) {
		base(c)
		for _, e := range exts {
			e.run(c)
		}
	}
	for _, e := range exts {
		p.Mutants = append(p.Mutants, e.mutants...)
	}
	return p
}

// IDs lists the registered ids.
func IDs() []string {
	var out []string
	for k := range registry {
		out = append(out, k)
	}
	sort.Strings(out)
	return out
}
