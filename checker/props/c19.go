package props

import (
	"fmt"
	"go/token"

	"golang.org/x/tools/go/ssa"

	"shverif/core"
)

func init() {
	Register(&Property{
		ID:   "C19",
		Pkgs: sqPkgs,
		Run:  runC19,
		Mutants: []Mutant{
			{Name: "schema-mapping-id-not-autoincrement", File: "internal/metadata/dbv2.go", Rule: "C19-R1",
				Old: "    id   INTEGER PRIMARY KEY AUTOINCREMENT,\n    name TEXT UNIQUE\n", New: "    id   INTEGER PRIMARY KEY,\n    name TEXT UNIQUE\n"},
			{Name: "schema-mapping-name-not-unique", File: "internal/metadata/dbv2.go", Rule: "C19-R1",
				Old: "    id   INTEGER PRIMARY KEY AUTOINCREMENT,\n    name TEXT UNIQUE\n", New: "    id   INTEGER PRIMARY KEY AUTOINCREMENT,\n    name TEXT\n"},
			{Name: "mapping-inserted-before-flood-limit-test", File: "internal/metadata/binlog_event.go", Rule: "C19-R2",
				Old: "\tpred := roundTime(now, stepSec)\n\tvar countToInsert = maxBudget\n\tvar timeUpdate uint32\n\tvar count int64\n\trow = conn.Query(\"select_flood_limit\", \"SELECT last_time_update, count_free from flood_limits WHERE metric_name = $name\",\n\t\tsqlite.BlobString(\"$name\", metricName))\n\tvar err error\n\tmetricLimitIsExists := row.Next()\n\tif row.Error() != nil {\n\t\treturn tlmetadata.GetMappingResponse0{Id: id}.AsUnion(), cache, row.Error()\n\t}\n\tskipFloodLimitModification := lastCreatedID > 0 && int64(lastCreatedID) <= globalBudget\n\tif metricLimitIsExists {\n\t\tlastTimeUpdate, _ := row.ColumnInt64(0)\n\t\ttimeUpdate = uint32(lastTimeUpdate)\n\t\tcount, _ = row.ColumnInt64(1)\n\t\tif !skipFloodLimitModification {\n\t\t\tcountToInsert = calcBudget(count, 1, timeUpdate, pred, maxBudget, budgetBonus, stepSec)\n\t\t\tif countToInsert < 0 {\n\t\t\t\treturn tlmetadata.GetMappingResponseFloodLimitError{}.AsUnion(), cache, nil\n\t\t\t}\n\t\t}\n\t\t_, err = conn.Exec(\"update_flood_limit\", \"UPDATE flood_limits SET last_time_update = $t, count_free = $c WHERE metric_name = $name\",\n\t\t\tsqlite.Int64(\"$t\", int64(pred)),\n\t\t\tsqlite.Int64(\"$c\", countToInsert),\n\t\t\tsqlite.BlobString(\"$name\", metricName))\n\t\tif err != nil {\n\t\t\treturn tlmetadata.GetMappingResponse{}, cache, err\n\t\t}\n\t} else {\n\t\tcountToInsert = maxBudget - 1\n\t\t_, err = conn.Exec(\"insert_flood_limit\", \"INSERT INTO flood_limits (last_time_update, count_free, metric_name) VALUES ($t, $c, $name)\",\n\t\t\tsqlite.Int64(\"$t\", int64(pred)),\n\t\t\tsqlite.Int64(\"$c\", countToInsert),\n\t\t\tsqlite.BlobString(\"$name\", metricName))\n\t}\n\tif err != nil {\n\t\treturn tlmetadata.GetMappingResponse{}, cache, fmt.Errorf(\"failed to update flood limits: %w\", err)\n\t}\n\n\tidResp, err := conn.Exec(\"insert_mapping\", \"INSERT INTO mappings (name) VALUES ($name)\", sqlite.BlobString(\"$name\", key))\n\tif err != nil {\n\t\treturn tlmetadata.GetMappingResponse{}, cache, fmt.Errorf(\"failed to insert mapping: %w\", err)\n\t}\n",
				New: "\tidResp, errIns := conn.Exec(\"insert_mapping\", \"INSERT INTO mappings (name) VALUES ($name)\", sqlite.BlobString(\"$name\", key))\n\tif errIns != nil {\n\t\treturn tlmetadata.GetMappingResponse{}, cache, fmt.Errorf(\"failed to insert mapping: %w\", errIns)\n\t}\n\tpred := roundTime(now, stepSec)\n\tvar countToInsert = maxBudget\n\tvar timeUpdate uint32\n\tvar count int64\n\trow = conn.Query(\"select_flood_limit\", \"SELECT last_time_update, count_free from flood_limits WHERE metric_name = $name\",\n\t\tsqlite.BlobString(\"$name\", metricName))\n\tvar err error\n\tmetricLimitIsExists := row.Next()\n\tif row.Error() != nil {\n\t\treturn tlmetadata.GetMappingResponse0{Id: id}.AsUnion(), cache, row.Error()\n\t}\n\tskipFloodLimitModification := lastCreatedID > 0 && int64(lastCreatedID) <= globalBudget\n\tif metricLimitIsExists {\n\t\tlastTimeUpdate, _ := row.ColumnInt64(0)\n\t\ttimeUpdate = uint32(lastTimeUpdate)\n\t\tcount, _ = row.ColumnInt64(1)\n\t\tif !skipFloodLimitModification {\n\t\t\tcountToInsert = calcBudget(count, 1, timeUpdate, pred, maxBudget, budgetBonus, stepSec)\n\t\t\tif countToInsert < 0 {\n\t\t\t\treturn tlmetadata.GetMappingResponseFloodLimitError{}.AsUnion(), cache, nil\n\t\t\t}\n\t\t}\n\t\t_, err = conn.Exec(\"update_flood_limit\", \"UPDATE flood_limits SET last_time_update = $t, count_free = $c WHERE metric_name = $name\",\n\t\t\tsqlite.Int64(\"$t\", int64(pred)),\n\t\t\tsqlite.Int64(\"$c\", countToInsert),\n\t\t\tsqlite.BlobString(\"$name\", metricName))\n\t\tif err != nil {\n\t\t\treturn tlmetadata.GetMappingResponse{}, cache, err\n\t\t}\n\t} else {\n\t\tcountToInsert = maxBudget - 1\n\t\t_, err = conn.Exec(\"insert_flood_limit\", \"INSERT INTO flood_limits (last_time_update, count_free, metric_name) VALUES ($t, $c, $name)\",\n\t\t\tsqlite.Int64(\"$t\", int64(pred)),\n\t\t\tsqlite.Int64(\"$c\", countToInsert),\n\t\t\tsqlite.BlobString(\"$name\", metricName))\n\t}\n\tif err != nil {\n\t\treturn tlmetadata.GetMappingResponse{}, cache, fmt.Errorf(\"failed to update flood limits: %w\", err)\n\t}\n\n"},
			{Name: "flood-limit-comparison-off-by-one", File: "internal/metadata/binlog_event.go", Rule: "C19-R2",
				Old: "\t\t\tif countToInsert < 0 {\n", New: "\t\t\tif countToInsert < -1 {\n"},
			{Name: "existing-mapping-not-returned", File: "internal/metadata/binlog_event.go", Rule: "C19-R2",
				Old: "\tif row.Next() {\n\t\tresp, _ := row.ColumnInt64(0)\n\t\tid := int32(resp)\n\t\treturn tlmetadata.GetMappingResponse0{Id: id}.AsUnion(), cache, nil\n\t}\n", New: ""},
			{Name: "mapping-insert-replaces", File: "internal/metadata/binlog_event.go", Rule: "C19-R2",
				Old: "\"INSERT INTO mappings (name) VALUES ($name)\"", New: "\"INSERT OR REPLACE INTO mappings (name) VALUES ($name)\""},
			{Name: "bypass-without-positive-id-test", File: "internal/metadata/binlog_event.go", Rule: "C19-R3",
				Old: "skipFloodLimitModification := lastCreatedID > 0 && int64(lastCreatedID) <= globalBudget", New: "skipFloodLimitModification := int64(lastCreatedID) <= globalBudget"},
			{Name: "bypass-comparison-inverted", File: "internal/metadata/binlog_event.go", Rule: "C19-R3",
				Old: "skipFloodLimitModification := lastCreatedID > 0 && int64(lastCreatedID) <= globalBudget", New: "skipFloodLimitModification := lastCreatedID > 0 && int64(lastCreatedID) >= globalBudget"},
			{Name: "bypass-compares-with-max-budget", File: "internal/metadata/dbv2.go", Rule: "C19-R3",
				Old: "getOrCreateMapping(conn, cache, metricName, key, now, db.globalBudget, db.maxBudget,", New: "getOrCreateMapping(conn, cache, metricName, key, now, db.maxBudget, db.maxBudget,"},
			{Name: "reset-style-unlogged-write-in-get-mapping-by-id", File: "internal/metadata/dbv2.go", Rule: "C19-R4",
				Old: "\t\tres, isExists, err = getMappingByID(conn, id)\n\t\treturn cache, err\n",
				New: "\t\tres, isExists, err = getMappingByID(conn, id)\n\t\tif err == nil && !isExists {\n\t\t\t_, err = conn.Exec(\"drop_mapping\", \"DELETE FROM mappings WHERE id = $id\", sqlite.Int64(\"$id\", int64(id)))\n\t\t}\n\t\treturn cache, err\n"},
		},
	})
}

const (
	sqFnGetOrCreate = sqPkgMeta + ".getOrCreateMapping"
	sqTblMappings   = "mappings"
	sqTblFlood      = "flood_limits"
)

// sqRowFoundCall is sqRowFound that also yields the (*Rows).Next call tested.
func sqRowFoundCall(b *ssa.BasicBlock, want bool, pred func(*core.SQLSite) bool) (*core.SQLSite, *ssa.Call) {
	for _, g := range core.Facts(b) {
		if len(g.Alts) != 1 || g.Alts[0].Pol != want {
			continue
		}
		call := sqRowsNextCall(g.Alts[0])
		if call == nil {
			continue
		}
		if q := sqRowsQuery(call); q != nil && pred(q) {
			return q, call
		}
	}
	return nil, nil
}

func runC19(c *core.Check) {
	c.Decides = "(R1) schema literal: mappings.id INTEGER PRIMARY KEY AUTOINCREMENT (ids never reused) and mappings.name UNIQUE (one id per string); " +
		"(R2) getOrCreateMapping: the only write to mappings is a plain INSERT of the requested key, dominated by rows.Next()==false of the SELECT by that same key; the found-row branch reaches no write; " +
		"the flood-limit error return is dominated by calcBudget(...) < 0, is not reachable after any write, and the negative branch reaches no write; the budget stored in flood_limits flows from calcBudget; " +
		"every path to the mapping INSERT passes a flood_limits write whose error was nil; getOrCreateMapping is called only from the closure GetOrCreateMapping passes to Engine.Do, on that closure's connection; " +
		"(R3) the flood-limit test is skipped only under `lastCreatedID > 0 && int64(lastCreatedID) <= globalBudget`, with these parameters fed from DBV2.lastMappingIDToInsert / DBV2.globalBudget, " +
		"and without the bypass the flood_limits UPDATE is unreachable without calcBudget; (R4 = C16-R2) no transaction callback leaves an un-logged write (ResetFlood: known finding F7)."
	c.NotDecided = "the token-bucket inequality itself (calcBudget / roundTime arithmetic over time spans); putMapping's INSERT OR REPLACE (administrative remap) versus 'never changes'; " +
		"deletion and re-creation histories; that SQLite honours AUTOINCREMENT/UNIQUE as documented."

	all := c.Prog.Funcs()
	meta := c.Prog.FuncsIn(sqPkgMeta)

	// ---- R1 -----------------------------------------------------------------------------------
	c.Rule("C19-R1", "K11 schema", 4, "schema literal: mappings.id INTEGER PRIMARY KEY AUTOINCREMENT, mappings.name UNIQUE; the literal is the schema handed to the engine")
	sc := sqMetaSchema(c, "C19-R1")
	if t := sqNeedTable(c, "C19-R1", sc, sqTblMappings); t != nil {
		_, pos, _ := c.Prog.GlobalStringInit(sqPkgMeta, "scheme")
		id, name := t.Col("id"), t.Col("name")
		c.Require(id != nil && id.PrimaryKey && id.AutoIncrement && id.Type == "INTEGER", "C19-R1", "schema/"+sqTblMappings+".id/autoincrement-key", pos,
			"ids are assigned by SQLite and never reused", "mappings.id is not INTEGER PRIMARY KEY AUTOINCREMENT: without AUTOINCREMENT SQLite reuses the rowid of a deleted last row, handing a deleted id out again")
		c.Require(name != nil && t.HasUnique("name"), "C19-R1", "schema/"+sqTblMappings+".name/unique", pos,
			"one id per string", "mappings.name is not UNIQUE: two rows (ids) could map the same string")
	}

	// ---- R2 -----------------------------------------------------------------------------------
	c.Rule("C19-R2", "K1 guard-dominance + K6 + K2", 9, "getOrCreateMapping guard structure around the mapping INSERT and the flood-limit error (see coverage.explanation)")
	c.Rule("C19-R3", "K1 guard-dominance + K7", 6, "the flood-limit test is bypassed only under lastCreatedID > 0 && int64(lastCreatedID) <= globalBudget, fed from DBV2.lastMappingIDToInsert / DBV2.globalBudget")
	fn := need(c, "C19-R2", sqFnGetOrCreate)
	if fn != nil {
		sum := core.NewSQLSummary(meta)
		sites := core.SQLSites(fn)
		keys := core.SQLKeys(sites)
		var mapWrites, floodWrites []*core.SQLSite
		var mapKeys []string
		for i, q := range sites {
			if !q.IsWrite() {
				continue
			}
			if q.Stmt == nil {
				c.Undecided("C19-R2", keys[i], q.Pos(), "statement cannot be parsed: "+q.Desc())
				continue
			}
			switch q.Stmt.Table {
			case sqTblMappings:
				mapWrites = append(mapWrites, q)
				mapKeys = append(mapKeys, keys[i])
			case sqTblFlood:
				floodWrites = append(floodWrites, q)
			}
		}
		isFloodWrite := func(in ssa.Instruction) bool {
			for _, w := range floodWrites {
				if in == ssa.Instruction(w.Instr) {
					return true
				}
			}
			return false
		}
		if len(mapWrites) == 0 {
			c.Fail("C19-R2", sqFnGetOrCreate+"/INSERT "+sqTblMappings, fn.Pos(), "getOrCreateMapping never inserts into mappings (anchor of the rule)")
		}
		for i, ins := range mapWrites {
			c.CallSites++
			key := mapKeys[i]
			if !c.Require(ins.Stmt.Verb == "INSERT", "C19-R2", key+"/plain-insert", ins.Pos(), "plain INSERT (fails on an existing name instead of remapping it)",
				"get-or-create writes mappings with "+ins.Stmt.Verb+": an existing mapping could be replaced or removed") {
				continue
			}
			nv, has := ins.Stmt.ValueOf("name")
			nb, bound := ins.Bind(nv.Param)
			if !has || nv.Param == "" || !bound {
				c.Undecided("C19-R2", key+"/name", ins.Pos(), "the inserted name is not a single bound parameter")
				continue
			}
			byName := func(q *core.SQLSite) bool {
				if q.Stmt == nil || q.Stmt.Verb != "SELECT" || q.Stmt.Table != sqTblMappings || q.Stmt.WhereComplex || len(q.Stmt.Where) != 1 {
					return false
				}
				b, why := sqEqBind(q, "name", "=")
				return why == "" && core.SameValue(b.Val, nb.Val)
			}
			sel, next := sqRowFoundCall(ins.Block(), false, byName)
			if !c.Require(sel != nil, "C19-R2", key+"/only-when-absent", ins.Pos(), "INSERT dominated by rows.Next()==false of the SELECT by the same name",
				"the mapping INSERT is not dominated by the lookup of the same key having returned no row: repeated calls could fail or create a second id") {
				continue
			}
			// found row: no write at all
			if ifi := ifOn(fn, next); ifi != nil {
				p := reachFromBlock(ifi.Block().Succs[0], sum.IsWriteInstr, nil)
				c.Require(p == nil, "C19-R2", key+"/found-row-writes-nothing", next.Pos(), "an existing mapping is returned without any write",
					"after the lookup found the key a write is still reachable: "+pathStr(p))
			} else {
				c.Undecided("C19-R2", key+"/found-row-writes-nothing", next.Pos(), "the lookup result is not branched on directly")
			}
			// flood-limit row first
			if len(floodWrites) == 0 {
				c.Fail("C19-R2", key+"/flood-limit-first", ins.Pos(), "no flood_limits write in getOrCreateMapping: creation is not charged to the metric's budget")
			} else {
				p := core.ReachFromEntryWithout(fn, func(in ssa.Instruction) bool { return in == ssa.Instruction(ins.Instr) }, isFloodWrite)
				var errs []ssa.Value
				for _, w := range floodWrites {
					errs = append(errs, sqErrResult(w.Value()))
				}
				c.Require(p == nil && sqHoldsDisj(ins.Block(), sqLitNil(true, errs...)), "C19-R2", key+"/flood-limit-first", ins.Pos(), "every path to the INSERT wrote the flood-limit row successfully before",
					"the mapping INSERT is reachable without a preceding successful flood_limits write: "+pathStr(p))
			}
		}
		// flood-limit error
		calcs := core.CallsTo(fn, sqPkgMeta+".calcBudget")
		isCalc := func(v ssa.Value) bool {
			for _, k := range calcs {
				if v == k.Value() {
					return true
				}
			}
			return false
		}
		negative := sqLitCmpConst(token.LSS, isCalc, 0, true)
		nFlood := 0
		nr := 0
		for _, r := range core.Returns(fn) {
			nr++
			vals := core.ReturnedValues(r)
			call, ok := vals[0].(*ssa.Call)
			if !ok {
				continue
			}
			cf, _ := call.Call.Value.(*ssa.Function)
			if cf == nil || cf.Name() != "AsUnion" || sqTlRecv(cf) != sqPkgTL+".MetadataGetMappingResponseFloodLimitError" {
				continue
			}
			nFlood++
			key := fmt.Sprintf("%s/return#%d/flood-limit-error", sqFnGetOrCreate, nr)
			c.Require(sqHoldsDisj(r.Block(), negative), "C19-R2", key+"/guard", r.Pos(), "flood-limit error only when the computed budget is negative",
				"the flood-limit error is not guarded by calcBudget(...) < 0; facts: "+sqShorten(core.FactsString(r.Block()), 300))
			after := false
			for _, w := range core.Calls(fn) {
				if sum.IsWriteInstr(w.Instr) && core.ReachWithout(w.Instr, func(in ssa.Instruction) bool { return in == ssa.Instruction(r) }, nil) != nil {
					after = true
				}
			}
			c.Require(!after, "C19-R2", key+"/before-writes", r.Pos(), "the error precedes every write", "the flood-limit error can be returned after a write (nil error: the write would be kept)")
		}
		if nFlood == 0 {
			c.Fail("C19-R2", sqFnGetOrCreate+"/flood-limit-error", fn.Pos(), "getOrCreateMapping never returns GetMappingResponseFloodLimitError: requests beyond the budget are not refused")
		}
		nTests := 0
		for _, b := range fn.Blocks {
			ifi, ok := b.Instrs[len(b.Instrs)-1].(*ssa.If)
			if !ok {
				continue
			}
			l := core.NormLit(ifi.Cond, true)
			if l.Op != token.LSS || !isCalc(l.X) || !core.IsConstInt(l.Y, 0) {
				continue
			}
			nTests++
			neg := b.Succs[0]
			if !l.Pol {
				neg = b.Succs[1]
			}
			p := reachFromBlock(neg, sum.IsWriteInstr, nil)
			c.Require(p == nil, "C19-R2", fmt.Sprintf("%s/budget-test#%d/negative-writes-nothing", sqFnGetOrCreate, nTests), ifi.Pos(), "a negative budget reaches no write",
				"with a negative budget a write is still reachable: "+pathStr(p))
		}
		if nTests == 0 && len(calcs) > 0 {
			c.Fail("C19-R2", sqFnGetOrCreate+"/budget-test", calcs[0].Pos(), "the result of calcBudget is never compared with 0")
		}
		if len(calcs) == 0 {
			c.Anchor("C19-R2", sqPkgMeta+".calcBudget called from getOrCreateMapping")
		}
		// the stored budget is the computed one
		for _, w := range floodWrites {
			if w.Stmt.Verb != "UPDATE" {
				continue
			}
			v, has := w.Stmt.ValueOf("count_free")
			b, bound := w.Bind(v.Param)
			okFlow := has && bound && len(calcs) == 1 && sqFlowsFrom(b.Val, calcs[0].Value())
			c.Require(okFlow, "C19-R2", sqFnGetOrCreate+"/UPDATE "+sqTblFlood+"/stores-computed-budget", w.Pos(), "count_free is the value computed by calcBudget",
				"the budget written to flood_limits does not flow from calcBudget")
		}
		// one transaction: only caller is the Do closure of GetOrCreateMapping
		isDo := map[*ssa.Function]bool{}
		for _, d := range sqDoClosures(c, "C19-R2", meta) {
			isDo[d.Fn] = true
		}
		callers := core.Callers(all, sqFnGetOrCreate)
		ck := core.Ordinals(callers)
		for i, s := range callers {
			c.CallSites++
			c.Require(isDo[s.Fn] && sqConnParam(s.Arg(0)) == s.Fn.Params[0] && len(s.Fn.Params) > 1 && s.Arg(1) == ssa.Value(s.Fn.Params[1]), "C19-R2", ck[i]+"/one-transaction", s.Pos(),
				"called from an Engine.Do callback with that callback's connection and event buffer",
				"getOrCreateMapping is called from "+core.FuncName(s.Fn)+", which is not an Engine.Do callback passing its own connection and buffer: lookup and insert would not be one transaction")
		}
		if len(callers) == 0 {
			c.Fail("C19-R2", sqFnGetOrCreate+"/callers", fn.Pos(), "getOrCreateMapping has no caller")
		}
		for _, u := range core.FuncValueUses(all, sqFnGetOrCreate) {
			c.Fail("C19-R2", sqFnGetOrCreate+"/value-use", u.Pos(), "getOrCreateMapping is used as a function value (escapes the one-transaction rule)")
		}

		// ---- R3 -------------------------------------------------------------------------------
		if len(calcs) == 1 {
			calc := calcs[0]
			var skip *ssa.Phi
			for _, g := range core.Facts(calc.Block()) {
				if len(g.Alts) == 1 && !g.Alts[0].Pol && g.Alts[0].Op == 0 {
					if ph, ok := g.Alts[0].Cond.(*ssa.Phi); ok {
						skip = ph
						break
					}
				}
			}
			var pLast, pBudget *ssa.Parameter
			shape := ""
			if skip == nil {
				shape = "calcBudget is not guarded by the negation of a && condition"
			} else if lits, ok := sqConjuncts(skip); !ok || len(lits) != 2 {
				shape = "the bypass is not a conjunction of two comparisons: " + core.Expr(skip)
			} else {
				// int64(a) <= b  ==>  (b < int64(a)) false ;  a > 0  ==>  (0 < a) true
				var a *ssa.Parameter
				within := func(l core.Lit) bool {
					if l.Op != token.LSS || l.Pol {
						return false
					}
					b, _ := l.X.(*ssa.Parameter)
					y := l.Y
					if cv, ok := y.(*ssa.Convert); ok {
						y = cv.X
					}
					pa, _ := y.(*ssa.Parameter)
					if pa == nil || b == nil {
						return false
					}
					a, pBudget = pa, b
					return true
				}
				positive := func(l core.Lit) bool {
					return l.Op == token.LSS && l.Pol && core.IsConstInt(l.X, 0) && a != nil && l.Y == ssa.Value(a)
				}
				if sqConjunctsAre(lits, within, positive) {
					pLast = a
				} else {
					shape = fmt.Sprintf("the operands are %v, expected `p > 0` and `int64(p) <= q` for parameters p, q", lits)
				}
			}
			c.Require(pLast != nil && shape == "", "C19-R3", sqFnGetOrCreate+"/bypass-shape", calc.Pos(), "bypass is `lastCreatedID > 0 && int64(lastCreatedID) <= globalBudget`",
				"the flood-limit test is skipped under a different condition: "+shape)
			if pLast != nil && shape == "" {
				// without the bypass the flood-limit UPDATE cannot be reached without calcBudget
				for _, w := range floodWrites {
					if w.Stmt.Verb != "UPDATE" {
						continue
					}
					p := core.ReachAssuming(fn, func(in ssa.Instruction) bool { return in == ssa.Instruction(w.Instr) },
						func(in ssa.Instruction) bool { return in == calc.Instr }, func(l core.Lit) bool { return l.Op == 0 && l.Cond == ssa.Value(skip) && l.Pol })
					c.Require(p == nil, "C19-R3", sqFnGetOrCreate+"/UPDATE "+sqTblFlood+"/only-bypass-skips-budget", w.Pos(), "an existing budget row is updated without calcBudget only under the bypass",
						"the budget row can be updated without calcBudget although the bypass does not hold: "+pathStr(p))
					c.Require(sqHoldsDisj(w.Block(), sqLitIsValue(skip, true), sqLitCmpConst(token.LSS, isCalc, 0, false)), "C19-R3", sqFnGetOrCreate+"/UPDATE "+sqTblFlood+"/guard", w.Pos(),
						"update under bypass or non-negative budget", "the budget row is updated outside `bypass || calcBudget(...) >= 0`")
				}
				for i, s := range callers {
					okL := core.LoadsField(s.Arg(sqParamIndex(pLast)), sqTDBV2, "lastMappingIDToInsert")
					okB := core.LoadsField(s.Arg(sqParamIndex(pBudget)), sqTDBV2, "globalBudget")
					c.Require(okL && okB, "C19-R3", ck[i]+"/bypass-inputs", s.Pos(), "bypass compares DBV2.lastMappingIDToInsert with DBV2.globalBudget",
						fmt.Sprintf("the bypass operands are fed from %s and %s instead of DBV2.lastMappingIDToInsert and DBV2.globalBudget", core.Expr(s.Arg(sqParamIndex(pLast))), core.Expr(s.Arg(sqParamIndex(pBudget)))))
				}
			}
		} else if len(calcs) > 1 {
			c.Undecided("C19-R3", sqFnGetOrCreate+"/calcBudget", fn.Pos(), "more than one calcBudget call")
		}
		// who may write the bypass inputs
		for _, f := range []struct{ field, allowed, why string }{
			{"lastMappingIDToInsert", sqPkgMeta + ".(*DBV2).GetOrCreateMapping", "only a created mapping advances the last created id"},
			{"globalBudget", sqPkgMeta + ".OpenDB", "the global budget is configuration"},
		} {
			for j, w := range core.FieldWrites(all, sqTDBV2, f.field) {
				who := core.FuncName(w.Fn)
				c.Require(who == f.allowed || len(who) > len(f.allowed) && who[:len(f.allowed)+1] == f.allowed+"$", "C19-R3", fmt.Sprintf("%s.%s/writer#%d", sqTDBV2, f.field, j+1), w.Instr.Pos(),
					"allowed writer", "DBV2."+f.field+" is written in "+who+" ("+f.why+")")
			}
		}
	}

	// ---- R4 -----------------------------------------------------------------------------------
	c.Rule("C19-R4", "K6 pairing (= C16-R2)", 13, "no transaction callback passed to Engine.Do can return the untouched event buffer with a nil error after a write: flood-limit and mapping changes must be replicated through the binlog")
	sqRuleUnloggedWrites(c, "C19-R4")
}
