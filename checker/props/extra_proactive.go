package props

import (
	"fmt"
	"go/ast"
	"go/constant"
	"go/types"
	"strings"

	"golang.org/x/tools/go/ssa"

	"shverif/core"
)

// Rules written from reading the anchored code (no seeded change behind them): table
// agreement and guards of the PromQL push-down rewrite (C27). See DESIGN.md §11.2.

func init() {
	Extend("C27", runC27Proactive,
		Mutant{Name: "pushdown-min-over-time-as-max", File: "internal/promql/reductions.go", Rule: "C27-R11",
			Old: "	case \"min_over_time\":\n		what = Min", New: "	case \"min_over_time\":\n		what = Max"},
		Mutant{Name: "pushdown-aggregate-max-as-min", File: "internal/promql/reductions.go", Rule: "C27-R11",
			Old: "	case parser.MAX:\n		what = Max", New: "	case parser.MAX:\n		what = Min"},
		Mutant{Name: "pushdown-stddev-without-step-guard", File: "internal/promql/reductions.go", Rule: "C27-R12",
			Old: "	case \"stddev_over_time\":\n		if r.step != step {\n			return false\n		}\n", New: "	case \"stddev_over_time\":\n"},
		Mutant{Name: "pushdown-range-wider-than-step", File: "internal/promql/reductions.go", Rule: "C27-R12",
			Old: "	sel, ok := e.(*parser.MatrixSelector)\n	if !ok || sel.Range > step {", New: "	sel, ok := e.(*parser.MatrixSelector)\n	if !ok {"},
		Mutant{Name: "pushdown-subquery-range-boundary", File: "internal/promql/reductions.go", Rule: "C27-R12",
			Old: "	sel, ok := e.(*parser.SubqueryExpr)\n	if !ok || sel.Range > step {", New: "	sel, ok := e.(*parser.SubqueryExpr)\n	if !ok || sel.Range > 2*step {"})
}

func runC27Proactive(c *core.Check) {
	c.Decides += " R11 the push-down tables name the storage function of the operator they rewrite: `<f>_over_time` is rewritten to the storage function whose name is <f>, an aggregation operator OP to the storage function named op or op+`sec`; R12 a matrix selector / subquery is pushed down only when its range does not exceed the step bound, and stddev/stdvar_over_time only when the range equals it (a deviation cannot be merged from several storage points)."
	const r11 = "C27-R11"
	c.Rule(r11, "K5 table agreement", 12, "in reduceOverTimeCall / reduceAggregateExpr every case that assigns a storage-function constant assigns the one named after the case constant")
	for _, t := range []struct {
		fn     string
		suffix string
		sec    bool
	}{{"reduceOverTimeCall", "_over_time", false}, {"reduceAggregateExpr", "", true}} {
		fd, pk := c.Prog.FuncDecl(c27pkg, t.fn)
		if fd == nil || fd.Body == nil {
			c.Anchor(r11, c27pkg+"."+t.fn)
			continue
		}
		n := 0
		ast.Inspect(fd.Body, func(nd ast.Node) bool {
			sw, ok := nd.(*ast.SwitchStmt)
			if !ok || sw.Tag == nil {
				return true
			}
			for _, s := range sw.Body.List {
				cc, ok := s.(*ast.CaseClause)
				if !ok || len(cc.List) == 0 {
					continue
				}
				var names []string
				for _, e := range cc.List {
					k := core.ResolveKey(pk, e)
					switch {
					case k.Val != nil && k.Val.Kind() == constant.String:
						names = append(names, strings.TrimSuffix(constant.StringVal(k.Val), t.suffix))
					case k.Obj != nil:
						names = append(names, strings.ToLower(k.Obj.Name()))
					}
				}
				for _, st := range cc.Body {
					ast.Inspect(st, func(x ast.Node) bool {
						as, ok := x.(*ast.AssignStmt)
						if !ok || len(as.Lhs) != 1 || len(as.Rhs) != 1 {
							return true
						}
						id, ok := as.Rhs[0].(*ast.Ident)
						if !ok {
							return true
						}
						kc, ok := pk.TypesInfo.Uses[id].(*types.Const)
						if !ok || kc.Val().Kind() != constant.String {
							return true
						}
						n++
						v := constant.StringVal(kc.Val())
						good := false
						for _, nm := range names {
							if v == nm || (t.sec && v == nm+"sec") {
								good = true
							}
						}
						c.Require(good, r11, fmt.Sprintf("%s.%s/case:%s", c27pkg, t.fn, strings.Join(names, ",")), as.Pos(), "case assigns the storage function it is named after",
							fmt.Sprintf("%s rewrites %s to the storage function %q (constant %s): the pushed-down query computes another function than the operator it replaces", t.fn, strings.Join(names, ","), v, kc.Name()))
						return true
					})
				}
			}
			return true
		})
		if n == 0 {
			c.Undecided(r11, c27pkg+"."+t.fn+"/cases", fd.Pos(), "no case assigning a storage-function constant found")
		}
	}

	const r12 = "C27-R12"
	c.Rule(r12, "K1 guard dominance", 4, "reduceMatrixSelector / reduceSubQueryExpr store the range only under !(step < Range); the stddev/stdvar cases of reduceOverTimeCall assign their function only under (r.step == step)")
	for _, name := range []string{"reduceMatrixSelector", "reduceSubQueryExpr"} {
		fn := need(c, r12, c27pkg+"."+name)
		if fn == nil {
			continue
		}
		n := 0
		for _, w := range core.FieldStoresU([]*ssa.Function{fn}, c27pkg+".reduction", "step") {
			n++
			c.Require(core.Holds(w.Instr.Block(), core.F("({2:int64} < *.Range)")), r12, fmt.Sprintf("%s.%s/store:step#%d", c27pkg, name, n), w.Instr.Pos(), "range pushed down only when it fits the step bound",
				name+" accepts a range without the test Range <= step (facts: "+core.FactsString(w.Instr.Block())+"): a window wider than one storage point is answered from a single point")
		}
		if n == 0 {
			c.Undecided(r12, c27pkg+"."+name+"/store:step", fn.Pos(), "no store of reduction.step found")
		}
	}
	if fn := need(c, r12, c27pkg+".reduceOverTimeCall"); fn != nil {
		n := 0
		for _, b := range fn.Blocks {
			for _, in := range b.Instrs {
				call, ok := in.(*ssa.Call)
				if !ok || core.CalleeName(&call.Call) != c27pkg+".reduceWhat" {
					continue
				}
				// the second argument is a phi over the cases' constants; check the edges
				phi, ok := call.Call.Args[1].(*ssa.Phi)
				if !ok {
					c.Undecided(r12, c27pkg+".reduceOverTimeCall/what", call.Pos(), "the storage function handed to reduceWhat is not a phi over the cases")
					continue
				}
				for i, e := range phi.Edges {
					k, ok := e.(*ssa.Const)
					if !ok || k.Value == nil || k.Value.Kind() != constant.String {
						continue
					}
					v := constant.StringVal(k.Value)
					if v != "stddev" && v != "stdvar" {
						continue
					}
					n++
					pred := b.Preds[i]
					c.Require(core.Holds(pred, core.T("(*.step == {2:int64})")), r12, fmt.Sprintf("%s.reduceOverTimeCall/case:%s", c27pkg, v), call.Pos(), "deviation pushed down only for range == step",
						v+"_over_time is rewritten without the test r.step == step (facts: "+core.FactsString(pred)+"): a deviation over several storage points cannot be merged from their deviations")
				}
			}
		}
		if n < 2 {
			c.Undecided(r12, c27pkg+".reduceOverTimeCall/deviation-cases", fn.Pos(), fmt.Sprintf("expected the stddev and stdvar cases, found %d", n))
		}
	}
}
