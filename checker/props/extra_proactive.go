package props

import (
	"fmt"
	"go/ast"
	"go/constant"
	"go/token"
	"go/types"
	"strings"

	"golang.org/x/tools/go/ssa"

	"shverif/core"
)

// Rules written from reading the anchored code (no seeded change behind them): table
// agreement and guards of the PromQL push-down rewrite (C27). See DESIGN.md §11.2.

func init() {
	Extend("C27", runC27Proactive,
		Mutant{Name: "pushdown-min-over-time-as-max", File: "internal/promql/reductions.go", Rule: "C27-R11",
			Old: "	case \"min_over_time\":\n		what = Min", New: "	case \"min_over_time\":\n		what = Max"},
		Mutant{Name: "pushdown-aggregate-max-as-min", File: "internal/promql/reductions.go", Rule: "C27-R11",
			Old: "	case parser.MAX:\n		what = Max", New: "	case parser.MAX:\n		what = Min"},
		Mutant{Name: "pushdown-stddev-without-step-guard", File: "internal/promql/reductions.go", Rule: "C27-R12",
			Old: "	case \"stddev_over_time\":\n		if r.step != step {\n			return false\n		}\n", New: "	case \"stddev_over_time\":\n"},
		Mutant{Name: "pushdown-range-wider-than-step", File: "internal/promql/reductions.go", Rule: "C27-R12",
			Old: "	sel, ok := e.(*parser.MatrixSelector)\n	if !ok || sel.Range > step {", New: "	sel, ok := e.(*parser.MatrixSelector)\n	if !ok {"},
		Mutant{Name: "pushdown-subquery-range-boundary", File: "internal/promql/reductions.go", Rule: "C27-R12",
			Old: "	sel, ok := e.(*parser.SubqueryExpr)\n	if !ok || sel.Range > step {", New: "	sel, ok := e.(*parser.SubqueryExpr)\n	if !ok || sel.Range > 2*step {"})
}

func runC27Proactive(c *core.Check) {
	c.Decides += " R11 the push-down tables name the storage function of the operator they rewrite: `<f>_over_time` is rewritten to the storage function whose name is <f>, an aggregation operator OP to the storage function named op or op+`sec`; R12 a matrix selector / subquery is pushed down only when its range does not exceed the step bound, and stddev/stdvar_over_time only when the range equals it (a deviation cannot be merged from several storage points)."
	const r11 = "C27-R11"
	c.Rule(r11, "K5 table agreement", 12, "in reduceOverTimeCall / reduceAggregateExpr every case that assigns a storage-function constant assigns the one named after the case constant")
	for _, t := range []struct {
		fn     string
		suffix string
		sec    bool
	}{{"reduceOverTimeCall", "_over_time", false}, {"reduceAggregateExpr", "", true}} {
		fd, pk := c.Prog.FuncDecl(c27pkg, t.fn)
		if fd == nil || fd.Body == nil {
			c.Anchor(r11, c27pkg+"."+t.fn)
			continue
		}
		n := 0
		ast.Inspect(fd.Body, func(nd ast.Node) bool {
			sw, ok := nd.(*ast.SwitchStmt)
			if !ok || sw.Tag == nil {
				return true
			}
			for _, s := range sw.Body.List {
				cc, ok := s.(*ast.CaseClause)
				if !ok || len(cc.List) == 0 {
					continue
				}
				var names []string
				for _, e := range cc.List {
					k := core.ResolveKey(pk, e)
					switch {
					case k.Val != nil && k.Val.Kind() == constant.String:
						names = append(names, strings.TrimSuffix(constant.StringVal(k.Val), t.suffix))
					case k.Obj != nil:
						names = append(names, strings.ToLower(k.Obj.Name()))
					}
				}
				for _, st := range cc.Body {
					ast.Inspect(st, func(x ast.Node) bool {
						as, ok := x.(*ast.AssignStmt)
						if !ok || len(as.Lhs) != 1 || len(as.Rhs) != 1 {
							return true
						}
						id, ok := as.Rhs[0].(*ast.Ident)
						if !ok {
							return true
						}
						kc, ok := pk.TypesInfo.Uses[id].(*types.Const)
						if !ok || kc.Val().Kind() != constant.String {
							return true
						}
						n++
						v := constant.StringVal(kc.Val())
						good := false
						for _, nm := range names {
							if v == nm || (t.sec && v == nm+"sec") {
								good = true
							}
						}
						c.Require(good, r11, fmt.Sprintf("%s.%s/case:%s", c27pkg, t.fn, strings.Join(names, ",")), as.Pos(), "case assigns the storage function it is named after",
							fmt.Sprintf("%s rewrites %s to the storage function %q (constant %s): the pushed-down query computes another function than the operator it replaces", t.fn, strings.Join(names, ","), v, kc.Name()))
						return true
					})
				}
			}
			return true
		})
		if n == 0 {
			c.Undecided(r11, c27pkg+"."+t.fn+"/cases", fd.Pos(), "no case assigning a storage-function constant found")
		}
	}

	const r12 = "C27-R12"
	c.Rule(r12, "K1 guard dominance", 4, "reduceMatrixSelector / reduceSubQueryExpr store the range only under !(step < Range); the stddev/stdvar cases of reduceOverTimeCall assign their function only under (r.step == step)")
	for _, name := range []string{"reduceMatrixSelector", "reduceSubQueryExpr"} {
		fn := need(c, r12, c27pkg+"."+name)
		if fn == nil {
			continue
		}
		n := 0
		for _, w := range core.FieldStoresU([]*ssa.Function{fn}, c27pkg+".reduction", "step") {
			n++
			c.Require(core.Holds(w.Instr.Block(), core.F("({2:int64} < *.Range)")), r12, fmt.Sprintf("%s.%s/store:step#%d", c27pkg, name, n), w.Instr.Pos(), "range pushed down only when it fits the step bound",
				name+" accepts a range without the test Range <= step (facts: "+core.FactsString(w.Instr.Block())+"): a window wider than one storage point is answered from a single point")
		}
		if n == 0 {
			c.Undecided(r12, c27pkg+"."+name+"/store:step", fn.Pos(), "no store of reduction.step found")
		}
	}
	if fn := need(c, r12, c27pkg+".reduceOverTimeCall"); fn != nil {
		n := 0
		for _, b := range fn.Blocks {
			for _, in := range b.Instrs {
				call, ok := in.(*ssa.Call)
				if !ok || core.CalleeName(&call.Call) != c27pkg+".reduceWhat" {
					continue
				}
				// the second argument is a phi over the cases' constants; check the edges
				phi, ok := call.Call.Args[1].(*ssa.Phi)
				if !ok {
					c.Undecided(r12, c27pkg+".reduceOverTimeCall/what", call.Pos(), "the storage function handed to reduceWhat is not a phi over the cases")
					continue
				}
				for i, e := range phi.Edges {
					k, ok := e.(*ssa.Const)
					if !ok || k.Value == nil || k.Value.Kind() != constant.String {
						continue
					}
					v := constant.StringVal(k.Value)
					if v != "stddev" && v != "stdvar" {
						continue
					}
					n++
					pred := b.Preds[i]
					c.Require(core.Holds(pred, core.T("(*.step == {2:int64})")), r12, fmt.Sprintf("%s.reduceOverTimeCall/case:%s", c27pkg, v), call.Pos(), "deviation pushed down only for range == step",
						v+"_over_time is rewritten without the test r.step == step (facts: "+core.FactsString(pred)+"): a deviation over several storage points cannot be merged from their deviations")
				}
			}
		}
		if n < 2 {
			c.Undecided(r12, c27pkg+".reduceOverTimeCall/deviation-cases", fn.Pos(), fmt.Sprintf("expected the stddev and stdvar cases, found %d", n))
		}
	}
}

// ---- C25-R10: the table comparators are lexicographic steps in one direction ------------

func init() {
	Extend("C25", runC25Proactive,
		Mutant{Name: "less-tag-step-compares-descending", File: "internal/api/handler.go", Rule: "C25-R10",
			Old: "		rv := r.Tags[i].Value\n		if lv != rv {\n			return lv < rv", New: "		rv := r.Tags[i].Value\n		if lv != rv {\n			return lv > rv"},
		Mutant{Name: "lessThan-from-end-tag-step-ascending", File: "internal/api/handler.go", Rule: "C25-R10",
			Old: "			if lv != rv {\n				return lv > rv", New: "			if lv != rv {\n				return lv < rv"},
		Mutant{Name: "lessThan-time-step-returns-other-comparison", File: "internal/api/handler.go", Rule: "C25-R10",
			Old: "		if l.Time != r.time {\n			return l.Time < r.time", New: "		if l.Time != r.time {\n			return l.SKey < skey"},
		Mutant{Name: "lessThan-or-equal-bound-made-strict", File: "internal/api/handler.go", Rule: "C25-R10",
			Old: "			return l.SKey <= skey", New: "			return l.SKey < skey"},
		Mutant{Name: "less-last-step-swapped", File: "internal/api/handler.go", Rule: "C25-R10",
			Old: "	return l.SKey < r.SKey", New: "	return r.SKey < l.SKey"})
}

// c25cmp is a returned comparison brought to the form `Lo (<|<=) Hi`.
type c25cmp struct {
	ret    *ssa.Return
	lo, hi ssa.Value
	strict bool
}

func c25ReturnedComparisons(fn *ssa.Function) []c25cmp {
	var out []c25cmp
	for _, ret := range core.Returns(fn) {
		if len(ret.Results) != 1 {
			continue
		}
		b, ok := ret.Results[0].(*ssa.BinOp)
		if !ok {
			continue
		}
		switch b.Op.String() {
		case "<":
			out = append(out, c25cmp{ret, b.X, b.Y, true})
		case "<=":
			out = append(out, c25cmp{ret, b.X, b.Y, false})
		case ">":
			out = append(out, c25cmp{ret, b.Y, b.X, true})
		case ">=":
			out = append(out, c25cmp{ret, b.Y, b.X, false})
		}
	}
	return out
}

// c25IndexedBy reports whether v is read from an element selected by index idx
// (s[idx].f, a copy of it, len() of it, a field of it).
func c25IndexedBy(v ssa.Value, idx ssa.Value, seen map[ssa.Value]bool) bool {
	if v == nil || seen[v] {
		return false
	}
	seen[v] = true
	switch v := v.(type) {
	case *ssa.IndexAddr:
		return v.Index == idx || c25IndexedBy(v.X, idx, seen)
	case *ssa.Index:
		return v.Index == idx || c25IndexedBy(v.X, idx, seen)
	case *ssa.UnOp:
		return c25IndexedBy(v.X, idx, seen)
	case *ssa.FieldAddr:
		return c25IndexedBy(v.X, idx, seen)
	case *ssa.Field:
		return c25IndexedBy(v.X, idx, seen)
	case *ssa.Convert:
		return c25IndexedBy(v.X, idx, seen)
	case *ssa.Call:
		if core.CalleeName(&v.Call) == "builtin len" {
			return c25IndexedBy(v.Call.Args[0], idx, seen)
		}
	case *ssa.Alloc:
		for _, ref := range *v.Referrers() {
			if st, ok := ref.(*ssa.Store); ok && st.Addr == v && c25IndexedBy(st.Val, idx, seen) {
				return true
			}
		}
	}
	return false
}

// c25StepPaired: when the innermost fact of the return's block is `a != b`, the returned
// comparison must be between a and b.
func c25StepPaired(c *core.Check, rule, fname string, k c25cmp, n int) {
	facts := core.Facts(k.ret.Block())
	if len(facts) == 0 || len(facts[0].Alts) != 1 {
		return
	}
	l := facts[0].Alts[0]
	if l.Op.String() != "==" || l.Pol {
		return
	}
	a, b := core.Expr(l.X), core.Expr(l.Y)
	x, y := core.Expr(k.lo), core.Expr(k.hi)
	ok := (a == x && b == y) || (a == y && b == x)
	c.Require(ok, rule, fmt.Sprintf("%s/step#%d/paired", fname, n), k.ret.Pos(), "the step returns the comparison of the values it found different",
		"under "+l.String()+" the comparator returns the comparison of "+x+" with "+y+": the step decides the order by other values than the ones it found different, the order is no longer lexicographic (rows are mis-sorted and the row window cuts at the wrong place)")
}

func runC25Proactive(c *core.Check) {
	c.Decides += " R10 the two comparators of table rows (queryTableRows.Less, which sorts the result, and lessThan, which places a row relative to the window markers) are lexicographic: a step taken under `a != b` returns the comparison of a with b, every step of Less is ascending in (row i, row j), every step of lessThan is ascending in (marker, row) when reading from the start and descending when reading from the end, and its last step is non-strict exactly under orEq."
	const rule = "C25-R10"
	c.Rule(rule, "K8 comparator shape", 14, "every returned comparison of queryTableRows.Less and lessThan: paired with its inequality guard, in the direction of its branch")
	if fn := need(c, rule, "internal/api.(queryTableRows).Less"); fn != nil && len(fn.Params) == 3 {
		ks := c25ReturnedComparisons(fn)
		for n, k := range ks {
			c25StepPaired(c, rule, "internal/api.(queryTableRows).Less", k, n+1)
			ok := c25IndexedBy(k.lo, fn.Params[1], map[ssa.Value]bool{}) && c25IndexedBy(k.hi, fn.Params[2], map[ssa.Value]bool{}) && k.strict
			c.Require(ok, rule, fmt.Sprintf("internal/api.(queryTableRows).Less/step#%d/direction", n+1), k.ret.Pos(), "step is strictly ascending in (row i, row j)",
				"Less(i, j) returns "+core.Expr(k.ret.Results[0])+", which is not `value of row i < value of row j`: this step orders rows the other way round than the other steps (sort.Reverse is applied on top for the descending direction), so the result is not sorted")
		}
		if len(ks) < 4 {
			c.Undecided(rule, "internal/api.(queryTableRows).Less/steps", fn.Pos(), fmt.Sprintf("expected at least 4 returned comparisons, found %d", len(ks)))
		}
	}
	if fn := need(c, rule, "internal/api.lessThan"); fn != nil && len(fn.Params) == 5 {
		ks := c25ReturnedComparisons(fn)
		markerSide := func(v ssa.Value) bool { return strings.HasPrefix(core.Expr(v), "{api.RowMarker}") || strings.HasPrefix(core.Expr(v), "{0:") }
		for n, k := range ks {
			c25StepPaired(c, rule, "internal/api.lessThan", k, n+1)
			fromEnd := core.Holds(k.ret.Block(), core.T("{4:bool}"))
			fromStart := core.Holds(k.ret.Block(), core.F("{4:bool}"))
			if fromEnd == fromStart {
				c.Undecided(rule, fmt.Sprintf("internal/api.lessThan/step#%d", n+1), k.ret.Pos(), "the returned comparison is not inside the fromEnd / !fromEnd branch")
				continue
			}
			var ok bool
			if fromStart {
				ok = markerSide(k.lo) && !markerSide(k.hi)
			} else {
				ok = markerSide(k.hi) && !markerSide(k.lo)
			}
			c.Require(ok, rule, fmt.Sprintf("internal/api.lessThan/step#%d/direction", n+1), k.ret.Pos(), "step follows the reading direction",
				fmt.Sprintf("with fromEnd=%v lessThan returns %s: this step compares marker and row in the other direction than the reading direction of its branch, rows are placed on the wrong side of the window marker", fromEnd, core.Expr(k.ret.Results[0])))
			orEq := core.Holds(k.ret.Block(), core.T("{3:bool}"))
			notOrEq := core.Holds(k.ret.Block(), core.F("{3:bool}"))
			if orEq || notOrEq {
				c.Require(k.strict == notOrEq, rule, fmt.Sprintf("internal/api.lessThan/step#%d/strictness", n+1), k.ret.Pos(), "last step is non-strict exactly under orEq",
					fmt.Sprintf("with orEq=%v lessThan's last step returns %s: the row equal to the window marker falls on the wrong side (the `to` row is lost or the `from` row is repeated on the next page)", orEq, core.Expr(k.ret.Results[0])))
			}
		}
		if len(ks) < 8 {
			c.Undecided(rule, "internal/api.lessThan/steps", fn.Pos(), fmt.Sprintf("expected at least 8 returned comparisons, found %d", len(ks)))
		}
	}
}

// ---- C28-R8 (F26): a number literal is printed without an explicit plus sign -------------

func init() {
	Extend("C28", runC28Proactive,
		Mutant{Name: "revert-F26-plus-inf-printed-with-sign", File: "internal/promql/parser/printer.go", Rule: "C28-R8",
			Old: "	if math.IsInf(node.Val, 1) {\n		// not \"+Inf\": unary plus binds weaker than \"^\", \"+Inf ^ 2\" parses as +(Inf ^ 2)\n		return \"Inf\"\n	}\n", New: "	_ = math.IsInf\n"})
}

func runC28Proactive(c *core.Check) {
	c.Decides += " R8 NumberLiteral.String hands its value to a general float formatter (fmt.Sprint*, strconv.FormatFloat/AppendFloat) only when it is not +Inf: these formatters write +Inf with an explicit plus sign, which is the unary operator in PromQL and binds weaker than `^` (`Inf ^ 2` would print as `+Inf ^ 2` = +(Inf ^ 2), another tree)."
	const rule = "C28-R8"
	c.Rule(rule, "K1 guard dominance", 1, "every fmt.Sprint*/strconv.FormatFloat/AppendFloat call in (*NumberLiteral).String is dominated by !math.IsInf(val, 1)")
	fn := need(c, rule, "internal/promql/parser.(*NumberLiteral).String")
	if fn == nil {
		return
	}
	n := 0
	for _, s := range core.CallsTo(fn, "fmt.Sprint", "fmt.Sprintf", "fmt.Sprintln", "fmt.Fprint*", "fmt.Append*", "strconv.FormatFloat", "strconv.AppendFloat") {
		n++
		c.Require(core.Holds(s.Block(), core.F("math.IsInf(*, 1)")) || core.Holds(s.Block(), core.F("math.IsInf(*, 0)")), rule, fmt.Sprintf("internal/promql/parser.(*NumberLiteral).String/format#%d", n), s.Pos(), "+Inf is not written by the general formatter",
			"the number literal is formatted by "+core.CalleeName(s.Common())+" also when it is +Inf (facts: "+core.FactsString(s.Block())+"): the text `+Inf` starts with the unary plus operator, `Inf ^ 2` prints as `+Inf ^ 2` and parses back as +(Inf ^ 2)")
	}
	if n == 0 {
		c.Undecided(rule, "internal/promql/parser.(*NumberLiteral).String/format", fn.Pos(), "no formatter call found in NumberLiteral.String")
	}
}

// ---- C11-R6: leading/trailing/double spaces in the normaliser ---------------------------

func init() {
	Extend("C11", runC11Proactive,
		Mutant{Name: "fast-path-accepts-trailing-space", File: "internal/format/format.go", Rule: "C11-R6",
			Old: "		if fastPath && !previousSpace { // fail on last space", New: "		if fastPath { // fail on last space"},
		Mutant{Name: "fast-path-accepts-leading-space", File: "internal/format/format.go", Rule: "C11-R6",
			Old: "		previousSpace := true // fail on first space", New: "		previousSpace := false // fail on first space"},
		Mutant{Name: "slow-path-keeps-trailing-space", File: "internal/format/format.go", Rule: "C11-R6",
			Old: "	if previousSpace && w != 0 {\n		w--\n	}\n	return append(dst, buf[:w]...), nil", New: "	return append(dst, buf[:w]...), nil"},
		Mutant{Name: "slow-path-keeps-leading-space", File: "internal/format/format.go", Rule: "C11-R6",
			Old: "	w := 0\n	previousSpace := true\n", New: "	w := 0\n	previousSpace := false\n"})
}

// c11SpaceFlag reports whether v is a "previous byte was a space" flag: a phi that
// starts as the constant true (so a leading space counts as a double space).
func c11SpaceFlag(v ssa.Value) bool {
	phi, ok := v.(*ssa.Phi)
	if !ok {
		return false
	}
	hasTrue, hasOther := false, false
	for _, e := range phi.Edges {
		if k, isK := e.(*ssa.Const); isK && k.Value != nil && k.Value.Kind() == constant.Bool {
			if constant.BoolVal(k.Value) {
				hasTrue = true
			}
			continue
		}
		hasOther = true
	}
	return hasTrue && hasOther
}

func runC11Proactive(c *core.Check) {
	c.Decides += " R6 appendValidStringValue returns its input unchanged only when the previous-byte-was-a-space flag, which starts as true, is false at the end (no leading, trailing or double space passes the fast path), and the slow path drops one trailing byte exactly when that flag is set and something was written (the flag starts as true there too, so leading spaces are skipped)."
	const rule = "C11-R6"
	c.Rule(rule, "K1 guard dominance", 2, "the return of append(dst, src) is dominated by !flag; the slow path's final length is w or w-1, the latter under flag && w != 0; flag is a phi with an initial true")
	fn := need(c, rule, "internal/format.appendValidStringValue")
	if fn == nil || len(fn.Params) < 2 {
		return
	}
	nFast, nSlow := 0, 0
	for _, ret := range core.Returns(fn) {
		if len(ret.Results) != 2 {
			continue
		}
		call, ok := ret.Results[0].(*ssa.Call)
		if !ok || core.CalleeName(&call.Call) != "builtin append" || len(call.Call.Args) != 2 {
			continue
		}
		if call.Call.Args[1] == ssa.Value(fn.Params[1]) {
			// fast path: input returned unchanged
			nFast++
			ok := false
			for _, g := range core.Facts(ret.Block()) {
				if len(g.Alts) == 1 && !g.Alts[0].Pol && c11SpaceFlag(g.Alts[0].Cond) {
					ok = true
				}
			}
			c.Require(ok, rule, fmt.Sprintf("internal/format.appendValidStringValue/unchanged-return#%d", nFast), ret.Pos(), "input returned unchanged only without leading/trailing/double space",
				"the input is returned unchanged without the test that the space flag (initially true) is false at the end (facts: "+core.FactsString(ret.Block())+"): a value with a leading or trailing space is accepted as already valid, so forcing a valid-looking value changes it on the second pass / equal series get different tag values")
			continue
		}
		sl, ok := call.Call.Args[1].(*ssa.Slice)
		if !ok || sl.High == nil {
			continue
		}
		nSlow++
		good := false
		if phi, isPhi := sl.High.(*ssa.Phi); isPhi {
			for i, e := range phi.Edges {
				b, isB := e.(*ssa.BinOp)
				if !isB || b.Op != token.SUB || !core.IsConstInt(b.Y, 1) {
					continue
				}
				others := true // every other edge is the untrimmed length itself
				for j, o := range phi.Edges {
					if j != i && o != b.X {
						others = false
					}
				}
				if !others {
					continue
				}
				// the edge w-1 comes from a block guarded by flag && !(w == 0)
				pred := ret.Block().Preds[i]
				flag, nonZero := false, false
				for _, g := range core.Facts(pred) {
					if len(g.Alts) != 1 {
						continue
					}
					l := g.Alts[0]
					if l.Pol && c11SpaceFlag(l.Cond) {
						flag = true
					}
					if !l.Pol && l.Op == token.EQL && l.X == b.X && core.IsConstInt(l.Y, 0) {
						nonZero = true
					}
				}
				good = flag && nonZero
			}
		}
		c.Require(good, rule, fmt.Sprintf("internal/format.appendValidStringValue/normalised-return#%d", nSlow), ret.Pos(), "trailing space trimmed",
			"the normalised value is returned with length "+core.Expr(sl.High)+", which is not `w, or w-1 when the last written byte is a space`: a trailing space (or, with the flag starting false, a leading one) stays in the value, the result is not a valid tag value and forcing is not idempotent")
	}
	if nFast == 0 || nSlow == 0 {
		c.Undecided(rule, "internal/format.appendValidStringValue/returns", fn.Pos(), fmt.Sprintf("expected the unchanged-input return and the normalised return, found %d and %d", nFast, nSlow))
	}
}
