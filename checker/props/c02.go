package props

import (
	"fmt"
	"go/token"
	"go/types"
	"sort"
	"strings"

	"golang.org/x/tools/go/ssa"

	"shverif/core"
)

func init() {
	Register(&Property{
		ID:   "C02",
		Pkgs: []string{"./internal/data_model", "./internal/agent", "./internal/aggregator"},
		Run:  runC02,
		Mutants: []Mutant{
			// R1
			{Name: "revert-F1-sum-elided-when-min-eq-max", File: "internal/data_model/transfer.go", Rule: "C02-R1",
				Old: "	if s.Value.ValueMin != s.Value.ValueMax ||\n		s.Value.ValueSum != s.Value.ValueMin*s.Value.Count() ||\n		s.Value.ValueSumSquare != s.Value.ValueSum*s.Value.ValueMin {\n",
				New: "	if s.Value.ValueMin != s.Value.ValueMax {\n"},
			{Name: "sumsquare-conjunct-dropped", File: "internal/data_model/transfer.go", Rule: "C02-R1",
				Old: "		s.Value.ValueSum != s.Value.ValueMin*s.Value.Count() ||\n		s.Value.ValueSumSquare != s.Value.ValueSum*s.Value.ValueMin {\n",
				New: "		s.Value.ValueSum != s.Value.ValueMin*s.Value.Count() {\n"},
			{Name: "min-elided-when-not-positive", File: "internal/data_model/transfer.go", Rule: "C02-R1",
				Old: "	if s.Value.ValueMin != 0 {\n		item.SetValueMin(", New: "	if s.Value.ValueMin > 0 {\n		item.SetValueMin("},
			{Name: "decoder-rebuilds-sum-from-max", File: "internal/data_model/transfer.go", Rule: "C02-R1",
				Old: "		s2.ValueSum = s2.ValueMin * s2.Counter\n", New: "		s2.ValueSum = s2.ValueMax * s2.Counter\n"},
			{Name: "decoder-forgets-max", File: "internal/data_model/transfer.go", Rule: "C02-R1",
				Old: "		s2.ValueMax = s2.ValueMin\n	}\n", New: "	}\n"},
			{Name: "sum-sent-outside-group", File: "internal/data_model/transfer.go", Rule: "C02-R1",
				Old: "		item.SetValueMax(s.Value.ValueMax, fieldsMask)\n		item.SetValueSum(s.Value.ValueSum*sampleFactor, fieldsMask)\n",
				New: "		item.SetValueMax(s.Value.ValueMax, fieldsMask)\n	}\n	if s.Value.ValueSum != 0 {\n		item.SetValueSum(s.Value.ValueSum*sampleFactor, fieldsMask)\n"},
			{Name: "counter-eq1-on-unscaled-count", File: "internal/data_model/transfer.go", Rule: "C02-R1",
				Old: "	if cou == 1 {\n		item.SetCounterEq1(true, fieldsMask)", New: "	if s.Value.Count() == 1 {\n		item.SetCounterEq1(true, fieldsMask)"},
			// R2
			{Name: "decoder-stops-reading-centroids", File: "internal/data_model/transfer.go", Rule: "C02-R2",
				Old: "	if len(s2.Centroids) != 0 {\n		if s.ValueTDigest == nil {\n			s.ValueTDigest = tdigest.NewWithCompression(compression)\n		}\n		for _, c := range s2.Centroids {",
				New: "	if s2.IsSetCentroids(fields_mask) {\n		if s.ValueTDigest == nil {\n			s.ValueTDigest = tdigest.NewWithCompression(compression)\n		}\n		for _, c := range []tlstatshouse.CentroidFloat{} {"},
			{Name: "decoder-ignores-uniques", File: "internal/data_model/transfer.go", Rule: "C02-R2",
				Old: "	if len(s2.Uniques) != 0 {\n		_ = s.HLL.MergeRead(bytes.NewBuffer(s2.Uniques)) // return error, write meta metric\n	}\n", New: "	_ = bytes.MinRead\n"},
			{Name: "top-element-tag-not-sent", File: "internal/agent/agent_shard_send.go", Rule: "C02-R2",
				Old: "			if key.I != 0 {\n				el.SetTag(key.I)\n			}\n", New: ""},
			{Name: "decoder-ignores-explicit-timestamp", File: "internal/data_model/transfer.go", Rule: "C02-R4",
				Old: "	if item.IsSetT() {\n		key.Timestamp = item.T\n		if int64(key.Timestamp) > int64(bucketTimestamp) {", New: "	if false {\n		if int64(key.Timestamp) > int64(bucketTimestamp) {"},
			// R3
			{Name: "sum-without-sample-factor", File: "internal/data_model/transfer.go", Rule: "C02-R3",
				Old: "item.SetValueSum(s.Value.ValueSum*sampleFactor, fieldsMask)", New: "item.SetValueSum(s.Value.ValueSum, fieldsMask)"},
			{Name: "sumsquare-without-sample-factor", File: "internal/data_model/transfer.go", Rule: "C02-R3",
				Old: "item.SetValueSumSquare(s.Value.ValueSumSquare*sampleFactor, fieldsMask)", New: "item.SetValueSumSquare(s.Value.ValueSumSquare, fieldsMask)"},
			{Name: "counter-without-sample-factor", File: "internal/data_model/transfer.go", Rule: "C02-R3",
				Old: "	cou := s.Value.Count() * sampleFactor\n", New: "	cou := s.Value.Count()\n	_ = sampleFactor\n"},
			{Name: "centroid-weight-without-sample-factor", File: "internal/data_model/transfer.go", Rule: "C02-R3",
				Old: "Count: float32(c.Weight * sampleFactor)})", New: "Count: float32(c.Weight)})"},
			{Name: "max-scaled-by-sample-factor", File: "internal/data_model/transfer.go", Rule: "C02-R3",
				Old: "item.SetValueMax(s.Value.ValueMax, fieldsMask)", New: "item.SetValueMax(s.Value.ValueMax*sampleFactor, fieldsMask)"},
			{Name: "centroid-mean-scaled", File: "internal/data_model/transfer.go", Rule: "C02-R3",
				Old: "tlstatshouse.CentroidFloat{Value: float32(c.Mean), Count:", New: "tlstatshouse.CentroidFloat{Value: float32(c.Mean * sampleFactor), Count:"},
			// R4
			{Name: "timestamp-always-omitted-check-dropped", File: "internal/data_model/transfer.go", Rule: "C02-R4",
				Old: "	if k.Timestamp != 0 && k.Timestamp != defaultTimestamp {\n		item.SetT(k.Timestamp)", New: "	if k.Timestamp != 0 && k.Timestamp > defaultTimestamp {\n		item.SetT(k.Timestamp)"},
			{Name: "decoder-default-timestamp-dropped", File: "internal/data_model/transfer.go", Rule: "C02-R4",
				Old: "	key.Timestamp = bucketTimestamp\n	if item.IsSetT() {", New: "	if item.IsSetT() {"},
			{Name: "sends-default-instead-of-key-timestamp", File: "internal/data_model/transfer.go", Rule: "C02-R4",
				Old: "		item.SetT(k.Timestamp)", New: "		item.SetT(defaultTimestamp)"},
			// R5 (the two sites of known finding F18 are on the tree; this control is a different regression of the same clause)
			// R6
			{Name: "tl-merge-max-host-not-updated", File: "internal/data_model/transfer.go", Rule: "C02-R6",
				Old: "		s.ValueMax = s2.ValueMax\n		s.MaxHostTag = TagUnion{I: s2.MaxHostTag, S: string(s2.MaxHostStag)}\n", New: "		s.ValueMax = s2.ValueMax\n"},
			{Name: "tl-merge-counter-host-from-max-host", File: "internal/data_model/transfer.go", Rule: "C02-R6",
				Old: "s.AddCounterHost(rng, s2.Counter, TagUnion{I: s2.MaxCounterHostTag, S: string(s2.MaxCounterHostStag)})", New: "s.AddCounterHost(rng, s2.Counter, TagUnion{I: s2.MaxHostTag, S: string(s2.MaxHostStag)})"},
			{Name: "string-min-host-never-sent", File: "internal/data_model/transfer.go", Rule: "C02-R5",
				Old: "		} else if len(s.Value.MinHostTag.S) > 0 {\n			item.SetMinHostStag(s.Value.MinHostTag.S, fieldsMask)\n		}", New: "		}"},
		},
	})
}

const (
	genPkg    = "internal/data_model/gen2/internal"
	tyTLValue = genPkg + ".StatshouseMultiValue"
	tyTLItem  = genPkg + ".StatshouseMultiItem"
	tyTLTop   = genPkg + ".StatshouseTopElement"
	tyTLCentr = genPkg + ".StatshouseCentroidFloat"
	fnTLItem2 = dmPkg + ".(*ItemValue).MergeWithTLItem2"
	fnTL2     = dmPkg + ".(*MultiValue).MergeWithTL2"
)

func runC02(c *core.Check) {
	c.Decides = "that the compact value encoding is lossless by construction, that encoder and decoder agree on the field set, and that extensive quantities carry the sample factor: " +
		"(R1) path-condition entailment: for every float field of tlstatshouse.multiValue that MultiValueToTL may omit (ValueMin; the group ValueMax/ValueSum/ValueSumSquare; Counter via CounterEq1) the value the decoder " +
		"(MergeWithTLItem2 / MergeWithTL2 / TL zero default) uses instead is syntactically entailed by the negation of the encoder's guard — every conjunct needed (`min == max`, `sum == min*count`, `sumsquare == sum*min`, `min == 0`, `counter*sf == 1`) is tested by the encoder on the same operands, " +
		"the equations are homogeneous in the sample factor, and the fields the decoder rebuilds under !IsSetValueMax are exactly the fields the encoder sets together with ValueMax; " +
		"(R2) per TL type (multiValue, multiItem, topElement, centroidFloat) the set of fields written by MultiValueToTL, TLMultiItemFromKey and the agent's keepF equals the set read by MergeWithTL2, MergeWithTLItem2, KeyFromStatshouseMultiItem, MergeWithTLMultiItem and the string-tag mapping of handleSendSourceBucket; " +
		"(R3) Counter, ValueSum, ValueSumSquare and centroid Count are sent as x*sampleFactor, ValueMin, ValueMax, centroid Value, hosts and uniques do not depend on the sample factor; " +
		"(R4) T is sent exactly when Timestamp differs from the default (bucket) timestamp, with the key's own timestamp, and the decoder starts from the bucket timestamp and overrides it only under IsSetT; " +
		"(R5, known finding F18) since the decoder rebuilds an absent min / max-count host as the max host, the encoder must send that host on every path on which it differs from the max host; " +
		"(R6) the decoder updates min/max together with the min/max host of the same received value in the right direction and feeds the received max-count host to AddCounterHost."
	c.NotDecided = "numeric equality over all inputs (floating-point rounding of sum*sf vs min*count*sf), that an absent max host means the sending agent (MergeWithTL2 substitutes the handler's hostTag), " +
		"correctness of the generated TL codecs (C14), equality of the two timestamps the agent and the aggregator use as default, string-tag mapping itself."
	c02R1(c)
	c02R2(c)
	c02R3(c)
	c02R4(c)
	c02R5(c)
	c02R6(c)
}

// c02R6: host attribution on the decoding side (the same co-update obligations as C04-R3/R4, applied to the transfer decoder).
func c02R6(c *core.Check) {
	const R = "C02-R6"
	c.Rule(R, "K6 co-update + K7", 3, "MergeWithTLItem2 stores ValueMin/ValueMax together with MinHostTag/MaxHostTag built from the Min*/Max* host fields of the same TL value under `first || source beats current`; MergeWithTL2 gives AddCounterHost the TL counter and the TagUnion built from MaxCounterHostTag/MaxCounterHostStag of the same TL value")
	if fn := need(c, R, fnTLItem2); fn != nil {
		valueHostPairs(c, R, []*ssa.Function{fn})
	}
	if fn := need(c, R, fnTL2); fn != nil {
		tl := ssa.Value(fn.Params[2])
		sites := core.CallsTo(fn, dmPkg+".(*MultiValue).AddCounterHost", dmPkg+".(*ItemValue).AddCounterHost", dmPkg+".(*ItemCounter).AddCounterHost")
		if len(sites) != 1 {
			c.Undecided(R, fnTL2+"/AddCounterHost", fn.Pos(), fmt.Sprintf("expected one AddCounterHost call, found %d", len(sites)))
			return
		}
		s := sites[0]
		c.CallSites++
		base, okCnt := dmFieldLoad(s.Arg(2), tyTLValue+"Bytes", "Counter")
		okHost := false
		if al, ok := core.Deref(s.Arg(3)).(*ssa.Alloc); ok {
			n, good := 0, 0
			for _, r := range core.Referrers(al) {
				if fa, ok := r.(*ssa.FieldAddr); ok {
					for _, u := range core.Referrers(fa) {
						if st, ok := u.(*ssa.Store); ok && st.Addr == ssa.Value(fa) {
							n++
							v := dmStripStringConv(st.Val)
							_, f, okf := core.FieldOf(v)
							if b := core.Deref(v); okf && b != nil && strings.HasPrefix(f, "MaxCounterHost") && b.(*ssa.FieldAddr).X == tl {
								good++
							}
						}
					}
				}
			}
			okHost = n == 2 && good == 2
		}
		c.Require(okCnt && base == tl && okHost, R, fnTL2+"/AddCounterHost", s.Pos(), "counter and max-count host come from the received value",
			"AddCounterHost is given "+core.Expr(s.Arg(2))+" / "+core.Expr(s.Arg(3))+" instead of the received Counter and the TagUnion of the received MaxCounterHostTag/MaxCounterHostStag")
	}
}

// C02-R5 reports the known finding F18 on the current tree (two sites, listed in known_findings.json):
// MultiValueToTL sends nothing for a min / max-count host that is empty but differs from the max host,
// and MergeWithTL2 then substitutes the max host.

// c02R5 (K6): where the decoder substitutes the max host for an absent X host (X = min, max-count),
// the encoder must send the X host on every path on which it differs from the max host.
func c02R5(c *core.Check) {
	const R = "C02-R5"
	c.Rule(R, "K6 must-pass-through", 2, "for X in {MinHost, MaxCounterHost}: MergeWithTL2 rebuilds an absent X host as the max host, therefore in MultiValueToTL every path through the region guarded by `X host != max host` must call SetXHostTag or SetXHostStag")
	enc := need(c, R, fnToTL)
	dec := need(c, R, fnTL2)
	if enc == nil || dec == nil {
		return
	}
	tl := ssa.Value(dec.Params[2])
	for _, x := range []string{"MinHost", "MaxCounterHost"} {
		// decoder: X*Tag := Max*Tag under !IsSetXTag && !IsSetXStag
		substitutes := false
		for _, w := range core.FieldStoresU([]*ssa.Function{dec}, tyTLValue+"Bytes", x+"Tag") {
			if base, ok := dmFieldLoad(w.Val, tyTLValue+"Bytes", "MaxHostTag"); ok && base == tl {
				substitutes = true
			}
		}
		key := fnToTL + "/elided-host:" + x
		if !substitutes {
			c.Pass(R, key, dec.Pos(), "the decoder does not substitute the max host for "+x)
			continue
		}
		sets := core.CallsTo(enc, genPkg+".(*StatshouseMultiValue).Set"+x+"Tag", genPkg+".(*StatshouseMultiValue).Set"+x+"Stag")
		if len(sets) != 2 {
			c.Fail(R, key+"/variant-not-sent", enc.Pos(), fmt.Sprintf("the encoder calls %d of the two setters Set%sTag / Set%sStag: a mapped (int) or an unmapped (string) %s is never sent, and the decoder substitutes the max host for it", len(sets), x, x, x))
			continue
		}
		// region: the block guarded by !(X host == max host) that dominates both calls
		var region *ssa.BasicBlock
		for _, g := range core.Facts(sets[0].Block()) {
			if len(g.Alts) == 1 && g.Alts[0].Op == token.EQL && !g.Alts[0].Pol && g.Block.Dominates(sets[1].Block()) {
				_, fx, okx := core.FieldOf(g.Alts[0].X)
				_, fy, oky := core.FieldOf(g.Alts[0].Y)
				want := x + "Tag"
				if okx && oky && ((fx == want && fy == "MaxHostTag") || (fy == want && fx == "MaxHostTag")) {
					region = g.Block
				}
			}
		}
		if region == nil {
			c.Fail(R, key, sets[0].Pos(), "the encoder does not send the "+x+" under `"+x+" != max host` although the decoder substitutes the max host when it is absent")
			continue
		}
		isSet := func(in ssa.Instruction) bool { return in == sets[0].Instr || in == sets[1].Instr }
		leaves := func(in ssa.Instruction) bool { return !region.Dominates(in.Block()) }
		p := reachFromBlock(region, leaves, isSet)
		c.Require(p == nil, R, key, sets[0].Pos(), "whenever the "+x+" differs from the max host it is sent",
			"when the "+x+" differs from the max host but is empty, neither Set"+x+"Tag nor Set"+x+"Stag is called, and the decoder (MergeWithTL2) then substitutes the max host: "+
				"a row with value 1 from a host-less event and value 10 with _h=5 arrives with min host 5, the host of the max: "+pathStr(p))
	}
}

// ---- equations --------------------------------------------------------------------

// eqSide is a product of atoms (canonical field names) and constants.
type eqSide []string

func (s eqSide) String() string { return strings.Join(s, "*") }

// atomsOf decomposes v into a product of atoms. base is the object whose value fields
// are the atoms (encoder: &s.Value of the *MultiValue receiver; decoder: the TL value).
func atomsOf(v ssa.Value, atom func(ssa.Value) (string, bool)) (eqSide, bool) {
	if x, y, ok := mulOperands(v); ok {
		a, ok1 := atomsOf(x, atom)
		b, ok2 := atomsOf(y, atom)
		if !ok1 || !ok2 {
			return nil, false
		}
		r := append(append(eqSide{}, a...), b...)
		sort.Strings(r)
		return r, true
	}
	if k, ok := v.(*ssa.Const); ok && k.Value != nil {
		return eqSide{"const:" + k.Value.String()}, true
	}
	if a, ok := atom(v); ok {
		return eqSide{a}, true
	}
	return nil, false
}

type equation struct{ l, r eqSide }

func (e equation) String() string { return e.l.String() + " == " + e.r.String() }

func (e equation) same(o equation) bool {
	return (e.l.String() == o.l.String() && e.r.String() == o.r.String()) || (e.l.String() == o.r.String() && e.r.String() == o.l.String())
}

var extensiveAtoms = map[string]bool{"Counter": true, "ValueSum": true, "ValueSumSquare": true}

func extCount(s eqSide) int {
	n := 0
	for _, a := range s {
		if extensiveAtoms[a] {
			n++
		}
	}
	return n
}

// encAtom: loads of s.Value.<F> and s.Value.Count() of the encoder's receiver.
func encAtom(fn *ssa.Function) func(ssa.Value) (string, bool) {
	recv := ssa.Value(fn.Params[0])
	isValue := func(addr ssa.Value) bool { // &recv.Value
		fa, ok := addr.(*ssa.FieldAddr)
		return ok && core.IsField(fa, dmPkg+".MultiValue", "Value") && fa.X == recv
	}
	return func(v ssa.Value) (string, bool) {
		if call, ok := v.(*ssa.Call); ok && core.CalleeName(&call.Call) == dmPkg+".(*ItemCounter).Count" {
			if fa, ok := call.Call.Args[0].(*ssa.FieldAddr); ok && core.IsField(fa, tyIV, "ItemCounter") && isValue(fa.X) {
				return "Counter", true
			}
			return "", false
		}
		for _, f := range []string{"ValueMin", "ValueMax", "ValueSum", "ValueSumSquare"} {
			if base, ok := dmFieldLoad(v, tyIV, f); ok && isValue(base) {
				return f, true
			}
		}
		return "", false
	}
}

// decAtom: loads of s2.<F> of the decoder's TL parameter.
func decAtom(tl ssa.Value) func(ssa.Value) (string, bool) {
	return func(v ssa.Value) (string, bool) {
		for _, f := range []string{"ValueMin", "ValueMax", "ValueSum", "ValueSumSquare", "Counter"} {
			if base, ok := dmFieldLoad(v, tyTLValue+"Bytes", f); ok && base == tl {
				return f, true
			}
		}
		return "", false
	}
}

// isSetLit matches a guard literal `tl.IsSet<G>(mask)`.
func isSetLit(l core.Lit, tl ssa.Value) (group string, ok bool) {
	call, isCall := l.Cond.(*ssa.Call)
	if !isCall || l.Op != 0 {
		return "", false
	}
	n := core.CalleeName(&call.Call)
	i := strings.LastIndex(n, ").IsSet")
	if i < 0 || !strings.Contains(n, "StatshouseMultiValue") || call.Call.Args[0] != tl {
		return "", false
	}
	return n[i+len(").IsSet"):], true
}

// innermostGuard returns the guard that was added for block b relative to the context block ctx
// (nil when there is none or more than one).
func extraGuards(b, ctx *ssa.BasicBlock) []core.Guard {
	inCtx := map[*ssa.BasicBlock]bool{}
	for _, g := range core.Facts(ctx) {
		inCtx[g.Block] = true
	}
	var out []core.Guard
	for _, g := range core.Facts(b) {
		if !inCtx[g.Block] {
			out = append(out, g)
		}
	}
	return out
}

func setCall(fn *ssa.Function, field string) []core.Site {
	return core.CallsTo(fn, genPkg+".(*StatshouseMultiValue).Set"+field)
}

func c02R1(c *core.Check) {
	const R = "C02-R1"
	c.Rule(R, "K13d path-condition entailment", 6, "for every float field of the TL multiValue the encoder may omit, the value the decoder substitutes is entailed by a conjunct of the negated encoder guard (syntactic matching of products of the fields ValueMin/ValueMax/ValueSum/ValueSumSquare/Counter, commutative, homogeneous in the sample factor); "+
		"the decoder rebuilds under !IsSetValueMax exactly the fields the encoder sets in the block of SetValueMax; Counter is omitted only under `sent counter == 1` and rebuilt as 1 under IsSetCounterEq1")
	enc := need(c, R, fnToTL)
	dec2 := need(c, R, fnTLItem2)
	dec := need(c, R, fnTL2)
	if enc == nil || dec2 == nil || dec == nil {
		return
	}
	eAtom := encAtom(enc)
	// ---- decoder reconstructions: stores to tl.<F> under a single !IsSet<G> guard ------
	type rec struct {
		field, group string
		st           *ssa.Store
		eq           equation
		ok           bool
	}
	var recs []rec
	for _, d := range []*ssa.Function{dec2, dec} {
		tl := ssa.Value(d.Params[1])
		if d == dec {
			tl = ssa.Value(d.Params[2])
		}
		dAtom := decAtom(tl)
		for _, f := range []string{"ValueMin", "ValueMax", "ValueSum", "ValueSumSquare"} {
			for _, w := range core.FieldStoresU([]*ssa.Function{d}, tyTLValue+"Bytes", f) {
				st, ok := w.Instr.(*ssa.Store)
				if !ok || st.Addr.(*ssa.FieldAddr).X != tl {
					continue
				}
				group := ""
				for _, g := range core.Facts(st.Block()) {
					if len(g.Alts) == 1 && !g.Alts[0].Pol {
						if grp, ok := isSetLit(g.Alts[0], tl); ok {
							group = grp
							break
						}
					}
				}
				key := core.FuncName(d) + "/reconstruct:" + f
				if group == "" {
					c.Fail(R, key, st.Pos(), "the decoder overwrites the received "+f+" outside a `!IsSet…` guard: a value the encoder sent is replaced")
					continue
				}
				rhs, ok := atomsOf(st.Val, dAtom)
				r := rec{field: f, group: group, st: st, ok: ok}
				if ok {
					r.eq = equation{eqSide{f}, rhs}
				} else {
					c.Undecided(R, key, st.Pos(), "the substituted value "+core.Expr(st.Val)+" is not a product of the received value fields")
				}
				recs = append(recs, r)
			}
		}
	}
	// order inside the decoder block: a rebuilt field used by a later reconstruction must be stored first
	for _, r := range recs {
		if !r.ok {
			continue
		}
		for _, a := range r.eq.r {
			for _, o := range recs {
				if o.field == a && o.st.Block() == r.st.Block() && o.st != r.st {
					// find the load of a feeding r
					if !core.Dominates(o.st, r.st) {
						c.Fail(R, core.FuncName(r.st.Parent())+"/reconstruct:"+r.field+"/order", r.st.Pos(), r.field+" is rebuilt from "+a+" before "+a+" itself has been rebuilt (it still holds the TL zero default)")
					}
				}
			}
		}
	}
	// ---- encoder context: the block that sets the ValueSet flag -------------------------
	ctxCalls := setCall(enc, "ValueSet")
	if len(ctxCalls) != 1 {
		c.Undecided(R, fnToTL+"/SetValueSet", enc.Pos(), fmt.Sprintf("expected exactly one SetValueSet call, found %d", len(ctxCalls)))
		return
	}
	ctx := ctxCalls[0].Block()
	// elision condition of a Set<F> call: the negated alternatives of the single guard added after the context
	elision := func(s core.Site) ([]equation, []string, string) {
		if !ctx.Dominates(s.Block()) && ctx != s.Block() {
			return nil, nil, "the call is not made after the value-set flag is sent"
		}
		gs := extraGuards(s.Block(), ctx)
		if len(gs) == 0 {
			return nil, nil, "" // always sent
		}
		if len(gs) > 1 {
			return nil, nil, "the call is nested in more than one condition; its negation is not a conjunction"
		}
		var eqs []equation
		var raw []string
		for _, l := range gs[0].Alts {
			raw = append(raw, l.String())
			if l.Op != token.EQL || l.Pol {
				continue // not of the form a != b: contributes no equality when negated
			}
			lx, ok1 := atomsOf(l.X, eAtom)
			ly, ok2 := atomsOf(l.Y, eAtom)
			if ok1 && ok2 {
				eqs = append(eqs, equation{lx, ly})
			}
		}
		return eqs, raw, ""
	}
	entails := func(eqs []equation, want equation) bool {
		for _, e := range eqs {
			if e.same(want) {
				return true
			}
		}
		return false
	}
	// ---- group of ValueMax ----------------------------------------------------------------
	maxCalls := setCall(enc, "ValueMax")
	if len(maxCalls) != 1 {
		c.Undecided(R, fnToTL+"/SetValueMax", enc.Pos(), fmt.Sprintf("expected exactly one SetValueMax call, found %d", len(maxCalls)))
		return
	}
	gb := maxCalls[0].Block()
	eqs, raw, why := elision(maxCalls[0])
	if why != "" {
		c.Undecided(R, fnToTL+"/SetValueMax", maxCalls[0].Pos(), why)
		return
	}
	// fields set together with ValueMax
	groupFields := map[string]bool{}
	for _, f := range []string{"ValueMin", "ValueMax", "ValueSum", "ValueSumSquare"} {
		for _, s := range setCall(enc, f) {
			if s.Block() == gb {
				groupFields[f] = true
			} else if f != "ValueMin" || len(setCall(enc, f)) != 1 {
				groupFields[f] = false
			}
		}
	}
	rebuilt := map[string]bool{}
	for _, r := range recs {
		key := core.FuncName(r.st.Parent()) + "/reconstruct:" + r.field
		if r.group != "ValueMax" {
			c.Fail(R, key, r.st.Pos(), r.field+" is rebuilt under !IsSet"+r.group+", a flag the rule table has no encoder condition for")
			continue
		}
		rebuilt[r.field] = true
		if !groupFields[r.field] {
			c.Fail(R, key, r.st.Pos(), "the decoder rebuilds "+r.field+" when ValueMax is absent, but the encoder does not send "+r.field+" together with ValueMax (same block): a "+r.field+" that was sent is overwritten, or an omitted one is not covered by this condition")
			continue
		}
		if !r.ok {
			continue
		}
		hom := extCount(r.eq.l) == extCount(r.eq.r)
		c.Require(entails(eqs, r.eq) && hom, R, key, r.st.Pos(), "entailed: the encoder omits the group only when "+r.eq.String(),
			"when ValueMax/ValueSum/ValueSumSquare are omitted the decoder substitutes "+r.eq.String()+", but the encoder's condition for omitting them (negation of: "+strings.Join(raw, " || ")+") does not contain that equality"+
				map[bool]string{true: "", false: " (and the equation is not homogeneous in the sample factor)"}[hom]+": a row whose "+r.field+" differs (e.g. counter-only and value events mixed in one row) arrives changed")
	}
	for _, f := range core.SortedKeys(groupFields) {
		if groupFields[f] && !rebuilt[f] {
			c.Fail(R, fnTLItem2+"/reconstruct:"+f+"/missing", dec2.Pos(), "the encoder omits "+f+" together with ValueMax, but the decoder does not rebuild "+f+" under !IsSetValueMax: it stays 0")
		}
		if !groupFields[f] && f != "ValueMin" {
			c.Fail(R, fnToTL+"/Set"+f+"/outside-group", enc.Pos(), f+" is not sent in the block of SetValueMax although the decoder treats ValueMax/ValueSum/ValueSumSquare as one group (one flag bit)")
		}
	}
	// ---- ValueMin: TL zero default -----------------------------------------------------------
	for _, s := range setCall(enc, "ValueMin") {
		eqsMin, rawMin, why := elision(s)
		key := fnToTL + "/SetValueMin/omitted"
		if why != "" {
			c.Undecided(R, key, s.Pos(), why)
			continue
		}
		if len(rawMin) == 0 {
			c.Pass(R, key, s.Pos(), "ValueMin is always sent")
			continue
		}
		want := equation{eqSide{"ValueMin"}, eqSide{"const:0"}}
		c.Require(len(rawMin) == 1 && entails(eqsMin, want), R, key, s.Pos(), "ValueMin omitted only when it is 0 (the TL default)",
			"ValueMin is omitted under the negation of ("+strings.Join(rawMin, " || ")+"), which does not entail ValueMin == 0: the decoder reads the TL default 0 instead of the real minimum")
	}
	// ---- Counter / CounterEq1 ---------------------------------------------------------------
	cnt := setCall(enc, "Counter")
	eq1 := setCall(enc, "CounterEq1")
	if len(cnt) != 1 || len(eq1) != 1 {
		c.Undecided(R, fnToTL+"/SetCounter", enc.Pos(), "expected one SetCounter and one SetCounterEq1 call")
	} else {
		sent := cnt[0].Arg(1)
		isEq1 := func(pol bool) func(core.Lit) bool {
			return func(l core.Lit) bool {
				return l.Op == token.EQL && l.Pol == pol && constFloat(l.Y, 1) && (l.X == sent || sameAddr(l.X, sent))
			}
		}
		gCnt := core.Facts(cnt[0].Block())
		gEq := core.Facts(eq1[0].Block())
		ok := len(gCnt) > 0 && len(gEq) > 0 && len(gCnt[0].Alts) == 1 && len(gEq[0].Alts) == 1 && isEq1(false)(gCnt[0].Alts[0]) && isEq1(true)(gEq[0].Alts[0]) &&
			gCnt[0].Alts[0].Cond == gEq[0].Alts[0].Cond
		c.Require(ok, R, fnToTL+"/SetCounter/omitted", cnt[0].Pos(), "Counter is replaced by the CounterEq1 flag exactly when the value that would be sent equals 1",
			"Counter is omitted (CounterEq1) under a condition that is not `sent counter == 1` on the value passed to SetCounter ("+core.Expr(sent)+"): the decoder rebuilds 1 although count*sampleFactor differs")
		// decoder side
		tl := ssa.Value(dec.Params[2])
		n := 0
		for _, w := range core.FieldStoresU([]*ssa.Function{dec}, tyTLValue+"Bytes", "Counter") {
			st := w.Instr.(*ssa.Store)
			n++
			okd := constFloat(st.Val, 1) && holdsPred(st.Block(), func(l core.Lit) bool {
				g, isSet := isSetLit(l, tl)
				return isSet && l.Pol && g == "CounterEq1"
			})
			// every later read of Counter is after the If on IsSetCounterEq1
			c.Require(okd, R, fnTL2+"/reconstruct:Counter", st.Pos(), "Counter := 1 under IsSetCounterEq1", "the decoder sets Counter to "+core.Expr(st.Val)+" outside `IsSetCounterEq1`")
			for _, rd := range core.FieldReadsU([]*ssa.Function{dec}, tyTLValue+"Bytes", "Counter") {
				if rd.Block() != st.Block() && !reachAfter(st, rd) && !st.Block().Idom().Dominates(rd.Block()) {
					c.Fail(R, fnTL2+"/reconstruct:Counter/order", rd.Pos(), "Counter is read before the CounterEq1 flag has been applied")
				}
			}
		}
		if n == 0 {
			c.Fail(R, fnTL2+"/reconstruct:Counter", dec.Pos(), "the decoder never rebuilds Counter from the CounterEq1 flag: rows with count*sf == 1 arrive with counter 0 and are dropped")
		}
	}
}

// ---- R2 ---------------------------------------------------------------------------------

// tlFieldsWritten collects (type -> field set) written in fn for the TL wire types.
func tlFieldsWritten(fn *ssa.Function, out map[string]map[string]bool) {
	add := func(t, f string) {
		t = strings.TrimSuffix(t, "Bytes")
		if out[t] == nil {
			out[t] = map[string]bool{}
		}
		out[t][f] = true
	}
	for _, b := range fn.Blocks {
		for _, in := range b.Instrs {
			switch x := in.(type) {
			case ssa.CallInstruction:
				n := core.CalleeName(x.Common())
				if i := strings.LastIndex(n, ").Set"); i > 0 && strings.HasPrefix(n, genPkg+".(*Statshouse") {
					add(n[len(genPkg+".(*"):i], n[i+len(").Set"):])
				}
				// sub-objects passed by address to an encoder: &item.Tail, &el.Value
				for _, a := range x.Common().Args {
					if fa, ok := a.(*ssa.FieldAddr); ok {
						if t, f, ok := core.FieldOf(fa); ok && isWireType(t) {
							add(t[len(genPkg)+1:], f)
						}
					}
				}
			case *ssa.Store:
				if fa, ok := x.Addr.(*ssa.FieldAddr); ok {
					if t, f, ok := core.FieldOf(fa); ok && isWireType(t) {
						add(t[len(genPkg)+1:], f)
					}
				}
			}
		}
	}
}

func isWireType(t string) bool {
	t = strings.TrimSuffix(t, "Bytes")
	return t == tyTLValue || t == tyTLItem || t == tyTLTop || t == tyTLCentr
}

// tlFieldsRead collects the fields of the TL wire types read in fn (loads, ranges, IsSet<F>, sub-objects passed by address).
func tlFieldsRead(fn *ssa.Function, only map[string]bool, out map[string]map[string]bool, isFlagOnly func(t, f string) bool) {
	add := func(t, f string) {
		t = strings.TrimSuffix(t, "Bytes")
		if only != nil && !only[t] {
			return
		}
		if out[t] == nil {
			out[t] = map[string]bool{}
		}
		out[t][f] = true
	}
	for _, b := range fn.Blocks {
		for _, in := range b.Instrs {
			switch x := in.(type) {
			case ssa.CallInstruction:
				n := core.CalleeName(x.Common())
				if i := strings.LastIndex(n, ").IsSet"); i > 0 && strings.HasPrefix(n, genPkg+".(*Statshouse") {
					// a presence test reads a flag-only field (TL true type); for fields with content only a use of the content counts
					if t, f := n[len(genPkg+".(*"):i], n[i+len(").IsSet"):]; isFlagOnly(t, f) {
						add(t, f)
					}
				}
				for _, a := range x.Common().Args {
					if fa, ok := a.(*ssa.FieldAddr); ok {
						if t, f, ok := core.FieldOf(fa); ok && isWireType(t) {
							// a pointer to a sub-object handed to a decoder; statistics such as len() take values, not addresses
							add(t[len(genPkg)+1:], f)
						}
					}
				}
			case *ssa.UnOp:
				if x.Op == token.MUL {
					if fa, ok := x.X.(*ssa.FieldAddr); ok {
						if t, f, ok := core.FieldOf(fa); ok && isWireType(t) && valueIsConsumed(x) {
							add(t[len(genPkg)+1:], f)
						}
					}
				}
			case *ssa.Field:
				if t, f, ok := core.FieldOf(x); ok && isWireType(t) && valueIsConsumed(x) {
					add(t[len(genPkg)+1:], f)
				}
			}
		}
	}
}

// valueIsConsumed: the loaded field value is used for something else than len()/cap()
// (a length taken for statistics does not transfer the content).
func valueIsConsumed(v ssa.Value) bool {
	for _, u := range core.Referrers(v) {
		switch x := u.(type) {
		case *ssa.DebugRef:
			continue
		case *ssa.Call:
			if bi, ok := x.Call.Value.(*ssa.Builtin); ok && (bi.Name() == "len" || bi.Name() == "cap") {
				// len(x) != 0 used as presence test still counts only if the content is consumed elsewhere
				continue
			}
			return true
		default:
			return true
		}
	}
	return false
}

func c02R2(c *core.Check) {
	const R = "C02-R2"
	c.Rule(R, "K5 writer/reader field-set agreement", 4, "for each TL wire type the set of fields written by the encoders (MultiValueToTL, TLMultiItemFromKey, the agent's KeepF closure and the closure it calls) equals the set of fields whose content is read by the decoders "+
		"(MergeWithTL2, MergeWithTLItem2, KeyFromStatshouseMultiItem, MergeWithTLMultiItem; multiItem/topElement fields also by handleSendSourceBucket); a length taken for statistics is not a read")
	written := map[string]map[string]bool{}
	read := map[string]map[string]bool{}
	for _, n := range []string{fnToTL, dmPkg + ".(*Key).TLMultiItemFromKey"} {
		if fn := need(c, R, n); fn != nil {
			tlFieldsWritten(fn, written)
		}
	}
	if sb := need(c, R, agtPkg+".(*Shard).sampleBucket"); sb != nil {
		ks := agentKeepSet(sb)
		if len(ks) == 0 {
			c.Undecided(R, agtPkg+".(*Shard).sampleBucket/keepF", sb.Pos(), "cannot resolve the agent's KeepF closure")
		}
		for fn := range ks {
			c.Seen(core.FuncName(fn))
			tlFieldsWritten(fn, written)
		}
	}
	// flag-only fields: IsSet<F> exists but the struct has no field F
	isFlagOnly := func(t, f string) bool {
		pk := c.Prog.Pkg(genPkg)
		if pk == nil || pk.Types == nil {
			return false
		}
		obj := pk.Types.Scope().Lookup(t)
		if obj == nil {
			return false
		}
		st, ok := obj.Type().Underlying().(*types.Struct)
		if !ok {
			return false
		}
		for i := 0; i < st.NumFields(); i++ {
			if st.Field(i).Name() == f {
				return false
			}
		}
		return true
	}
	for _, n := range []string{fnTL2, fnTLItem2, dmPkg + ".KeyFromStatshouseMultiItem", dmPkg + ".(*MultiItem).MergeWithTLMultiItem"} {
		if fn := need(c, R, n); fn != nil {
			tlFieldsRead(fn, nil, read, isFlagOnly)
		}
	}
	if fn := need(c, R, aggPkg+".(*Aggregator).handleSendSourceBucket"); fn != nil {
		tlFieldsRead(fn, map[string]bool{tyTLItem[len(genPkg)+1:]: true, tyTLTop[len(genPkg)+1:]: true}, read, isFlagOnly)
	}
	for _, t := range []string{tyTLValue, tyTLItem, tyTLTop, tyTLCentr} {
		short := t[len(genPkg)+1:]
		w, r := written[short], read[short]
		delete(w, "FieldsMask")
		delete(r, "FieldsMask")
		var onlyW, onlyR []string
		for f := range w {
			if !r[f] {
				onlyW = append(onlyW, f)
			}
		}
		for f := range r {
			if !w[f] {
				onlyR = append(onlyR, f)
			}
		}
		sort.Strings(onlyW)
		sort.Strings(onlyR)
		if len(w) == 0 || len(r) == 0 {
			c.Undecided(R, short+"/field-set", token.NoPos, fmt.Sprintf("found %d written and %d read fields for %s", len(w), len(r), short))
			continue
		}
		c.Require(len(onlyW) == 0 && len(onlyR) == 0, R, short+"/field-set", token.NoPos,
			fmt.Sprintf("%d fields written = %d fields read: %s", len(w), len(r), strings.Join(core.SortedKeys(w), ",")),
			fmt.Sprintf("%s: fields sent by the agent but never read by the aggregator: %v; fields the aggregator reads but the agent never sends: %v", short, onlyW, onlyR))
	}
}

// ---- R3 ---------------------------------------------------------------------------------

func c02R3(c *core.Check) {
	const R = "C02-R3"
	c.Rule(R, "K7 value provenance", 8, "in MultiValueToTL: SetCounter(Count()*sf), SetValueSum(ValueSum*sf), SetValueSumSquare(ValueSumSquare*sf), centroid Count = float32(Weight*sf); SetValueMin(ValueMin), SetValueMax(ValueMax), centroid Value = float32(Mean); "+
		"host and unique arguments do not depend on the sample factor")
	transferScaling(c, R)
}

// transferScaling checks which arguments of MultiValueToTL's setters carry the sample factor (shared by C02-R3 and C05-R4).
func transferScaling(c *core.Check, R string) {
	fn := need(c, R, fnToTL)
	if fn == nil || len(fn.Params) < 4 {
		return
	}
	sf := ssa.Value(fn.Params[3])
	isSF := func(v ssa.Value) bool { return v == sf }
	atom := encAtom(fn)
	ext := map[string]string{"Counter": "Counter", "ValueSum": "ValueSum", "ValueSumSquare": "ValueSumSquare"}
	inten := map[string]string{"ValueMin": "ValueMin", "ValueMax": "ValueMax"}
	for _, s := range core.Calls(fn) {
		n := s.Callee
		i := strings.LastIndex(n, ").Set")
		if i < 0 || !strings.HasPrefix(n, genPkg+".(*StatshouseMultiValue") {
			continue
		}
		f := n[i+len(").Set"):]
		arg := s.Arg(1)
		key := fnToTL + "/Set" + f
		c.CallSites++
		switch {
		case ext[f] != "":
			o, ok := timesFactor(arg, isSF)
			a := ""
			if ok {
				a, _ = atom(o)
			}
			c.Require(ok && a == ext[f], R, key, s.Pos(), f+" is sent multiplied by the sample factor",
				"the extensive quantity "+f+" is sent as "+core.Expr(arg)+" instead of "+ext[f]+"*sampleFactor: after sampling the aggregated "+f+" no longer has the expected value of the original")
		case inten[f] != "":
			a, ok := atom(arg)
			c.Require(ok && a == inten[f], R, key, s.Pos(), f+" is sent unscaled",
				"the intensive quantity "+f+" is sent as "+core.Expr(arg)+" instead of the row's "+inten[f])
		default:
			c.Require(!core.Derives(arg, sf), R, key, s.Pos(), f+" does not depend on the sample factor", f+" is computed from the sample factor: "+core.Expr(arg))
		}
	}
	// centroids
	nV, nC := 0, 0
	for _, w := range core.FieldStoresU([]*ssa.Function{fn}, tyTLCentr, "Value") {
		nV++
		cv, ok := w.Val.(*ssa.Convert)
		okv := ok && !core.Derives(cv.X, sf)
		if okv {
			f, isF := dmFieldNameOf(cv.X)
			okv = isF && f == "Mean"
		}
		c.Require(okv, R, fnToTL+"/centroid.Value", w.Instr.Pos(), "centroid value is the unscaled mean", "centroid Value is sent as "+core.Expr(w.Val)+" instead of float32(Mean)")
	}
	for _, w := range core.FieldStoresU([]*ssa.Function{fn}, tyTLCentr, "Count") {
		nC++
		cv, ok := w.Val.(*ssa.Convert)
		okv := false
		if ok {
			if o, isMul := timesFactor(cv.X, isSF); isMul {
				f, isF := dmFieldNameOf(o)
				okv = isF && f == "Weight"
			}
		}
		c.Require(okv, R, fnToTL+"/centroid.Count", w.Instr.Pos(), "centroid weight is multiplied by the sample factor", "centroid Count is sent as "+core.Expr(w.Val)+" instead of float32(Weight*sampleFactor)")
	}
	if nV != 1 || nC != 1 {
		c.Undecided(R, fnToTL+"/centroids", fn.Pos(), fmt.Sprintf("expected one store each to centroid Value and Count, found %d/%d", nV, nC))
	}
}

// ---- R4 ---------------------------------------------------------------------------------

func c02R4(c *core.Check) {
	const R = "C02-R4"
	c.Rule(R, "K1 guard dominance", 4, "TLMultiItemFromKey calls SetT(k.Timestamp) exactly under k.Timestamp != defaultTimestamp (&& != 0); KeyFromStatshouseMultiItem assigns the bucket timestamp first and replaces it by item.T only under IsSetT")
	if fn := need(c, R, dmPkg+".(*Key).TLMultiItemFromKey"); fn != nil {
		name := core.FuncName(fn)
		k, def := ssa.Value(fn.Params[0]), ssa.Value(fn.Params[1])
		sites := core.CallsTo(fn, genPkg+".(*StatshouseMultiItem).SetT")
		if len(sites) != 1 {
			c.Undecided(R, name+"/SetT", fn.Pos(), fmt.Sprintf("expected one SetT call, found %d", len(sites)))
		} else {
			s := sites[0]
			c.CallSites++
			base, isTS := dmFieldLoad(s.Arg(1), dmPkg+".Key", "Timestamp")
			c.Require(isTS && base == k, R, name+"/SetT/value", s.Pos(), "sends the key's timestamp", "T is sent as "+core.Expr(s.Arg(1))+" instead of the key's Timestamp")
			isTSLoad := func(v ssa.Value) bool {
				b, ok := dmFieldLoad(v, dmPkg+".Key", "Timestamp")
				return ok && b == k
			}
			neDefault := func(l core.Lit) bool {
				return l.Op == token.EQL && !l.Pol && ((isTSLoad(l.X) && l.Y == def) || (isTSLoad(l.Y) && l.X == def))
			}
			c.Require(holdsPred(s.Block(), neDefault), R, name+"/SetT/guard", s.Pos(), "T is sent when it differs from the default timestamp",
				"SetT is not guarded by `k.Timestamp != defaultTimestamp`; facts: "+core.FactsString(s.Block()))
			// conversely: every path on which Timestamp != default && != 0 reaches SetT: the guards of the SetT block are only these two
			extra := 0
			for _, g := range core.Facts(s.Block()) {
				for _, l := range g.Alts {
					isNZ := l.Op == token.EQL && !l.Pol && isTSLoad(l.X) && core.IntConstIs(l.Y, 0)
					if !neDefault(l) && !isNZ {
						extra++
					}
				}
			}
			c.Require(extra == 0, R, name+"/SetT/only-guard", s.Pos(), "no further condition suppresses T",
				"SetT is additionally guarded by another condition: a row whose timestamp differs from the bucket's can be sent without T and is then moved to the bucket second; facts: "+core.FactsString(s.Block()))
		}
	}
	if fn := need(c, R, dmPkg+".KeyFromStatshouseMultiItem"); fn != nil {
		name := core.FuncName(fn)
		item, bts := ssa.Value(fn.Params[0]), ssa.Value(fn.Params[1])
		ws := core.FieldWrites([]*ssa.Function{fn}, dmPkg+".Key", "Timestamp")
		var defSt *ssa.Store
		nT := 0
		for _, w := range ws {
			st, ok := w.Instr.(*ssa.Store)
			if !ok {
				continue
			}
			underT := holdsPred(st.Block(), func(l core.Lit) bool {
				call, isCall := l.Cond.(*ssa.Call)
				return isCall && l.Pol && l.Op == 0 && strings.HasSuffix(core.CalleeName(&call.Call), "StatshouseMultiItemBytes).IsSetT") && call.Call.Args[0] == item
			})
			switch {
			case st.Val == bts && st.Block().Index == 0:
				defSt = st
			case underT:
				if base, isT := dmFieldLoad(st.Val, tyTLItem+"Bytes", "T"); isT && base == item {
					nT++
				} else if st.Val != bts {
					c.Fail(R, name+"/store:Timestamp", st.Pos(), "under IsSetT the key timestamp is set to "+core.Expr(st.Val)+", neither item.T nor the bucket timestamp (clamp)")
				}
			default:
				c.Fail(R, name+"/store:Timestamp", st.Pos(), "the key timestamp is assigned "+core.Expr(st.Val)+" outside the IsSetT branch and it is not the initial bucket timestamp")
			}
		}
		c.Require(defSt != nil, R, name+"/default", fn.Pos(), "rows without T get the bucket timestamp", "the decoder does not start from the bucket timestamp: rows sent without T (timestamp equal to the bucket's) get timestamp 0")
		c.Require(nT == 1, R, name+"/explicit", fn.Pos(), "rows with T get item.T", fmt.Sprintf("expected one assignment key.Timestamp = item.T under IsSetT, found %d", nT))
	}
}
