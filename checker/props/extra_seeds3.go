package props

import (
	"fmt"
	"go/token"
	"strings"

	"golang.org/x/tools/go/ssa"

	"shverif/core"
)

// Third batch of rules added from seeded changes (round-2 seeds c/d of C02, C04, C05,
// C07, C12, C21, C23, C26); see DESIGN.md §11.

func init() {
	Extend("C02", runC02Extra3,
		Mutant{Name: "seed-C02d-implicit-centroid-only-for-fresh-digest", File: "internal/data_model/transfer.go", Rule: "C02-R9",
			Old: "			s.ValueTDigest = tdigest.NewWithCompression(compression)\n		}\n		// values checked above\n		s.ValueTDigest.Add(float64(s2.ValueMin), float64(s2.Counter))\n",
			New: "			s.ValueTDigest = tdigest.NewWithCompression(compression)\n			// values checked above\n			s.ValueTDigest.Add(float64(s2.ValueMin), float64(s2.Counter))\n		}\n"})
	Extend("C04", runC04Extra3,
		Mutant{Name: "seed-C04c-rehash-second-pass-stops-at-home-slot", File: "internal/data_model/ch_unique.go", Rule: "C04-R6",
			Old: "	for i := 0; i < ch.bufSize() && ch.buf[i] != 0; i++ {\n		if i != ch.place(ch.buf[i]) {\n			x := ch.buf[i]\n			ch.buf[i] = 0\n			ch.reinsertImpl(x)\n		}\n	}",
			New: "	for i := 0; i < ch.bufSize() && ch.buf[i] != 0 && i != ch.place(ch.buf[i]); i++ {\n		x := ch.buf[i]\n		ch.buf[i] = 0\n		ch.reinsertImpl(x)\n	}"},
		Mutant{Name: "seed-C04d-cache-sketch-copied-only-when-rhs-nonempty", File: "internal/api/tscache.go", Rule: "C04-R7",
			Old: "		u := data_model.ChUnique{}\n		u.Merge(v.unique)\n		u.Merge(rhs.unique)\n		v.unique = u\n",
			New: "		if rhs.unique.ItemsCount() != 0 {\n			u := data_model.ChUnique{}\n			u.Merge(v.unique)\n			u.Merge(rhs.unique)\n			v.unique = u\n		}\n"})
	Extend("C05", runC05Extra3,
		Mutant{Name: "seed-C05c-row-meta-taken-without-id-match", File: "internal/data_model/sampling.go", Rule: "C05-R7",
			Old: "			if h.items[i].Item.MetricMeta != nil && h.items[i].MetricID == h.items[i].Item.MetricMeta.MetricID {",
			New: "			if h.items[i].Item.MetricMeta != nil {"},
		Mutant{Name: "revert-F20-group-within-budget-sampled-with-sf-below-1", File: "internal/data_model/sampling.go", Rule: "C05-R9",
			Old: "	if sfNum <= sfDenom {", New: "	if false {"},
		Mutant{Name: "seed-C05d-sf-computed-before-clamps", File: "internal/data_model/sampling.go", Rule: "C05-R8",
			Old: "	if sfNum < 1 {\n		sfNum = 1\n	}\n	if sfDenom < 1 {\n		sfDenom = 1\n	}\n	if sfNum <= sfDenom {",
			New: "	if sfNum <= sfDenom {"})
	Extend("C07", runC07Extra3,
		Mutant{Name: "seed-C07c-lookup-before-normalize", File: "internal/data_model/bucket.go", Rule: "C07-R5", Occurrence: 1,
			Old: "	tag.Normalize() // important here\n	if s.Top == nil {\n		s.Top = map[TagUnion]*MultiValue{}\n	}\n",
			New: "	if s.Top == nil {\n		s.Top = map[TagUnion]*MultiValue{}\n	}\n"})
	Extend("C12", runC12Extra3,
		Mutant{Name: "seed-C12c-corruption-test-after-normalisation", File: "internal/data_model/validation.go", Rule: "C12-R8",
			Old: "	corrupted := format.ContainsCorruptedBalancerValue(v.Value)\n\n	validValue, err := format.AppendValidStringValue(v.Value[:0], v.Value)\n",
			New: "	validValue, err := format.AppendValidStringValue(v.Value[:0], v.Value)\n	corrupted := format.ContainsCorruptedBalancerValue(v.Value)\n"},
		Mutant{Name: "seed-C12d-counter-fast-path-forgets-histogram", File: "internal/agent/agent.go", Rule: "C12-R9",
			Old: "	if len(m.Histogram)+len(m.Value) != 0 {", New: "	if len(m.Value) != 0 {"})
	Extend("C21", runC21Extra3,
		Mutant{Name: "seed-C21c-eof-before-position-commit", File: "internal/data_model/chunked_storage2.go", Rule: "C21-R7",
			Old: "	c.offset = c.nextOffset\n	c.hash = c.nextHash\n	if c.offset == c.initialFileSize {\n		c.ReadAt = nil\n		return nil, nil\n	}\n",
			New: "	if c.nextOffset == c.initialFileSize {\n		c.ReadAt = nil\n		return nil, nil\n	}\n	c.offset = c.nextOffset\n	c.hash = c.nextHash\n"})
	Extend("C23", runC23Extra3,
		Mutant{Name: "seed-C23c-awaiter-rows-from-whole-load", File: "internal/api/tscache2.go", Rule: "C23-R9",
			Old: "					a.loaderData[i] = append(a.loaderData[i][:0], chunkData[j]...)", New: "					a.loaderData[i] = append(a.loaderData[i][:0], l.data[j]...)"},
		Mutant{Name: "seed-C23d-chunk-end-inclusive-in-invalidate", File: "internal/api/tscache2.go", Rule: "C23-R10",
			Old: "		if end <= t {", New: "		if end < t {"})
	Extend("C26", runC26Extra3,
		Mutant{Name: "seed-C26c-empty-inclusion-filter-becomes-nop", File: "internal/api/sql_query_series.go", Rule: "C26-R5",
			Old: "				sb.WriteString(\"0!=0\")", New: "				sb.WriteString(\"0=0\")"})
}

func init() {
	Extend("C14", runC14Extra3,
		Mutant{Name: "seed-C14c-tl2-size-254-written-as-marker-byte", File: "internal/vkgo/basictl/basictl2.go", Rule: "C14-R7",
			Old: "func TL2WriteSize(w []byte, l int) []byte {\n	switch {\n	case l < mediumStringMarker:", New: "func TL2WriteSize(w []byte, l int) []byte {\n	switch {\n	case l <= mediumStringMarker:"},
		Mutant{Name: "tl1-string-253-written-in-medium-form", File: "internal/vkgo/basictl/basictl.go", Rule: "C14-R7",
			Old: "	case l <= tinyStringLen:\n		w = append(w, byte(l))", New: "	case l < tinyStringLen:\n		w = append(w, byte(l))"})
}

// classBounds lists, in block order, the upper bounds B of the integer classes `x <= B` that the
// branches of fn split off by comparing a non-constant with a constant K, lo <= K < hi:
// (x < K) gives B = K-1 and (K < x) gives B = K, whatever the polarity and the branch taken.
func classBounds(fn *ssa.Function, lo, hi int64) []int64 {
	var out []int64
	for _, b := range fn.Blocks {
		if len(b.Instrs) == 0 {
			continue
		}
		i, ok := b.Instrs[len(b.Instrs)-1].(*ssa.If)
		if !ok {
			continue
		}
		l := core.NormLit(i.Cond, true)
		if l.Op != token.LSS || l.X == nil {
			continue
		}
		if k, isK := core.ConstIntOf(l.Y); isK {
			if _, xK := core.ConstIntOf(l.X); !xK && k >= lo && k < hi {
				out = append(out, k-1)
			}
		} else if k, isK := core.ConstIntOf(l.X); isK && k >= lo && k < hi {
			out = append(out, k)
		}
	}
	return out
}

// C14-R7: the size-class boundaries of the length prefix agree between writers and readers.
func runC14Extra3(c *core.Check) {
	c.Decides += " R7 the writers and readers of the TL1 string length prefix and of the TL2 size agree on the largest length written in the one-byte form (253), and the TL2 writers agree on the largest length of the three-byte form (253 + 65536), the TL1 writer uses 2^24-1."
	c.Rule("C14-R7", "K8 sibling agreement (class boundaries)", 7, "first class bound of TL2ParseSize = first class bound of TL2WriteSize/TL2PutSize/TL2CalculateSize, second bound = first + 65536; first class bound of StringRead/StringReadBytes = first bound of StringWriteLen, second = 2^24-1")
	const pkg = "internal/vkgo/basictl."
	type fam struct {
		name    string
		readers []string
		writers []string
		second  func(first int64) int64
	}
	for _, f := range []fam{
		{"TL2 size", []string{"TL2ParseSize"}, []string{"TL2WriteSize", "TL2PutSize", "TL2CalculateSize"}, func(b int64) int64 { return b + 65536 }},
		{"TL1 string length", []string{"StringRead", "StringReadBytes"}, []string{"StringWriteLen"}, func(int64) int64 { return 1<<24 - 1 }},
	} {
		var first int64 = -1
		for _, r := range f.readers {
			fn := need(c, "C14-R7", pkg+r)
			if fn == nil {
				continue
			}
			bs := classBounds(fn, 128, 256)
			if len(bs) == 0 {
				c.Undecided("C14-R7", pkg+r+"/one-byte-class", fn.Pos(), "no comparison of the first byte with a marker constant found")
				continue
			}
			if first < 0 {
				first = bs[0]
			}
			c.Require(bs[0] == first, "C14-R7", pkg+r+"/one-byte-class", fn.Pos(), fmt.Sprintf("reader takes first byte <= %d as the length itself", bs[0]),
				fmt.Sprintf("%s readers disagree on the largest one-byte length: %d vs %d", f.name, bs[0], first))
		}
		for _, w := range f.writers {
			fn := need(c, "C14-R7", pkg+w)
			if fn == nil || first < 0 {
				continue
			}
			bs := classBounds(fn, 128, 1<<25)
			if len(bs) < 2 {
				c.Undecided("C14-R7", pkg+w+"/classes", fn.Pos(), fmt.Sprintf("expected two class boundaries, found %v", bs))
				continue
			}
			c.Require(bs[0] == first, "C14-R7", pkg+w+"/one-byte-class", fn.Pos(), fmt.Sprintf("writer uses the one-byte form up to %d", bs[0]),
				fmt.Sprintf("%s: the writer uses the one-byte form for lengths up to %d but the reader takes a first byte up to %d as the length: length %d is written as a byte the reader interprets as a marker (or the other way round)", f.name, bs[0], first, max64(bs[0], first)))
			c.Require(bs[1] == f.second(first), "C14-R7", pkg+w+"/medium-class", fn.Pos(), fmt.Sprintf("writer uses the medium form up to %d", bs[1]),
				fmt.Sprintf("%s: the writer uses the medium form for lengths up to %d, the format holds %d", f.name, bs[1], f.second(first)))
		}
	}
}

func max64(a, b int64) int64 {
	if a > b {
		return a
	}
	return b
}

// ifBranchOn returns, for the If in fn whose normalised condition matches pat, the successor
// taken when the condition (as normalised, positive polarity) holds.
func ifBranchOn(fn *ssa.Function, pat string) *ssa.BasicBlock {
	for _, b := range fn.Blocks {
		if len(b.Instrs) == 0 {
			continue
		}
		i, ok := b.Instrs[len(b.Instrs)-1].(*ssa.If)
		if !ok {
			continue
		}
		l := core.NormLit(i.Cond, true)
		if !core.Glob(pat, l.Text) {
			continue
		}
		if l.Pol {
			return b.Succs[0]
		}
		return b.Succs[1]
	}
	return nil
}

// C02-R9: the implicit centroid is added on every path.
func runC02Extra3(c *core.Check) {
	c.Decides += " R9 when the sender marked an implicit centroid, MergeWithTL2 adds (ValueMin, Counter) to the digest on every path to return (also when the receiving row already has a digest)."
	c.Rule("C02-R9", "K6 must-pass-through", 1, "no return of MergeWithTL2 is reachable from the IsSetImplicitCentroid branch without TDigest.Add(ValueMin, Counter)")
	fn := need(c, "C02-R9", "internal/data_model.(*MultiValue).MergeWithTL2")
	if fn == nil {
		return
	}
	br := ifBranchOn(fn, "*.IsSetImplicitCentroid(*)")
	if br == nil {
		c.Undecided("C02-R9", "internal/data_model.(*MultiValue).MergeWithTL2/implicit-centroid", fn.Pos(), "branch on IsSetImplicitCentroid not found")
		return
	}
	isAdd := func(in ssa.Instruction) bool {
		call, ok := in.(*ssa.Call)
		if !ok || !strings.HasSuffix(core.CalleeName(&call.Call), "tdigest.(*TDigest).Add") || len(call.Call.Args) != 3 {
			return false
		}
		return strings.Contains(core.Expr(call.Call.Args[1]), ".ValueMin") && strings.Contains(core.Expr(call.Call.Args[2]), ".Counter")
	}
	p := reachFromBlock(br, core.IsReturn, isAdd)
	pos := br.Instrs[0].Pos()
	c.Require(p == nil, "C02-R9", "internal/data_model.(*MultiValue).MergeWithTL2/implicit-centroid", pos, "implicit centroid added on every path",
		"a return is reachable from the implicit-centroid branch without ValueTDigest.Add(ValueMin, Counter) ("+pathStr(p)+"): when the receiving row already holds a digest the sender's single-value contribution is missing from the percentiles")
}

// C04-R6 / C04-R7.
func runC04Extra3(c *core.Check) {
	c.Decides += " R6 the second pass of ChUnique.rehash walks the whole first collision chain (it ends only at an empty cell or at the end of the table), so no element stays behind an emptied cell where lookups cannot find it; R7 the first merge into a tsValues (mergeCount == 0) replaces the unique sketch and the digest by private copies on every path, so later in-place merges never write into cache-owned memory."
	c.Rule("C04-R6", "K1 loop exit", 1, "every alternative under which rehash's last loop is left is `!(i < bufSize())` or `buf[i] == 0`")
	if fn := need(c, "C04-R6", "internal/data_model.(*ChUnique).rehash"); fn != nil {
		n := 0
		for _, r := range core.Returns(fn) {
			if len(r.Block().Preds) == 0 && r.Block().Index != 0 {
				continue
			}
			// the guard attached to the return block itself (one literal per incoming edge)
			var g *core.Guard
			for _, f := range core.Facts(r.Block()) {
				if f.Block == r.Block() {
					ff := f
					g = &ff
				}
			}
			n++
			site := fmt.Sprintf("internal/data_model.(*ChUnique).rehash/second-pass-exit#%d", n)
			if g == nil {
				c.Undecided("C04-R6", site, r.Pos(), "the return block is not entered through branch edges only")
				continue
			}
			bad := ""
			for _, l := range g.Alts {
				okAlt := (!l.Pol && core.Glob("(phi(*) < *.bufSize(*))", l.Text)) || (l.Pol && core.Glob("(*.buf[phi(*)] == 0)", l.Text))
				if !okAlt {
					bad = l.String()
				}
			}
			c.Require(bad == "", "C04-R6", site, r.Pos(), "second pass ends only at an empty cell or the end of the table",
				"the second pass of rehash can also stop under "+bad+": the rest of the first collision chain is not re-placed, an element left behind an emptied cell is not found by a later insert of the same hash and is counted twice")
		}
		if n == 0 {
			c.Undecided("C04-R6", "internal/data_model.(*ChUnique).rehash/second-pass-exit", fn.Pos(), "no return found")
		}
	}
	c.Rule("C04-R7", "K6 must-pass-through", 2, "in tsValues.merge no store to mergeCount is reachable from the mergeCount == 0 branch without a store of a local copy into v.unique, nor without a store into v.percentile")
	if fn := need(c, "C04-R7", "internal/api.(*tsValues).merge"); fn != nil {
		br := ifBranchOn(fn, "(*.mergeCount == 0)")
		if br == nil {
			c.Undecided("C04-R7", "internal/api.(*tsValues).merge/first-merge", fn.Pos(), "branch on mergeCount == 0 not found")
			return
		}
		isInc := isStoreToField("internal/api.tsValues", "mergeCount")
		freshUnique := func(in ssa.Instruction) bool {
			st, ok := in.(*ssa.Store)
			if !ok || !core.IsField(st.Addr, "internal/api.tsValues", "unique") {
				return false
			}
			ld, isLd := st.Val.(*ssa.UnOp)
			if !isLd || ld.Op != token.MUL {
				return false
			}
			_, isAlloc := ld.X.(*ssa.Alloc)
			return isAlloc
		}
		p := reachFromBlock(br, isInc, freshUnique)
		c.Require(p == nil, "C04-R7", "internal/api.(*tsValues).merge/first-merge/unique", br.Instrs[0].Pos(), "first merge always installs a private sketch",
			"the first merge can finish without replacing v.unique by a local copy ("+pathStr(p)+"): v.unique still aliases the sketch owned by the cache, and the next merge (mergeCount != 0) inserts into it in place — later requests read a polluted cached row")
		p = reachFromBlock(br, isInc, isStoreToField("internal/api.tsValues", "percentile"))
		c.Require(p == nil, "C04-R7", "internal/api.(*tsValues).merge/first-merge/percentile", br.Instrs[0].Pos(), "first merge always installs a private digest",
			"the first merge can finish without replacing v.percentile ("+pathStr(p)+"): the digest owned by the cache is merged into in place afterwards")
	}
}

// C05-R7 / C05-R8.
func runC05Extra3(c *core.Check) {
	c.Decides += " R7 the sampler takes a row's own MetricMeta as the accounting metric only when its MetricID equals the row's accounting MetricID (otherwise NoSampleAgent, fair keys and weights of another metric are applied); R8 the sample factor handed to SelectF/keep/discard is the quotient of the clamped (>= 1) numerator and denominator."
	c.Rule("C05-R7", "K1 guard dominance", 1, "every store items[i].metric <- items[i].Item.MetricMeta is dominated by items[i].MetricID == items[i].Item.MetricMeta.MetricID")
	n := 0
	for _, w := range core.FieldStoresU(c.Prog.FuncsIn("internal/data_model"), "internal/data_model.SamplingMultiItemPair", "metric") {
		if !strings.HasSuffix(core.Expr(w.Val), ".Item.MetricMeta") {
			continue
		}
		n++
		ok := core.HoldsAnyOf(w.Instr.Block(), core.T("(*.MetricID == *.Item.MetricMeta.MetricID)"), core.T("(*.Item.MetricMeta.MetricID == *.MetricID)"))
		c.Require(ok, "C05-R7", fmt.Sprintf("%s/store:metric<-Item.MetricMeta#%d", core.FuncName(w.Fn), n), w.Instr.Pos(), "row meta used only when it is the accounting metric",
			"the row's own MetricMeta becomes the accounting metric without the test MetricID == Item.MetricMeta.MetricID: rows accounted to another metric (e.g. built-in ingestion statuses billed to the user's metric) are sampled with the wrong NoSampleAgent flag, weight and fair key")
	}
	if n == 0 {
		c.Undecided("C05-R7", "internal/data_model/SamplingMultiItemPair.metric", 0, "no store of Item.MetricMeta into metric found")
	}
	c.Rule("C05-R8", "K7 provenance", 1, "the float division feeding SelectF in sampler.sample has operands float64(clamped) where clamped is phi(x | 1) or max(x, 1)")
	if fn := need(c, "C05-R8", "internal/data_model.(*sampler).sample"); fn != nil {
		n := 0
		for _, b := range fn.Blocks {
			for _, in := range b.Instrs {
				call, ok := in.(*ssa.Call)
				if !ok || call.Call.IsInvoke() || !strings.HasSuffix(core.Expr(call.Call.Value), ".SelectF") || len(call.Call.Args) < 2 {
					continue
				}
				quos := map[*ssa.BinOp]bool{}
				collectQuo(call.Call.Args[1], quos, map[ssa.Value]bool{})
				for q := range quos {
					n++
					ok := clampedOne(q.X) && clampedOne(q.Y)
					c.Require(ok, "C05-R8", fmt.Sprintf("internal/data_model.(*sampler).sample/sf-quotient#%d", n), q.Pos(), "sf is computed from clamped operands",
						"the sample factor "+core.Expr(q)+" is computed from operands that are not clamped to >= 1: a group with zero budget gets sf = +Inf (or NaN), rows are kept with an infinite factor")
				}
			}
		}
		if n == 0 {
			c.Undecided("C05-R8", "internal/data_model.(*sampler).sample/sf-quotient", fn.Pos(), "no division feeding SelectF found")
		}
	}
	// R9 (F20): a computed factor is used only when it exceeds 1.
	c.Rule("C05-R9", "K1 guard dominance", 2, "in sampler.sample every keep/discard whose factor is not the constant 1 is dominated by sfDenom < sfNum (or 1 < sf)")
	if fn := need(c, "C05-R9", "internal/data_model.(*sampler).sample"); fn != nil {
		n := 0
		for _, s := range core.CallsTo(fn, "internal/data_model.(*SamplingMultiItemPair).keep", "internal/data_model.(*SamplingMultiItemPair).discard") {
			if k, isK := s.Arg(1).(*ssa.Const); isK && k.Value != nil && k.Value.ExactString() == "1" {
				continue
			}
			n++
			ok := false
			for _, g := range core.Facts(s.Block()) {
				if len(g.Alts) != 1 {
					continue
				}
				l := g.Alts[0]
				if !l.Pol || l.Op != token.LSS || l.X == nil || l.Y == nil {
					continue
				}
				x, y := core.Expr(l.X), core.Expr(l.Y)
				if strings.Contains(x, ".budget") && !strings.Contains(x, "budgetDenom") && strings.Contains(y, ".budgetDenom") && strings.Contains(y, ".sumSize") {
					ok = true
				}
				if x == "1" && strings.Contains(y, " / ") && strings.Contains(y, ".budgetDenom") {
					ok = true
				}
			}
			c.Require(ok, "C05-R9", fmt.Sprintf("internal/data_model.(*sampler).sample/%s#%d", shortCallee(s), n), s.Pos(), "computed factor used only when above 1",
				"a row is kept/discarded with the computed factor "+core.Expr(s.Arg(1))+" without the test that it exceeds 1: a group that fits its (fixed) budget reaches sample() after run() stopped at another group, SelectF keeps every row for sf <= 1 and the rows carry SF < 1 (e.g. 0.8) although kept with probability 1")
		}
		if n == 0 {
			c.Undecided("C05-R9", "internal/data_model.(*sampler).sample/keep-discard", fn.Pos(), "no keep/discard with a computed factor found")
		}
	}
}

func shortCallee(s core.Site) string {
	n := core.CalleeName(s.Common())
	if i := strings.LastIndex(n, "."); i >= 0 {
		return n[i+1:]
	}
	return n
}

func collectQuo(v ssa.Value, out map[*ssa.BinOp]bool, seen map[ssa.Value]bool) {
	if seen[v] {
		return
	}
	seen[v] = true
	switch x := v.(type) {
	case *ssa.BinOp:
		if x.Op == token.QUO {
			out[x] = true
			return
		}
		collectQuo(x.X, out, seen)
		collectQuo(x.Y, out, seen)
	case *ssa.Phi:
		for _, e := range x.Edges {
			collectQuo(e, out, seen)
		}
	case *ssa.Convert:
		collectQuo(x.X, out, seen)
	}
}

func clampedOne(v ssa.Value) bool {
	if cv, ok := v.(*ssa.Convert); ok {
		v = cv.X
	}
	isOne := func(x ssa.Value) bool {
		k, ok := x.(*ssa.Const)
		return ok && k.Value != nil && k.Value.ExactString() == "1"
	}
	switch x := v.(type) {
	case *ssa.Phi:
		for _, e := range x.Edges {
			if isOne(e) {
				return true
			}
		}
	case *ssa.Call:
		if core.CalleeName(&x.Call) == "builtin max" {
			for _, a := range x.Call.Args {
				if isOne(a) {
					return true
				}
			}
		}
	}
	return false
}

// C07-R5: the string-top key is normalised before the map is consulted.
func runC07Extra3(c *core.Check) {
	c.Decides += " R5 MapStringTop/MapStringTopBytes normalise the tag (S cleared when I != 0) before any lookup or insertion in s.Top, so one value has one key and its weight is not split between two entries."
	c.Rule("C07-R5", "K6 must-pass-through", 2, "in MapStringTop and MapStringTopBytes no lookup or update of s.Top is reachable from entry without tag.Normalize()")
	for _, name := range []string{"internal/data_model.(*MultiItem).MapStringTop", "internal/data_model.(*MultiItem).MapStringTopBytes"} {
		fn := need(c, "C07-R5", name)
		if fn == nil {
			continue
		}
		isNorm := func(in ssa.Instruction) bool {
			call, ok := in.(*ssa.Call)
			return ok && strings.HasSuffix(core.CalleeName(&call.Call), ").Normalize")
		}
		isTop := func(in ssa.Instruction) bool {
			switch x := in.(type) {
			case *ssa.Lookup:
				return core.LoadsField(x.X, "internal/data_model.MultiItem", "Top")
			case *ssa.MapUpdate:
				return core.LoadsField(x.Map, "internal/data_model.MultiItem", "Top")
			}
			return false
		}
		has := core.ReachFromEntryWithout(fn, isTop, nil) != nil
		p := core.ReachFromEntryWithout(fn, isTop, isNorm)
		if !has {
			c.Undecided("C07-R5", name+"/top-access", fn.Pos(), "no access to s.Top found")
			continue
		}
		c.Require(p == nil, "C07-R5", name+"/top-access", fn.Pos(), "Top consulted only with a normalised key",
			"s.Top is looked up or updated before tag.Normalize() ("+pathStr(p)+"): a value sent as {I, S} misses the entry stored under {I} and a second entry for the same value is created, or an existing one is not found")
	}
}

// C12-R8 / C12-R9.
func runC12Extra3(c *core.Check) {
	c.Decides += " R8 the corrupted-balancer test of a tag value is made on the bytes as received, before AppendValidStringValue rewrites them in place; R9 ApplyCounter is reached only when histogram, values and uniques are all empty."
	c.Rule("C12-R8", "K6 ordering", 1, "no call ContainsCorruptedBalancerValue(x) is reachable from AppendValidStringValue(x[:0], x) on the same x")
	n := 0
	for _, fn := range c.Prog.FuncsIn("internal/data_model", "internal/agent", "internal/mapping") {
		tests := core.CallsTo(fn, "internal/format.ContainsCorruptedBalancerValue")
		for _, t := range tests {
			n++
			src := core.Expr(t.Arg(0))
			var bad *core.PathTo
			for _, a := range core.CallsTo(fn, "internal/format.AppendValidStringValue") {
				if core.Expr(a.Arg(1)) != src {
					continue
				}
				tt := t
				if p := core.ReachWithout(a.Instr, func(in ssa.Instruction) bool { return in == tt.Instr }, nil); p != nil {
					bad = p
				}
			}
			c.Require(bad == nil, "C12-R8", fmt.Sprintf("%s/corrupted-test#%d", core.FuncName(fn), n), t.Pos(), "corruption test sees the received bytes",
				"ContainsCorruptedBalancerValue("+src+") runs after AppendValidStringValue rewrote the same bytes in place ("+pathStr(bad)+"): the marker bytes are replaced by the normaliser, the corrupted event is accepted")
		}
	}
	if n == 0 {
		c.Undecided("C12-R8", "internal/format.ContainsCorruptedBalancerValue", 0, "no caller found")
	}
	c.Rule("C12-R9", "K1 guard dominance", 2, "every ApplyCounter call in ApplyMetric is dominated by `== 0` tests covering len(m.Histogram), len(m.Value) and len(m.Unique)")
	if fn := need(c, "C12-R9", "internal/agent.(*Agent).ApplyMetric"); fn != nil {
		sites := core.CallsTo(fn, "internal/agent.(*Shard).ApplyCounter")
		for i, s := range sites {
			missing := []string{}
			for _, f := range []string{"Histogram", "Value", "Unique"} {
				found := false
				for _, g := range core.Facts(s.Block()) {
					if len(g.Alts) != 1 {
						continue
					}
					l := g.Alts[0]
					if l.Pol && l.Op == token.EQL && strings.HasSuffix(l.Text, " == 0)") && !strings.Contains(l.Text, " * ") && !strings.Contains(l.Text, " - ") &&
						strings.Contains(l.Text, "len({1:*tlstatshouse.MetricBytes}."+f+")") {
						found = true
					}
				}
				if !found {
					missing = append(missing, f)
				}
			}
			c.Require(len(missing) == 0, "C12-R9", fmt.Sprintf("internal/agent.(*Agent).ApplyMetric/ApplyCounter#%d", i+1), s.Pos(), "counter path only for events without values",
				fmt.Sprintf("ApplyCounter is reachable without a test that %v is empty: such an event loses its values/histogram and is counted as a plain counter", missing))
		}
		if len(sites) == 0 {
			c.Undecided("C12-R9", "internal/agent.(*Agent).ApplyMetric/ApplyCounter", fn.Pos(), "no ApplyCounter call found")
		}
	}
}

// C21-R7: end-of-file is reported only after the reader position is committed.
func runC21Extra3(c *core.Check) {
	c.Decides += " R7 ReadNext commits offset/hash (<- nextOffset/nextHash) before it reports end of file by clearing ReadAt, so the writer continues after the last chunk read and chains its hash."
	c.Rule("C21-R7", "K6 must-pass-through", 2, "the store ReadAt <- nil in ReadNext is not reachable from entry without offset <- nextOffset, nor without hash <- nextHash")
	fn := need(c, "C21-R7", "internal/data_model.(*ChunkedStorage2).ReadNext")
	if fn == nil {
		return
	}
	const typ = "internal/data_model.ChunkedStorage2"
	isEOF := func(in ssa.Instruction) bool {
		st, ok := in.(*ssa.Store)
		return ok && core.IsField(st.Addr, typ, "ReadAt") && isNilConst(st.Val)
	}
	if core.ReachFromEntryWithout(fn, isEOF, nil) == nil {
		c.Undecided("C21-R7", "internal/data_model.(*ChunkedStorage2).ReadNext/eof", fn.Pos(), "store ReadAt <- nil not found")
		return
	}
	for _, pr := range [][2]string{{"offset", "nextOffset"}, {"hash", "nextHash"}} {
		dst, src := pr[0], pr[1]
		commit := func(in ssa.Instruction) bool {
			st, ok := in.(*ssa.Store)
			return ok && core.IsField(st.Addr, typ, dst) && core.LoadsField(st.Val, typ, src)
		}
		p := core.ReachFromEntryWithout(fn, isEOF, commit)
		c.Require(p == nil, "C21-R7", "internal/data_model.(*ChunkedStorage2).ReadNext/eof/"+dst, fn.Pos(), dst+" committed before end of file is reported",
			"ReadNext reports end of file without committing "+dst+" <- "+src+" ("+pathStr(p)+"): the writer then continues at the start of the last chunk read (with the hash of the chunk before it) and overwrites it")
	}
}

// C23-R9 / C23-R10.
func runC23Extra3(c *core.Check) {
	c.Decides += " R9 the rows a finished load hands to a chunk's awaiters are taken from the same slice of the loaded data as the rows stored into that chunk; R10 cache2.invalidate starts a new chunk exactly when the invalidated second is not before the current chunk's end (chunks are half-open)."
	c.Rule("C23-R9", "K8 sibling agreement", 1, "in loadChunks the source of append(a.loaderData[i][:0], S[j]...) is the same slice expression S as in append(chunk.data[i][:0], S[i]...)")
	if fn := need(c, "C23-R9", "internal/api.(*cache2Loader).loadChunks"); fn != nil {
		srcOf := map[string][]string{}
		var pos token.Pos
		for _, b := range fn.Blocks {
			for _, in := range b.Instrs {
				call, ok := in.(*ssa.Call)
				if !ok || core.CalleeName(&call.Call) != "builtin append" || len(call.Call.Args) != 2 {
					continue
				}
				dst := core.Expr(call.Call.Args[0])
				kind := ""
				switch {
				case strings.Contains(dst, ".loaderData["):
					kind = "awaiter"
					pos = call.Pos()
				case strings.Contains(dst, ".chunk.data["):
					kind = "chunk"
				default:
					continue
				}
				src := "?"
				if ld, isLd := call.Call.Args[1].(*ssa.UnOp); isLd {
					if ia, isIA := ld.X.(*ssa.IndexAddr); isIA {
						src = core.Expr(ia.X)
					}
				}
				srcOf[kind] = append(srcOf[kind], src)
			}
		}
		if len(srcOf["awaiter"]) == 0 || len(srcOf["chunk"]) != 1 {
			c.Undecided("C23-R9", "internal/api.(*cache2Loader).loadChunks/awaiter-copy", fn.Pos(), fmt.Sprintf("copies not recognised: %v", srcOf))
		} else {
			ok := true
			for _, s := range srcOf["awaiter"] {
				if s != srcOf["chunk"][0] {
					ok = false
				}
			}
			c.Require(ok, "C23-R9", "internal/api.(*cache2Loader).loadChunks/awaiter-copy", pos, "awaiters get rows of the chunk being processed",
				fmt.Sprintf("awaiters are served from %v while the chunk is filled from %v: a request waiting for a later chunk of the same load receives the rows of the first chunk's slots", srcOf["awaiter"], srcOf["chunk"]))
		}
	}
	c.Rule("C23-R10", "K1 boundary", 1, "in cache2.invalidate the second chunkStart call (next chunk) is guarded by !(t < end)")
	if fn := need(c, "C23-R10", "internal/api.(*cache2).invalidate"); fn != nil {
		sites := core.CallsTo(fn, "internal/api.(*cache2).chunkStart")
		n := 0
		for _, s := range sites {
			inLoop := false
			for _, g := range core.Facts(s.Block()) {
				for _, l := range g.Alts {
					if strings.Contains(l.Text, "phi(1 |") || strings.Contains(l.Text, "chunkEnd") {
						inLoop = true
					}
				}
			}
			if !inLoop {
				continue
			}
			n++
			ok := core.Holds(s.Block(), core.F("((*[*] * 1000000000) < phi(*chunkEnd*))"))
			c.Require(ok, "C23-R10", fmt.Sprintf("internal/api.(*cache2).invalidate/next-chunk#%d", n), s.Pos(), "a second equal to the chunk end starts the next chunk",
				"the next chunk is started under "+core.FactsString(s.Block())+" instead of !(t < end): a second that equals the end of the current chunk is attributed to it, and the chunk it really belongs to is not invalidated (stale rows are served)")
		}
		if n == 0 {
			c.Undecided("C23-R10", "internal/api.(*cache2).invalidate/next-chunk", fn.Pos(), "loop call of chunkStart not found")
		}
	}
}

// C26-R5: placeholders of an empty mapped list.
func runC26Extra3(c *core.Check) {
	c.Decides += " R5 in writeTagFilter the tautology placeholder `0=0` is written only for the exclusion filter and the contradiction `0!=0` for the inclusion filter (an inclusion filter with no mapped value must select nothing through its mapped part)."
	c.Rule("C26-R5", "K1 guard dominance", 2, "every WriteString(\"0=0\") in writeTagFilter is under !(op[0] == \" IN \"); a WriteString(\"0!=0\") exists under op[0] == \" IN \"")
	fn := need(c, "C26-R5", "internal/api.(*queryBuilder).writeTagFilter")
	if fn == nil {
		return
	}
	nTaut, nContra := 0, 0
	for _, s := range core.CallsTo(fn, "strings.(*Builder).WriteString") {
		k, ok := s.Arg(1).(*ssa.Const)
		if !ok || k.Value == nil {
			continue
		}
		switch strings.ReplaceAll(strings.Trim(k.Value.ExactString(), `"`), " ", "") {
		case "0=0", "1=1":
			nTaut++
			okG := core.Holds(s.Block(), core.F("(*[0] == \" IN \")"))
			c.Require(okG, "C26-R5", fmt.Sprintf("internal/api.(*queryBuilder).writeTagFilter/tautology#%d", nTaut), s.Pos(), "tautology only for the exclusion filter",
				"the placeholder `0=0` is written without the test that this is the exclusion filter: an inclusion filter whose values are all unmapped becomes `0=0 OR …` and selects every row")
		case "0!=0", "1=0", "0=1", "1!=1":
			if core.Holds(s.Block(), core.T("(*[0] == \" IN \")")) {
				nContra++
			}
		}
	}
	c.Require(nContra > 0, "C26-R5", "internal/api.(*queryBuilder).writeTagFilter/contradiction", fn.Pos(), "inclusion filter without mapped values writes a contradiction",
		"no contradiction placeholder (`0!=0`) is written for an inclusion filter without mapped values")
}
