package props

import (
	"fmt"
	"go/token"
	"strings"

	"golang.org/x/tools/go/ssa"

	"shverif/core"
)

// Sixth batch: rules for round-3 seeds (variants e/f) of C02, C04, C12, C21, C23, C26, C27; see DESIGN.md §11.

func init() {
	Extend("C02", runC02Extra6,
		Mutant{Name: "seed-C02e-string-top-key-aliases-receive-buffer", File: "internal/data_model/bucket.go", Rule: "C02-R10",
			Old: "	s.Top[TagUnion{S: string(tag.S), I: tag.I}] = c", New: "	s.Top[TagUnion{S: unsafeTagS, I: tag.I}] = c"})
	Extend("C04", runC04Extra6,
		Mutant{Name: "seed-C04f-empty-contribution-can-win-max-count-host", File: "internal/data_model/max_host_probability.go", Rule: "C04-R8",
			Old: "func (s *ItemCounter) Merge(rng *rand.Rand, other ItemCounter) {\n	if other.counter <= 0 {\n		return\n	}\n", New: "func (s *ItemCounter) Merge(rng *rand.Rand, other ItemCounter) {\n	if other.counter < 0 {\n		return\n	}\n"})
	Extend("C12", runC12Extra6,
		Mutant{Name: "seed-C12e-unique-events-skip-counter-validation", File: "internal/data_model/validation.go", Rule: "C12-R10",
			Old: "	if ingestionError = format.ValidateCounter(metricBytes.Counter); ingestionError != 0 {", New: "	if len(metricBytes.Unique) != 0 {\n		return 0\n	}\n	if ingestionError = format.ValidateCounter(metricBytes.Counter); ingestionError != 0 {"},
		Mutant{Name: "seed-C12f-explicit-counter-below-len-replaced", File: "internal/agent/agent_shard.go", Rule: "C12-R11",
			Old: "	if count == 0 {\n		count = float64(len(hashes))\n	}", New: "	if count < float64(len(hashes)) {\n		count = float64(len(hashes))\n	}"})
	Extend("C21", runC21Extra6,
		Mutant{Name: "seed-C21e-marked-saved-before-writing", File: "internal/pcache/mappings_cache.go", Rule: "C21-R8",
			Old: "	if c.version == c.lastSavedVersion {\n		return false, nil\n	}\n", New: "	if c.version == c.lastSavedVersion {\n		return false, nil\n	}\n	c.lastSavedVersion = c.version\n"})
	Extend("C23", runC23Extra6,
		Mutant{Name: "seed-C23f-global-inflight-bytes-before-request-lookup", File: "internal/api/tscache2_inflight.go", Rule: "C23-R11",
			Old: "	r, ok := c.inflightReqM[reqID]\n	if !ok {\n		c.mu.Unlock()\n		return\n	}\n	c.inflightBytes += deltaBytes\n", New: "	c.inflightBytes += deltaBytes\n	r, ok := c.inflightReqM[reqID]\n	if !ok {\n		c.mu.Unlock()\n		return\n	}\n"})
	Extend("C26", runC26Extra6,
		Mutant{Name: "seed-C26e-mapped-sentinel-value-dropped", File: "internal/api/sql_query_series.go", Rule: "C26-R6",
			Old: "			if v.IsMapped() {\n				if !hasMapped {", New: "			if v.IsMapped() && v.Mapped != format.TagValueIDDoesNotExist {\n				if !hasMapped {"},
		Mutant{Name: "seed-C26f-early-continue-after-open-paren", File: "internal/api/sql_query_series.go", Rule: "C26-R7",
			Old: "			raw = b.metric.Tags[tagX].Raw()\n		}\n", New: "			raw = b.metric.Tags[tagX].Raw()\n		}\n		if raw && !in && len(filter.Values) == 0 {\n			continue\n		}\n"})
	Extend("C27", runC27Extra6,
		Mutant{Name: "seed-C27e-reduction-drops-empty-without", File: "internal/promql/reductions.go", Rule: "C27-R9",
			Old: "	r.groupBy = agg.Grouping\n	r.groupWithout = agg.Without\n", New: "	if len(agg.Grouping) != 0 {\n		r.groupBy = agg.Grouping\n		r.groupWithout = agg.Without\n	}\n"},
		Mutant{Name: "seed-C27f-window-edge-written-directly", File: "internal/promql/functions.go", Rule: "C27-R10",
			Old: "						wnd.setValueAtRight(nilValue)", New: "						(*s.Values)[wnd.r] = nilValue"})
}

// C02-R10: keys inserted into a row's string-top map own their bytes.
func runC02Extra6(c *core.Check) {
	c.Decides += " R10 the key under which MapStringTopBytes inserts a new string-top entry is built from a copy of the tag bytes (string(b)), never from unsafe.String over the caller's buffer (the receive buffer is reused for the next row)."
	c.Rule("C02-R10", "K7 ownership", 1, "for every map update of MultiItem.Top in package data_model whose key is a local TagUnion, no store into that local's S field takes a builtin String(SliceData(...)) value")
	n := 0
	for _, fn := range c.Prog.FuncsIn("internal/data_model") {
		for _, b := range fn.Blocks {
			for _, in := range b.Instrs {
				mu, ok := in.(*ssa.MapUpdate)
				if !ok || !core.LoadsField(mu.Map, "internal/data_model.MultiItem", "Top") {
					continue
				}
				ld, isLd := mu.Key.(*ssa.UnOp)
				if !isLd {
					continue
				}
				a, isA := ld.X.(*ssa.Alloc)
				if !isA {
					continue
				}
				n++
				bad := ""
				for _, r := range core.Referrers(a) {
					fa, isFA := r.(*ssa.FieldAddr)
					if !isFA || !core.IsField(fa, "internal/data_model.TagUnion", "S") {
						continue
					}
					for _, rr := range core.Referrers(fa) {
						if st, isSt := rr.(*ssa.Store); isSt && st.Addr == ssa.Value(fa) {
							if call, isCall := st.Val.(*ssa.Call); isCall && core.CalleeName(&call.Call) == "builtin String" {
								bad = core.Expr(st.Val)
							}
						}
					}
				}
				c.Require(bad == "", "C02-R10", fmt.Sprintf("%s/top-insert#%d/key", core.FuncName(fn), n), mu.Pos(), "inserted key owns its bytes",
					"the key inserted into s.Top holds "+bad+", a string header over the caller's byte buffer: when the receive buffer is reused for the next row the keys of this row's string-top entries change under the map")
			}
		}
	}
	if n == 0 {
		c.Undecided("C02-R10", "internal/data_model/MultiItem.Top", 0, "no insertion with a local key found")
	}
}

// C04-R8: an empty contribution never supplies the max-count host.
func runC04Extra6(c *core.Check) {
	c.Decides += " R8 in ItemCounter.Merge and AddCounterHost every assignment of the max-count host is made under `0 < incoming count` (a contribution without events cannot become the max-count host)."
	c.Rule("C04-R8", "K1 guard dominance", 4, "every store to ItemCounter.MaxCounterHostTag in Merge / AddCounterHost is dominated by 0 < (incoming counter)")
	n := 0
	for _, name := range []string{"internal/data_model.(*ItemCounter).Merge", "internal/data_model.(*ItemCounter).AddCounterHost"} {
		fn := need(c, "C04-R8", name)
		if fn == nil {
			continue
		}
		for _, w := range core.FieldStoresU([]*ssa.Function{fn}, "internal/data_model.ItemCounter", "MaxCounterHostTag") {
			n++
			ok := false
			for _, g := range core.Facts(w.Instr.Block()) {
				if len(g.Alts) != 1 {
					continue
				}
				l := g.Alts[0]
				if l.Pol && l.Op == token.LSS && core.IsConstInt(l.X, 0) && !strings.Contains(core.Expr(l.Y), "{0:*data_model.ItemCounter}") {
					ok = true
				}
				if cst, isC := l.X.(*ssa.Const); l.Pol && l.Op == token.LSS && isC && cst.Value != nil && cst.Value.String() == "0" && !strings.Contains(core.Expr(l.Y), "{0:*data_model.ItemCounter}") {
					ok = true
				}
			}
			c.Require(ok, "C04-R8", fmt.Sprintf("%s/store:MaxCounterHostTag#%d", name, n), w.Instr.Pos(), "host adopted only from a contribution with events",
				"the max-count host can be taken from a contribution whose counter is not positive: merging an empty item from another host makes a host that contributed nothing the max-count host with probability 1/(count+1)")
		}
	}
	if n == 0 {
		c.Undecided("C04-R8", "internal/data_model/ItemCounter.MaxCounterHostTag", 0, "no store found")
	}
}

// C12-R10/R11.
func runC12Extra6(c *core.Check) {
	c.Decides += " R10 ValidateMetricData returns success only behind ValidateCounter(metricBytes.Counter) == 0 (no kind of event skips the counter check); R11 Shard.ApplyUnique / ApplyValues replace the event's counter by the number of values only under counter == 0 (an explicit counter is never overridden)."
	c.Rule("C12-R10", "K1 guard dominance", 3, "every return of ValidateMetricData is a non-zero constant, a validator result established non-zero, or dominated by ValidateCounter(metricBytes.Counter) == 0")
	if fn := need(c, "C12-R10", "internal/data_model.ValidateMetricData"); fn != nil {
		for i, r := range core.Returns(fn) {
			vals := core.ReturnedValues(r)
			if len(vals) != 1 {
				continue
			}
			v := vals[0]
			ok := core.Holds(r.Block(), core.T("(internal/format.ValidateCounter({0:*tlstatshouse.MetricBytes}.Counter) == 0)"))
			if k, isK := core.ConstIntOf(v); isK && k != 0 {
				ok = true
			}
			if !ok {
				for _, g := range core.Facts(r.Block()) {
					if len(g.Alts) == 1 && !g.Alts[0].Pol && g.Alts[0].Op == token.EQL && g.Alts[0].X == v && core.IsConstInt(g.Alts[0].Y, 0) {
						ok = true
					}
				}
			}
			c.Require(ok, "C12-R10", fmt.Sprintf("internal/data_model.ValidateMetricData/return#%d", i+1), r.Pos(), "success only behind the counter check",
				"ValidateMetricData can return "+core.Expr(v)+" (possibly 0 = accepted) without ValidateCounter(metricBytes.Counter) == 0: an event of that kind with a negative, NaN or infinite counter is accepted")
		}
	}
	c.Rule("C12-R11", "K1 guard dominance (phi edge)", 2, "in Shard.ApplyUnique/ApplyValues every phi that merges the counter parameter with a computed default takes the default only from a block under (counter == 0)")
	for _, name := range []string{"internal/agent.(*Shard).ApplyUnique", "internal/agent.(*Shard).ApplyValues"} {
		fn := need(c, "C12-R11", name)
		if fn == nil {
			continue
		}
		var cnt *ssa.Parameter
		for _, p := range fn.Params {
			if p.Type().String() == "float64" {
				cnt = p
			}
		}
		n := 0
		for _, b := range fn.Blocks {
			for _, phi := range core.Phis(b) {
				hasParam := false
				for _, e := range phi.Edges {
					if e == ssa.Value(cnt) {
						hasParam = true
					}
				}
				if !hasParam || cnt == nil {
					continue
				}
				for i, e := range phi.Edges {
					if e == ssa.Value(cnt) {
						continue
					}
					n++
					ok := core.Holds(b.Preds[i], core.T("("+core.Expr(cnt)+" == 0)"))
					c.Require(ok, "C12-R11", fmt.Sprintf("%s/default-count#%d", name, n), phi.Pos(), "default count only for an absent counter",
						"the event's counter is replaced by "+core.Expr(e)+" under "+core.FactsString(b.Preds[i])+", not only when it is 0: an explicit counter below the number of values is overridden, count and average no longer follow the documented semantics")
				}
			}
		}
		if n == 0 {
			c.Undecided("C12-R11", name+"/default-count", fn.Pos(), "no defaulting of the counter found")
		}
	}
}

// C21-R8: the cache is marked saved only after the file was written completely.
func runC21Extra6(c *core.Check) {
	c.Decides += " R8 MappingsCache.lastSavedVersion is advanced only behind a successful FinishWriteChunk (a failed save is retried by the next Save instead of being reported as 'nothing to save')."
	c.Rule("C21-R8", "K1 guard dominance", 1, "every store to MappingsCache.lastSavedVersion is dominated by FinishWriteChunk(...) == nil")
	n := 0
	for _, w := range core.FieldStoresU(c.Prog.FuncsIn("internal/pcache"), "internal/pcache.MappingsCache", "lastSavedVersion") {
		n++
		ok := core.Holds(w.Instr.Block(), core.T("(internal/data_model.(*ChunkedStorage2).FinishWriteChunk(*) == nil)"))
		c.Require(ok, "C21-R8", fmt.Sprintf("%s/store:lastSavedVersion#%d", core.FuncName(w.Fn), n), w.Instr.Pos(), "marked saved after the last chunk was written",
			"lastSavedVersion is advanced without a successful FinishWriteChunk: after a failed write the next Save returns 'nothing to save', the file stays partial and a restart reloads fewer mappings than the cache holds")
	}
	if n == 0 {
		c.Undecided("C21-R8", "internal/pcache/MappingsCache.lastSavedVersion", 0, "no store found")
	}
}

// C23-R11: global and per-request inflight bytes move together.
func runC23Extra6(c *core.Check) {
	c.Decides += " R11 cache2.inflightBytes is increased only in a block that adds the same amount to a request's byte counter, and decreased only by a request's byte counter (bytes of a request that was already removed are never added to the total)."
	c.Rule("C23-R11", "K6 co-update", 2, "every store inflightBytes <- inflightBytes + D is paired in its block with <req>.bytes <- bytes + D; every subtraction subtracts <req>.bytes")
	n := 0
	for _, w := range core.FieldStoresU(c.Prog.FuncsIn("internal/api"), "internal/api.cache2", "inflightBytes") {
		st := w.Instr.(*ssa.Store)
		b, isB := st.Val.(*ssa.BinOp)
		if !isB {
			if _, isK := st.Val.(*ssa.Const); isK {
				continue
			}
			n++
			c.Fail("C23-R11", fmt.Sprintf("%s/store:inflightBytes#%d", core.FuncName(w.Fn), n), st.Pos(), "inflightBytes is assigned "+core.Expr(st.Val)+", not adjusted by a request's bytes")
			continue
		}
		n++
		ok := false
		switch b.Op {
		case token.ADD:
			d := b.Y
			if _, isLd := b.Y.(*ssa.UnOp); isLd && core.LoadsField(b.Y, "internal/api.cache2", "inflightBytes") {
				d = b.X
			}
			for _, in := range st.Block().Instrs {
				s2, isSt := in.(*ssa.Store)
				if !isSt || s2 == st || !strings.HasSuffix(core.Expr(s2.Addr), ".bytes") {
					continue
				}
				if b2, isB2 := s2.Val.(*ssa.BinOp); isB2 && b2.Op == token.ADD && (b2.X == d || b2.Y == d) {
					ok = true
				}
			}
		case token.SUB:
			ok = strings.HasSuffix(core.Expr(b.Y), ".bytes")
		}
		c.Require(ok, "C23-R11", fmt.Sprintf("%s/store:inflightBytes#%d", core.FuncName(w.Fn), n), st.Pos(), "total and per-request bytes move together",
			"inflightBytes changes by "+core.Expr(b)+" without the same change of a request's byte counter in the same block: bytes accounted for a request the limiter already removed are never given back, the effective size stays above the limit and waiters are not woken")
	}
	if n == 0 {
		c.Undecided("C23-R11", "internal/api/cache2.inflightBytes", 0, "no store found")
	}
}

// C26-R6/R7.
func runC26Extra6(c *core.Check) {
	c.Decides += " R6 in writeTagFilter a filter value is written whenever it is non-empty and mapped (first pass) / has a string value (second pass): no further test of the value decides whether it is emitted; R7 on every way from the opening ` AND (` of a tag to the next tag the closing `)` is written."
	fn := need(c, "C26-R6", "internal/api.(*queryBuilder).writeTagFilter")
	if fn == nil {
		return
	}
	c.Rule("C26-R6", "K1 exact guard set", 2, "the blocks writing fmt.Sprint(v.Mapped) and escapeReplacer.Replace(v.Value) carry, about the value v, only the literals !v.Empty() and v.IsMapped() resp. v.HasValue()")
	type sink struct {
		name string
		want string
	}
	n := 0
	for _, s := range core.Calls(fn) {
		callee := core.CalleeName(s.Common())
		var sk *sink
		switch {
		case callee == "fmt.Sprint":
			sk = &sink{"mapped-value", "IsMapped"}
		case callee == "strings.(*Replacer).Replace" && strings.HasSuffix(core.Expr(s.Arg(1)), "}.Value"):
			sk = &sink{"string-value", "HasValue"}
		}
		if sk == nil {
			continue
		}
		n++
		bad, have := "", false
		for _, g := range core.Facts(s.Block()) {
			for _, l := range g.Alts {
				if !strings.Contains(l.Text, "{data_model.TagValue}") {
					continue
				}
				switch {
				case len(g.Alts) == 1 && !l.Pol && strings.HasPrefix(l.Text, "internal/data_model.(TagValue).Empty("):
				case len(g.Alts) == 1 && l.Pol && strings.HasPrefix(l.Text, "internal/data_model.(TagValue)."+sk.want+"("):
					have = true
				case strings.HasPrefix(l.Text, "internal/data_model.(TagValue).HasValue(") || strings.HasPrefix(l.Text, "internal/data_model.(TagValue).IsMapped("):
					// the bookkeeping test of the other pass merges before this block (disjunctive guard)
					if len(g.Alts) == 1 {
						bad = l.String()
					}
				default:
					bad = l.String()
				}
			}
		}
		c.Require(bad == "" && have, "C26-R6", fmt.Sprintf("internal/api.(*queryBuilder).writeTagFilter/%s#%d", sk.name, n), s.Pos(), "every such value is emitted",
			"whether this filter value is written also depends on "+bad+" (required: only !Empty() and "+sk.want+"()): values the user asked for are silently left out of the IN list, the where-clause selects other rows than requested")
	}
	if n < 2 {
		c.Undecided("C26-R6", "internal/api.(*queryBuilder).writeTagFilter/value-sinks", fn.Pos(), fmt.Sprintf("expected the mapped and the string value sink, found %d", n))
	}
	c.Rule("C26-R7", "K6 must-pass-through (loop body)", 1, "every latch of the tag loop reachable from WriteString(\" AND (\") without passing the loop header writes \")\" as its last string")
	var open ssa.Instruction
	for _, s := range core.CallsTo(fn, "strings.(*Builder).WriteString") {
		if k, ok := s.Arg(1).(*ssa.Const); ok && k.Value != nil && strings.Trim(k.Value.ExactString(), `"`) == " AND (" {
			open = s.Instr
		}
	}
	if open == nil {
		c.Undecided("C26-R7", "internal/api.(*queryBuilder).writeTagFilter/open-paren", fn.Pos(), "WriteString(\" AND (\") not found")
		return
	}
	lp := core.InnermostLoop(open.Block())
	if lp == nil {
		c.Undecided("C26-R7", "internal/api.(*queryBuilder).writeTagFilter/open-paren", open.Pos(), "the tag loop was not recognised")
		return
	}
	// blocks reachable from the opening write inside the loop without crossing the header
	seen := map[*ssa.BasicBlock]bool{open.Block(): true}
	queue := []*ssa.BasicBlock{open.Block()}
	var latches []*ssa.BasicBlock
	for len(queue) > 0 {
		b := queue[0]
		queue = queue[1:]
		for _, s := range b.Succs {
			if s == lp.Header {
				latches = append(latches, b)
				continue
			}
			if !lp.Body[s] || seen[s] {
				continue
			}
			seen[s] = true
			queue = append(queue, s)
		}
	}
	bad := ""
	var badPos token.Pos
	for _, l := range latches {
		last := ""
		for _, in := range l.Instrs {
			if call, ok := in.(*ssa.Call); ok && core.CalleeName(&call.Call) == "strings.(*Builder).WriteString" {
				if k, isK := call.Call.Args[1].(*ssa.Const); isK && k.Value != nil {
					last = strings.Trim(k.Value.ExactString(), `"`)
				} else {
					last = "<dynamic>"
				}
			}
		}
		if last != ")" {
			bad = fmt.Sprintf("block %d (last string written there: %q)", l.Index, last)
			for _, in := range l.Instrs {
				if in.Pos().IsValid() {
					badPos = in.Pos()
				}
			}
		}
	}
	c.Require(bad == "" && len(latches) > 0, "C26-R7", "internal/api.(*queryBuilder).writeTagFilter/open-paren", open.Pos(), "the tag's parenthesis is closed before the next tag",
		"after ` AND (` was written the loop can continue with the next tag from "+bad+" "+c.Prog.Pos(badPos)+" without writing the closing `)`: the query is left with an unbalanced parenthesis / an AND without operand")
}

// C27-R9/R10.
func runC27Extra6(c *core.Check) {
	c.Decides += " R9 reduceAggregateExpr reports success only after recording grouped, groupBy and groupWithout of the aggregation (an empty `without ()` still means 'keep every label'); R10 while a window moves over a series (functions calling window.moveOneLeft), the value at the window's right edge is written only through window.setValueAtRight, which keeps the count of present points."
	c.Rule("C27-R9", "K6 must-pass-through", 3, "no `return true` of reduceAggregateExpr is reachable from entry without stores to reduction.grouped, groupBy and groupWithout")
	if fn := need(c, "C27-R9", "internal/promql.reduceAggregateExpr"); fn != nil {
		isTrueRet := func(in ssa.Instruction) bool {
			r, ok := in.(*ssa.Return)
			if !ok {
				return false
			}
			vals := core.ReturnedValues(r)
			return len(vals) == 1 && core.ConstBool(vals[0], true)
		}
		for _, f := range []string{"grouped", "groupBy", "groupWithout"} {
			p := core.ReachFromEntryWithout(fn, isTrueRet, isStoreToField("internal/promql.reduction", f))
			c.Require(p == nil, "C27-R9", "internal/promql.reduceAggregateExpr/success/"+f, fn.Pos(), f+" recorded before success",
				"reduceAggregateExpr can return true without storing reduction."+f+" ("+pathStr(p)+"): the selector is marked as reduced but the pushed-down query groups differently from the aggregation (e.g. `sum without () (m)` returns one total series)")
		}
	}
	c.Rule("C27-R10", "K2 who-may-write", 4, "no function of package promql that calls window.moveOneLeft stores through an index loaded from window.r (only window methods write at the window edge)")
	n := 0
	for _, fn := range c.Prog.FuncsIn("internal/promql") {
		if strings.Contains(core.FuncName(fn), "(*window).") {
			continue
		}
		if len(core.CallsTo(fn, "internal/promql.(*window).moveOneLeft")) == 0 {
			continue
		}
		n++
		bad := token.NoPos
		for _, b := range fn.Blocks {
			for _, in := range b.Instrs {
				st, ok := in.(*ssa.Store)
				if !ok {
					continue
				}
				if ia, isIA := st.Addr.(*ssa.IndexAddr); isIA && core.LoadsField(ia.Index, "internal/promql.window", "r") {
					bad = st.Pos()
				}
			}
		}
		c.Require(bad == token.NoPos, "C27-R10", core.FuncName(fn)+"/window-edge-writes", fn.Pos(), "window edge written through setValueAtRight only",
			"a value is stored directly at index wnd.r "+c.Prog.Pos(bad)+" while the window is moving: moveOneLeft reads that cell back to maintain the count of present points, which setValueAtRight compensates; written directly, the count drifts and later windows with points yield no value")
	}
	if n == 0 {
		c.Undecided("C27-R10", "internal/promql/window users", 0, "no function using a moving window found")
	}
}
