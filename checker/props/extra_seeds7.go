package props

import (
	"fmt"
	"go/token"
	"strings"

	"golang.org/x/tools/go/ssa"

	"shverif/core"
)

// Seventh batch: rules for round e/f seeds of C14, C20, C22; see DESIGN.md §11.

func init() {
	Extend("C14", runC14Extra7,
		Mutant{Name: "seed-C14e-vector-of-empty-strings-rejected", File: "internal/data_model/gen2/internal/string.go", Rule: "C14-R9", Occurrence: 1,
			Old: "		if elementCount > len(currentR) {", New: "		if elementCount >= len(currentR) {"},
		Mutant{Name: "seed-C14f-minus-inf-written-as-plus-inf", File: "internal/vkgo/basictl/basictl.go", Rule: "C14-R8",
			Old: "	if math.IsInf(v, 1) {\n		return append(w, \"\\\"+Inf\\\"\"...), true", New: "	if math.IsInf(v, 0) {\n		return append(w, \"\\\"+Inf\\\"\"...), true"})
	Extend("C20", runC20Extra7,
		Mutant{Name: "seed-C20f-compaction-with-map-order-dependent-encoder", File: "internal/metajournal/journal_fast.go", Rule: "C20-R11",
			Old: "	shortData, err := json.Marshal(value)", New: "	shortData, err := value.MarshalBinary()\n	_ = json.Marshal"})
	Extend("C22", runC22Extra7,
		Mutant{Name: "seed-C22e-trailing-extend-point-counted-in-first-level", File: "internal/data_model/timescale.go", Rule: "C22-R11",
			Old: "			res.Time = append(res.Time, t) // last \"StepForward\" result\n			p.Len++", New: "			res.Time = append(res.Time, t) // last \"StepForward\" result\n			res.LODs[0].Len++"},
		Mutant{Name: "seed-C22f-degenerate-point-query-axis-returned", File: "internal/data_model/timescale.go", Rule: "C22-R12",
			Old: "		if res.Time[0] == res.Time[1] {\n			return Timescale{}, nil\n		}\n", New: ""})
}

// C14-R8/R9.
func runC14Extra7(c *core.Check) {
	c.Decides += " R8 jsonWriteFloatSpecial writes each special string under the test that names it (\"+Inf\" under IsInf(v, 1), \"-Inf\" under IsInf(v, -1), \"NaN\" under IsNaN); R9 every generated TL2 vector reader rejects an element count only when it exceeds the remaining bytes (len < count; an element can be one byte long)."
	c.Rule("C14-R8", "K1 guard dominance", 3, "every append of a constant containing +Inf / -Inf / NaN in jsonWriteFloatSpecial is dominated by IsInf(v, 1) / IsInf(v, -1) / IsNaN(v)")
	if fn := need(c, "C14-R8", "internal/vkgo/basictl.jsonWriteFloatSpecial"); fn != nil {
		n := 0
		for _, s := range core.CallsTo(fn, "builtin append") {
			if len(s.Common().Args) < 2 {
				continue
			}
			k, ok := s.Arg(1).(*ssa.Const)
			if !ok || k.Value == nil {
				continue
			}
			txt := k.Value.ExactString()
			want := ""
			switch {
			case strings.Contains(txt, "+Inf"):
				want = "math.IsInf(*, 1)"
			case strings.Contains(txt, "-Inf"):
				want = "math.IsInf(*, -1)"
			case strings.Contains(txt, "NaN"):
				want = "math.IsNaN(*)"
			default:
				continue
			}
			n++
			c.Require(core.Holds(s.Block(), core.T(want)), "C14-R8", fmt.Sprintf("internal/vkgo/basictl.jsonWriteFloatSpecial/write#%d", n), s.Pos(), "special value written under its own test",
				"the constant "+txt+" is written without "+want+" being established (facts: "+core.FactsString(s.Block())+"): another special value is written with this spelling and reads back as a different number")
		}
		if n < 3 {
			c.Undecided("C14-R8", "internal/vkgo/basictl.jsonWriteFloatSpecial/writes", fn.Pos(), fmt.Sprintf("expected the three special spellings, found %d", n))
		}
	}
	c.Rule("C14-R9", "K8 sibling family (boundary)", 10, "every call of basictl.TL2ElementCountError in the generated package is dominated by (len(remaining) < elementCount)")
	n := 0
	for _, fn := range c.Prog.FuncsIn("internal/data_model/gen2/internal") {
		for _, s := range core.CallsTo(fn, "internal/vkgo/basictl.TL2ElementCountError") {
			n++
			ok := core.Holds(s.Block(), core.T("(builtin len(*) < *)"))
			c.Require(ok, "C14-R9", fmt.Sprintf("%s/element-count-check#%d", core.FuncName(fn), n), s.Pos(), "count rejected only when it exceeds the remaining bytes",
				"this reader rejects an element count under "+core.FactsString(s.Block())+" instead of (len(remaining) < count) like its siblings: a vector whose elements are all one byte long (e.g. empty strings) is written by the writer and refused by this reader")
		}
	}
	if n == 0 {
		c.Undecided("C14-R9", "internal/data_model/gen2/internal/TL2ElementCountError", 0, "no element-count check found")
	}
}

// C20-R11.
func runC20Extra7(c *core.Check) {
	c.Decides += " R11 the compacted form of a metric event (whose bytes enter every replica's state hash) is produced by encoding/json.Marshal, which sorts map keys, not by the generated easyjson encoder (map iteration order)."
	c.Rule("C20-R11", "K7 provenance", 1, "the string stored into the compacted event's Data in compactJournalEvent derives from encoding/json.Marshal; the function does not call MarshalBinary / MarshalJSON of the metric")
	fn := need(c, "C20-R11", "internal/metajournal.compactJournalEvent")
	if fn == nil {
		return
	}
	n := 0
	for _, b := range fn.Blocks {
		for _, in := range b.Instrs {
			st, ok := in.(*ssa.Store)
			if !ok {
				continue
			}
			fa, isFA := st.Addr.(*ssa.FieldAddr)
			if !isFA || !strings.HasSuffix(core.Expr(fa), ".Data") || !strings.Contains(core.TypeName(fa.X.Type()), "Event") {
				continue
			}
			n++
			src := core.Expr(st.Val)
			ok2 := strings.Contains(src, "encoding/json.Marshal(")
			c.Require(ok2, "C20-R11", fmt.Sprintf("internal/metajournal.compactJournalEvent/store:Data#%d", n), st.Pos(), "compacted bytes come from the key-sorting encoder",
				"the compacted event data is "+src+", not the result of encoding/json.Marshal: an encoder that writes maps in iteration order makes replicas compact the same event to different bytes, their state hashes differ although the journals are equal")
		}
	}
	if n == 0 {
		c.Undecided("C20-R11", "internal/metajournal.compactJournalEvent/store:Data", fn.Pos(), "no store of the compacted data found")
	}
	for _, s := range core.Calls(fn) {
		cn := core.CalleeName(s.Common())
		if strings.HasSuffix(cn, ").MarshalBinary") || strings.HasSuffix(cn, ").MarshalJSON") || strings.HasSuffix(cn, ").MarshalEasyJSON") {
			c.Fail("C20-R11", "internal/metajournal.compactJournalEvent/"+cn, s.Pos(), "compactJournalEvent calls "+cn+": the generated encoder does not sort map keys (draft tags), so the compacted bytes depend on map iteration order")
		}
	}
}

// C22-R11/R12.
func runC22Extra7(c *core.Check) {
	c.Decides += " R11 the extra point appended after the last level (Extend) is counted in the level the generation loop visited last, not in a fixed level; R12 a point query returns a non-empty time axis only when its two points differ."
	fn := need(c, "C22-R11", "internal/data_model.GetTimescale")
	if fn == nil {
		return
	}
	c.Rule("C22-R11", "K7 provenance", 1, "every `X.Len++` in a block of GetTimescale that appends to res.Time addresses a phi with an edge &res.LODs[i] of the generation loop")
	n := 0
	for _, b := range fn.Blocks {
		appendsTime := false
		for _, in := range b.Instrs {
			if call, ok := in.(*ssa.Call); ok && core.CalleeName(&call.Call) == "builtin append" && strings.HasSuffix(core.Expr(call.Call.Args[0]), ".Time") {
				appendsTime = true
			}
		}
		if !appendsTime {
			continue
		}
		for _, in := range b.Instrs {
			st, ok := in.(*ssa.Store)
			if !ok {
				continue
			}
			fa, isFA := st.Addr.(*ssa.FieldAddr)
			if !isFA || !core.IsField(fa, "internal/data_model.TimescaleLOD", "Len") {
				continue
			}
			if bo, isB := st.Val.(*ssa.BinOp); !isB || bo.Op != token.ADD {
				continue
			}
			n++
			okP := false
			if phi, isPhi := fa.X.(*ssa.Phi); isPhi {
				for _, e := range phi.Edges {
					if ia, isIA := e.(*ssa.IndexAddr); isIA {
						if _, isK := ia.Index.(*ssa.Const); !isK {
							okP = true
						}
					}
				}
			}
			c.Require(okP, "C22-R11", fmt.Sprintf("internal/data_model.GetTimescale/trailing-point#%d", n), st.Pos(), "trailing point counted in the last level visited",
				"the point appended after the levels is counted in "+core.Expr(fa.X)+", not in the level the generation loop ended with: with two or more levels the first level is one too long and the last one too short, the per-level storage ranges no longer match the points")
		}
	}
	if n == 0 {
		c.Undecided("C22-R11", "internal/data_model.GetTimescale/trailing-point", fn.Pos(), "no counted trailing point found")
	}
	c.Rule("C22-R12", "K1 guard dominance", 1, "the store ViewEndX <- 1 of the point-query branch is dominated by !(Time[0] == Time[1])")
	n = 0
	for _, w := range core.FieldStoresU([]*ssa.Function{fn}, "internal/data_model.Timescale", "ViewEndX") {
		if !core.IsConstInt(w.Val, 1) {
			continue
		}
		n++
		c.Require(core.Holds(w.Instr.Block(), core.F("(*.Time[0] == *.Time[1])")), "C22-R12", fmt.Sprintf("internal/data_model.GetTimescale/point-query-axis#%d", n), w.Instr.Pos(), "point-query axis has two different points",
			"the point-query axis is returned without the test Time[0] != Time[1]: a range that holds no whole step yields two equal points (not increasing, outside the request) and a storage range with FromSec == ToSec")
	}
	if n == 0 {
		c.Undecided("C22-R12", "internal/data_model.GetTimescale/point-query-axis", fn.Pos(), "store ViewEndX <- 1 not found")
	}
}
