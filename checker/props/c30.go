package props

import (
	"fmt"
	"go/token"
	"go/types"
	"strings"

	"golang.org/x/tools/go/ssa"

	"shverif/core"
)

func init() {
	Register(&Property{
		ID:   "C30",
		Pkgs: []string{"./internal/api", "./internal/vkgo/vkuth"},
		Run:  runC30,
		Mutants: []Mutant{
			// ---- R1
			{Name: "accept-any-signing-method", File: "internal/vkgo/vkuth/access.go", Rule: "C30-R1",
				Old: "	}, jwt.WithValidMethods([]string{jwt.SigningMethodEdDSA.Alg()}))",
				New: "	})"},
			{Name: "accept-hmac-too", File: "internal/vkgo/vkuth/access.go", Rule: "C30-R1",
				Old: "jwt.WithValidMethods([]string{jwt.SigningMethodEdDSA.Alg()})",
				New: "jwt.WithValidMethods([]string{jwt.SigningMethodEdDSA.Alg(), jwt.SigningMethodHS256.Alg()})"},
			{Name: "unknown-kid-falls-back-to-some-key", File: "internal/vkgo/vkuth/access.go", Rule: "C30-R1",
				Old: "		if !ok {\n			return nil, fmt.Errorf(\"unknown key ID %q\", kidStr)\n		}",
				New: "		if !ok {\n			for _, k = range helper.publicKeys {\n				break\n			}\n		}"},
			{Name: "data-returned-despite-verification-error", File: "internal/vkgo/vkuth/access.go", Rule: "C30-R1",
				Old: "	if err != nil {\n		return nil, fmt.Errorf(\"failed to verify access token: %w\", err)\n	}",
				New: "	if err != nil && claims.Data.User == \"\" {\n		return nil, fmt.Errorf(\"failed to verify access token: %w\", err)\n	}"},
			{Name: "foreign-app-bits-granted", File: "internal/vkgo/vkuth/access.go", Rule: "C30-R1",
				Old: "		if nonNamespacedBit != \"\" {\n			bits[nonNamespacedBit] = struct{}{}\n		}",
				New: "		bits[nonNamespacedBit] = struct{}{}\n		bits[claims.Data.Bits[i]] = struct{}{}"},
			{Name: "strip-prefix-test-inverted", File: "internal/vkgo/vkuth/access.go", Rule: "C30-R1",
				Old: "	if !strings.HasPrefix(fullBit, appPrefix) {", New: "	if strings.HasPrefix(fullBit, appPrefix) {"},
			// ---- R2
			{Name: "issued-at-bit-not-set", File: "internal/vkgo/vkuth/access.go", Rule: "C30-R2",
				Old: "		vErr.Errors |= jwt.ValidationErrorIssuedAt\n", New: ""},
			{Name: "issuer-test-weakened", File: "internal/vkgo/vkuth/access.go", Rule: "C30-R2",
				Old: "	if c.Issuer != TokenIssuer {", New: "	if c.Issuer == \"\" {"},
			{Name: "expiry-window-widened", File: "internal/vkgo/vkuth/access.go", Rule: "C30-R2",
				Old: "	expireAtNow := now.Add(-JWTTimeWindow)", New: "	expireAtNow := now.Add(-JWTTimeWindow * 720)"},
			{Name: "nil-despite-errors", File: "internal/vkgo/vkuth/access.go", Rule: "C30-R2",
				Old: "	if vErr.Errors == 0 {", New: "	if vErr.Errors == 0 || c.Data.IsService {"},
			// ---- R3
			{Name: "admin-bit-written-outside-parser", File: "internal/api/handler.go", Rule: "C30-R3",
				Old: "			user:          \"@healthcheck\",\n", New: "			user:          \"@healthcheck\",\n			bitAdmin:      true,\n"},
			{Name: "view-prefix-bit-grants-edit", File: "internal/api/access.go", Rule: "C30-R3",
				Old: "			ai.bitViewPrefix[extractNamespace(b[len(\"view_prefix.\"):])] = true",
				New: "			ai.bitEditPrefix[extractNamespace(b[len(\"view_prefix.\"):])] = true"},
			{Name: "insecure-mode-makes-admin", File: "internal/api/access.go", Rule: "C30-R3",
				Old: "			bitAdmin:          localMode,", New: "			bitAdmin:          true,"},
			{Name: "developer-bit-grants-admin", File: "internal/api/access.go", Rule: "C30-R3",
				Old: "		case b == \"developer\":\n			ai.bitDeveloper = true", New: "		case b == \"developer\":\n			ai.bitDeveloper = true\n			ai.bitAdmin = true"},
			// ---- R4
			{Name: "rename-to-remote-config", File: "internal/api/access.go", Rule: "C30-R4",
				Old: "	if format.RemoteConfigMetric(oldName) || format.RemoteConfigMetric(newName) {", New: "	if format.RemoteConfigMetric(oldName) {"},
			{Name: "rename-needs-only-old-name-bit", File: "internal/api/access.go", Rule: "C30-R4",
				Old: "	return ai.bitEditMetric[oldName] && ai.bitEditMetric[newName] ||", New: "	return ai.bitEditMetric[oldName] ||"},
			{Name: "rename-into-protected-prefix", File: "internal/api/access.go", Rule: "C30-R4",
				Old: "		(ai.bitEditDefault && !ai.protectedMetric(oldName) && !ai.protectedMetric(newName))", New: "		(ai.bitEditDefault && !ai.protectedMetric(oldName))"},
			{Name: "view-grant-before-remote-config-test", File: "internal/api/access.go", Rule: "C30-R4",
				Old: "	if format.RemoteConfigMetric(name) && !ai.bitAdmin {", New: "	if ai.bitViewMetric[name] {\n		return true\n	}\n	if format.RemoteConfigMetric(name) && !ai.bitAdmin {"},
			{Name: "prefix-test-arguments-swapped", File: "internal/api/access.go", Rule: "C30-R4",
				Old: "		if strings.HasPrefix(metric, prefix) {", New: "		if strings.HasPrefix(prefix, metric) {"},
			// ---- R5
			{Name: "shardnum-comparison-deleted", File: "internal/api/access.go", Rule: "C30-R5",
				Old: "	if old.ShardNum != new_.ShardNum {\n		return fmt.Errorf(\"access control prevents changing sharding strategy shard\")\n	}\n", New: ""},
			{Name: "weight-exception-widened", File: "internal/api/access.go", Rule: "C30-R5",
				Old: "!(old.Weight == 0 && new_.Weight == 1)", New: "!(old.Weight == 0)"},
			{Name: "sum-square-skip-not-compared", File: "internal/api/access.go", Rule: "C30-R5",
				Old: "	return [3]bool{m.SkipMaxHost, m.SkipMinHost, m.SkipSumSquare}", New: "	return [3]bool{m.SkipMaxHost, m.SkipMinHost, false}"},
			{Name: "raw-kind-loop-over-shorter-list", File: "internal/api/access.go", Rule: "C30-R5",
				Old: "	for i := 0; i < max(len(old.Tags), len(new_.Tags)); i++ {", New: "	for i := 0; i < min(len(old.Tags), len(new_.Tags)); i++ {"},
			{Name: "shard-key-compared-with-itself", File: "internal/api/access.go", Rule: "C30-R5",
				Old: "	if old.ShardFixedKey2 != new_.ShardFixedKey2 {", New: "	if old.ShardFixedKey2 != old.ShardFixedKey2 {"},
			// ---- R6
			{Name: "save-before-access-check", File: "internal/api/handler.go", Rule: "C30-R6",
				Old: "		if err := ai.CanEditMetric(false, *old, metric); err != nil {\n			return format.MetricMetaValue{},\n				httpErr(http.StatusForbidden, fmt.Errorf(\"can't edit metric %q: %v\", old.Name, err))\n		}\n		resp, err = h.metricsStorage.SaveMetric(ctx, h.metadataLoader, metric, ai.toMetadata())",
				New: "		resp, err = h.metricsStorage.SaveMetric(ctx, h.metadataLoader, metric, ai.toMetadata())\n		if err := ai.CanEditMetric(false, *old, metric); err != nil {\n			return format.MetricMetaValue{},\n				httpErr(http.StatusForbidden, fmt.Errorf(\"can't edit metric %q: %v\", old.Name, err))\n		}"},
			{Name: "edit-checked-against-itself", File: "internal/api/handler.go", Rule: "C30-R6",
				Old: "ai.CanEditMetric(false, *old, metric)", New: "ai.CanEditMetric(false, metric, metric)"},
		},
	})
}

const (
	c30vk     = "internal/vkgo/vkuth"
	c30jwt    = "github.com/golang-jwt/jwt/v4"
	c30helper = c30vk + ".JWTHelper"
	c30ai     = "internal/api.accessInfo"
)

func runC30(c *core.Check) {
	c.Decides = "the structure the access decision rests on: (R1) ParseVkuthData verifies with jwt.ParseWithClaims restricted to the EdDSA method, its key function " +
		"returns a key only from helper.publicKeys[kid header] when the lookup succeeded, data is returned only when the verification error is nil, the returned " +
		"bit set is written only with non-empty stripFullBit results for helper.appName and stripFullBit returns a non-empty suffix only under HasPrefix(bit, app+\":\"); " +
		"(R2) Claims.Valid returns nil only when the error bit set is zero and each of the five tests (expiry with -JWTTimeWindow, issued-at with +JWTTimeWindow, " +
		"not-before, issuer == TokenIssuer, non-empty user) ORs a non-zero bit into it on its failing branch; (R3) accessInfo bit fields are written only in " +
		"parseAccessToken (two enumerated single-metric view grants excepted), there each bit is set only under the test of its own bit name / prefix on a key of the " +
		"verified bit set, and the no-token branch is reached only under localMode||insecureMode with admin/developer equal to localMode; (R4) every way " +
		"CanViewMetricName / canChangeMetricByName can be true includes the remote-config exclusion (or admin) and one complete grant, each edit grant over both " +
		"old and new name, and the prefix helpers grant only under HasPrefix(name, entry); (R5) every nil return of CanEditMetric for a non-admin is dominated by an " +
		"equality of old and new for each protected field of the frozen list, weight excepted only for 0→1, and RawKind is compared for every tag index up to the " +
		"longer tag list; (R6) every MetricsStorage.SaveMetric call in internal/api is dominated by CanEditMetric(...)==nil on the saved metric with old = the stored " +
		"metric of the same id (or the metric itself when it is being created)."
	c.NotDecided = "cryptographic soundness of the jwt/ed25519 libraries, the semantics of RegisteredClaims.Verify*, RemoteConfigMetric and of the bit strings issued by vkuth; " +
		"that every HTTP/RPC endpoint consults CanViewMetric before returning data (only the edit path is tied to its check); equivalence of the policy with the " +
		"property's prose for all bit sets (the rules are necessary conditions: no grant without its bit, no protected change for non-admins)."

	c30R1(c)
	c30R2(c)
	c30R3(c)
	c30R4(c)
	c30R5(c)
	c30R6(c)
}

// ---- R1 ---------------------------------------------------------------------------------

func c30R1(c *core.Check) {
	const rule = "C30-R1"
	c.Rule(rule, "K1+K7", 10, "every jwt parse in package vkuth is ParseVkuthData's ParseWithClaims with WithValidMethods([EdDSA]); its key function returns (key,nil) only for "+
		"helper.publicKeys[header kid] under the lookup's ok; ParseVkuthData returns data only under err==nil; the returned Bits map is written only with stripFullBit(bit, helper.appName) "+
		"results under != \"\"; the other fields come from the verified claims object; stripFullBit returns a suffix only under HasPrefix(bit, app+\":\")")
	pvdName := c30vk + ".(*JWTHelper).ParseVkuthData"
	fn := need(c, rule, pvdName)
	if fn == nil {
		return
	}
	// (a) who parses tokens, and with which options
	parses := core.Callers(c.Prog.FuncsIn(c30vk), c30jwt+".Parse", c30jwt+".ParseWithClaims", c30jwt+".(*Parser).*", c30jwt+".NewParser")
	keys := core.Ordinals(parses)
	var verify *core.Site
	for i, s := range parses {
		c.CallSites++
		if s.Fn != fn || s.Callee != c30jwt+".ParseWithClaims" {
			c.Fail(rule, keys[i], s.Pos(), "token parsing outside the one checked ParseWithClaims call of ParseVkuthData")
			continue
		}
		if verify != nil {
			c.Undecided(rule, keys[i], s.Pos(), "more than one ParseWithClaims call in ParseVkuthData")
			continue
		}
		verify = &parses[i]
		opts, ok := core.SliceLitElems(s.Arg(3))
		if !ok {
			c.Fail(rule, keys[i]+"/valid-methods", s.Pos(), "ParseWithClaims is not given a literal option list containing WithValidMethods([EdDSA]): any signing method named in the token header would be accepted")
			continue
		}
		found, bad := false, ""
		for _, o := range opts {
			call, isCall := o.(*ssa.Call)
			if !isCall || core.CalleeName(&call.Call) != c30jwt+".WithValidMethods" {
				continue
			}
			found = true
			ms, ok := core.SliceLitElems(call.Call.Args[0])
			if !ok || len(ms) == 0 {
				bad = "the method list is not a literal"
				continue
			}
			for _, m := range ms {
				if mc, isCall := m.(*ssa.Call); isCall && core.CalleeName(&mc.Call) == c30jwt+".(*SigningMethodEd25519).Alg" {
					continue
				}
				if s, isStr := core.ConstString(m); isStr && s == "EdDSA" {
					continue
				}
				bad = "method " + core.Expr(m) + " is not EdDSA"
			}
		}
		c.Require(found && bad == "", rule, keys[i]+"/valid-methods", s.Pos(), "options restrict the signing method to EdDSA",
			"ParseWithClaims does not restrict the signing method to EdDSA ("+bad+")")
	}
	if verify == nil {
		c.Fail(rule, pvdName+"/verify", fn.Pos(), "ParseVkuthData does not call jwt.ParseWithClaims")
		return
	}
	errVal := tExtractOf(verify.Value(), 1)
	claims := core.Unwrap(verify.Arg(1))

	// (b) the key function
	if mc, ok := core.Unwrap(verify.Arg(2)).(*ssa.MakeClosure); !ok {
		c.Undecided(rule, pvdName+"/keyfunc", verify.Pos(), "the key function is not a function literal")
	} else {
		kf := mc.Fn.(*ssa.Function)
		c.Seen(core.FuncName(kf))
		kid, kidOK := c.Prog.ConstStr(c30vk, "keyIDHeader")
		if !kidOK {
			c.Anchor(rule, c30vk+".keyIDHeader")
		}
		n := 0
		for _, r := range core.Returns(kf) {
			if len(r.Results) != 2 {
				continue
			}
			n++
			key := fmt.Sprintf("%s/return#%d", core.FuncName(kf), n)
			k, e := core.Unwrap(r.Results[0]), r.Results[1]
			if core.IsNil(r.Results[0]) {
				c.Pass(rule, key, r.Pos(), "returns no key")
				continue
			}
			if !core.IsNil(e) {
				c.Fail(rule, key, r.Pos(), "key function returns a key together with a possibly nil error that is not the constant nil")
				continue
			}
			why := ""
			ex, _ := k.(*ssa.Extract)
			var lk *ssa.Lookup
			if ex != nil && ex.Index == 0 {
				lk, _ = ex.Tuple.(*ssa.Lookup)
			}
			switch {
			case lk == nil || !lk.CommaOk:
				why = "the key " + core.Expr(k) + " is not the result of a checked map lookup"
			case !core.LoadsField(lk.X, c30helper, "publicKeys"):
				why = "the key is looked up in " + core.Expr(lk.X) + ", not in helper.publicKeys"
			case !kidOK || !c30FromHeader(lk.Index, kid):
				why = "the lookup index " + core.Expr(lk.Index) + " is not the token header's key id"
			case !c30GuardedByOk(r.Block(), lk):
				why = "the return is not dominated by the lookup's ok result"
			}
			c.Require(why == "", rule, key, r.Pos(), "returns helper.publicKeys[kid] under ok", "key function: "+why)
		}
		if n == 0 {
			c.Undecided(rule, core.FuncName(kf)+"/returns", kf.Pos(), "key function has no (key, error) return")
		}
	}

	// (c) data only when err == nil; (d) provenance of the returned data
	n := 0
	for _, r := range core.Returns(fn) {
		if len(r.Block().Preds) == 0 && r.Block().Index != 0 {
			continue
		}
		n++
		key := fmt.Sprintf("%s/return#%d", pvdName, n)
		if core.IsNil(r.Results[0]) {
			c.Pass(rule, key, r.Pos(), "returns no data")
			continue
		}
		okGuard := errVal != nil && core.GuardedEq(r.Block(), errVal, core.IsNil, true)
		if !c.Require(okGuard, rule, key, r.Pos(), "data returned under err == nil",
			"ParseVkuthData returns access data on a path where the verification error is not known to be nil; facts: "+core.FactsString(r.Block())) {
			continue
		}
		out, isAlloc := r.Results[0].(*ssa.Alloc)
		if !isAlloc {
			c.Undecided(rule, key+"/data", r.Pos(), "returned data is not a local composite literal: "+core.Expr(r.Results[0]))
			continue
		}
		for _, ref := range core.Referrers(out) {
			fa, ok := ref.(*ssa.FieldAddr)
			if !ok {
				continue
			}
			fname := tFieldName(fa)
			for _, rr := range core.Referrers(fa) {
				st, ok := rr.(*ssa.Store)
				if !ok || st.Addr != fa {
					continue
				}
				fkey := key + "/field:" + fname
				if fname != "Bits" {
					c.Require(core.Derives(st.Val, claims), rule, fkey, st.Pos(), "field copied from the verified claims",
						"AccessData."+fname+" is set from "+core.Expr(st.Val)+", not from the claims object verified by ParseWithClaims")
					continue
				}
				c30Bits(c, rule, fkey, st, claims)
			}
		}
	}

	// (e) stripFullBit
	if sf := need(c, rule, c30vk+".stripFullBit"); sf != nil {
		n := 0
		for _, r := range core.Returns(sf) {
			n++
			key := fmt.Sprintf("%s.stripFullBit/return#%d", c30vk, n)
			if s, ok := core.ConstString(r.Results[0]); ok && s == "" {
				c.Pass(rule, key, r.Pos(), "returns the empty string")
				continue
			}
			okv := core.Term(r.Results[0]) == `{0:string}[builtin len(({1:string} + ":")):]`
			okg := core.Holds(r.Block(), core.T(`strings.HasPrefix({0:string}, ({1:string} + ":"))`))
			c.Require(okv && okg, rule, key, r.Pos(), "suffix returned under HasPrefix(bit, app+\":\")",
				"stripFullBit returns "+core.Term(r.Results[0])+" under ["+core.FactsString(r.Block())+"]: a non-empty result must be the suffix after app+\":\" and only when the bit has that prefix")
		}
	}
}

// c30FromHeader: v is (a checked string assertion of) t.Header[kid] of the key function's token parameter.
func c30FromHeader(v ssa.Value, kid string) bool {
	for i := 0; i < 6; i++ {
		switch x := v.(type) {
		case *ssa.Extract:
			v = x.Tuple
			continue
		case *ssa.TypeAssert:
			v = x.X
			continue
		case *ssa.Lookup:
			s, ok := core.ConstString(x.Index)
			if !ok || s != kid {
				return false
			}
			ld := core.LoadAddr(x.X)
			fa, ok := ld.(*ssa.FieldAddr)
			if !ok || tFieldName(fa) != "Header" {
				return false
			}
			_, isPar := fa.X.(*ssa.Parameter)
			return isPar && core.TypeName(fa.X.Type()) == "*"+c30jwt+".Token"
		}
		return false
	}
	return false
}

func c30GuardedByOk(b *ssa.BasicBlock, lk *ssa.Lookup) bool {
	for _, r := range core.Referrers(lk) {
		if e, ok := r.(*ssa.Extract); ok && e.Index == 1 && core.GuardedBool(b, e, true) {
			return true
		}
	}
	return false
}

// c30Bits checks the map stored into AccessData.Bits.
func c30Bits(c *core.Check, rule, key string, st *ssa.Store, claims ssa.Value) {
	m, ok := st.Val.(*ssa.MakeMap)
	if !ok {
		c.Undecided(rule, key, st.Pos(), "AccessData.Bits is not a map made in this function: "+core.Expr(st.Val))
		return
	}
	n := 0
	for _, ref := range core.Referrers(m) {
		switch u := ref.(type) {
		case *ssa.Store:
			if u != st {
				c.Undecided(rule, key+"/escape", u.Pos(), "the bit map is stored elsewhere too")
			}
		case *ssa.MapUpdate:
			n++
			ukey := fmt.Sprintf("%s/update#%d", key, n)
			call, isCall := u.Key.(*ssa.Call)
			why := ""
			switch {
			case !isCall || core.CalleeName(&call.Call) != c30vk+".stripFullBit":
				why = "the key " + core.Expr(u.Key) + " is not a stripFullBit result"
			case !core.LoadsField(call.Call.Args[1], c30helper, "appName"):
				why = "stripFullBit is not given helper.appName but " + core.Expr(call.Call.Args[1])
			case !core.Derives(call.Call.Args[0], claims):
				why = "the stripped bit does not come from the verified claims"
			case !core.GuardedEq(u.Block(), call, func(y ssa.Value) bool { s, ok := core.ConstString(y); return ok && s == "" }, false):
				why = "the insertion is not guarded by stripFullBit(...) != \"\""
			}
			c.Require(why == "", rule, ukey, u.Pos(), "bit inserted only as a non-empty stripFullBit(bit, appName) result", "granted bit set: "+why)
		case *ssa.DebugRef:
		default:
			c.Undecided(rule, key+"/escape", ref.Pos(), fmt.Sprintf("the bit map is used by %T, its contents are not known", ref))
		}
	}
	if n == 0 {
		c.Pass(rule, key, st.Pos(), "bit map is never written (no bits granted)")
	}
}

// ---- R2 ---------------------------------------------------------------------------------

func c30R2(c *core.Check) {
	const rule = "C30-R2"
	c.Rule(rule, "K1+K6", 11, "Claims.Valid returns nil only under Errors==0 of its ValidationError; Errors is only ever OR-ed with non-zero constants; the failing branch of each of the five tests "+
		"(VerifyExpiresAt(now-JWTTimeWindow, required), VerifyIssuedAt(now+JWTTimeWindow, required), VerifyNotBefore(now), Issuer==TokenIssuer, Data.User!=\"\") cannot reach a return without such an OR")
	name := c30vk + ".(*Claims).Valid"
	fn := need(c, rule, name)
	if fn == nil {
		return
	}
	win, ok1 := c.Prog.ConstInt64(c30vk, "JWTTimeWindow")
	iss, ok2 := c.Prog.ConstStr(c30vk, "TokenIssuer")
	if !ok1 {
		c.Anchor(rule, c30vk+".JWTTimeWindow")
	}
	if !ok2 {
		c.Anchor(rule, c30vk+".TokenIssuer")
	}
	if !ok1 || !ok2 {
		return
	}
	if win != 5_000_000_000 {
		c.Fail(rule, c30vk+".JWTTimeWindow", token.NoPos, fmt.Sprintf("JWTTimeWindow is %dns, the property states a 5 second tolerance", win))
	} else {
		c.Pass(rule, c30vk+".JWTTimeWindow", token.NoPos, "tolerance constant is 5s")
	}
	// the error accumulator
	errorsOf := func(v ssa.Value) *ssa.Alloc { // v = load of A.Errors
		fa, ok := core.LoadAddr(v).(*ssa.FieldAddr)
		if !ok || tFieldName(fa) != "Errors" || core.TypeName(fa.X.Type()) != "*"+c30jwt+".ValidationError" {
			return nil
		}
		a, _ := fa.X.(*ssa.Alloc)
		return a
	}
	var acc *ssa.Alloc
	n := 0
	for _, r := range core.Returns(fn) {
		n++
		key := fmt.Sprintf("%s/return#%d", name, n)
		if !core.IsNil(r.Results[0]) {
			a, _ := core.Unwrap(r.Results[0]).(*ssa.Alloc)
			c.Require(a != nil && core.TypeName(a.Type()) == "*"+c30jwt+".ValidationError", rule, key, r.Pos(), "returns the accumulated validation error",
				"Valid returns "+core.Expr(r.Results[0])+", which is not the ValidationError object (may be nil)")
			continue
		}
		var got *ssa.Alloc
		for _, l := range core.GuardLits(r.Block()) {
			if l.Op == token.EQL && l.Pol {
				if z, ok := core.ConstInt(l.Y); ok && z == 0 {
					if a := errorsOf(l.X); a != nil {
						got = a
					}
				}
			}
		}
		if c.Require(got != nil, rule, key, r.Pos(), "nil returned under Errors == 0", "Valid returns nil on a path not dominated by `Errors == 0`; facts: "+core.FactsString(r.Block())) {
			acc = got
		}
	}
	if acc == nil {
		c.Fail(rule, name+"/accumulator", fn.Pos(), "no `Errors == 0` guarded nil return found")
		return
	}
	isSet := func(in ssa.Instruction) bool {
		st, ok := in.(*ssa.Store)
		if !ok {
			return false
		}
		fa, ok := st.Addr.(*ssa.FieldAddr)
		return ok && fa.X == acc && tFieldName(fa) == "Errors"
	}
	ns := 0
	for _, b := range fn.Blocks {
		for _, in := range b.Instrs {
			if !isSet(in) {
				continue
			}
			ns++
			st := in.(*ssa.Store)
			bo, ok := st.Val.(*ssa.BinOp)
			good := false
			if ok && bo.Op == token.OR {
				for _, pair := range [][2]ssa.Value{{bo.X, bo.Y}, {bo.Y, bo.X}} {
					if errorsOf(pair[0]) == acc {
						if k, ok := core.ConstInt(pair[1]); ok && k != 0 {
							good = true
						}
					}
				}
			}
			c.Require(good, rule, fmt.Sprintf("%s/store-Errors#%d", name, ns), st.Pos(), "Errors |= non-zero constant",
				"Errors is assigned "+core.Expr(st.Val)+": it must only be OR-ed with a non-zero constant, otherwise an earlier failure can be forgotten")
		}
	}
	recv := "{0:*vkuth.Claims}"
	rc := c30jwt + ".(*RegisteredClaims)."
	tests := []struct {
		name    string
		texts   []string
		badWhen bool // polarity of the literal on the failing branch
	}{
		{"expiry", []string{fmt.Sprintf("%sVerifyExpiresAt(%s.RegisteredClaims, time.(Time).Add(%s.now, %d), true)", rc, recv, recv, -win)}, false},
		{"issued-at", []string{fmt.Sprintf("%sVerifyIssuedAt(%s.RegisteredClaims, time.(Time).Add(%s.now, %d), true)", rc, recv, recv, win)}, false},
		{"not-before", []string{
			fmt.Sprintf("%sVerifyNotBefore(%s.RegisteredClaims, %s.now, false)", rc, recv, recv),
			fmt.Sprintf("%sVerifyNotBefore(%s.RegisteredClaims, %s.now, true)", rc, recv, recv),
			fmt.Sprintf("%sVerifyNotBefore(%s.RegisteredClaims, time.(Time).Add(%s.now, %d), false)", rc, recv, recv, win),
			fmt.Sprintf("%sVerifyNotBefore(%s.RegisteredClaims, time.(Time).Add(%s.now, %d), true)", rc, recv, recv, win)}, false},
		{"issuer", []string{fmt.Sprintf("(%s.RegisteredClaims.Issuer == %q)", recv, iss)}, false},
		{"user", []string{fmt.Sprintf(`(%s.Data.User == "")`, recv)}, true},
	}
	for _, t := range tests {
		found := 0
		for _, b := range fn.Blocks {
			ifi, ok := b.Instrs[len(b.Instrs)-1].(*ssa.If)
			if !ok {
				continue
			}
			l := core.NormTermLit(ifi.Cond, true, nil)
			match := false
			for _, tx := range t.texts {
				if l.Text == tx {
					match = true
				}
			}
			if !match {
				continue
			}
			found++
			bad := b.Succs[0]
			if l.Pol != t.badWhen {
				bad = b.Succs[1]
			}
			p := reachFromBlock(bad, core.IsReturn, isSet)
			c.Require(p == nil, rule, fmt.Sprintf("%s/test:%s#%d", name, t.name, found), ifi.Pos(), "failing branch always sets an error bit",
				"the failing branch of the "+t.name+" test can reach a return without OR-ing a bit into Errors ("+pathStr(p)+"): such a token is accepted")
		}
		if found == 0 {
			c.Fail(rule, name+"/test:"+t.name, fn.Pos(), "Valid does not branch on the "+t.name+" test in the required form ("+strings.Join(t.texts, " | ")+")")
		}
	}
}

// ---- R3 ---------------------------------------------------------------------------------

var c30BitFields = []string{"bitAdmin", "bitDeveloper", "bitViewDefault", "bitEditDefault", "bitViewPrefix", "bitEditPrefix", "bitViewMetric", "bitEditMetric"}

// bit grammar: which token bit may set which accessInfo field (the contract with vkuth).
var c30ScalarBits = map[string]string{"bitAdmin": "admin", "bitDeveloper": "developer", "bitViewDefault": "view_default", "bitEditDefault": "edit_default"}

type c30MapBit struct {
	prefix string
	form   string // "ns": extractNamespace(bit[len(prefix):]); "colon": bit[len(prefix):] + ":"
}

var c30MapBits = map[string][]c30MapBit{
	"bitViewPrefix": {{"view_prefix.", "ns"}, {"view_namespace.", "colon"}},
	"bitEditPrefix": {{"edit_prefix.", "ns"}, {"edit_namespace.", "colon"}},
	"bitViewMetric": {{"view_metric.", "ns"}},
	"bitEditMetric": {{"edit_metric.", "ns"}},
}

// writers of bit fields other than parseAccessToken: function → field → the one metric name granted.
var c30OtherWriters = map[string]struct{ field, key, why string }{
	"internal/api.healthcheckAccessInfo":         {"bitViewMetric", "const:internal/api.healthcheckMetric", "the token-less healthcheck endpoint may read its one builtin metric"},
	"internal/api.(*requestHandler).queryBadges": {"bitViewMetric", "*internal/format.BuiltinMetricMetaBadges.Name", "the internal badges sub-query is narrowed to the badges builtin metric"},
}

func c30R3(c *core.Check) {
	const rule = "C30-R3"
	c.Rule(rule, "K2+K1", 22, "accessInfo bit fields are written only in parseAccessToken (plus two enumerated single-metric view grants); in parseAccessToken a bit is set either in the no-token branch "+
		"(guard localMode||insecureMode, admin/developer = localMode) or, after ParseVkuthData returned nil error, under the test of its own bit name/prefix on a key ranged from the verified bit set; "+
		"callers pass Handler.LocalMode / insecureMode in those positions")
	pat := "internal/api.parseAccessToken"
	fn := need(c, rule, pat)
	if fn == nil {
		return
	}
	apiFns := c.Prog.FuncsIn("internal/api")
	// the verified bit set
	var pvd *ssa.Call
	for _, s := range core.CallsTo(fn, c30vk+".(*JWTHelper).ParseVkuthData") {
		if pvd != nil {
			c.Undecided(rule, pat+"/ParseVkuthData", s.Pos(), "more than one ParseVkuthData call")
		}
		pvd, _ = s.Value().(*ssa.Call)
	}
	if pvd == nil {
		c.Fail(rule, pat+"/ParseVkuthData", fn.Pos(), "parseAccessToken does not call ParseVkuthData")
		return
	}
	pvdErr := tExtractOf(pvd, 1)
	isTokenKey := func(v ssa.Value) bool { // key of `range data.Bits`
		ex, ok := v.(*ssa.Extract)
		if !ok || ex.Index != 1 {
			return false
		}
		nx, ok := ex.Tuple.(*ssa.Next)
		if !ok {
			return false
		}
		rg, ok := nx.Iter.(*ssa.Range)
		if !ok {
			return false
		}
		fa, ok := core.LoadAddr(rg.X).(*ssa.FieldAddr)
		if !ok || tFieldName(fa) != "Bits" {
			return false
		}
		d, ok := fa.X.(*ssa.Extract)
		return ok && d.Index == 0 && d.Tuple == pvd
	}
	verified := func(b *ssa.BasicBlock) bool { return pvdErr != nil && core.GuardedEq(b, pvdErr, core.IsNil, true) }
	noToken := func(b *ssa.BasicBlock) bool {
		return core.HoldsAnyOf(b, core.T("{3:bool}"), core.T("{4:bool}"))
	}

	for _, field := range c30BitFields {
		ws := core.FieldWrites(apiFns, c30ai, field)
		cnt := map[string]int{}
		for _, w := range ws {
			c.CallSites++
			fname := core.FuncName(w.Fn)
			cnt[fname+"/"+w.Kind]++
			key := fmt.Sprintf("%s/%s:%s#%d", fname, w.Kind, field, cnt[fname+"/"+w.Kind])
			b := w.Instr.Block()
			if w.Fn != fn {
				ow, ok := c30OtherWriters[fname]
				if !ok || ow.field != field {
					c.Fail(rule, key, w.Instr.Pos(), "accessInfo."+field+" is written outside parseAccessToken (only the token parser may grant bits; enumerated exceptions: healthcheckAccessInfo, queryBadges for bitViewMetric)")
					continue
				}
				why := ""
				if w.Kind != "store" {
					why = "update of an existing bit map"
				} else if mm, isMake := w.Val.(*ssa.MakeMap); !isMake {
					why = "value is not a fresh map literal"
				} else {
					for _, ref := range core.Referrers(mm) {
						switch u := ref.(type) {
						case *ssa.MapUpdate:
							want := ow.key
							if cn, isConst := strings.CutPrefix(want, "const:internal/api."); isConst {
								v, ok := c.Prog.ConstStr("internal/api", cn)
								if !ok {
									c.Anchor(rule, "internal/api."+cn)
								}
								want = fmt.Sprintf("%q", v)
							}
							if core.Expr(u.Key) != want {
								why = "grants " + core.Expr(u.Key) + ", expected only " + want
							}
						case *ssa.Store, *ssa.DebugRef:
						default:
							why = fmt.Sprintf("the map is also used by %T", ref)
						}
					}
				}
				c.Require(why == "", rule, key, w.Instr.Pos(), "enumerated narrow view grant: "+ow.why, "exception writer "+fname+": "+why)
				continue
			}
			// inside parseAccessToken
			if _, scalar := c30ScalarBits[field]; scalar {
				switch {
				case core.ConstBool(w.Val, false):
					c.Pass(rule, key, w.Instr.Pos(), "bit cleared")
				case noToken(b):
					okv := core.ConstBool(w.Val, true)
					if field == "bitAdmin" || field == "bitDeveloper" {
						okv = core.ParamOf(w.Val) == 3
					}
					c.Require(okv, rule, key, w.Instr.Pos(), "no-token branch under localMode||insecureMode",
						"in the no-token branch "+field+" is set to "+core.Term(w.Val)+" (admin/developer must be exactly localMode: insecure mode alone must not make everybody an administrator)")
				default:
					want := c30ScalarBits[field]
					okg := verified(b) && core.ConstBool(w.Val, true)
					okb := false
					for _, l := range core.GuardLits(b) {
						if l.Op == token.EQL && l.Pol && isTokenKey(l.X) {
							if s, ok := core.ConstString(l.Y); ok && s == want {
								okb = true
							}
						}
					}
					c.Require(okg && okb, rule, key, w.Instr.Pos(), "set under verified token bit \""+want+"\"",
						fmt.Sprintf("%s is set (to %s) without the guards {ParseVkuthData err == nil, range key == %q}, and not in the localMode||insecureMode branch; facts: %s", field, core.Term(w.Val), want, core.FactsString(b)))
				}
				continue
			}
			// map-valued bit fields
			switch w.Kind {
			case "store":
				mm, isMake := w.Val.(*ssa.MakeMap)
				empty := isMake
				if isMake {
					for _, ref := range core.Referrers(mm) {
						if _, upd := ref.(*ssa.MapUpdate); upd {
							empty = false
						}
					}
				}
				c.Require(empty, rule, key, w.Instr.Pos(), "initialised with an empty map", field+" is initialised with "+core.Expr(w.Val)+", not with an empty map")
			case "mapupdate":
				mu := w.Instr.(*ssa.MapUpdate)
				if noToken(b) || !verified(b) {
					c.Fail(rule, key, mu.Pos(), field+" entry added outside the verified-token branch")
					continue
				}
				okAny := false
				for _, mb := range c30MapBits[field] {
					if c30MapKeyForm(mu.Key, mb, isTokenKey) && c30PrefixGuard(b, mb.prefix, isTokenKey) {
						okAny = true
					}
				}
				c.Require(okAny && core.ConstBool(mu.Value, true), rule, key, mu.Pos(), "entry added under its own bit prefix",
					fmt.Sprintf("%s[%s] is set, but not in the form/under the HasPrefix guard of one of its own bits %v; facts: %s", field, core.Expr(mu.Key), c30MapBits[field], core.FactsString(b)))
			default:
				c.Undecided(rule, key, w.Instr.Pos(), "unclassified write kind "+w.Kind)
			}
		}
		// addresses of bit fields must not escape
		for _, in := range core.FieldAddrUses(apiFns, c30ai, field) {
			fa, ok := in.(*ssa.FieldAddr)
			if !ok {
				continue
			}
			for _, ref := range core.Referrers(fa) {
				switch u := ref.(type) {
				case *ssa.UnOp, *ssa.DebugRef:
				case *ssa.Store:
					if u.Addr != fa {
						c.Undecided(rule, core.FuncName(fa.Parent())+"/addr-escape:"+field, u.Pos(), "address of a bit field is stored")
					}
				default:
					c.Undecided(rule, core.FuncName(fa.Parent())+"/addr-escape:"+field, ref.Pos(), fmt.Sprintf("address of accessInfo.%s is used by %T (possible write the rule cannot see)", field, ref))
				}
			}
		}
	}
	// callers: positions 3 and 4 are the local / insecure switches of the handler options
	sites := core.Callers(apiFns, pat)
	ks := core.Ordinals(sites)
	for i, s := range sites {
		c.CallSites++
		l, ins := c30ModeField(s.Arg(3)), c30ModeField(s.Arg(4))
		c.Require(l == "LocalMode" && ins == "insecureMode", rule, ks[i], s.Pos(), "caller passes LocalMode, insecureMode",
			fmt.Sprintf("parseAccessToken is called with (%s, %s) in the localMode/insecureMode positions", core.Expr(s.Arg(3)), core.Expr(s.Arg(4))))
	}
	if len(sites) == 0 {
		c.Fail(rule, pat+"/callers", fn.Pos(), "parseAccessToken has no caller in internal/api")
	}
	for _, u := range core.FuncValueUses(apiFns, pat) {
		c.Undecided(rule, core.FuncName(u.Parent())+"/value-use:"+pat, u.Pos(), "parseAccessToken used as a function value")
	}
}

func c30ModeField(v ssa.Value) string {
	if fa, ok := core.LoadAddr(v).(*ssa.FieldAddr); ok {
		return tFieldName(fa)
	}
	if f, ok := v.(*ssa.Field); ok {
		t := f.X.Type().Underlying()
		if st, ok := t.(*types.Struct); ok && f.Field < st.NumFields() {
			return st.Field(f.Field).Name()
		}
	}
	return ""
}

func c30MapKeyForm(k ssa.Value, mb c30MapBit, isTokenKey func(ssa.Value) bool) bool {
	suffix := func(v ssa.Value) bool {
		sl, ok := v.(*ssa.Slice)
		if !ok || sl.High != nil || !isTokenKey(sl.X) {
			return false
		}
		lo, ok := core.ConstInt(sl.Low)
		return ok && lo == int64(len(mb.prefix))
	}
	switch mb.form {
	case "ns":
		call, ok := k.(*ssa.Call)
		return ok && core.CalleeName(&call.Call) == "internal/api.extractNamespace" && suffix(call.Call.Args[0])
	case "colon":
		bo, ok := k.(*ssa.BinOp)
		if !ok || bo.Op != token.ADD {
			return false
		}
		s, isStr := core.ConstString(bo.Y)
		return isStr && s == ":" && suffix(bo.X)
	}
	return false
}

func c30PrefixGuard(b *ssa.BasicBlock, prefix string, isTokenKey func(ssa.Value) bool) bool {
	for _, l := range core.GuardLits(b) {
		call, ok := l.Cond.(*ssa.Call)
		if !ok || !l.Pol || l.Op != 0 || core.CalleeName(&call.Call) != "strings.HasPrefix" {
			continue
		}
		if s, ok := core.ConstString(call.Call.Args[1]); ok && s == prefix && isTokenKey(call.Call.Args[0]) {
			return true
		}
	}
	return false
}

// ---- R4 ---------------------------------------------------------------------------------

func c30R4(c *core.Check) {
	const rule = "C30-R4"
	c.Rule(rule, "K1 (path cases)", 10, "every condition combination under which CanViewMetricName is true contains (!RemoteConfigMetric(name) or bitAdmin) and one view grant "+
		"(bitViewMetric[name] | hasPrefixAccess(bitViewPrefix,name) | bitViewDefault && !protectedMetric(name)); every one under which canChangeMetricByName is true contains bitAdmin, or "+
		"!RemoteConfigMetric(old) && !RemoteConfigMetric(new) and one edit grant over BOTH names; hasPrefixAccess/protectedMetric return true only under HasPrefix(name, entry)")
	const ai = "{0:*api.accessInfo}"
	rcm := "internal/format.RemoteConfigMetric(%s)"
	hpa := "internal/api.hasPrefixAccess(" + ai + ".%s, %s)"
	prot := "internal/api.(*accessInfo).protectedMetric(" + ai + ", %s)"

	// view
	vname := "internal/api.(*accessInfo).CanViewMetricName"
	if fn := need(c, rule, vname); fn != nil {
		const nm = "{1:string}"
		grants := [][]core.TermLit{
			{tLit(true, ai+".bitViewMetric[%s]", nm)},
			{tLit(true, hpa, "bitViewPrefix", nm)},
			{tLit(true, ai+".bitViewDefault"), tLit(false, prot, nm)},
		}
		cases, err := core.ReturnCases(fn, 4096)
		if err != nil {
			c.Undecided(rule, vname+"/cases", fn.Pos(), err.Error())
		} else {
			tc := core.TrueCases(cases)
			for i, rc := range tc {
				key := fmt.Sprintf("%s/true-case#%d", vname, i+1)
				okRC := rc.Has(fmt.Sprintf(rcm, nm), false) || rc.Has(ai+".bitAdmin", true)
				okG := false
				for _, g := range grants {
					if rc.HasAll(g) {
						okG = true
					}
				}
				c.Require(okRC && okG, rule, key, rc.Ret.Pos(), "view allowed only with remote-config exclusion and a grant",
					fmt.Sprintf("CanViewMetricName can return true under [%s] (blocks %v): remote-config exclusion present=%v, complete view grant present=%v", rc.LitsString(), rc.Blocks, okRC, okG))
			}
			if len(tc) == 0 {
				c.Fail(rule, vname+"/true-cases", fn.Pos(), "CanViewMetricName can never return true (rule would be vacuous)")
			}
		}
	}
	// the by-value wrapper must delegate with the metric's own name
	if fn := need(c, rule, "internal/api.(*accessInfo).CanViewMetric"); fn != nil {
		for i, r := range core.Returns(fn) {
			call, ok := r.Results[0].(*ssa.Call)
			okc := ok && core.CalleeName(&call.Call) == vname && core.ParamOf(call.Call.Args[0]) == 0 && core.Term(call.Call.Args[1]) == "{1:format.MetricMetaValue}.Name"
			c.Require(okc, rule, fmt.Sprintf("internal/api.(*accessInfo).CanViewMetric/return#%d", i+1), r.Pos(), "delegates to CanViewMetricName(metric.Name)",
				"CanViewMetric returns "+core.Term(r.Results[0])+" instead of CanViewMetricName(metric.Name)")
		}
	}

	// edit
	ename := "internal/api.(*accessInfo).canChangeMetricByName"
	if fn := need(c, rule, ename); fn != nil {
		const o, n = "{2:format.MetricMetaValue}.Name", "{3:format.MetricMetaValue}.Name"
		grants := [][]core.TermLit{
			{tLit(true, ai+".bitEditMetric[%s]", o), tLit(true, ai+".bitEditMetric[%s]", n)},
			{tLit(true, hpa, "bitEditPrefix", o), tLit(true, hpa, "bitEditPrefix", n)},
			{tLit(true, ai+".bitEditDefault"), tLit(false, prot, o), tLit(false, prot, n)},
		}
		cases, err := core.ReturnCases(fn, 4096)
		if err != nil {
			c.Undecided(rule, ename+"/cases", fn.Pos(), err.Error())
		} else {
			tc := core.TrueCases(cases)
			for i, rc := range tc {
				key := fmt.Sprintf("%s/true-case#%d", ename, i+1)
				if rc.Has(ai+".bitAdmin", true) {
					c.Pass(rule, key, rc.Ret.Pos(), "administrator")
					continue
				}
				okRC := rc.Has(fmt.Sprintf(rcm, o), false) && rc.Has(fmt.Sprintf(rcm, n), false)
				okG := false
				for _, g := range grants {
					if rc.HasAll(g) {
						okG = true
					}
				}
				c.Require(okRC && okG, rule, key, rc.Ret.Pos(), "change allowed only with both remote-config exclusions and a grant over both names",
					fmt.Sprintf("canChangeMetricByName can return true for a non-admin under [%s] (blocks %v): remote-config exclusion of old and new=%v, grant over both names=%v", rc.LitsString(), rc.Blocks, okRC, okG))
			}
			if len(tc) == 0 {
				c.Fail(rule, ename+"/true-cases", fn.Pos(), "canChangeMetricByName can never return true (rule would be vacuous)")
			}
		}
	}

	// helpers: a true result needs HasPrefix(name, entry of the collection)
	for _, h := range []struct {
		name     string
		coll, nm int // parameter indices
		field    string
	}{
		{"internal/api.hasPrefixAccess", 0, 1, ""},
		{"internal/api.(*accessInfo).protectedMetric", 0, 1, "protectedPrefixes"},
	} {
		fn := need(c, rule, h.name)
		if fn == nil {
			continue
		}
		nt := 0
		for i, r := range core.Returns(fn) {
			key := fmt.Sprintf("%s/return#%d", h.name, i+1)
			if core.ConstBool(r.Results[0], false) {
				c.Pass(rule, key, r.Pos(), "returns false")
				continue
			}
			nt++
			ok := core.ConstBool(r.Results[0], true)
			if ok {
				ok = false
				for _, l := range core.GuardLits(r.Block()) {
					call, isCall := l.Cond.(*ssa.Call)
					if !isCall || !l.Pol || core.CalleeName(&call.Call) != "strings.HasPrefix" {
						continue
					}
					if core.ParamOf(call.Call.Args[0]) == h.nm && c30ElementOf(call.Call.Args[1], h.coll, h.field) {
						ok = true
					}
				}
			}
			c.Require(ok, rule, key, r.Pos(), "true only under HasPrefix(name, entry)",
				h.name+" returns "+core.Term(r.Results[0])+" under ["+core.FactsString(r.Block())+"]: a grant/protection must rest on strings.HasPrefix(<name parameter>, <entry of the collection>)")
		}
		if nt == 0 {
			c.Fail(rule, h.name+"/true", fn.Pos(), h.name+" never returns true")
		}
	}
}

// c30ElementOf: v is a key/element obtained by ranging over parameter idx (or its field).
func c30ElementOf(v ssa.Value, idx int, field string) bool {
	var coll ssa.Value
	switch x := v.(type) {
	case *ssa.Extract: // map range: next(range m)#1, or slice range lowered through Next for strings
		nx, ok := x.Tuple.(*ssa.Next)
		if !ok || x.Index != 1 {
			return false
		}
		rg, ok := nx.Iter.(*ssa.Range)
		if !ok {
			return false
		}
		coll = rg.X
	case *ssa.UnOp: // slice range: *(&s[i])
		ia, ok := x.X.(*ssa.IndexAddr)
		if !ok || x.Op != token.MUL {
			return false
		}
		coll = ia.X
	default:
		return false
	}
	if field == "" {
		return core.ParamOf(coll) == idx
	}
	fa, ok := core.LoadAddr(coll).(*ssa.FieldAddr)
	return ok && tFieldName(fa) == field && core.ParamOf(fa.X) == idx
}

// ---- R5 ---------------------------------------------------------------------------------

// frozen list of fields a non-admin must not change (DESIGN §4 C30-R5, from the property text:
// weight, presort, sharding, host/sum-square skips, raw-tag attributes)
var c30Protected = []string{"Weight", "PreKeyFrom", "PreKeyOnly", "SkipMaxHost", "SkipMinHost", "SkipSumSquare",
	"ShardStrategy", "ShardNum", "ShardFixedKey", "ShardFixedKey2", "ShardFixedKey2Timestamp"}

func c30R5(c *core.Check) {
	const rule = "C30-R5"
	c.Rule(rule, "K5+K1", 15, "every nil return of CanEditMetric is dominated by canChangeMetricByName(create, old, new) and either bitAdmin or, for each protected field of the frozen list, "+
		"a guard all of whose alternatives establish old.F == new.F (directly or through a projection function applied to old and new), the only other alternative allowed being "+
		"old.Weight == 0 && new.Weight == 1; Tags[i].RawKind != \"\" is compared for every i below max(len(old.Tags), len(new.Tags)) with an error return on difference")
	name := "internal/api.(*accessInfo).CanEditMetric"
	fn := need(c, rule, name)
	if fn == nil {
		return
	}
	const oldP, newP = 2, 3
	// field of which parameter?
	fieldOf := func(v ssa.Value) (par int, field string) {
		switch x := v.(type) {
		case *ssa.UnOp:
			if fa, ok := x.X.(*ssa.FieldAddr); ok && x.Op == token.MUL {
				return core.ParamOf(fa.X), tFieldName(fa)
			}
		case *ssa.Field:
			if p := core.ParamOf(x.X); p >= 0 {
				t, _ := x.X.Type().Underlying().(*types.Struct)
				if t != nil && x.Field < t.NumFields() {
					return p, t.Field(x.Field).Name()
				}
			}
		}
		return -1, ""
	}
	// fields a literal establishes as unchanged
	equalFields := func(l core.Lit) []string {
		if l.Op != token.EQL || !l.Pol {
			return nil
		}
		px, fx := fieldOf(l.X)
		py, fy := fieldOf(l.Y)
		if fx != "" && fx == fy && ((px == oldP && py == newP) || (px == newP && py == oldP)) {
			return []string{fx}
		}
		cx, okx := l.X.(*ssa.Call)
		cy, oky := l.Y.(*ssa.Call)
		if okx && oky && cx.Call.StaticCallee() != nil && cx.Call.StaticCallee() == cy.Call.StaticCallee() && len(cx.Call.Args) == 1 && len(cy.Call.Args) == 1 {
			a, b := core.ParamOf(cx.Call.Args[0]), core.ParamOf(cy.Call.Args[0])
			if (a == oldP && b == newP) || (a == newP && b == oldP) {
				fs, ok := c30ProjectionFields(cx.Call.StaticCallee())
				if ok {
					c.Seen(core.FuncName(cx.Call.StaticCallee()))
					return fs
				}
			}
		}
		return nil
	}
	constEq := func(l core.Lit, par int, field string, val int64) bool {
		if l.Op != token.EQL || !l.Pol {
			return false
		}
		p, f := fieldOf(l.X)
		k, ok := core.ConstNum(l.Y)
		return ok && p == par && f == field && k == float64(val)
	}
	altEstablishes := func(alt []core.Lit, field string) bool {
		for _, l := range alt {
			for _, f := range equalFields(l) {
				if f == field {
					return true
				}
			}
		}
		if field == "Weight" { // the documented exception, exactly 0 → 1
			o, n := false, false
			for _, l := range alt {
				o = o || constEq(l, oldP, "Weight", 0)
				n = n || constEq(l, newP, "Weight", 1)
			}
			return o && n
		}
		return false
	}

	nret := 0
	var finalNil *ssa.Return
	for _, r := range core.Returns(fn) {
		if !core.IsNil(r.Results[0]) {
			continue
		}
		nret++
		key := fmt.Sprintf("%s/return-nil#%d", name, nret)
		b := r.Block()
		// name-level permission first, with old and new in the right positions
		okName := false
		for _, l := range core.GuardLits(b) {
			call, ok := l.Cond.(*ssa.Call)
			if ok && l.Pol && l.Op == 0 && core.CalleeName(&call.Call) == "internal/api.(*accessInfo).canChangeMetricByName" &&
				core.ParamOf(call.Call.Args[0]) == 0 && core.ParamOf(call.Call.Args[2]) == oldP && core.ParamOf(call.Call.Args[3]) == newP {
				okName = true
			}
		}
		if !c.Require(okName, rule, key+"/by-name", r.Pos(), "dominated by canChangeMetricByName(create, old, new)",
			"CanEditMetric returns nil without canChangeMetricByName(_, old, new) having returned true; facts: "+core.FactsString(b)) {
			continue
		}
		if core.Holds(b, core.T("{0:*api.accessInfo}.bitAdmin")) {
			c.Pass(rule, key+"/admin", r.Pos(), "administrator")
			continue
		}
		finalNil = r
		guards := core.AltGuards(b)
		for _, f := range c30Protected {
			ok := false
			for _, g := range guards {
				all := len(g.Alts) > 0
				for _, alt := range g.Alts {
					if !altEstablishes(alt, f) {
						all = false
						break
					}
				}
				if all {
					ok = true
					break
				}
			}
			c.Require(ok, rule, key+"/field:"+f, r.Pos(), "old."+f+" == new."+f+" established",
				"a non-admin reaches `return nil` without old."+f+" == new."+f+" being established on every way there: the protected attribute "+f+" can be changed")
		}
	}
	if nret == 0 {
		c.Fail(rule, name+"/return-nil", fn.Pos(), "CanEditMetric never returns nil")
	}
	// Tags[i].RawKind
	key := name + "/field:Tags[i].RawKind"
	if finalNil == nil {
		c.Fail(rule, key, fn.Pos(), "no non-admin nil return to tie the raw-kind loop to")
		return
	}
	why := c30RawKindLoop(fn, finalNil, oldP, newP)
	c.Require(why == "", rule, key, finalNil.Pos(), "RawKind presence compared for every tag index up to the longer list",
		"raw-tag attribute check: "+why)
}

// c30ProjectionFields: fn(m) returns a composite whose elements are exactly fields of m.
func c30ProjectionFields(fn *ssa.Function) ([]string, bool) {
	if fn == nil || len(fn.Params) != 1 || len(fn.Blocks) != 1 {
		return nil, false
	}
	rets := core.Returns(fn)
	if len(rets) != 1 || len(rets[0].Results) != 1 {
		return nil, false
	}
	ld := core.LoadAddr(rets[0].Results[0])
	arr, ok := ld.(*ssa.Alloc)
	if !ok {
		return nil, false
	}
	var out []string
	for _, ref := range core.Referrers(arr) {
		ia, ok := ref.(*ssa.IndexAddr)
		if !ok {
			continue
		}
		for _, rr := range core.Referrers(ia) {
			st, ok := rr.(*ssa.Store)
			if !ok || st.Addr != ia {
				continue
			}
			fa, ok := core.LoadAddr(st.Val).(*ssa.FieldAddr)
			if ok && core.ParamOf(fa.X) == 0 {
				out = append(out, tFieldName(fa))
				continue
			}
			if f, ok := st.Val.(*ssa.Field); ok && core.ParamOf(f.X) == 0 {
				t, _ := f.X.Type().Underlying().(*types.Struct)
				out = append(out, t.Field(f.Field).Name())
			}
			// any other element (a constant, another value) projects nothing
		}
	}
	return out, true
}

// c30RawKindLoop matches the loop that compares the presence of RawKind tag by tag.
func c30RawKindLoop(fn *ssa.Function, finalNil *ssa.Return, oldP, newP int) string {
	// flag(v) = (par, idx): v is phi(false, P.Tags[idx].RawKind != "") with the non-constant edge under idx < len(P.Tags)
	flag := func(v ssa.Value) (int, ssa.Value) {
		phi, ok := v.(*ssa.Phi)
		if !ok || len(phi.Edges) != 2 {
			return -1, nil
		}
		for i, e := range phi.Edges {
			other := phi.Edges[1-i]
			if !core.ConstBool(other, false) {
				continue
			}
			bo, ok := e.(*ssa.BinOp)
			if !ok || bo.Op != token.NEQ {
				continue
			}
			if s, isStr := core.ConstString(bo.Y); !isStr || s != "" {
				continue
			}
			fa, ok := core.LoadAddr(bo.X).(*ssa.FieldAddr)
			if !ok || tFieldName(fa) != "RawKind" {
				continue
			}
			ia, ok := fa.X.(*ssa.IndexAddr)
			if !ok {
				continue
			}
			tags, ok := core.LoadAddr(ia.X).(*ssa.FieldAddr)
			if !ok || tFieldName(tags) != "Tags" {
				continue
			}
			par := core.ParamOf(tags.X)
			// bound guard on the edge's predecessor
			pred := phi.Block().Preds[i]
			bound := false
			for _, l := range core.GuardLits(pred) {
				if l.Op == token.LSS && l.Pol && l.X == ia.Index && c30IsLenOfTags(l.Y, par) {
					bound = true
				}
			}
			if par >= 0 && bound {
				return par, ia.Index
			}
		}
		return -1, nil
	}
	for _, b := range fn.Blocks {
		ifi, ok := b.Instrs[len(b.Instrs)-1].(*ssa.If)
		if !ok {
			continue
		}
		bo, ok := ifi.Cond.(*ssa.BinOp)
		if !ok || (bo.Op != token.NEQ && bo.Op != token.EQL) {
			continue
		}
		px, ix := flag(bo.X)
		py, iy := flag(bo.Y)
		if px < 0 || py < 0 || ix != iy || !((px == oldP && py == newP) || (px == newP && py == oldP)) {
			continue
		}
		diff := b.Succs[0]
		if bo.Op == token.EQL {
			diff = b.Succs[1]
		}
		ret, ok := diff.Instrs[len(diff.Instrs)-1].(*ssa.Return)
		if !ok || !nonNilErr(ret.Results[0], diff) {
			return "a difference in RawKind presence does not lead to an error return"
		}
		// the induction variable and the loop bound
		iv, ok := ix.(*ssa.Phi)
		if !ok || len(iv.Edges) != 2 {
			return "tag index is not a loop counter"
		}
		hdr := iv.Block()
		var latch *ssa.BasicBlock
		zero := false
		for i, e := range iv.Edges {
			if k, ok := core.ConstInt(e); ok && k == 0 {
				zero = true
				continue
			}
			inc, ok := e.(*ssa.BinOp)
			if ok && inc.Op == token.ADD && inc.X == iv {
				if k, ok := core.ConstInt(inc.Y); ok && k == 1 {
					latch = hdr.Preds[i]
				}
			}
		}
		if !zero || latch == nil {
			return "tag index does not run 0,1,2,…"
		}
		hif, ok := hdr.Instrs[len(hdr.Instrs)-1].(*ssa.If)
		if !ok {
			return "loop header has no bound test"
		}
		l := core.NormLit(hif.Cond, true)
		if l.Op != token.LSS || !l.Pol || l.X != iv {
			return "loop bound is not `i < …`: " + l.String()
		}
		mx, ok := l.Y.(*ssa.Call)
		if !ok || core.CalleeName(&mx.Call) != "builtin max" || len(mx.Call.Args) != 2 {
			return "loop bound is " + core.Term(l.Y) + ", not max(len(old.Tags), len(new.Tags)): tags beyond the shorter list are not compared"
		}
		a0, a1 := mx.Call.Args[0], mx.Call.Args[1]
		if !((c30IsLenOfTags(a0, oldP) && c30IsLenOfTags(a1, newP)) || (c30IsLenOfTags(a0, newP) && c30IsLenOfTags(a1, oldP))) {
			return "loop bound is " + core.Term(l.Y) + ", not max(len(old.Tags), len(new.Tags))"
		}
		body, exit := hdr.Succs[0], hdr.Succs[1]
		if !body.Dominates(b) || !b.Dominates(latch) {
			return "the comparison is not executed on every iteration"
		}
		if !exit.Dominates(finalNil.Block()) && exit != finalNil.Block() {
			return "the final `return nil` is not reached through the loop's exit"
		}
		return ""
	}
	return "no comparison of (i < len(new.Tags) && new.Tags[i].RawKind != \"\") with the same for old found"
}

func c30IsLenOfTags(v ssa.Value, par int) bool {
	call, ok := v.(*ssa.Call)
	if !ok || core.CalleeName(&call.Call) != "builtin len" {
		return false
	}
	fa, ok := core.LoadAddr(call.Call.Args[0]).(*ssa.FieldAddr)
	return ok && tFieldName(fa) == "Tags" && core.ParamOf(fa.X) == par
}

// ---- R6 ---------------------------------------------------------------------------------

func c30R6(c *core.Check) {
	const rule = "C30-R6"
	c.Rule(rule, "K1+K7", 2, "every MetricsStorage.SaveMetric call in internal/api is dominated by ai.CanEditMetric(create, old, m) == nil where m is the metric variable being saved and old is "+
		"*GetMetaMetric(m.MetricID) (edit) or m itself under m.MetricID == 0 (create)")
	const save = "internal/metajournal.(*MetricsStorage).SaveMetric"
	const can = "internal/api.(*accessInfo).CanEditMetric"
	apiFns := c.Prog.FuncsIn("internal/api")
	sites := core.Callers(apiFns, save)
	keys := core.Ordinals(sites)
	for i, s := range sites {
		c.CallSites++
		c.Seen(core.FuncName(s.Fn))
		saved := core.LoadAddr(s.Arg(3)) // the cell the saved metric is read from
		if saved == nil {
			if p, ok := s.Arg(3).(*ssa.Parameter); ok {
				saved = p
			}
		}
		if saved == nil {
			c.Undecided(rule, keys[i], s.Pos(), "the saved metric "+core.Expr(s.Arg(3))+" is not a variable")
			continue
		}
		sameVar := func(v ssa.Value) bool { return v == saved || core.LoadAddr(v) == saved }
		why := "no dominating `CanEditMetric(...) == nil` guard"
		for _, l := range core.GuardLits(s.Block()) {
			if l.Op != token.EQL || !l.Pol || !core.IsNil(l.Y) {
				continue
			}
			call, ok := l.X.(*ssa.Call)
			if !ok || core.CalleeName(&call.Call) != can {
				continue
			}
			old, nw := call.Call.Args[2], call.Call.Args[3]
			switch {
			case !sameVar(nw):
				why = "CanEditMetric checked " + core.Expr(nw) + ", not the metric that is saved"
			case sameVar(old):
				// creation: nothing stored yet, the id must be zero
				zero := false
				for _, g := range core.GuardLits(s.Block()) {
					if g.Op == token.EQL && g.Pol {
						if k, ok := core.ConstInt(g.Y); ok && k == 0 {
							if fa, ok := core.LoadAddr(g.X).(*ssa.FieldAddr); ok && tFieldName(fa) == "MetricID" && fa.X == saved {
								zero = true
							}
						}
					}
				}
				if zero {
					why = ""
				} else {
					why = "CanEditMetric compares the metric with itself although it is not known to be new (MetricID == 0): protected attributes of the stored metric are not compared"
				}
			default:
				// edit: old = *GetMetaMetric(saved.MetricID)
				g, ok := core.LoadAddr(old).(*ssa.Call)
				okOld := ok && core.CalleeName(&g.Call) == "internal/metajournal.(*MetricsStorage).GetMetaMetric"
				if okOld {
					fa, isF := core.LoadAddr(g.Call.Args[1]).(*ssa.FieldAddr)
					okOld = isF && tFieldName(fa) == "MetricID" && fa.X == saved
				}
				if okOld {
					why = ""
				} else {
					why = "the old metric given to CanEditMetric is " + core.Expr(old) + ", not the stored metric with the saved metric's id"
				}
			}
			if why == "" {
				break
			}
		}
		c.Require(why == "", rule, keys[i], s.Pos(), "save dominated by CanEditMetric(create, stored, saved) == nil", "SaveMetric: "+why+"; facts: "+core.FactsString(s.Block()))
	}
	for _, u := range core.FuncValueUses(apiFns, save) {
		c.Undecided(rule, core.FuncName(u.Parent())+"/value-use:SaveMetric", u.Pos(), "SaveMetric used as a function value")
	}
}
