package props

import (
	"fmt"
	"go/constant"
	"go/token"
	"go/types"
	"strings"

	"golang.org/x/tools/go/ssa"

	"shverif/core"
)

func init() {
	Register(&Property{
		ID:   "C09",
		Pkgs: []string{"./internal/agent"},
		Run:  runC09,
		Mutants: []Mutant{
			// the two regressions handed in by the mutation authors
			{Name: "C09-a-torn-tail-accepted", File: "internal/agent/disk_cache.go", Rule: "C09-R3",
				Old: "d.readingFileTail.nextPos+headerSize+chunkSize > d.readingFileTail.size",
				New: "d.readingFileTail.nextPos+chunkSize > d.readingFileTail.size"},
			{Name: "C09-b-close-removes-tail", File: "internal/agent/disk_cache.go", Rule: "C09-R6",
				Old: "		d.unrefFileWithRemove(&d.readingFileTail, false)",
				New: "		d.unrefFile(&d.readingFileTail)"},
			// R1
			{Name: "crc-read-at-12", File: "internal/agent/disk_cache.go", Rule: "C09-R1",
				Old: "crc := binary.LittleEndian.Uint32(header[16:20])", New: "crc := binary.LittleEndian.Uint32(header[12:16])"},
			{Name: "writer-swaps-second-and-crc", File: "internal/agent/disk_cache.go", Rule: "C09-R1",
				Old: "	binary.LittleEndian.PutUint32(header[4:8], second)\n	binary.LittleEndian.PutUint64(header[8:16], uint64(len(data)))\n	binary.LittleEndian.PutUint32(header[16:20], crc)",
				New: "	binary.LittleEndian.PutUint32(header[4:8], crc)\n	binary.LittleEndian.PutUint64(header[8:16], uint64(len(data)))\n	binary.LittleEndian.PutUint32(header[16:20], second)"},
			{Name: "erase-overwrites-time-field", File: "internal/agent/disk_cache.go", Rule: "C09-R1",
				Old: "_, err := sec.file.fp.WriteAt(header[:], sec.pos)", New: "_, err := sec.file.fp.WriteAt(header[:], sec.pos+4)"},
			// R2
			{Name: "crc-mismatch-accepted-when-zero", File: "internal/agent/disk_cache.go", Rule: "C09-R2",
				Old: "	if crc != sec.crc {", New: "	if crc != sec.crc && sec.crc != 0 {"},
			{Name: "read-error-keeps-second", File: "internal/agent/disk_cache.go", Rule: "C09-R2",
				Old: "		_ = d.eraseBucket(id)\n		return nil, fmt.Errorf(\"GetBucket wrong crc", New: "		return nil, fmt.Errorf(\"GetBucket wrong crc"},
			// R3
			{Name: "unknown-magic-trusted", File: "internal/agent/disk_cache.go", Rule: "C09-R3",
				Old: "		if magic != magicGoodBucket {", New: "		if magic != magicGoodBucket && magic == 0 {"},
			{Name: "negative-chunk-accepted", File: "internal/agent/disk_cache.go", Rule: "C09-R3",
				Old: "if chunkSize < 0 || chunkSize > maxChunkSize ||", New: "if chunkSize > maxChunkSize ||"},
			{Name: "next-record-skips-header", File: "internal/agent/disk_cache.go", Rule: "C09-R3",
				Old: "		d.readingFileTail.nextPos += headerSize + chunkSize\n		return time, d.lastBucketID", New: "		d.readingFileTail.nextPos += chunkSize\n		return time, d.lastBucketID"},
			// R4
			{Name: "put-ignores-write-error", File: "internal/agent/disk_cache.go", Rule: "C09-R4",
				Old: "	if err := d.writeSecond(time, crc, data); err != nil {\n		return 0, err\n	}", New: "	_ = d.writeSecond(time, crc, data)"},
			{Name: "body-overwrites-header", File: "internal/agent/disk_cache.go", Rule: "C09-R4",
				Old: "WriteAt(data, d.writingFile.size+headerSize)", New: "WriteAt(data, d.writingFile.size)"},
			// R5
			{Name: "tail-second-not-refcounted", File: "internal/agent/disk_cache.go", Rule: "C09-R5",
				Old: "		d.readingFileTail.refCount++\n", New: ""},
			{Name: "known-size-forgets-header", File: "internal/agent/disk_cache.go", Rule: "C09-R5",
				Old: "		d.knownBucketsSize += chunkSize + headerSize", New: "		d.knownBucketsSize += chunkSize"},
			{Name: "total-size-not-updated-on-put", File: "internal/agent/disk_cache.go", Rule: "C09-R5",
				Old: "	d.totalFileSize += headerSize + int64(len(data))\n", New: ""},
			// R6
			{Name: "erase-without-lock", File: "internal/agent/disk_cache.go", Rule: "C09-R6",
				Old: "	d.mu.Lock()\n	defer d.mu.Unlock()\n	return d.eraseBucket(id)", New: "	return d.eraseBucket(id)"},
			{Name: "put-forgets-deferred-unlock", File: "internal/agent/disk_cache.go", Rule: "C09-R6",
				Old: "	d.mu.Lock()\n	defer d.mu.Unlock()\n	// we allow putting", New: "	d.mu.Lock()\n	// we allow putting"},
			// R7
			{Name: "writer-accepts-larger-chunks-than-reader", File: "internal/agent/disk_cache.go", Rule: "C09-R7",
				Old: "	if len(data) > maxChunkSize {", New: "	if len(data) > fileRotateSize {"},
		},
	})
}

const (
	c09Pkg    = "internal/agent"
	tDCS      = "internal/agent.diskCacheShard"
	tDCFile   = "internal/agent.diskCacheFile"
	tDCBucket = "internal/agent.diskCacheBucket"
	mDCS      = "internal/agent.(*diskCacheShard)."
)

func runC09(c *core.Check) {
	c.Decides = "the record framing and the bookkeeping discipline of the agent disk cache: (R1) the 20-byte header written by writeSecond and the one parsed by ReadNextTailSecond have the same offsets, widths and byte order, " +
		"tile [0,headerSize) with headerSize equal to the array length, carry the same diskCacheBucket fields (time/size/crc) at the same offsets on both sides, and eraseBucket overwrites exactly the magic field at the record position; " +
		"(R2) GetBucket returns data with nil error only under crc32(buf)==sec.crc of the buffer it returns and erases the second on both failure branches; (R3) a tail second becomes known only under 0<=chunk<=maxChunkSize, " +
		"nextPos+headerSize+chunk<=size (in any arithmetic arrangement) and magic==magicGoodBucket, nextPos advances by headerSize+chunk only for good/deleted magic; (R4) PutBucket touches state only after writeSecond returned nil, " +
		"header is written before the body at body offset = header offset + headerSize; (R5) knownBuckets insert/delete is paired with the size (+-(size+headerSize)) and refcount changes in the same block, totalFileSize changes with the file size; " +
		"(R6) all shard state is accessed with d.mu held (helpers only from holders, Close is the single-threaded exception), locks are released by defer, Close never reaches os.Remove; (R7) allocation size in GetBucket is bounded because " +
		"diskCacheBucket.size has two writers, each under the chunk bound, and the writer's bound does not exceed the reader's."
	c.NotDecided = "behaviour under a torn write at every byte offset (only the end-of-file bound of the last record is decided), file rotation timing, that files are deleted exactly when the last reference goes (only the pairing of reference changes), " +
		"interaction with the OS (short writes, reordering without fsync), and cross-shard histories."

	fns := c.Prog.FuncsIn(c09Pkg)
	headerSize, okH := pkgConst(c, "C09-R1", c09Pkg, "headerSize")
	maxChunk, okM := pkgConst(c, "C09-R3", c09Pkg, "maxChunkSize")

	writeSecond := need(c, "C09-R1", mDCS+"writeSecond")
	readTail := need(c, "C09-R1", mDCS+"ReadNextTailSecond")
	putBucket := need(c, "C09-R4", mDCS+"PutBucket")
	getBucket := need(c, "C09-R2", mDCS+"GetBucket")
	eraseBucket := need(c, "C09-R1", mDCS+"eraseBucket")
	closeFn := need(c, "C09-R6", mDCS+"Close")
	unrefRm := need(c, "C09-R6", mDCS+"unrefFileWithRemove")

	// =================================================================== R1 (K3 fixed layout)
	c.Rule("C09-R1", "K3 fixed layout + K7", 8, "header layout of writeSecond = layout read by ReadNextTailSecond (offsets, widths, byte order), both tile [0,headerSize), headerSize = array length; "+
		"the same diskCacheBucket field travels at the same offset on both sides; the whole header array is what is written/read; eraseBucket overwrites exactly the magic field at sec.pos")
	var wAcc, rAcc []core.LayoutAccess
	wl := layoutOf(c, "C09-R1", c09Pkg, "(*diskCacheShard).writeSecond")
	rl := layoutOf(c, "C09-R1", c09Pkg, "(*diskCacheShard).ReadNextTailSecond")
	var wRoot, rRoot types.Object
	if wl != nil && okH {
		wRoot, wAcc = singleRoot(c, "C09-R1", mDCS+"writeSecond", wl, true)
		if wRoot != nil {
			c.Require(core.ArrayLen(wRoot) == headerSize, "C09-R1", mDCS+"writeSecond/buffer-size", wRoot.Pos(),
				fmt.Sprintf("header buffer is an array of headerSize=%d bytes", headerSize),
				fmt.Sprintf("header buffer has array length %d but headerSize is %d", core.ArrayLen(wRoot), headerSize))
			requireTile(c, "C09-R1", mDCS+"writeSecond/tiles", wl.Fn.Pos(), wAcc, headerSize, "written header")
		}
	}
	if rl != nil && okH {
		rRoot, rAcc = singleRoot(c, "C09-R1", mDCS+"ReadNextTailSecond", rl, false)
		if rRoot != nil {
			c.Require(core.ArrayLen(rRoot) == headerSize, "C09-R1", mDCS+"ReadNextTailSecond/buffer-size", rRoot.Pos(),
				fmt.Sprintf("header buffer is an array of headerSize=%d bytes", headerSize),
				fmt.Sprintf("header buffer has array length %d but headerSize is %d", core.ArrayLen(rRoot), headerSize))
			requireTile(c, "C09-R1", mDCS+"ReadNextTailSecond/tiles", rl.Fn.Pos(), rAcc, headerSize, "parsed header")
		}
	}
	if wAcc != nil && rAcc != nil {
		requireAgree(c, "C09-R1", "writeSecond<->ReadNextTailSecond", rl.Fn.Pos(), wAcc, rAcc, core.CompareOpts{})
	}
	// the header array as a whole is what goes to / comes from the file
	wholeArray := func(v ssa.Value, root types.Object) bool {
		// any nesting of full re-slicings (x[:], x[0:]) of the array
		n := 0
		for {
			sl, ok := v.(*ssa.Slice)
			if !ok {
				break
			}
			if sl.High != nil || sl.Max != nil {
				return false
			}
			if sl.Low != nil {
				if k, isK := kInt64(sl.Low); !isK || k != 0 {
					return false
				}
			}
			v = sl.X
			n++
		}
		a, ok := v.(*ssa.Alloc)
		return ok && n > 0 && root != nil && a.Pos() == root.Pos()
	}
	var hdrWrite, bodyWrite *core.Site
	if writeSecond != nil && wRoot != nil {
		ws := core.CallsTo(writeSecond, "os.(*File).WriteAt")
		for i := range ws {
			if wholeArray(ws[i].Arg(1), wRoot) {
				hdrWrite = &ws[i]
			} else if p := ws[i].Arg(1); len(writeSecond.Params) == 4 && p == ssa.Value(writeSecond.Params[3]) {
				bodyWrite = &ws[i]
			}
		}
		c.Require(hdrWrite != nil && len(ws) == 2 && bodyWrite != nil, "C09-R1", mDCS+"writeSecond/header-io", writeSecond.Pos(),
			"exactly two WriteAt: the whole header array and the body parameter",
			fmt.Sprintf("expected WriteAt(header[:]) of the whole header array and WriteAt(body parameter); found %d WriteAt call(s)", len(ws)))
	}
	if readTail != nil && rRoot != nil {
		ok := false
		for _, s := range core.CallsTo(readTail, "io.ReadFull") {
			if wholeArray(s.Arg(1), rRoot) {
				ok = true
			}
		}
		c.Require(ok, "C09-R1", mDCS+"ReadNextTailSecond/header-io", readTail.Pos(), "io.ReadFull fills the whole header array", "no io.ReadFull into the whole header array (header[:]) found")
	}
	// magic field of the writer
	var magicAcc *core.LayoutAccess
	for i := range wAcc {
		if wAcc[i].Const != nil {
			if magicAcc != nil {
				magicAcc = nil
				break
			}
			magicAcc = &wAcc[i]
		}
	}
	if wAcc != nil && magicAcc == nil {
		c.Undecided("C09-R1", mDCS+"writeSecond/magic-field", wl.Fn.Pos(), "expected exactly one header field written from a constant (the magic)")
	}
	// eraseBucket overwrites exactly the magic field
	var deletedMagic constant.Value
	if el := layoutOf(c, "C09-R1", c09Pkg, "(*diskCacheShard).eraseBucket"); el != nil && eraseBucket != nil && magicAcc != nil {
		eRoot, eAcc := singleRoot(c, "C09-R1", mDCS+"eraseBucket", el, true)
		if eRoot != nil {
			ok := len(eAcc) == 1 && eAcc[0].Off == 0 && eAcc[0].Width == magicAcc.Width && eAcc[0].Order == magicAcc.Order &&
				core.ArrayLen(eRoot) == magicAcc.Width && eAcc[0].Const != nil && !constant.Compare(eAcc[0].Const, token.EQL, magicAcc.Const)
			if ok {
				deletedMagic = eAcc[0].Const
			}
			// written at sec.pos + offset of the magic field
			posOK := false
			for _, s := range core.CallsTo(eraseBucket, "os.(*File).WriteAt") {
				if wholeArray(s.Arg(1), eRoot) {
					e := core.LinOf(s.Arg(2))
					if k, m := linShape(e, linTerm{1, loadsField(tDCBucket, "pos")}); m && k == magicAcc.Off {
						posOK = true
					}
				}
			}
			c.Require(ok && posOK, "C09-R1", mDCS+"eraseBucket/overwrites-magic", el.Fn.Pos(),
				fmt.Sprintf("erase writes a %d-byte constant different from the good magic at sec.pos+%d", magicAcc.Width, magicAcc.Off),
				fmt.Sprintf("erase must write exactly the magic field (%d bytes, %s, a constant different from the good magic, whole buffer) at diskCacheBucket.pos+%d; layout: %s, position argument ok=%v",
					magicAcc.Width, magicAcc.Order, magicAcc.Off, core.LayoutString(eAcc), posOK))
		}
	}
	// the same bucket field travels at the same offset on both sides (K7)
	readCall := map[int64]*ssa.Call{} // offset -> SSA call that reads it
	if readTail != nil {
		for _, a := range rAcc {
			readCall[a.Off] = core.SSACallAt(readTail, a.Call)
		}
	}
	if putBucket != nil && readTail != nil && writeSecond != nil && wAcc != nil && rAcc != nil {
		wmap, rmap := map[string]int64{}, map[string]int64{}
		sites := core.CallsTo(putBucket, mDCS+"writeSecond")
		if len(sites) != 1 {
			c.Undecided("C09-R1", mDCS+"PutBucket/writeSecond-call", putBucket.Pos(), fmt.Sprintf("expected one call of writeSecond, found %d", len(sites)))
		} else {
			site := sites[0]
			for _, f := range []string{"time", "size", "crc"} {
				for _, w := range core.FieldWrites([]*ssa.Function{putBucket}, tDCBucket, f) {
					for _, a := range wAcc {
						var idx int
						if n, _ := fmt.Sscanf(a.What, "param#%d", &idx); n == 1 && a.What == fmt.Sprintf("param#%d", idx) {
							if site.Arg(idx+1) == w.Val {
								wmap[f] = a.Off
							}
						} else if n, _ := fmt.Sscanf(a.What, "len(param#%d)", &idx); n == 1 {
							if isLenOf(site.Arg(idx + 1))(w.Val) {
								wmap[f] = a.Off
							}
						}
					}
				}
				for _, w := range core.FieldWrites([]*ssa.Function{readTail}, tDCBucket, f) {
					for off, call := range readCall {
						if call != nil && core.Derives(w.Val, call) {
							rmap[f] = off
						}
					}
				}
			}
			nonConst := 0
			for _, a := range wAcc {
				if a.Const == nil {
					nonConst++
				}
			}
			ok := len(wmap) == nonConst && len(rmap) == nonConst
			for f, o := range wmap {
				if ro, has := rmap[f]; !has || ro != o {
					ok = false
				}
			}
			c.Require(ok, "C09-R1", "writeSecond<->ReadNextTailSecond/bucket-fields", site.Pos(),
				fmt.Sprintf("every non-constant header field is a diskCacheBucket field carried at the same offset on both sides: %v", wmap),
				fmt.Sprintf("diskCacheBucket fields do not travel at the same header offsets: PutBucket/writeSecond store %v, ReadNextTailSecond loads %v (every one of the %d non-constant header fields must be mapped on both sides)", wmap, rmap, nonConst))
		}
	}

	// =================================================================== R2 (K1)
	c.Rule("C09-R2", "K1 guard-dominance + K6", 3, "GetBucket returns data with nil error only when crc32.Checksum(returned buffer) == sec.crc; every error return after the read erases the second")
	if getBucket != nil {
		var readAt *core.Site
		if rs := core.CallsTo(getBucket, "os.(*File).ReadAt"); len(rs) == 1 {
			readAt = &rs[0]
		} else {
			c.Undecided("C09-R2", mDCS+"GetBucket/ReadAt", getBucket.Pos(), fmt.Sprintf("expected one ReadAt, found %d", len(rs)))
		}
		crcOK := func(b *ssa.BasicBlock, data ssa.Value) bool {
			for _, g := range core.Facts(b) {
				if len(g.Alts) != 1 {
					continue
				}
				l := g.Alts[0]
				if l.Op != token.EQL || !l.Pol {
					continue
				}
				for _, pr := range [][2]ssa.Value{{l.X, l.Y}, {l.Y, l.X}} {
					call, ok := pr[0].(*ssa.Call)
					if !ok || core.CalleeName(&call.Call) != "hash/crc32.Checksum" {
						continue
					}
					if !core.LoadsField(pr[1], tDCBucket, "crc") {
						continue
					}
					if data == nil || core.Expr(call.Call.Args[0]) == core.Expr(data) {
						return true
					}
				}
			}
			return false
		}
		n := 0
		for _, r := range liveReturns(getBucket) {
			n++
			vals := core.ReturnedValues(r)
			key := fmt.Sprintf("%sGetBucket/return#%d", mDCS, n)
			if !isNilConst(vals[1]) {
				c.Pass("C09-R2", key, r.Pos(), "error return")
				continue
			}
			// nil error: buffer must be the checksummed one, read at pos+headerSize of the same record
			ok := crcOK(r.Block(), vals[0])
			rdOK := false
			if readAt != nil && core.Dominates(readAt.Instr, r) && core.Expr(readAt.Arg(1)) == core.Expr(vals[0]) && okH {
				if k, m := linShape(core.LinOf(readAt.Arg(2)), linTerm{1, loadsField(tDCBucket, "pos")}); m && k == headerSize {
					rdOK = true
				}
			}
			c.Require(ok && rdOK, "C09-R2", key, r.Pos(), "success return under crc32(buf)==sec.crc of the buffer read at sec.pos+headerSize",
				fmt.Sprintf("GetBucket returns data with a nil error without being dominated by crc32.Checksum(<returned buffer>) == sec.crc (crc guard=%v) of the bytes read at sec.pos+headerSize (read ok=%v); facts: %s", ok, rdOK, core.FactsString(r.Block())))
		}
		if readAt != nil {
			badRet := func(in ssa.Instruction) bool {
				r, ok := in.(*ssa.Return)
				if !ok {
					return false
				}
				return !isNilConst(core.ReturnedValues(r)[1])
			}
			p := core.ReachWithout(readAt.Instr, badRet, core.IsCallTo(mDCS+"eraseBucket"))
			c.Require(p == nil, "C09-R2", mDCS+"GetBucket/failure-erases", readAt.Pos(), "every error return after the read passes eraseBucket",
				"GetBucket can return an error after reading the record without erasing the unreadable second (it would be retried forever): "+pathStr(p))
		}
	}

	// =================================================================== R3 (K1)
	c.Rule("C09-R3", "K1 guard-dominance (linear bounds)", 4, "in ReadNextTailSecond the insertion into knownBuckets is dominated by chunk>=0, chunk<=maxChunkSize, nextPos+headerSize+chunk<=size and magic==magicGoodBucket; "+
		"nextPos advances by exactly headerSize+chunk and only under the bounds and a good or deleted magic")
	if readTail != nil && okH && okM && rAcc != nil {
		var sizeCall, magicCall *ssa.Call
		for _, a := range rAcc {
			if a.Width == 8 {
				sizeCall = readCall[a.Off]
			}
			if magicAcc != nil && a.Off == magicAcc.Off {
				magicCall = readCall[a.Off]
			}
		}
		isChunk := derivesFrom(sizeCall)
		bounds := func(b *ssa.BasicBlock) []string {
			var miss []string
			if !geFactWith(b, func(e core.Lin) bool { k, m := linShape(e, linTerm{1, isChunk}); return m && k <= 0 }) {
				miss = append(miss, "chunk >= 0")
			}
			if !geFactWith(b, func(e core.Lin) bool { k, m := linShape(e, linTerm{-1, isChunk}); return m && k <= maxChunk }) {
				miss = append(miss, fmt.Sprintf("chunk <= maxChunkSize (%d)", maxChunk))
			}
			if !geFactWith(b, func(e core.Lin) bool {
				k, m := linShape(e, linTerm{1, loadsField(tDCFile, "size")}, linTerm{-1, loadsField(tDCFile, "nextPos")}, linTerm{-1, isChunk})
				return m && k <= -headerSize
			}) {
				miss = append(miss, fmt.Sprintf("nextPos + headerSize(%d) + chunk <= size", headerSize))
			}
			return miss
		}
		magicIs := func(b *ssa.BasicBlock, want constant.Value) bool {
			if want == nil || magicCall == nil {
				return false
			}
			for _, g := range core.Facts(b) {
				if len(g.Alts) != 1 {
					continue
				}
				l := g.Alts[0]
				if l.Op == token.EQL && l.Pol && l.X == ssa.Value(magicCall) {
					if k, ok := l.Y.(*ssa.Const); ok && k.Value != nil && constant.Compare(constant.ToInt(k.Value), token.EQL, constant.ToInt(want)) {
						return true
					}
				}
			}
			return false
		}
		var good constant.Value
		if magicAcc != nil {
			good = magicAcc.Const
		}
		ins := 0
		for _, w := range core.FieldWrites([]*ssa.Function{readTail}, tDCS, "knownBuckets") {
			if w.Kind != "mapupdate" {
				continue
			}
			ins++
			miss := bounds(w.Instr.Block())
			if !magicIs(w.Instr.Block(), good) {
				miss = append(miss, "magic == magicGoodBucket (the constant writeSecond stores)")
			}
			c.Require(len(miss) == 0, "C09-R3", fmt.Sprintf("%sReadNextTailSecond/knownBuckets-insert#%d", mDCS, ins), w.Instr.Pos(),
				"tail second becomes known only under the chunk bounds and the good magic",
				"insertion of a tail second into knownBuckets is not dominated by: "+strings.Join(miss, "; "))
		}
		if ins == 0 {
			c.Undecided("C09-R3", mDCS+"ReadNextTailSecond/knownBuckets-insert", readTail.Pos(), "no insertion into knownBuckets found")
		}
		adv := 0
		for _, w := range core.FieldWrites([]*ssa.Function{readTail}, tDCFile, "nextPos") {
			adv++
			key := fmt.Sprintf("%sReadNextTailSecond/nextPos-advance#%d", mDCS, adv)
			miss := bounds(w.Instr.Block())
			if !magicIs(w.Instr.Block(), good) && !magicIs(w.Instr.Block(), deletedMagic) {
				miss = append(miss, "magic is the good or the deleted constant")
			}
			k, m := linShape(core.LinOf(w.Val), linTerm{1, loadsField(tDCFile, "nextPos")}, linTerm{1, isChunk})
			if !m || k != headerSize {
				miss = append(miss, fmt.Sprintf("new nextPos = nextPos + headerSize(%d) + chunk (found %s)", headerSize, core.LinOf(w.Val)))
			}
			c.Require(len(miss) == 0, "C09-R3", key, w.Instr.Pos(), "nextPos advances by headerSize+chunk under the bounds and a known magic",
				"advance of the tail read position is wrong or unguarded: "+strings.Join(miss, "; "))
		}
		// every store of a bucket position is the position of its header
		for i, w := range core.FieldWrites([]*ssa.Function{readTail}, tDCBucket, "pos") {
			c.Require(core.LoadsField(w.Val, tDCFile, "nextPos"), "C09-R3", fmt.Sprintf("%sReadNextTailSecond/bucket-pos#%d", mDCS, i+1), w.Instr.Pos(),
				"bucket position is the header position (nextPos before the advance)", "diskCacheBucket.pos is not the tail file's nextPos: "+core.Expr(w.Val))
		}
	}

	// =================================================================== R4 (K1)
	c.Rule("C09-R4", "K1 guard-dominance + K6 order", 4, "PutBucket changes shard state only after writeSecond returned nil; writeSecond writes the header before the body, the body at header offset + headerSize, and returns nil only after both writes succeeded")
	if putBucket != nil {
		sites := core.CallsTo(putBucket, mDCS+"writeSecond")
		if len(sites) == 1 {
			call := sites[0].Value()
			okGuard := func(b *ssa.BasicBlock) bool {
				for _, g := range core.Facts(b) {
					if len(g.Alts) == 1 && g.Alts[0].Op == token.EQL && g.Alts[0].Pol && g.Alts[0].X == call && isNilConst(g.Alts[0].Y) {
						return true
					}
				}
				return false
			}
			n := 0
			for _, b := range putBucket.Blocks {
				for _, in := range b.Instrs {
					var what string
					switch x := in.(type) {
					case *ssa.Store:
						if fa, ok := x.Addr.(*ssa.FieldAddr); ok {
							if nm, ok2 := namedTypeName(fa.X.Type()); ok2 && (nm == tDCS || nm == tDCFile) {
								what = "store " + core.Expr(x.Addr)
							}
						}
					case *ssa.MapUpdate:
						if core.LoadsField(x.Map, tDCS, "knownBuckets") {
							what = "knownBuckets insert"
						}
					}
					if what == "" {
						continue
					}
					n++
					c.Require(okGuard(b), "C09-R4", fmt.Sprintf("%sPutBucket/state-update#%d", mDCS, n), in.Pos(), what+" after writeSecond()==nil",
						what+" in PutBucket is not dominated by writeSecond(...) == nil: a failed write would still be accounted as a stored second")
				}
			}
			// bucket position = file size before the update (the header offset used by writeSecond)
			for i, w := range core.FieldWrites([]*ssa.Function{putBucket}, tDCBucket, "pos") {
				sizeStores := core.FieldWrites([]*ssa.Function{putBucket}, tDCFile, "size")
				before := core.LoadsField(w.Val, tDCFile, "size")
				for _, s := range sizeStores {
					if !core.Dominates(w.Instr, s.Instr) {
						before = false
					}
				}
				c.Require(before, "C09-R4", fmt.Sprintf("%sPutBucket/bucket-pos#%d", mDCS, i+1), w.Instr.Pos(),
					"bucket position is writingFile.size read before the size is advanced", "diskCacheBucket.pos is not the writing file size before its update")
			}
		}
	}
	if writeSecond != nil && hdrWrite != nil && bodyWrite != nil && okH {
		c.Require(core.Dominates(hdrWrite.Instr, bodyWrite.Instr), "C09-R4", mDCS+"writeSecond/header-before-body", bodyWrite.Pos(),
			"header WriteAt dominates body WriteAt", "the body is written on a path on which the header was not written first")
		d := core.LinOf(bodyWrite.Arg(2)).Sub(core.LinOf(hdrWrite.Arg(2)))
		hOff, m := linShape(core.LinOf(hdrWrite.Arg(2)), linTerm{1, loadsField(tDCFile, "size")})
		c.Require(d.IsConst() && d.Const == headerSize && m && hOff == 0, "C09-R4", mDCS+"writeSecond/body-offset", bodyWrite.Pos(),
			"header at writingFile.size, body at header offset + headerSize",
			fmt.Sprintf("header must go to writingFile.size and the body exactly headerSize (%d) bytes later; header offset %s, body - header = %s", headerSize, core.LinOf(hdrWrite.Arg(2)), d))
		n := 0
		for _, r := range liveReturns(writeSecond) {
			if !isNilConst(core.ReturnedValues(r)[0]) {
				continue
			}
			n++
			ok := true
			for _, s := range []*core.Site{hdrWrite, bodyWrite} {
				found := false
				for _, g := range core.Facts(r.Block()) {
					if len(g.Alts) == 1 && g.Alts[0].Op == token.EQL && g.Alts[0].Pol && isNilConst(g.Alts[0].Y) {
						if ex, isEx := g.Alts[0].X.(*ssa.Extract); isEx && ex.Tuple == s.Value() {
							found = true
						}
					}
				}
				ok = ok && found
			}
			c.Require(ok, "C09-R4", fmt.Sprintf("%swriteSecond/return-nil#%d", mDCS, n), r.Pos(), "nil only after both writes succeeded",
				"writeSecond returns nil without both WriteAt errors having been tested nil")
		}
	}

	// =================================================================== R5 (K6 + K2)
	c.Rule("C09-R5", "K6 co-update + K2", 6, "every block that inserts into knownBuckets also adds size+headerSize to knownBucketsSize and increments the file's refCount; every block that deletes subtracts the same and unrefs the file; "+
		"totalFileSize is written only by the enumerated functions and together with the writing file's size")
	if okH {
		blocksOf := map[*ssa.BasicBlock][]core.FieldWrite{}
		for _, w := range core.FieldWrites(fns, tDCS, "knownBuckets") {
			if w.Kind == "mapupdate" || w.Kind == "delete" {
				blocksOf[w.Instr.Block()] = append(blocksOf[w.Instr.Block()], w)
			}
		}
		cnt := map[string]int{}
		for _, fn := range fns {
			for _, b := range fn.Blocks {
				ws := blocksOf[b]
				if len(ws) == 0 {
					continue
				}
				for _, w := range ws {
					name := core.FuncName(fn)
					cnt[name+w.Kind]++
					key := fmt.Sprintf("%s/knownBuckets-%s#%d", name, w.Kind, cnt[name+w.Kind])
					sign := int64(1)
					if w.Kind == "delete" {
						sign = -1
					}
					sizeOK, refOK := false, false
					var found string
					for _, in := range b.Instrs {
						switch x := in.(type) {
						case *ssa.Store:
							if core.IsField(x.Addr, tDCS, "knownBucketsSize") {
								e := core.LinOf(x.Val)
								found = e.String()
								// old + sign*(X + headerSize): one atom is the old value, exactly one other atom with coefficient sign
								old, other := 0, 0
								for a, cf := range e.Coef {
									if cf == 1 && core.LoadsField(e.Rep[a], tDCS, "knownBucketsSize") {
										old++
									} else if cf == sign {
										other++
									} else {
										other += 2
									}
								}
								if old == 1 && other == 1 && e.Const == sign*headerSize {
									sizeOK = true
								}
							}
							if sign > 0 && core.IsField(x.Addr, tDCFile, "refCount") {
								if k, m := linShape(core.LinOf(x.Val), linTerm{1, loadsField(tDCFile, "refCount")}); m && k == 1 {
									refOK = true
								}
							}
						case *ssa.Call:
							if sign < 0 && core.GlobAny([]string{mDCS + "unrefFile", mDCS + "unrefFileWithRemove"}, core.CalleeName(&x.Call)) {
								refOK = true
							}
						}
					}
					c.Require(sizeOK && refOK, "C09-R5", key, w.Instr.Pos(),
						fmt.Sprintf("%s paired with knownBucketsSize %+d*(size+headerSize) and the reference change", w.Kind, sign),
						fmt.Sprintf("knownBuckets %s is not paired in its block with knownBucketsSize %+d*(size+headerSize=%d) (ok=%v, new value %s) and the file reference change (ok=%v)", w.Kind, sign, headerSize, sizeOK, found, refOK))
				}
			}
		}
		allowedTotal := []string{"internal/agent.makeDiscCacheShard", mDCS + "ReadNextTailSecond", mDCS + "unrefFileWithRemove", mDCS + "PutBucket"}
		for i, w := range core.FieldWrites(fns, tDCS, "totalFileSize") {
			name := core.FuncName(w.Fn)
			c.Require(inFuncs(name, allowedTotal), "C09-R5", fmt.Sprintf("totalFileSize-writer#%d:%s", i+1, name), w.Instr.Pos(), "enumerated writer of totalFileSize",
				"totalFileSize is written in "+name+", which is not one of the functions where a file appears, disappears or grows "+fmt.Sprint(allowedTotal))
		}
		if putBucket != nil {
			// the block that grows the writing file grows totalFileSize by the same amount
			for i, s := range core.FieldWrites([]*ssa.Function{putBucket}, tDCFile, "size") {
				dSize := core.LinOf(s.Val)
				ok := false
				for _, in := range s.Instr.Block().Instrs {
					if st, isSt := in.(*ssa.Store); isSt && core.IsField(st.Addr, tDCS, "totalFileSize") {
						dTot := core.LinOf(st.Val)
						// compare deltas: remove the old values
						a, b := dropAtom(dSize, loadsField(tDCFile, "size")), dropAtom(dTot, loadsField(tDCS, "totalFileSize"))
						if a != nil && b != nil && a.Sub(*b).IsConst() && a.Sub(*b).Const == 0 {
							ok = true
						}
					}
				}
				c.Require(ok, "C09-R5", fmt.Sprintf("%sPutBucket/file-growth#%d", mDCS, i+1), s.Instr.Pos(), "totalFileSize grows with the writing file",
					"the block that grows writingFile.size does not add the same amount to totalFileSize")
			}
		}
	}

	// =================================================================== R6 (K4 minimal + K2)
	c.Rule("C09-R6", "K4 lock discipline (local) + K2", 20, "every access to diskCacheShard state and every call of eraseBucket/writeSecond/unrefFile* happens with d.mu held for writing, in another such helper, in the constructor or in Close; "+
		"the mutex is operated only by the locking methods and released by defer; unrefFileWithRemove(_, false) only from Close and Close never reaches os.Remove")
	helpers := []string{mDCS + "eraseBucket", mDCS + "writeSecond", mDCS + "unrefFile", mDCS + "unrefFileWithRemove"}
	exempt := []string{mDCS + "Close", "internal/agent.makeDiscCacheShard"}
	protected := []string{"knownBuckets", "knownBucketsSize", "lastBucketID", "readingFileTail", "waitingFilesTail", "waitingFilesSize", "writingFile", "writingFileCreatedTs", "totalFileSize"}
	for _, fn := range fns {
		name := core.FuncName(fn)
		if inFuncs(name, helpers) || inFuncs(name, exempt) {
			// helpers must not operate the mutex themselves
			for i, op := range core.MinLockOps(fn) {
				if fa, ok := op.Addr.(*ssa.FieldAddr); ok && core.IsField(fa, tDCS, "mu") {
					c.Fail("C09-R6", fmt.Sprintf("%s/lock-op#%d", name, i+1), op.Instr.Pos(), "a caller-holds-lock helper / lock-free function operates d.mu ("+op.Op+")")
				}
			}
			continue
		}
		var locks *core.HeldLocks
		check := func(in ssa.Instruction, recv ssa.Value, what string, n int) {
			if locks == nil {
				locks = core.AnalyzeLocks(fn)
			}
			lvl, reach := locks.Level(in, mutexKey(recv, "mu"))
			if !reach {
				return
			}
			c.Require(lvl == core.LockW, "C09-R6", fmt.Sprintf("%s/%s#%d", name, what, n), in.Pos(), what+" with d.mu held",
				fmt.Sprintf("%s in %s without %s held (held here: %s)", what, name, mutexKey(recv, "mu"), locks.HeldAt(in)))
		}
		n := map[string]int{}
		for _, b := range fn.Blocks {
			for _, in := range b.Instrs {
				if v, ok := in.(ssa.Value); ok {
					for _, f := range protected {
						if core.IsField(v, tDCS, f) {
							n[f]++
							check(in, fieldBaseOf(v), "access:"+f, n[f])
						}
					}
				}
				if ci, ok := in.(ssa.CallInstruction); ok {
					callee := core.CalleeName(ci.Common())
					for _, h := range helpers {
						if callee == h {
							c.CallSites++
							n[h]++
							check(in, ci.Common().Args[0], "call:"+strings.TrimPrefix(h, mDCS), n[h])
						}
					}
				}
			}
		}
		// lock released by defer on every return
		var muRecv ssa.Value
		for _, op := range core.MinLockOps(fn) {
			if fa, ok := op.Addr.(*ssa.FieldAddr); ok && core.IsField(fa, tDCS, "mu") && (op.Op == "Lock") {
				muRecv = fa.X
			}
		}
		if muRecv != nil {
			if locks == nil {
				locks = core.AnalyzeLocks(fn)
			}
			for i, r := range liveReturns(fn) {
				lvl, reach := locks.Level(r, mutexKey(muRecv, "mu"))
				if !reach {
					continue
				}
				c.Require(lvl == core.LockNone || locks.DeferredRelease(r, mutexKey(muRecv, "mu")), "C09-R6", fmt.Sprintf("%s/return#%d/released", name, i+1), r.Pos(),
					"d.mu released on return", "return with d.mu held and no deferred Unlock registered (the shard stays locked forever)")
			}
		}
	}
	// helpers are used as values nowhere
	for _, h := range helpers {
		for _, u := range core.FuncValueUses(fns, h) {
			c.Fail("C09-R6", core.FuncName(u.Parent())+"/value-use:"+h, u.Pos(), h+" escapes as a function value (its callers cannot be checked for the lock)")
		}
	}
	// unrefFileWithRemove(_, false) only from Close; Close never reaches os.Remove
	for i, s := range core.Callers(fns, mDCS+"unrefFileWithRemove") {
		if core.ConstBool(s.Arg(2), false) {
			c.Require(inFuncs(core.FuncName(s.Fn), []string{mDCS + "Close"}), "C09-R6", fmt.Sprintf("unrefFileWithRemove(false)#%d:%s", i+1, core.FuncName(s.Fn)), s.Pos(),
				"keep-file unref in Close", "unrefFileWithRemove(_, false) outside Close: a file whose seconds were all erased would stay on disk while the cache is running")
		}
	}
	if closeFn != nil && unrefRm != nil {
		removers := reachesCallee(fns, "os.Remove", "os.RemoveAll")
		for _, fn := range core.WithAnon(closeFn) {
			cnt := 0
			for _, s := range core.Calls(fn) {
				g := c.Prog.Func(s.Callee)
				direct := core.GlobAny([]string{"os.Remove", "os.RemoveAll"}, s.Callee)
				if !direct && (g == nil || !removers[g]) {
					if s.Callee == "dynamic" || strings.HasPrefix(s.Callee, "invoke ") {
						if !strings.HasSuffix(s.Callee, "next") { // range over map lowers to builtin next, not a call
							c.Undecided("C09-R6", fmt.Sprintf("%s/dynamic-call#%d", core.FuncName(fn), cnt+1), s.Pos(), "dynamic call in Close: cannot decide whether it removes files")
						}
					}
					continue
				}
				cnt++
				ok := !direct && s.Callee == mDCS+"unrefFileWithRemove" && core.ConstBool(s.Arg(2), false)
				c.Require(ok, "C09-R6", fmt.Sprintf("%s/may-remove#%d", core.FuncName(fn), cnt), s.Pos(), "Close drops the reference with remove=false",
					"Close calls "+s.Callee+", which can reach os.Remove: closing the cache would delete a file that still holds unsent seconds (only unrefFileWithRemove(_, false) is allowed here)")
			}
		}
		for i, s := range core.CallsTo(unrefRm, "os.Remove", "os.RemoveAll") {
			ok := false
			for _, g := range core.Facts(s.Block()) {
				if len(g.Alts) == 1 && g.Alts[0].Pol && len(unrefRm.Params) == 3 && g.Alts[0].Cond == ssa.Value(unrefRm.Params[2]) {
					ok = true
				}
			}
			zero := false
			for _, g := range core.Facts(s.Block()) {
				if len(g.Alts) == 1 && g.Alts[0].Op == token.EQL && g.Alts[0].Pol && core.LoadsField(g.Alts[0].X, tDCFile, "refCount") {
					if k, isK := kInt64(g.Alts[0].Y); isK && k == 0 {
						zero = true
					}
				}
			}
			c.Require(ok && zero, "C09-R6", fmt.Sprintf("%sunrefFileWithRemove/os.Remove#%d", mDCS, i+1), s.Pos(), "file removed only when remove is true and the last reference is gone",
				fmt.Sprintf("os.Remove in unrefFileWithRemove must be guarded by the remove parameter (ok=%v) and refCount == 0 (ok=%v)", ok, zero))
		}
	}

	// =================================================================== R7 (K9 via K2)
	c.Rule("C09-R7", "K9 allocation bound (K2 + K1)", 4, "make([]byte, sec.size) in GetBucket is bounded: diskCacheBucket.size is written only in ReadNextTailSecond (under the chunk bounds of R3) and in PutBucket after writeSecond succeeded; "+
		"writeSecond refuses bodies larger than a constant that does not exceed the reader's bound")
	if okM {
		for i, w := range core.FieldWrites(fns, tDCBucket, "size") {
			name := core.FuncName(w.Fn)
			c.Require(inFuncs(name, []string{mDCS + "ReadNextTailSecond", mDCS + "PutBucket"}), "C09-R7", fmt.Sprintf("diskCacheBucket.size-writer#%d:%s", i+1, name), w.Instr.Pos(),
				"enumerated writer of diskCacheBucket.size", "diskCacheBucket.size is written in "+name+" where no chunk-size bound is known")
		}
		if getBucket != nil {
			n := 0
			for _, b := range getBucket.Blocks {
				for _, in := range b.Instrs {
					if mk, ok := in.(*ssa.MakeSlice); ok {
						n++
						c.Require(core.LoadsField(peelConv(mk.Len), tDCBucket, "size"), "C09-R7", fmt.Sprintf("%sGetBucket/make#%d", mDCS, n), mk.Pos(),
							"allocation length is diskCacheBucket.size", "allocation in GetBucket whose length is not the bounded diskCacheBucket.size: "+core.Expr(mk.Len))
					}
				}
			}
		}
		if writeSecond != nil && len(writeSecond.Params) == 4 {
			data := writeSecond.Params[3]
			for i, s := range core.CallsTo(writeSecond, "os.(*File).WriteAt") {
				var bound int64 = -1
				for _, e := range core.GEFacts(s.Block()) {
					if k, m := linShape(e, linTerm{-1, isLenOf(data)}); m {
						bound = k
					}
				}
				c.Require(bound >= 0 && bound <= maxChunk, "C09-R7", fmt.Sprintf("%swriteSecond/WriteAt#%d/size-limit", mDCS, i+1), s.Pos(),
					fmt.Sprintf("record written only when len(data) <= %d <= reader bound %d", bound, maxChunk),
					fmt.Sprintf("writeSecond writes a record without len(data) being bounded by a constant <= the reader's maxChunkSize (%d); bound found: %d (a larger record is rejected by ReadNextTailSecond after restart together with the rest of its file)", maxChunk, bound))
			}
		}
	}
}

// namedTypeName returns the module-relative name of the named struct type behind t (through one pointer).
func namedTypeName(t types.Type) (string, bool) {
	if p, ok := t.Underlying().(*types.Pointer); ok {
		t = p.Elem()
	}
	n, ok := t.(*types.Named)
	if !ok {
		return "", false
	}
	return core.TypeName(n.Origin()), true
}

// dropAtom removes the single atom with coefficient 1 accepted by is; nil if there is not exactly one.
func dropAtom(e core.Lin, is func(ssa.Value) bool) *core.Lin {
	hit := ""
	for a, cf := range e.Coef {
		if cf == 1 && is(e.Rep[a]) {
			if hit != "" {
				return nil
			}
			hit = a
		}
	}
	if hit == "" {
		return nil
	}
	one := core.LinOf(e.Rep[hit])
	out := e.Sub(one)
	return &out
}
