package props

import (
	"fmt"
	"go/token"
	"strings"

	"golang.org/x/tools/go/ssa"

	"shverif/core"
)

func init() {
	Register(&Property{
		ID:   "C15",
		Pkgs: sqPkgs,
		Run:  runC15,
		Mutants: []Mutant{
			{Name: "update-without-version-filter", File: "internal/metadata/dbv2.go", Rule: "C15-R1",
				Old: "deleted_at = $deletedAt, namespace_id = $namespaceId WHERE version = $oldVersion AND id = $id;",
				New: "deleted_at = $deletedAt, namespace_id = $namespaceId WHERE id = $id;"},
			{Name: "insert-version-not-fresh-maximum", File: "internal/metadata/dbv2.go", Rule: "C15-R1",
				Old: "INSERT INTO metrics_v5 (version, data, name, updated_at, type, deleted_at, namespace_id) VALUES ( (SELECT IFNULL(MAX(version), 0) + 1 FROM metrics_v5),",
				New: "INSERT INTO metrics_v5 (version, data, name, updated_at, type, deleted_at, namespace_id) VALUES ( (SELECT COUNT(*) + 1 FROM metrics_v5),"},
			{Name: "old-version-bound-to-wrong-variable", File: "internal/metadata/dbv2.go", Rule: "C15-R1",
				Old: "\t\t\t\tsqlite.Int64(\"$oldVersion\", oldVersion),\n\t\t\t\tsqlite.TextString(\"$name\", name),\n\t\t\t\tsqlite.Int64(\"$id\", id),\n\t\t\t\tsqlite.Int64(\"$deletedAt\", int64(deleteTime)),",
				New: "\t\t\t\tsqlite.Int64(\"$oldVersion\", updatedAt),\n\t\t\t\tsqlite.TextString(\"$name\", name),\n\t\t\t\tsqlite.Int64(\"$id\", id),\n\t\t\t\tsqlite.Int64(\"$deletedAt\", int64(deleteTime)),"},
			{Name: "no-return-when-version-row-missing", File: "internal/metadata/dbv2.go", Rule: "C15-R2",
				Old: "\t\t\tif !rows.Next() {\n\t\t\t\treturn cache, errInvalidMetricVersion\n\t\t\t}\n\t\t\t_, err := conn.Exec(\"update_entity\", \"UPDATE metrics_v5",
				New: "\t\t\t_, err := conn.Exec(\"update_entity\", \"UPDATE metrics_v5"},
			{Name: "version-check-selects-by-id-only", File: "internal/metadata/dbv2.go", Rule: "C15-R2",
				Old: "FROM metrics_v5 where version = $oldVersion AND id = $id;", New: "FROM metrics_v5 where id = $id;"},
			{Name: "history-written-in-second-transaction", File: "internal/metadata/dbv2.go", Rule: "C15-R3",
				Old: "\treturn result, err\n}\n\nfunc (db *DBV2) GetHistoryShort",
				New: "\tif err == nil {\n\t\terr = db.eng.Do(ctx, \"save_entity_history\", func(conn sqlite.Conn, cache []byte) ([]byte, error) {\n\t\t\treturn cache, insertHistory(conn, result)\n\t\t})\n\t}\n\treturn result, err\n}\n\nfunc (db *DBV2) GetHistoryShort"},
			{Name: "schema-version-not-unique", File: "internal/metadata/dbv2.go", Rule: "C15-R4",
				Old: "    namespace_id INTEGER NOT NULL,\n    version INTEGER UNIQUE NOT NULL,\n    updated_at INTEGER NOT NULL,\n    deleted_at INTEGER NOT NULL,\n    data    TEXT NOT NULL,\n    type    INTEGER NOT NULL,\n    UNIQUE (namespace_id, type, name)",
				New: "    namespace_id INTEGER NOT NULL,\n    version INTEGER NOT NULL,\n    updated_at INTEGER NOT NULL,\n    deleted_at INTEGER NOT NULL,\n    data    TEXT NOT NULL,\n    type    INTEGER NOT NULL,\n    UNIQUE (namespace_id, type, name)"},
			{Name: "schema-name-uniqueness-dropped", File: "internal/metadata/dbv2.go", Rule: "C15-R4",
				Old: "    type    INTEGER NOT NULL,\n    UNIQUE (namespace_id, type, name)\n", New: "    type    INTEGER NOT NULL\n"},
			{Name: "schema-history-unique-on-entity-only", File: "internal/metadata/dbv2.go", Rule: "C15-R4",
				Old: "    UNIQUE (entity_id, version)\n", New: "    UNIQUE (entity_id)\n"},
			{Name: "namespace-rename-check-skipped", File: "internal/metadata/rules.go", Rule: "C15-R5",
				Old: "\t\terr = checkNamespace(c, name, id, oldVersion, newJson, createEntity)\n", New: "\t\terr = nil\n"},
			{Name: "namespace-rename-comparison-inverted", File: "internal/metadata/rules.go", Rule: "C15-R5",
				Old: "\t\tif oldName != name {\n", New: "\t\tif oldName == name {\n"},
			{Name: "missing-namespace-accepted", File: "internal/metadata/rules.go", Rule: "C15-R5",
				Old: "\t\treturn 0, errors.Wrap(errNamespaceNotExists, fmt.Sprintf(\"namespace with name %s doesn't exists\", namespaceName))\n",
				New: "\t\treturn 0, nil\n"},
			{Name: "write-despite-failed-validation", File: "internal/metadata/dbv2.go", Rule: "C15-R5",
				Old: "resolvedNamespaceID, err := resolveEntity(conn, name, id, oldVersion, newJson, createMetric, typ)\n\t\tif err != nil {",
				New: "resolvedNamespaceID, err := resolveEntity(conn, name, id, oldVersion, newJson, createMetric, typ)\n\t\tif err != nil && createMetric {"},
			{Name: "create-check-skipped", File: "internal/metadata/rules.go", Rule: "C15-R5",
				Old: "\tif createEntity {\n\t\terr := checkCreateEntity(c, name, typ)", New: "\tif createEntity && id > 0 {\n\t\terr := checkCreateEntity(c, name, typ)"},
			{Name: "journal-includes-known-version", File: "internal/metadata/dbv2.go", Rule: "C15-R6",
				Old: "FROM metrics_v5 WHERE version > $version ORDER BY version asc;", New: "FROM metrics_v5 WHERE version >= $version ORDER BY version asc;"},
			{Name: "journal-descending", File: "internal/metadata/dbv2.go", Rule: "C15-R6",
				Old: "FROM metrics_v5 WHERE version > $version ORDER BY version asc;", New: "FROM metrics_v5 WHERE version > $version ORDER BY version desc;"},
		},
	})
}

const (
	sqFnSaveEntity = sqPkgMeta + ".(*DBV2).SaveEntity"
	sqTblEntities  = "metrics_v5"
	sqTblHistory   = "entity_history"
)

// sqEqBind returns the value bound to the parameter of the all-equality conjunct on col.
func sqEqBind(q *core.SQLSite, col, op string) (core.SQLBind, string) {
	if q.Stmt == nil {
		return core.SQLBind{}, "unparsed statement"
	}
	p := q.Stmt.WherePred(col)
	if p == nil {
		return core.SQLBind{}, "no conjunct on column " + col + " in WHERE " + fmt.Sprint(q.Stmt.WhereCols())
	}
	if p.Op != op || p.Val.Param == "" {
		return core.SQLBind{}, fmt.Sprintf("conjunct on %s is `%s %s`, expected `%s $param`", col, p.Op, p.Val.Norm(), op)
	}
	b, ok := q.Bind(p.Val.Param)
	if !ok || !q.BindsKnown || b.Val == nil {
		return core.SQLBind{}, "parameter " + p.Val.Param + " is not bound by exactly one resolvable sqlite.Arg"
	}
	return b, ""
}

// sqRuleConnScoped (K2) checks that every writing statement on the given tables is issued
// on a connection the enclosing function received as a parameter (i.e. inside the
// transaction of whoever called it), that closures owning such a parameter are passed
// to Engine.Do (or are the replay function handed to the engine), and that named
// functions with a connection parameter are not used as values.
func sqRuleConnScoped(c *core.Check, rule string, tables map[string]bool) int {
	meta := c.Prog.FuncsIn(sqPkgMeta, "cmd/statshouse-metadata")
	sites := core.SQLSites(meta...)
	keys := core.SQLKeys(sites)
	n := 0
	for i, q := range sites {
		if !q.IsWrite() {
			continue
		}
		if q.Stmt == nil {
			c.Undecided(rule, keys[i], q.Pos(), "cannot tell which table is written: "+q.Desc())
			continue
		}
		if !tables[q.Stmt.Table] {
			continue
		}
		n++
		c.CallSites++
		c.Require(sqConnParam(q.Arg(0)) != nil, rule, keys[i]+"/conn", q.Pos(), "executed on the connection parameter of the enclosing function",
			"the statement is executed on a connection that is not a parameter of the enclosing function ("+core.Expr(q.Arg(0))+"): it is not tied to the caller's transaction")
	}
	isDo := map[*ssa.Function]bool{}
	for _, d := range sqDoClosures(c, rule, meta) {
		isDo[d.Fn] = true
	}
	sum := core.NewSQLSummary(meta)
	for _, fn := range meta {
		hasConn := false
		for _, p := range fn.Params {
			if sqConnParam(p) != nil {
				hasConn = true
			}
		}
		if !hasConn || !sum.MayWrite(fn) {
			continue
		}
		name := core.FuncName(fn)
		if fn.Parent() != nil {
			c.Require(isDo[fn] || name == sqFnScan, rule, name+"/transaction-root", fn.Pos(), "closure runs inside Engine.Do / the engine's replay transaction",
				"a closure with a connection parameter that may write is neither passed to Engine.Do nor the replay function")
			continue
		}
		// named helper: every caller hands over its own connection parameter
		for j, s := range core.Callers(meta, name) {
			idx := -1
			for k, p := range fn.Params {
				if sqConnParam(p) != nil {
					idx = k
				}
			}
			c.Require(sqConnParam(s.Arg(idx)) != nil, rule, fmt.Sprintf("%s/caller#%d/conn", name, j+1), s.Pos(), "caller passes its own connection parameter",
				"caller "+core.FuncName(s.Fn)+" passes a connection that is not its own parameter: "+core.Expr(s.Arg(idx)))
		}
		for _, u := range core.FuncValueUses(meta, name) {
			c.Fail(rule, name+"/value-use", u.Pos(), "a function executing SQL on a connection parameter is used as a value (escapes the transaction-scope rule)")
		}
	}
	return n
}

func runC15(c *core.Check) {
	c.Decides = "(R1) the UPDATE of metrics_v5 in SaveEntity filters on version and id bound to SaveEntity's own parameters (the version one being the value recorded as OldVersion of the edit event) " +
		"and sets version to the sub-select IFNULL(MAX(version),0)+1 over the same table, as do both INSERTs; (R2) that UPDATE is dominated by rows.Next()==true of a SELECT on metrics_v5 " +
		"filtering on the same version and id values; (R3) every writing statement on metrics_v5/entity_history runs on the connection parameter of its function, closures owning one are passed to Engine.Do " +
		"(or are the replay function), helpers receive their caller's connection, and SaveEntity opens exactly one transaction; (R4) schema literal: metrics_v5.id PRIMARY KEY, version UNIQUE NOT NULL, " +
		"UNIQUE(namespace_id,type,name); entity_history UNIQUE(entity_id,version); the literal is what OpenDB passes to the engine; (R5) resolveEntity calls checkNamespace whenever typ is NamespaceEvent, " +
		"resolveNamespace only after it succeeded, checkCreateEntity whenever createEntity holds, and returns a nil error only when all succeeded; checkNamespace returns nil only for creates or when the stored " +
		"name (looked up by the edited id and version among NamespaceEvent rows) equals the new name; resolveNamespace returns a nil error only for non-namespaced types, names without a namespace prefix, or when the " +
		"namespace row was found; every write of SaveEntity is dominated by resolveEntity's error being nil; (R6) JournalEvents selects from metrics_v5 with the single filter version > $v bound to its since-version parameter, ORDER BY version asc."
	c.NotDecided = "races between processes and SQLite's own isolation; that exactly one of several racing edits succeeds (rests on SQLite serialising the transactions the engine opens); the JSON-level validation of entities; " +
		"who calls SaveEntity with which version; the journal's paging loop."

	meta := c.Prog.FuncsIn(sqPkgMeta)
	save := need(c, "C15-R1", sqFnSaveEntity)

	// ---- R3 (first: it finds the transaction closure the other rules look into) ---------------
	c.Rule("C15-R3", "K2 who-may-write", 16, "every writing statement on metrics_v5 / entity_history is executed on the connection parameter of its function; closures with a connection parameter are passed to Engine.Do (or are the replay function); SaveEntity opens exactly one transaction")
	sqRuleConnScoped(c, "C15-R3", map[string]bool{sqTblEntities: true, sqTblHistory: true})
	var closure *ssa.Function
	if save != nil {
		ds := sqDoClosures(c, "C15-R3", []*ssa.Function{save})
		c.Require(len(ds) == 1, "C15-R3", sqFnSaveEntity+"/one-transaction", save.Pos(), "SaveEntity makes exactly one Engine.Do call",
			fmt.Sprintf("SaveEntity makes %d Engine.Do calls: version check, update and history insert are not one transaction", len(ds)))
		if len(ds) >= 1 {
			closure = ds[0].Fn
			for _, d := range ds[1:] { // keep the one that updates the entity table
				for _, q := range core.SQLSites(d.Fn) {
					if q.Stmt != nil && q.Stmt.Verb == "UPDATE" && q.Stmt.Table == sqTblEntities {
						closure = d.Fn
					}
				}
			}
			c.Seen(core.FuncName(closure))
		}
	}

	// ---- R1 / R2 ---------------------------------------------------------------------------
	c.Rule("C15-R1", "K11 embedded-SQL shape + K7", 9, "SaveEntity: UPDATE metrics_v5 has `version = $p AND id = $q` bound to SaveEntity's parameters (p being the value stored as EditEntityEvent.OldVersion) and SET version = (SELECT IFNULL(MAX(version),0)+1 FROM metrics_v5); every INSERT INTO metrics_v5 takes version from the same sub-select")
	c.Rule("C15-R2", "K1 guard-dominance", 1, "the UPDATE is dominated by rows.Next() == true for the SELECT on metrics_v5 filtering on the same (version, id) values")
	var pVersion, pID, pName *ssa.Parameter
	if closure != nil {
		cname := core.FuncName(closure)
		sites := core.SQLSites(closure)
		keys := core.SQLKeys(sites)
		nUpd, nIns := 0, 0
		for i, q := range sites {
			if q.Stmt == nil {
				if q.IsWrite() {
					c.Undecided("C15-R1", keys[i], q.Pos(), "statement in SaveEntity cannot be parsed: "+q.Desc()+fmt.Sprint(" ", q.ParseErr))
				}
				continue
			}
			if q.Stmt.Table != sqTblEntities {
				continue
			}
			switch q.Stmt.Verb {
			case "UPDATE":
				nUpd++
				c.CallSites++
				c.Require(!q.Stmt.WhereComplex, "C15-R1", keys[i]+"/where-conjunctive", q.Pos(), "WHERE is a conjunction", "WHERE clause is not a plain conjunction of column comparisons")
				bv, why := sqEqBind(q, "version", "=")
				if !c.Require(why == "", "C15-R1", keys[i]+"/where-version", q.Pos(), "filters on version = $param", "the UPDATE does not filter on the version the caller read: "+why) {
					continue
				}
				bi, why := sqEqBind(q, "id", "=")
				if !c.Require(why == "", "C15-R1", keys[i]+"/where-id", q.Pos(), "filters on id = $param", "the UPDATE does not filter on the entity id: "+why) {
					continue
				}
				pv, pi := sqParamBehind(bv.Val, q.Instr), sqParamBehind(bi.Val, q.Instr)
				okv := pv != nil && pv.Parent() == save
				oki := pi != nil && pi.Parent() == save && pi != pv
				c.Require(okv, "C15-R1", keys[i]+"/where-version/bound-to-parameter", q.Pos(), "version filter is bound to a parameter of SaveEntity",
					"the version filter is bound to "+core.Expr(bv.Val)+", which is not (the unmodified value of) a parameter of SaveEntity")
				c.Require(oki, "C15-R1", keys[i]+"/where-id/bound-to-parameter", q.Pos(), "id filter is bound to a parameter of SaveEntity",
					"the id filter is bound to "+core.Expr(bi.Val)+", which is not (the unmodified value of) a distinct parameter of SaveEntity")
				if okv && oki {
					pVersion, pID = pv, pi
				}
				sv, has := q.Stmt.ValueOf("version")
				c.Require(has && sv.MaxPlusOneOf("version", sqTblEntities), "C15-R1", keys[i]+"/set-version", q.Pos(), "SET version = fresh maximum + 1",
					"the UPDATE does not set version to (SELECT IFNULL(MAX(version),0)+1 FROM "+sqTblEntities+"): "+sv.Norm())
				if nb, ok := q.Bind("$name"); ok {
					pName = sqParamBehind(nb.Val, q.Instr)
				}
				// R2
				same := func(s *core.SQLSite) bool {
					if s.Stmt == nil || s.Stmt.Verb != "SELECT" || s.Stmt.Table != sqTblEntities || s.Stmt.WhereComplex {
						return false
					}
					sv, w1 := sqEqBind(s, "version", "=")
					si, w2 := sqEqBind(s, "id", "=")
					return w1 == "" && w2 == "" && core.SameValue(sv.Val, bv.Val) && core.SameValue(si.Val, bi.Val)
				}
				sel := sqRowFound(q.Block(), true, same)
				c.Require(sel != nil, "C15-R2", keys[i]+"/row-with-old-version-exists", q.Pos(), "dominated by rows.Next() of the (version,id) SELECT",
					"the UPDATE is not dominated by rows.Next()==true of a SELECT on "+sqTblEntities+" filtering on the same version and id values; facts here: "+sqShorten(core.FactsString(q.Block()), 400))
			case "INSERT", "INSERT OR REPLACE":
				nIns++
				c.CallSites++
				iv, has := q.Stmt.ValueOf("version")
				c.Require(has && iv.MaxPlusOneOf("version", sqTblEntities), "C15-R1", keys[i]+"/insert-version", q.Pos(), "version = fresh maximum + 1",
					"the INSERT does not take version from (SELECT IFNULL(MAX(version),0)+1 FROM "+sqTblEntities+"): "+iv.Norm())
			case "DELETE":
				c.Fail("C15-R1", keys[i], q.Pos(), "SaveEntity deletes from "+sqTblEntities+": entities are versioned, never removed")
			}
		}
		if nUpd == 0 {
			c.Fail("C15-R1", cname+"/UPDATE "+sqTblEntities, closure.Pos(), "SaveEntity has no UPDATE of "+sqTblEntities+" (anchor of the optimistic-concurrency rule)")
		}
		if nIns == 0 {
			c.Fail("C15-R1", cname+"/INSERT "+sqTblEntities, closure.Pos(), "SaveEntity has no INSERT into "+sqTblEntities)
		}
		// the version parameter is the one recorded as OldVersion of the edit event
		if pVersion != nil {
			ws := sqFieldStores(core.WithAnon(save), sqPkgTL+".MetadataEditEntityEvent", "OldVersion")
			if len(ws) == 0 {
				c.Anchor("C15-R1", "store to "+sqPkgTL+".MetadataEditEntityEvent.OldVersion in SaveEntity")
			}
			for j, w := range ws {
				c.Require(sqParamBehind(w.Val, w) == pVersion, "C15-R1", fmt.Sprintf("%s/EditEntityEvent.OldVersion#%d", core.FuncName(w.Parent()), j+1), w.Pos(),
					"the parameter filtered on is the one logged as the edit's old version", "EditEntityEvent.OldVersion is not the parameter the UPDATE filters on: "+core.Expr(w.Val))
			}
		}
	}

	// ---- R4 -----------------------------------------------------------------------------------
	c.Rule("C15-R4", "K11 schema", 7, "schema literal: metrics_v5.id INTEGER PRIMARY KEY, metrics_v5.version UNIQUE NOT NULL, UNIQUE(namespace_id,type,name); entity_history UNIQUE(entity_id,version); the literal is the schema handed to the engine")
	sc := sqMetaSchema(c, "C15-R4")
	if t := sqNeedTable(c, "C15-R4", sc, sqTblEntities); t != nil {
		pos := token.NoPos
		if _, p, ok := c.Prog.GlobalStringInit(sqPkgMeta, "scheme"); ok {
			pos = p
		}
		id, ver := t.Col("id"), t.Col("version")
		c.Require(id != nil && id.PrimaryKey, "C15-R4", "schema/"+sqTblEntities+".id/primary-key", pos, "one row per entity", "metrics_v5.id is not the PRIMARY KEY: an entity could have several rows and the journal would return it more than once")
		c.Require(ver != nil && ver.Unique, "C15-R4", "schema/"+sqTblEntities+".version/unique", pos, "versions are globally unique", "metrics_v5.version is not UNIQUE: two racing edits could both commit the same MAX+1 version")
		c.Require(ver != nil && ver.NotNull, "C15-R4", "schema/"+sqTblEntities+".version/not-null", pos, "version NOT NULL", "metrics_v5.version may be NULL (NULLs are exempt from UNIQUE and invisible to `version > $v`)")
		c.Require(t.HasUnique("namespace_id", "type", "name"), "C15-R4", "schema/"+sqTblEntities+"/unique(namespace_id,type,name)", pos, "names unique per type and namespace",
			fmt.Sprintf("metrics_v5 has no UNIQUE(namespace_id, type, name) (declared: %v)", t.Uniques))
	}
	if t := sqNeedTable(c, "C15-R4", sc, sqTblHistory); t != nil {
		_, pos, _ := c.Prog.GlobalStringInit(sqPkgMeta, "scheme")
		c.Require(t.HasUnique("entity_id", "version"), "C15-R4", "schema/"+sqTblHistory+"/unique(entity_id,version)", pos, "one history row per entity version",
			fmt.Sprintf("entity_history has no UNIQUE(entity_id, version) (declared: %v)", t.Uniques))
	}

	// ---- R5 -----------------------------------------------------------------------------------
	c.Rule("C15-R5", "K1 guard-dominance + K7", 19, "resolveEntity / checkNamespace / resolveNamespace guard structure (see coverage.explanation) and every write of SaveEntity dominated by resolveEntity's nil error")
	sqCheckC15R5(c, meta, closure, save, pVersion, pID, pName)

	// ---- R6 -----------------------------------------------------------------------------------
	c.Rule("C15-R6", "K11 embedded-SQL shape", 3, "JournalEvents: one SELECT on metrics_v5, WHERE is the single conjunct version > $v with $v bound to the since-version parameter, ORDER BY version asc")
	if je := need(c, "C15-R6", sqPkgMeta+".(*DBV2).JournalEvents"); je != nil {
		var qs []*core.SQLSite
		for _, fn := range core.WithAnon(je) {
			for _, q := range core.SQLSites(fn) {
				qs = append(qs, q)
			}
		}
		keys := core.SQLKeys(qs)
		n := 0
		for i, q := range qs {
			if q.Stmt == nil || q.Stmt.Verb != "SELECT" || q.Stmt.Table != sqTblEntities {
				c.Fail("C15-R6", keys[i]+"/shape", q.Pos(), "JournalEvents executes something other than a SELECT on "+sqTblEntities+": "+q.Desc())
				continue
			}
			n++
			c.CallSites++
			b, why := sqEqBind(q, "version", ">")
			okW := why == "" && len(q.Stmt.Where) == 1 && !q.Stmt.WhereComplex
			if why == "" && !okW {
				why = fmt.Sprintf("WHERE has further conjuncts %v: entities could be left out of the journal", q.Stmt.WhereCols())
			}
			c.Require(okW, "C15-R6", keys[i]+"/where", q.Pos(), "WHERE version > $v", "the journal query does not select exactly the versions greater than the client's: "+why)
			if okW {
				p := sqParamBehind(b.Val, q.Instr)
				c.Require(p != nil && p.Parent() == je && sqParamIndex(p) == 2, "C15-R6", keys[i]+"/where/bound-to-since-version", q.Pos(), "bound to the since-version parameter",
					"the version bound is "+core.Expr(b.Val)+", not JournalEvents' since-version parameter")
			}
			ob := q.Stmt.OrderBy
			c.Require(len(ob) == 1 && ob[0].Col == "version" && !ob[0].Desc, "C15-R6", keys[i]+"/order", q.Pos(), "ORDER BY version asc",
				"the journal is not ordered by ascending version: "+q.Stmt.Shape())
		}
		if n != 1 {
			c.Fail("C15-R6", core.FuncName(je)+"/one-query", je.Pos(), fmt.Sprintf("expected exactly one journal query, found %d", n))
		}
	}
}

func sqShorten(s string, n int) string {
	if len(s) > n {
		return s[:n] + "…"
	}
	return s
}

func sqCheckC15R5(c *core.Check, meta []*ssa.Function, closure, save *ssa.Function, pVersion, pID, pName *ssa.Parameter) {
	const rule = "C15-R5"
	nsEvent, ok1 := sqConstOf(c, rule, "internal/format", "NamespaceEvent")
	metricEvent, ok2 := sqConstOf(c, rule, "internal/format", "MetricEvent")
	groupEvent, ok3 := sqConstOf(c, rule, "internal/format", "MetricsGroupEvent")
	re := need(c, rule, sqPkgMeta+".resolveEntity")
	cn := need(c, rule, sqPkgMeta+".checkNamespace")
	rn := need(c, rule, sqPkgMeta+".resolveNamespace")
	ln := need(c, rule, sqPkgMeta+".loadNamespaceName")
	cce := need(c, rule, sqPkgMeta+".checkCreateEntity")
	if !(ok1 && ok2 && ok3) || re == nil || cn == nil || rn == nil || ln == nil || cce == nil {
		return
	}
	one := func(fn *ssa.Function, callee *ssa.Function) *core.Site {
		ss := core.CallsTo(fn, core.FuncName(callee))
		if len(ss) == 0 {
			c.Fail(rule, core.FuncName(fn)+"/calls "+core.FuncName(callee), fn.Pos(), core.FuncName(fn)+" never calls "+core.FuncName(callee)+": the check it performs is skipped")
			return nil
		}
		if len(ss) != 1 {
			c.Undecided(rule, core.FuncName(fn)+"/calls "+core.FuncName(callee), fn.Pos(), fmt.Sprintf("expected exactly one call, found %d", len(ss)))
			return nil
		}
		return &ss[0]
	}
	isRet := func(nilOnly bool) func(ssa.Instruction) bool {
		return func(in ssa.Instruction) bool {
			r, ok := in.(*ssa.Return)
			if !ok {
				return false
			}
			if !nilOnly {
				return true
			}
			vals := core.ReturnedValues(r)
			return isNilConst(vals[len(vals)-1])
		}
	}

	// -- resolveEntity --
	rname := core.FuncName(re)
	typ, create := sqUniqueParam(re, "int32"), sqUniqueParam(re, "bool")
	if typ == nil || create == nil {
		c.Undecided(rule, rname+"/signature", re.Pos(), "expected exactly one int32 (entity type) and one bool (create) parameter")
		return
	}
	isTyp := func(v ssa.Value) bool { return v == ssa.Value(typ) }
	callCN, callRN, callCCE := one(re, cn), one(re, rn), one(re, cce)
	if callCN == nil || callRN == nil || callCCE == nil {
		return
	}
	// checkNamespace is called exactly for namespaces: guarded by typ == NamespaceEvent and unavoidable under it
	c.Require(sqHoldsDisj(callCN.Block(), sqLitCmpConst(token.EQL, isTyp, nsEvent, true)), rule, rname+"/checkNamespace/guard", callCN.Pos(), "called under typ == NamespaceEvent",
		"checkNamespace is not guarded by the entity type being NamespaceEvent")
	past := func(in ssa.Instruction) bool { return core.IsReturn(in) || in == callRN.Instr }
	p := core.ReachAssuming(re, past, func(in ssa.Instruction) bool { return in == callCN.Instr },
		func(l core.Lit) bool { return sqLitCmpConst(token.EQL, isTyp, nsEvent, false)(l) })
	c.Require(p == nil, rule, rname+"/checkNamespace/unavoidable-for-namespaces", callCN.Pos(), "every path with typ == NamespaceEvent passes checkNamespace",
		"with typ == NamespaceEvent resolveEntity can proceed without calling checkNamespace (namespace rename is not rejected): "+pathStr(p))
	errCN, errRN, errCCE := sqErrResult(callCN.Value()), sqErrResult(callRN.Value()), sqErrResult(callCCE.Value())
	c.Require(sqHoldsDisj(callRN.Block(), sqLitNil(true, errCN)), rule, rname+"/resolveNamespace/after-checkNamespace-ok", callRN.Pos(), "proceeds only when checkNamespace returned nil",
		"resolveEntity continues although checkNamespace failed")
	c.Require(sqHoldsDisj(callCCE.Block(), sqLitIsValue(create, true)), rule, rname+"/checkCreateEntity/guard", callCCE.Pos(), "called for creates", "checkCreateEntity is not guarded by the create flag")
	p = core.ReachAssuming(re, isRet(true), func(in ssa.Instruction) bool { return in == callCCE.Instr }, func(l core.Lit) bool { return sqLitIsValue(create, false)(l) })
	c.Require(p == nil, rule, rname+"/checkCreateEntity/unavoidable-for-creates", callCCE.Pos(), "every successful create passes checkCreateEntity",
		"a create can succeed without checkCreateEntity: "+pathStr(p))
	n := 0
	for _, r := range core.Returns(re) {
		n++
		vals := core.ReturnedValues(r)
		if !isNilConst(vals[len(vals)-1]) {
			continue
		}
		key := fmt.Sprintf("%s/return#%d", rname, n)
		okAll := sqHoldsDisj(r.Block(), sqLitNil(true, errCN)) && sqHoldsDisj(r.Block(), sqLitNil(true, errRN)) &&
			sqHoldsDisj(r.Block(), sqLitIsValue(create, false), sqLitNil(true, errCCE))
		c.Require(okAll, rule, key, r.Pos(), "nil error only after all checks succeeded",
			"resolveEntity returns a nil error without checkNamespace, resolveNamespace and (for creates) checkCreateEntity all having returned nil; facts: "+sqShorten(core.FactsString(r.Block()), 300))
	}

	// -- checkNamespace: rename forbidden --
	cname := core.FuncName(cn)
	ccreate := sqUniqueParam(cn, "bool")
	callLN := one(cn, ln)
	if ccreate == nil || callLN == nil {
		if ccreate == nil {
			c.Undecided(rule, cname+"/signature", cn.Pos(), "expected exactly one bool (create) parameter")
		}
		return
	}
	oldName := sqExtractOf(callLN.Value(), 0)
	var cmpName *ssa.Parameter
	sameName := func(l core.Lit) bool {
		if l.Op != token.EQL || !l.Pol {
			return false
		}
		for _, xy := range [][2]ssa.Value{{l.X, l.Y}, {l.Y, l.X}} {
			if p, ok := xy[1].(*ssa.Parameter); ok && xy[0] == oldName && oldName != nil {
				cmpName = p
				return true
			}
		}
		return false
	}
	n = 0
	for _, r := range core.Returns(cn) {
		n++
		vals := core.ReturnedValues(r)
		if !isNilConst(vals[0]) {
			continue
		}
		ok := sqHoldsDisj(r.Block(), sqLitIsValue(ccreate, true), sameName)
		c.Require(ok, rule, fmt.Sprintf("%s/return#%d", cname, n), r.Pos(), "nil only for creates or an unchanged name",
			"checkNamespace returns nil although the namespace is edited and its stored name was not compared equal to the new name; facts: "+sqShorten(core.FactsString(r.Block()), 300))
	}
	// -- loadNamespaceName: looks the namespace up by (type = NamespaceEvent, id, version) and yields its name --
	var lq *core.SQLSite
	for _, q := range core.SQLSites(ln) {
		if lq != nil {
			lq = nil
			break
		}
		lq = q
	}
	lname := core.FuncName(ln)
	if lq == nil || lq.Stmt == nil {
		c.Undecided(rule, lname+"/query", ln.Pos(), "expected exactly one parsable query")
		return
	}
	bt, w1 := sqEqBind(lq, "type", "=")
	bi, w2 := sqEqBind(lq, "id", "=")
	bv, w3 := sqEqBind(lq, "version", "=")
	shapeOK := lq.Stmt.Verb == "SELECT" && lq.Stmt.Table == sqTblEntities && w1 == "" && w2 == "" && w3 == "" && len(lq.Stmt.Cols) == 1 && lq.Stmt.Cols[0] == "name" && !lq.Stmt.WhereComplex
	if !c.Require(shapeOK, rule, lname+"/query-shape", lq.Pos(), "SELECT name FROM metrics_v5 WHERE type = … AND id = … AND version = …",
		"the stored namespace name is not looked up by type, id and version: "+lq.Stmt.Shape()+" "+w1+w2+w3) {
		return
	}
	kt, isK := core.ConstIntOf(bt.Val)
	c.Require(isK && kt == nsEvent, rule, lname+"/query-type", lq.Pos(), "type bound to NamespaceEvent", "the lookup is not restricted to NamespaceEvent rows: "+core.Expr(bt.Val))
	li, lv := sqParamBehind(bi.Val, lq.Instr), sqParamBehind(bv.Val, lq.Instr)
	// chain the parameters up to SaveEntity
	chainOK := li != nil && lv != nil && cmpName != nil
	var a3, b3, s3 *ssa.Parameter
	if chainOK {
		a2, b2 := sqArgOrigin(*callLN, sqParamIndex(li)), sqArgOrigin(*callLN, sqParamIndex(lv))
		chainOK = a2 != nil && b2 != nil
		if chainOK {
			a3, b3, s3 = sqArgOrigin(*callCN, sqParamIndex(a2)), sqArgOrigin(*callCN, sqParamIndex(b2)), sqArgOrigin(*callCN, sqParamIndex(cmpName))
			chainOK = a3 != nil && b3 != nil && s3 != nil
		}
	}
	c.Require(chainOK, rule, cname+"/looks-up-edited-entity", callLN.Pos(), "the lookup uses the id/version/name handed down by resolveEntity",
		"the namespace lookup's id, version or compared name are not parameters handed down from resolveEntity")

	// -- resolveNamespace: missing namespace -> error --
	nname := core.FuncName(rn)
	ntyp := sqUniqueParam(rn, "int32")
	if ntyp == nil {
		c.Undecided(rule, nname+"/signature", rn.Pos(), "expected exactly one int32 (entity type) parameter")
		return
	}
	isNTyp := func(v ssa.Value) bool { return v == ssa.Value(ntyp) }
	nsRow := func(q *core.SQLSite) bool {
		if q.Stmt == nil || q.Stmt.Verb != "SELECT" || q.Stmt.Table != sqTblEntities || q.Stmt.WhereComplex {
			return false
		}
		t, w1 := sqEqBind(q, "type", "=")
		_, w2 := sqEqBind(q, "name", "=")
		k, isK := core.ConstIntOf(t.Val)
		return w1 == "" && w2 == "" && isK && k == nsEvent
	}
	isSplitEmpty := func(l core.Lit) bool {
		if l.Op != token.EQL || !l.Pol {
			return false
		}
		ex, ok := l.X.(*ssa.Extract)
		if !ok || ex.Index != 0 || !sqIsCallNamed(ex.Tuple, "internal/format.SplitNamespace") {
			return false
		}
		k, ok := l.Y.(*ssa.Const)
		return ok && k.Value != nil && k.Value.ExactString() == `""`
	}
	n = 0
	for _, r := range core.Returns(rn) {
		n++
		vals := core.ReturnedValues(r)
		ev := vals[len(vals)-1]
		key := fmt.Sprintf("%s/return#%d", nname, n)
		if sqRowFound(r.Block(), false, nsRow) != nil {
			c.Require(!isNilConst(ev), rule, key, r.Pos(), "missing namespace yields an error", "resolveNamespace returns a nil error although the namespace row was not found")
			continue
		}
		switch {
		case sqRowFound(r.Block(), true, nsRow) != nil:
			c.Pass(rule, key, r.Pos(), "namespace row found")
		case sqHoldsDisj(r.Block(), isSplitEmpty):
			c.Pass(rule, key, r.Pos(), "name has no namespace prefix")
		case sqHoldsDisj(r.Block(), sqLitCmpConst(token.EQL, isNTyp, metricEvent, false)) && sqHoldsDisj(r.Block(), sqLitCmpConst(token.EQL, isNTyp, groupEvent, false)):
			c.Pass(rule, key, r.Pos(), "entity type is not namespaced")
		default:
			c.Fail(rule, key, r.Pos(), "resolveNamespace returns without having found the namespace row and outside the enumerated exemptions (non-namespaced type, no prefix); facts: "+sqShorten(core.FactsString(r.Block()), 300))
		}
	}

	// -- SaveEntity: no write after a failed validation; validation is about the saved entity --
	if closure == nil || save == nil {
		return
	}
	sname := core.FuncName(closure)
	var callRE *core.Site
	if ss := core.CallsTo(closure, rname); len(ss) == 1 {
		callRE = &ss[0]
	} else {
		c.Fail(rule, sname+"/resolveEntity", closure.Pos(), fmt.Sprintf("SaveEntity's transaction calls resolveEntity %d times (expected once, before any write)", len(ss)))
		return
	}
	errRE := sqErrResult(callRE.Value())
	sum := core.NewSQLSummary(meta)
	var ws []core.Site
	for _, s := range core.Calls(closure) {
		if sum.IsWriteInstr(s.Instr) {
			ws = append(ws, s)
		}
	}
	keys := core.Ordinals(ws)
	for i, w := range ws {
		c.CallSites++
		c.Require(sqHoldsDisj(w.Block(), sqLitNil(true, errRE)), rule, keys[i]+"/after-validation", w.Pos(), "write dominated by resolveEntity() == nil",
			"this write can execute although resolveEntity returned an error (or before it ran)")
	}
	if chainOK && pVersion != nil && pID != nil {
		okChain := sqArgOrigin(*callRE, sqParamIndex(a3)) == pID && sqArgOrigin(*callRE, sqParamIndex(b3)) == pVersion
		if pName != nil {
			okChain = okChain && sqArgOrigin(*callRE, sqParamIndex(s3)) == pName
		}
		c.Require(okChain, rule, sname+"/resolveEntity/validates-saved-entity", callRE.Pos(), "validation receives the id, version and name that the UPDATE uses",
			"resolveEntity is not given the same id / version / name parameters that the UPDATE filters on and writes")
	}
	_ = strings.TrimSpace
}
