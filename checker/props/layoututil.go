package props

import (
	"fmt"
	"go/constant"
	"go/token"
	"go/types"
	"strings"

	"golang.org/x/tools/go/ssa"

	"shverif/core"
)

// layoutOf extracts the fixed layout of a declared function (anchor) and turns engine
// issues into undecided obligations.
func layoutOf(c *core.Check, rule, pkgRel, decl string) *core.Layout {
	fd, pk := c.Prog.FuncDecl(pkgRel, decl)
	if fd == nil || pk == nil {
		c.Anchor(rule, pkgRel+"."+decl)
		return nil
	}
	l := core.ExtractLayout(pk, fd)
	for i, is := range l.Issues {
		c.Undecided(rule, fmt.Sprintf("%s.%s/layout-issue#%d", pkgRel, decl, i+1), is.Pos, "fixed-layout access cannot be evaluated: "+is.Msg)
	}
	return l
}

// singleRoot requires that all accesses of the direction go to one root buffer.
func singleRoot(c *core.Check, rule, key string, l *core.Layout, write bool) (types.Object, []core.LayoutAccess) {
	roots := l.Roots(write)
	if len(roots) != 1 {
		c.Undecided(rule, key+"/single-buffer", l.Fn.Pos(), fmt.Sprintf("expected fixed-width accesses on exactly one buffer, found %d", len(roots)))
		return nil, nil
	}
	return roots[0], l.On(roots[0], write)
}

// pkgConst resolves a package-level integer constant (anchor).
func pkgConst(c *core.Check, rule, pkgRel, name string) (int64, bool) {
	v, ok := core.PkgConstInt64(c.Prog.Pkg(pkgRel), name)
	if !ok {
		c.Anchor(rule, pkgRel+"."+name)
	}
	return v, ok
}

// requireTile records the tiling obligation.
func requireTile(c *core.Check, rule, key string, pos token.Pos, as []core.LayoutAccess, size int64, what string) bool {
	probs := core.Tile(as, 0, size)
	return c.Require(len(probs) == 0, rule, key, pos,
		fmt.Sprintf("%s tiles [0,%d): %s", what, size, core.LayoutString(as)),
		fmt.Sprintf("%s does not tile [0,%d): %s; layout: %s", what, size, strings.Join(probs, "; "), core.LayoutString(as)))
}

// requireAgree records the writer/reader agreement obligation.
func requireAgree(c *core.Check, rule, key string, pos token.Pos, w, r []core.LayoutAccess, o core.CompareOpts) bool {
	probs := core.CompareLayouts(w, r, o)
	return c.Require(len(probs) == 0, rule, key, pos,
		"writer and reader agree on offsets, widths, byte order and fields: "+core.LayoutString(w),
		"writer and reader layouts disagree: "+strings.Join(probs, "; "))
}

// mutexKey is the key the held-lock analysis uses for field `field` of the object x.
func mutexKey(x ssa.Value, field string) string {
	return strings.TrimPrefix(core.Expr(x), "&") + "." + field
}

// fieldBaseOf returns the struct pointer/value a FieldAddr/Field instruction selects from.
func fieldBaseOf(v ssa.Value) ssa.Value {
	switch x := v.(type) {
	case *ssa.FieldAddr:
		return x.X
	case *ssa.Field:
		return x.X
	case *ssa.UnOp:
		return fieldBaseOf(x.X)
	}
	return nil
}

// kInt64 returns the integer value of an SSA constant.
func kInt64(v ssa.Value) (int64, bool) {
	k, ok := v.(*ssa.Const)
	if !ok || k.Value == nil {
		return 0, false
	}
	iv := constant.ToInt(k.Value)
	if iv.Kind() != constant.Int {
		return 0, false
	}
	return constant.Int64Val(iv)
}

// geFactWith searches the order guards dominating b for one whose normal form E (E>=0)
// is accepted by pred.
func geFactWith(b *ssa.BasicBlock, pred func(core.Lin) bool) bool {
	for _, e := range core.GEFacts(b) {
		if pred(e) {
			return true
		}
	}
	return false
}

// linShape matches a linear form against a list of (coefficient, atom predicate) terms:
// every atom of the form must be matched by exactly one term with that coefficient and
// every term must be used. The constant is returned.
type linTerm struct {
	coef int64
	is   func(ssa.Value) bool
}

func linShape(e core.Lin, terms ...linTerm) (int64, bool) {
	if len(e.Coef) != len(terms) {
		return 0, false
	}
	used := make([]bool, len(terms))
	for a, cf := range e.Coef {
		found := false
		for i, t := range terms {
			if !used[i] && t.coef == cf && t.is(e.Rep[a]) {
				used[i] = true
				found = true
				break
			}
		}
		if !found {
			return 0, false
		}
	}
	return e.Const, true
}

func loadsField(typ, field string) func(ssa.Value) bool {
	return func(v ssa.Value) bool { return core.LoadsField(peelConv(v), typ, field) }
}

func derivesFrom(src ssa.Value) func(ssa.Value) bool {
	return func(v ssa.Value) bool { return src != nil && core.Derives(v, src) }
}

func peelConv(v ssa.Value) ssa.Value {
	for {
		switch x := v.(type) {
		case *ssa.Convert:
			v = x.X
		case *ssa.ChangeType:
			v = x.X
		default:
			return v
		}
	}
}

// isLenOf matches len(x) (possibly converted) of the given value.
func isLenOf(x ssa.Value) func(ssa.Value) bool {
	return func(v ssa.Value) bool {
		call, ok := peelConv(v).(*ssa.Call)
		if !ok || core.CalleeName(&call.Call) != "builtin len" || len(call.Call.Args) != 1 {
			return false
		}
		return call.Call.Args[0] == x
	}
}

// liveReturns lists the returns of fn outside the synthetic recover block.
func liveReturns(fn *ssa.Function) []*ssa.Return {
	var out []*ssa.Return
	for _, r := range core.Returns(fn) {
		if len(r.Block().Preds) == 0 && r.Block().Index != 0 {
			continue
		}
		out = append(out, r)
	}
	return out
}

// reachableFuncs computes the functions among `universe` from which a call to one of the
// target callees (globs over canonical names) is reachable through static calls and
// closures created in them.
func reachesCallee(universe []*ssa.Function, targets ...string) map[*ssa.Function]bool {
	byName := map[string]*ssa.Function{}
	for _, f := range universe {
		byName[core.FuncName(f)] = f
	}
	reach := map[*ssa.Function]bool{}
	changed := true
	for changed {
		changed = false
		for _, f := range universe {
			if reach[f] {
				continue
			}
			hit := false
			for _, s := range core.Calls(f) {
				if core.GlobAny(targets, s.Callee) {
					hit = true
					break
				}
				if g := byName[s.Callee]; g != nil && reach[g] {
					hit = true
					break
				}
			}
			if !hit {
				for _, a := range f.AnonFuncs {
					if reach[a] {
						hit = true
						break
					}
				}
			}
			if hit {
				reach[f] = true
				changed = true
			}
		}
	}
	return reach
}

// inFuncs reports whether the canonical name is one of the listed functions or a closure of one.
func inFuncs(name string, list []string) bool {
	for _, a := range list {
		if name == a || strings.HasPrefix(name, a+"$") {
			return true
		}
	}
	return false
}

// reachEdges is core.ReachWithout with an additional edge filter: control-flow edges
// for which skipEdge returns true are not followed (used for "paths on which cond holds").
func reachEdges(from ssa.Instruction, target, stop func(ssa.Instruction) bool, skipEdge func(p, s *ssa.BasicBlock) bool) *core.PathTo {
	type item struct {
		b     *ssa.BasicBlock
		start int
		path  []int
	}
	sb := from.Block()
	seen := map[*ssa.BasicBlock]bool{}
	queue := []item{{sb, core.InstrIndex(from) + 1, []int{sb.Index}}}
	for len(queue) > 0 {
		it := queue[0]
		queue = queue[1:]
		blocked := false
		for i := it.start; i < len(it.b.Instrs); i++ {
			in := it.b.Instrs[i]
			if stop != nil && stop(in) {
				blocked = true
				break
			}
			if target(in) {
				return &core.PathTo{End: in, Blocks: it.path}
			}
		}
		if blocked {
			continue
		}
		for _, s := range it.b.Succs {
			if skipEdge != nil && skipEdge(it.b, s) {
				continue
			}
			if !seen[s] {
				seen[s] = true
				queue = append(queue, item{s, 0, append(append([]int{}, it.path...), s.Index)})
			}
		}
	}
	return nil
}

// eqFact searches the guards dominating b for a single-alternative equality literal with
// the given polarity whose operands satisfy px / py (in either order).
func eqFact(b *ssa.BasicBlock, pol bool, px, py func(ssa.Value) bool) bool {
	for _, g := range core.Facts(b) {
		if len(g.Alts) != 1 {
			continue
		}
		l := g.Alts[0]
		if l.Op != token.EQL || l.Pol != pol {
			continue
		}
		if (px(l.X) && py(l.Y)) || (px(l.Y) && py(l.X)) {
			return true
		}
	}
	return false
}

func isVal(v ssa.Value) func(ssa.Value) bool { return func(x ssa.Value) bool { return x == v } }

func isNil(v ssa.Value) bool { return isNilConst(v) }

// isExtract matches the i-th component of a tuple-valued call.
func isExtract(call ssa.Value, i int) func(ssa.Value) bool {
	return func(v ssa.Value) bool {
		ex, ok := v.(*ssa.Extract)
		return ok && ex.Tuple == call && ex.Index == i
	}
}

func isConstInt(k int64) func(ssa.Value) bool {
	return func(v ssa.Value) bool { n, ok := kInt64(v); return ok && n == k }
}

// namedU resolves the named struct type behind t through pointers and type aliases.
func namedU(t types.Type) (*types.Named, bool) {
	t = types.Unalias(t)
	if p, ok := t.Underlying().(*types.Pointer); ok {
		t = types.Unalias(p.Elem())
	}
	n, ok := t.(*types.Named)
	return n, ok
}

// loadsFieldU is core.LoadsField that also sees through type aliases of the struct type.
func loadsFieldU(v ssa.Value, typ, field string) bool {
	if u, ok := v.(*ssa.UnOp); ok && u.Op == token.MUL {
		v = u.X
	}
	var x ssa.Value
	var idx int
	switch f := v.(type) {
	case *ssa.FieldAddr:
		x, idx = f.X, f.Field
	case *ssa.Field:
		x, idx = f.X, f.Field
	default:
		return false
	}
	n, ok := namedU(x.Type())
	if !ok || core.TypeName(n.Origin()) != typ {
		return false
	}
	st, ok := n.Underlying().(*types.Struct)
	return ok && idx < st.NumFields() && st.Field(idx).Name() == field
}
