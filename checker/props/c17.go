package props

import (
	"fmt"
	"go/token"
	"go/types"
	"strings"

	"golang.org/x/tools/go/ssa"

	"shverif/core"
)

func init() {
	Register(&Property{
		ID:   "C17",
		Pkgs: sqPkgs,
		Run:  runC17,
		Mutants: []Mutant{
			{Name: "second-writer-of-binlog-offset-table", File: "internal/sqlite/engine.go", Rule: "C17-R1",
				Old: "\t_, err := conn.Exec(\"__update_meta\", \"UPDATE __snapshot_meta SET meta = $meta;\", Blob(\"$meta\", meta))\n",
				New: "\t_, _ = conn.Exec(\"__reset_pos\", \"UPDATE __binlog_offset SET offset = 0\")\n\t_, err := conn.Exec(\"__update_meta\", \"UPDATE __snapshot_meta SET meta = $meta;\", Blob(\"$meta\", meta))\n"},
			{Name: "offset-updated-from-commit-path", File: "internal/sqlite/engine.go", Rule: "C17-R1",
				Old: "\t_, err := conn.Exec(\"__update_meta\", \"UPDATE __snapshot_meta SET meta = $meta;\", Blob(\"$meta\", meta))\n",
				New: "\t_ = binlogUpdateOffset(conn, e.dbOffset)\n\t_, err := conn.Exec(\"__update_meta\", \"UPDATE __snapshot_meta SET meta = $meta;\", Blob(\"$meta\", meta))\n"},
			{Name: "append-before-offset-update", File: "internal/sqlite/engine.go", Rule: "C17-R2",
				Old: "\t\terr = binlogUpdateOffset(c, offsetAfterWritePredicted)\n\t\tif err != nil {\n\t\t\tlog.Println(\"[sqlite] failed to update binlog position:\", err.Error())\n\t\t\treturn nil, e.dbOffset, e.commitOffset.Load(), err\n\t\t}\n\n\t\tvar offsetAfterWrite int64\n\t\tif waitCommitMode || mustCommitNow {\n\t\t\toffsetAfterWrite, err = e.binlog.AppendASAP(e.dbOffset, buffer)\n\t\t} else {\n\t\t\toffsetAfterWrite, err = e.binlog.Append(e.dbOffset, buffer)\n\t\t}\n\t\tif err != nil {\n\t\t\tlog.Println(\"[sqlite] got error from binlog:\", err.Error())\n\t\t\treturn nil, e.dbOffset, e.commitOffset.Load(), err\n\t\t}\n",
				New: "\t\tvar offsetAfterWrite int64\n\t\tif waitCommitMode || mustCommitNow {\n\t\t\toffsetAfterWrite, err = e.binlog.AppendASAP(e.dbOffset, buffer)\n\t\t} else {\n\t\t\toffsetAfterWrite, err = e.binlog.Append(e.dbOffset, buffer)\n\t\t}\n\t\tif err != nil {\n\t\t\tlog.Println(\"[sqlite] got error from binlog:\", err.Error())\n\t\t\treturn nil, e.dbOffset, e.commitOffset.Load(), err\n\t\t}\n\t\terr = binlogUpdateOffset(c, offsetAfterWritePredicted)\n\t\tif err != nil {\n\t\t\tlog.Println(\"[sqlite] failed to update binlog position:\", err.Error())\n\t\t\treturn nil, e.dbOffset, e.commitOffset.Load(), err\n\t\t}\n\n"},
			{Name: "callback-error-does-not-stop-binlog-write", File: "internal/sqlite/engine.go", Rule: "C17-R2",
				Old: "\tbuffer, err := fn(c, nil)\n\tif err != nil {\n", New: "\tbuffer, err := fn(c, nil)\n\tif err != nil && len(buffer) == 0 {\n"},
			{Name: "db-offset-advanced-before-append-error-test", File: "internal/sqlite/engine.go", Rule: "C17-R2",
				Old: "\t\tif err != nil {\n\t\t\tlog.Println(\"[sqlite] got error from binlog:\", err.Error())\n\t\t\treturn nil, e.dbOffset, e.commitOffset.Load(), err\n\t\t}\n\t\t// after this line can't rollback tx!!!!!!\n\t\te.dbOffset = offsetAfterWrite\n",
				New: "\t\te.dbOffset = offsetAfterWrite\n\t\tif err != nil {\n\t\t\tlog.Println(\"[sqlite] got error from binlog:\", err.Error())\n\t\t\treturn nil, e.dbOffset, e.commitOffset.Load(), err\n\t\t}\n"},
			{Name: "replica-may-append", File: "internal/sqlite/engine.go", Rule: "C17-R2",
				Old: "\tif shouldWriteBinlog && e.mode == replica {\n", New: "\tif shouldWriteBinlog && e.mode == replica && e.isTest {\n"},
			{Name: "error-return-after-append", File: "internal/sqlite/engine.go", Rule: "C17-R2",
				Old: "\tif mustCommitNow && ch != nil {\n\t\t<-ch\n", New: "\tif mustCommitNow && ch != nil {\n\t\tif err = ctx.Err(); err != nil {\n\t\t\treturn nil, e.dbOffset, e.commitOffset.Load(), err\n\t\t}\n\t\t<-ch\n"},
			{Name: "savepoint-released-on-error", File: "internal/sqlite/conn.go", Rule: "C17-R3",
				Old: "\t\tok := c.c.spOk && c.c.err == nil\n", New: "\t\tok := c.c.spOk || c.c.err == nil\n"},
			{Name: "savepoint-flag-not-reset", File: "internal/sqlite/conn.go", Rule: "C17-R3",
				Old: "\tc.c.spIn = true\n\tc.c.spOk = false\n", New: "\tc.c.spIn = true\n"},
			{Name: "internal-do-marks-ok-before-callback", File: "internal/sqlite/engine.go", Rule: "C17-R3",
				Old: "\terr := fn(c)\n\tif err != nil {\n\t\te.rw.spOk = false\n\t\treturn err\n\t}\n\te.rw.spOk = true\n\treturn err\n",
				New: "\te.rw.spOk = true\n\terr := fn(c)\n\tif err != nil {\n\t\treturn err\n\t}\n\treturn err\n"},
			{Name: "replay-offset-advanced-despite-failed-tx", File: "internal/sqlite/binlog_engine.go", Rule: "C17-R4",
				Old: "\tif errFromTx == nil {\n\t\te.dbOffset = newOffset\n\t}\n", New: "\te.dbOffset = newOffset\n\t_ = errFromTx\n"},
			{Name: "replay-ignores-offset-stored-in-db", File: "internal/sqlite/binlog_engine.go", Rule: "C17-R4",
				Old: "\t\tn, err = e.apply(conn, offset+int64(shouldSkipLen), payload)\n", New: "\t\tn, err = e.apply(conn, offset, payload)\n"},
			{Name: "replay-offset-written-outside-apply-tx", File: "internal/sqlite/binlog_engine.go", Rule: "C17-R4",
				Old: "\t\terr1 := binlogUpdateOffset(conn, newOffset)\n", New: "\t\terr1 := e.do(func(c2 Conn) error { return binlogUpdateOffset(c2, newOffset) })\n"},
			{Name: "commit-without-waiting-for-binlog", File: "internal/sqlite/engine.go", Rule: "C17-R5",
				Old: "\tif waitBinlogCommit && e.binlog != nil {\n", New: "\tif waitBinlogCommit && e.binlog != nil && !commit {\n"},
			{Name: "tx-loop-never-waits", File: "internal/sqlite/engine.go", Rule: "C17-R5",
				Old: "\t\t\te.commitTXAndStartNew(true, e.opt.DurabilityMode == WaitCommit)\n", New: "\t\t\te.commitTXAndStartNew(true, e.opt.DurabilityMode == NoWaitCommit)\n"},
			{Name: "commit-after-failed-binlog-wait", File: "internal/sqlite/engine.go", Rule: "C17-R5",
				Old: "\t\tinfo, err = e.binlogWaitDBSync(c)\n\t\tif err != nil {\n\t\t\treturn err\n\t\t}\n", New: "\t\tinfo, err = e.binlogWaitDBSync(c)\n\t\tif err != nil {\n\t\t\tlog.Println(\"[sqlite] binlog wait failed:\", err.Error())\n\t\t}\n"},
			{Name: "unlogged-write-added-to-get-mapping-by-value", File: "internal/metadata/dbv2.go", Rule: "C17-R6",
				Old: "\t\t} else {\n\t\t\tnotExists = true\n\t\t}\n\t\treturn cache, nil\n",
				New: "\t\t} else {\n\t\t\tnotExists = true\n\t\t\t_, _ = conn.Exec(\"touch_flood_limit\", \"DELETE FROM flood_limits WHERE metric_name = $name\", sqlite.BlobString(\"$name\", value))\n\t\t}\n\t\treturn cache, nil\n"},
		},
	})
}

const (
	sqFnDoWithoutWait = sqPkgSqlite + ".(*Engine).doWithoutWait"
	sqFnUpdateOffset  = sqPkgSqlite + ".binlogUpdateOffset"
	sqFnApply         = sqPkgSqlite + ".(*binlogEngineReplicaImpl).apply"
	sqFnSkip          = sqPkgSqlite + ".(*binlogEngineReplicaImpl).skip"
	sqFnCommitLocked  = sqPkgSqlite + ".(*Engine).commitRWTXAndStartNewLocked"
	sqFnCommitTX      = sqPkgSqlite + ".(*Engine).commitTXAndStartNew"
	sqFnSqlite0Exec   = "internal/sqlite/sqlite0.(*Conn).Exec"
)

var sqBinlogAppendFns = []string{"invoke internal/vkgo/binlog.Binlog.Append", "invoke internal/vkgo/binlog.Binlog.AppendASAP"}

func sqIsInstr(x ssa.Instruction) func(ssa.Instruction) bool {
	return func(in ssa.Instruction) bool { return in == x }
}

func sqIsLenOf(v, of ssa.Value) bool {
	call, ok := v.(*ssa.Call)
	if !ok {
		return false
	}
	b, ok := call.Call.Value.(*ssa.Builtin)
	return ok && b.Name() == "len" && len(call.Call.Args) == 1 && call.Call.Args[0] == of
}

// sqSprintfFormat returns the constant format of a fmt.Sprintf call value.
func sqSprintfFormat(v ssa.Value) (string, bool) {
	call, ok := v.(*ssa.Call)
	if !ok || core.CalleeName(&call.Call) != "fmt.Sprintf" || len(call.Call.Args) == 0 {
		return "", false
	}
	k, ok := call.Call.Args[0].(*ssa.Const)
	if !ok || k.Value == nil {
		return "", false
	}
	return strings.Trim(k.Value.ExactString(), `"`), true
}

func runC17(c *core.Check) {
	c.Decides = "(R1) the table holding the stored binlog position (name taken from the engine's own CREATE TABLE constant) is written only by binlogUpdateOffset (UPDATE of its offset column bound to the function's parameter) " +
		"and the initial INSERT of 0; every other SQL text in the loaded packages is a constant on another table, a savepoint statement built in newSqliteConn, or an open-time PRAGMA/schema statement; binlogUpdateOffset is called only from " +
		"doWithoutWait, apply and skip; (R2) in doWithoutWait every binlog append and offset update is dominated by the user callback's error being nil; appends are impossible in replica mode; each append is dominated by a successful " +
		"binlogUpdateOffset on the connection the callback ran on, with the predicted offset = offset-before + AddPadding(len(buffer)) and the same buffer appended at e.dbOffset; e.dbOffset is advanced only with an append's result under that append's nil error " +
		"(the deferred restore under err != nil excepted); after the advance every path stores spOk before returning and cannot assign a new error; (R3) execEndSavepoint releases only under spOk && err == nil and otherwise rolls back, on every path with an open savepoint; " +
		"execBeginSavepoint clears spOk before opening; spOk is only ever set to false, to `err == nil`, or to true under a nil callback error; the three savepoint statements are SAVEPOINT / RELEASE / ROLLBACK TO of one name; Conn.close commits only when the savepoint was released; " +
		"(R4) in apply the event application, the read of the stored offset and binlogUpdateOffset use the transaction closure's own connection, the applied offset derives from the stored offset, e.dbOffset = newOffset is guarded by the transaction's nil error, and e.dbOffset has no other writers than the enumerated ones; " +
		"(R5) in commitRWTXAndStartNewLocked COMMIT is unreachable with the wait flag set and a binlog present unless binlogWaitDBSync was called, and unreachable after it failed; txLoop and Close pass a flag that is true in WaitCommit mode; (R6 = C16-R2) no un-logged writes."
	c.NotDecided = "crash points between append, offset update and COMMIT; SQLite WAL/savepoint semantics; concurrency of readers; that the binlog implementation returns the predicted offset; the in-memory offset bumped inside skip's transaction closure is not restored if that transaction fails (observed, engine-failure path only)."

	all := c.Prog.Funcs()
	sq := c.Prog.FuncsIn(sqPkgSqlite)

	// ---- R1 -----------------------------------------------------------------------------------
	c.Rule("C17-R1", "K2 who-may-write", 8, "the stored-binlog-position table is written only by binlogUpdateOffset and the initial insert; every SQL text of the loaded packages is classified; binlogUpdateOffset is called only from doWithoutWait, apply, skip")
	offTable, offCol := "", ""
	if text, pos, ok := c.Prog.GlobalStringInit(sqPkgSqlite, "initOffsetTable"); ok {
		st, err := core.ParseSQL(text)
		if err != nil || st.Verb != "CREATE TABLE" || len(st.Cols) != 1 {
			c.Undecided("C17-R1", sqPkgSqlite+".initOffsetTable/parse", pos, fmt.Sprint("cannot parse the offset table definition: ", err))
		} else {
			offTable, offCol = st.Table, st.Cols[0]
		}
	} else {
		c.Anchor("C17-R1", sqPkgSqlite+".initOffsetTable")
	}
	if offTable != "" {
		sqCheckOffsetWriters(c, all, sq, offTable, offCol)
	}
	whoMayCall(c, "C17-R1", all, sqFnUpdateOffset, []string{sqFnDoWithoutWait, sqFnApply, sqFnSkip}, "the stored offset moves only together with a logged write, an applied event or a skipped range")

	// ---- R2 -----------------------------------------------------------------------------------
	c.Rule("C17-R2", "K1 + K7 + K6", 17, "doWithoutWait: callback error first, no append in replica mode, offset update (same connection, predicted offset) dominates the append, dbOffset advanced only after a successful append, spOk stored before every later return")
	if fn := need(c, "C17-R2", sqFnDoWithoutWait); fn != nil {
		sqCheckDoWithoutWait(c, fn)
	}

	// ---- R3 -----------------------------------------------------------------------------------
	c.Rule("C17-R3", "K1 + K2", 14, "savepoint discipline: release only under spOk && err == nil, else roll back; begin clears spOk; spOk writers are of the enumerated forms; Conn.close commits only after a release")
	sqCheckSavepoints(c, sq)

	// ---- R4 -----------------------------------------------------------------------------------
	c.Rule("C17-R4", "K7 + K1 + K2", 11, "replay apply: one transaction closure applies the event, reads the stored offset and updates it on its own connection; the applied offset derives from the stored one; e.dbOffset = newOffset only when the transaction returned nil; e.dbOffset writers enumerated")
	sqCheckReplayApply(c, all)

	// ---- R5 -----------------------------------------------------------------------------------
	c.Rule("C17-R5", "K1 + K6", 4, "commitRWTXAndStartNewLocked: COMMIT needs binlogWaitDBSync when the wait flag is set and a binlog exists, and is unreachable after its failure; txLoop and Close pass a flag that is true in WaitCommit mode")
	sqCheckCommitWaits(c, sq)

	// ---- R6 -----------------------------------------------------------------------------------
	c.Rule("C17-R6", "K6 pairing (= C16-R2)", 13, "no transaction callback passed to Engine.Do can return the untouched event buffer with a nil error after a write (the database would stop being the image of a binlog prefix)")
	sqRuleUnloggedWrites(c, "C17-R6")
}

// checkOffsetWriters classifies every SQL text of the loaded packages (R1).
func sqCheckOffsetWriters(c *core.Check, all, sq []*ssa.Function, offTable, offCol string) {
	const rule = "C17-R1"
	sites := core.SQLSites(all...)
	keys := core.SQLKeys(sites)
	nWriters := 0
	for i, q := range sites {
		if q.Forwarded {
			continue // plumbing inside Conn: Exec -> exec -> query
		}
		c.CallSites++
		who := core.FuncName(q.Fn)
		switch {
		case q.Stmt != nil:
			mentions := strings.Contains(strings.ToLower(q.SQL), offTable)
			if !q.IsWrite() || !mentions {
				continue
			}
			if q.Stmt.Table != offTable {
				c.Fail(rule, keys[i], q.Pos(), "statement mentions "+offTable+" without being a plain statement on it: "+q.Desc())
				continue
			}
			nWriters++
			switch {
			case who == sqFnUpdateOffset:
				v, has := q.Stmt.ValueOf(offCol)
				b, bound := q.Bind(v.Param)
				ok := q.Stmt.Verb == "UPDATE" && has && len(q.Stmt.Set) == 1 && len(q.Stmt.Where) == 0 && bound && b.Val != nil && sqParamBehind(b.Val, q.Instr) != nil
				c.Require(ok, rule, keys[i]+"/shape", q.Pos(), "UPDATE of the single offset row with the function's parameter", "binlogUpdateOffset does not simply store its offset parameter: "+q.Desc())
			case strings.HasPrefix(who, sqPkgSqlite+".(*Engine).binlogLoadOrCreatePosition"):
				v, has := q.Stmt.ValueOf(offCol)
				_, loaded := sqRowFoundNone(q.Block())
				c.Require(q.Stmt.Verb == "INSERT" && has && v.Lit == "0" && loaded, rule, keys[i]+"/shape", q.Pos(), "initial INSERT of offset 0 when no row exists",
					"the initial position insert is not `INSERT … VALUES(0)` guarded by the position not existing: "+q.Desc())
			default:
				c.Fail(rule, keys[i], q.Pos(), who+" writes "+offTable+" ("+q.Desc()+"): the stored offset must change only through binlogUpdateOffset")
			}
		case q.Const:
			c.Undecided(rule, keys[i], q.Pos(), fmt.Sprintf("SQL text cannot be parsed (%v): %q", q.ParseErr, q.SQL))
		default:
			// non-constant text: only the savepoint statements held in sqliteConn fields
			ok := false
			for _, f := range []string{"spBeginStmt", "spCommitStmt", "spRollbackStmt"} {
				if core.LoadsField(q.SQLValue, sqTSqliteConn, f) {
					ok = true
				}
			}
			c.Require(ok, rule, keys[i], q.Pos(), "savepoint statement built in newSqliteConn (checked by R3)", "SQL text is not a constant and not one of the savepoint statements: "+core.Expr(q.SQLValue))
		}
	}
	if nWriters < 2 {
		c.Fail(rule, offTable+"/writers", 0, fmt.Sprintf("found %d writer(s) of %s, expected binlogUpdateOffset and the initial insert (anchors of the rule)", nWriters, offTable))
	}
	// the raw sqlite0 channel: only open-time statements and transaction control
	raw := core.Callers(all, sqFnSqlite0Exec)
	rk := core.Ordinals(raw)
	for i, s := range raw {
		c.CallSites++
		v := s.Arg(1)
		if k, ok := v.(*ssa.Const); ok && k.Value != nil {
			text := strings.Trim(k.Value.ExactString(), `"`)
			st, err := core.ParseSQL(text)
			c.Require(err == nil && !st.IsDML() && st.Def == nil, rule, rk[i], s.Pos(), "transaction control / pragma", "raw statement on the sqlite0 connection is a data statement: "+text)
			continue
		}
		if f, ok := sqSprintfFormat(v); ok {
			st, err := core.ParseSQL(f)
			c.Require(err == nil && st.Verb == "PRAGMA", rule, rk[i], s.Pos(), "open-time PRAGMA", "raw formatted statement is not a PRAGMA: "+f)
			continue
		}
		who := core.FuncName(s.Fn)
		c.Require(who == sqPkgSqlite+".openRW", rule, rk[i], s.Pos(), "schema statements executed while opening the database (before any binlog position exists)",
			"raw non-constant SQL outside openRW: "+core.Expr(v))
	}
}

// sqRowFoundNone reports whether the block is on a path where the stored position was
// loaded and reported absent (binlogLoadPosition's isExists result false).
func sqRowFoundNone(b *ssa.BasicBlock) (ssa.Value, bool) {
	for _, g := range core.Facts(b) {
		if len(g.Alts) != 1 || g.Alts[0].Pol || g.Alts[0].Op != 0 {
			continue
		}
		for _, d := range sqResolveLoad(g.Alts[0].Cond) {
			if ex, ok := d.(*ssa.Extract); ok && ex.Index == 1 && sqIsCallNamed(ex.Tuple, sqPkgSqlite+".binlogLoadPosition") {
				return ex, true
			}
		}
	}
	return nil, false
}

func sqCheckDoWithoutWait(c *core.Check, fn *ssa.Function) {
	const rule = "C17-R2"
	name := core.FuncName(fn)
	// the user callback
	var cb *ssa.Call
	for _, s := range core.Calls(fn) {
		if p, ok := s.Common().Value.(*ssa.Parameter); ok && !s.Common().IsInvoke() {
			if _, isFn := p.Type().Underlying().(*types.Signature); isFn {
				if cb != nil {
					c.Undecided(rule, name+"/callback", s.Pos(), "the callback parameter is called more than once")
					return
				}
				cb, _ = s.Instr.(*ssa.Call)
			}
		}
	}
	if cb == nil {
		c.Anchor(rule, "call of the callback parameter in "+name)
		return
	}
	buffer, cbErr := sqExtractOf(cb, 0), sqExtractOf(cb, 1)
	if buffer == nil || cbErr == nil {
		c.Undecided(rule, name+"/callback", cb.Pos(), "the callback's buffer or error result is not used")
		return
	}
	replica, okK := sqConstOf(c, rule, sqPkgSqlite, "replica")
	appends := core.CallsTo(fn, sqBinlogAppendFns...)
	updates := core.CallsTo(fn, sqFnUpdateOffset)
	if len(appends) == 0 || len(updates) == 0 {
		c.Anchor(rule, "binlog append / binlogUpdateOffset calls in "+name)
		return
	}
	ak, uk := core.Ordinals(appends), core.Ordinals(updates)
	for i, s := range append(append([]core.Site{}, appends...), updates...) {
		c.CallSites++
		key := ""
		if i < len(appends) {
			key = ak[i]
		} else {
			key = uk[i-len(appends)]
		}
		c.Require(sqHoldsDisj(s.Block(), sqLitNil(true, cbErr)), rule, key+"/after-callback-ok", s.Pos(), "dominated by the callback's error being nil",
			"a binlog write / offset update can happen although the user callback returned an error (its changes are rolled back, the event would stay in the binlog)")
	}
	should := func(pol bool) func(core.Lit) bool {
		return func(l core.Lit) bool {
			return l.Op == token.LSS && l.Pol == pol && core.IsConstInt(l.X, 0) && sqIsLenOf(l.Y, buffer)
		}
	}
	isReplica := func(pol bool) func(core.Lit) bool {
		return func(l core.Lit) bool {
			return okK && l.Op == token.EQL && l.Pol == pol && core.LoadsField(l.X, sqTEngine, "mode") && core.IsConstInt(l.Y, replica)
		}
	}
	var errCell *ssa.Alloc // the variable the callback's error is stored into
	for _, r := range core.Referrers(cbErr) {
		if st, ok := r.(*ssa.Store); ok && st.Val == cbErr {
			errCell, _ = st.Addr.(*ssa.Alloc)
		}
	}
	for i, a := range appends {
		key := ak[i]
		c.Require(sqHoldsDisj(a.Block(), should(true)) && sqHoldsDisj(a.Block(), should(false), isReplica(false)), rule, key+"/not-in-replica-mode", a.Pos(),
			"append only for a non-empty buffer and never in replica mode", "the append is not guarded by `len(buffer) > 0` together with `!(len(buffer) > 0 && mode == replica)`")
		var dom *core.Site
		for j := range updates {
			u := updates[j]
			if core.Dominates(u.Instr, a.Instr) && sqHoldsDisj(a.Block(), sqLitNil(true, sqErrResult(u.Value()))) {
				dom = &updates[j]
			}
		}
		if !c.Require(dom != nil, rule, key+"/offset-update-first", a.Pos(), "dominated by a successful binlogUpdateOffset",
			"the append is not dominated by binlogUpdateOffset having returned nil: a crash after the append would leave a database whose stored offset lags the binlog while the transaction may commit") {
			continue
		}
		// same connection as the callback
		sameConn := core.SameValue(dom.Arg(0), cb.Call.Args[0])
		if cell := core.CellOf(dom.Arg(0)); sameConn && cell != nil {
			s1, e1 := core.ReachingStores(cell, dom.Arg(0).(*ssa.UnOp))
			s2, e2 := core.ReachingStores(cell, cb.Call.Args[0].(*ssa.UnOp))
			sameConn = !e1 && !e2 && len(s1) == 1 && len(s2) == 1 && s1[0] == s2[0]
		}
		c.Require(sameConn, rule, key+"/offset-update-on-callback-connection", dom.Pos(), "offset stored through the connection (transaction) the callback wrote on",
			"binlogUpdateOffset runs on a different connection than the user callback: offset and data would not be in one transaction")
		// predicted offset and appended bytes
		lf := sqLinearOf(dom.Arg(1))
		padOK, baseOK := false, false
		for t, n := range lf.other {
			if call, ok := t.(*ssa.Call); ok && n == 1 && core.CalleeName(&call.Call) == "internal/vkgo/binlog/fsbinlog.AddPadding" {
				if in := sqLinearOf(call.Call.Args[0]); in.ok && in.konst == 0 && len(in.other) == 0 && len(in.lens) == 1 && in.lens[buffer] == 1 {
					padOK = true
				}
			} else if n == 1 {
				for _, d := range sqResolveLoad(t) {
					if core.LoadsField(d, sqTEngine, "dbOffset") {
						baseOK = true
					}
				}
			}
		}
		okArgs := lf.ok && lf.konst == 0 && len(lf.lens) == 0 && len(lf.other) == 2 && padOK && baseOK &&
			a.Arg(2) == buffer && core.LoadsField(a.Arg(1), sqTEngine, "dbOffset")
		c.Require(okArgs, rule, key+"/predicted-offset", a.Pos(), "stored offset = offset before + AddPadding(len(buffer)); the same buffer is appended at e.dbOffset",
			"the offset stored in the database is not `e.dbOffset at start + AddPadding(len(buffer))` for the buffer appended at e.dbOffset")
	}
	// dbOffset advance
	var advances []*ssa.Store
	for j, w := range core.FieldWrites(core.WithAnon(fn), sqTEngine, "dbOffset") {
		st, ok := w.Instr.(*ssa.Store)
		key := fmt.Sprintf("%s/e.dbOffset#%d", core.FuncName(w.Fn), j+1)
		if !ok {
			c.Fail(rule, key, w.Instr.Pos(), "unexpected kind of write to e.dbOffset")
			continue
		}
		if w.Fn != fn {
			// deferred restore: e.dbOffset = offsetBeforeWrite under err != nil
			restore := false
			if cell := core.CellOf(st.Val); cell != nil {
				if outer := core.OuterCell(cell); outer != nil {
					if sts := core.StoresTo(outer); len(sts) == 1 && core.LoadsField(sts[0].Val, sqTEngine, "dbOffset") && core.Dominates(sts[0], cb) {
						restore = true
					}
				}
			}
			failed := sqHoldsDisj(st.Block(), func(l core.Lit) bool {
				if l.Op != token.EQL || l.Pol || !isNilConst(l.Y) {
					return false
				}
				cell := core.CellOf(l.X)
				return cell != nil && errCell != nil && core.OuterCell(cell) == errCell
			})
			c.Require(restore && failed, rule, key+"/restore", st.Pos(), "restores the offset saved before the callback when the operation failed",
				"e.dbOffset is written in a nested function other than by restoring the saved offset under err != nil")
			continue
		}
		leaves := sqPhiLeaves(st.Val)
		var errs []ssa.Value
		okLeaves := len(leaves) > 0
		for _, l := range leaves {
			ex, isEx := l.(*ssa.Extract)
			isApp := false
			if isEx && ex.Index == 0 {
				for _, a := range appends {
					if ex.Tuple == a.Value() {
						isApp = true
						errs = append(errs, sqExtractOf(a.Value(), 1))
					}
				}
			}
			if !isApp {
				okLeaves = false
			}
		}
		if c.Require(okLeaves && sqHoldsDisj(st.Block(), sqLitNil(true, errs...)), rule, key+"/after-successful-append", st.Pos(), "e.dbOffset = offset returned by the append, under that append's nil error",
			"e.dbOffset is advanced with something else than the offset returned by a binlog append whose error was tested nil") {
			advances = append(advances, st)
		}
	}
	if len(advances) == 0 {
		c.Fail(rule, name+"/e.dbOffset", fn.Pos(), "doWithoutWait never advances e.dbOffset after an append (anchor of the rule)")
	}
	for j, st := range advances {
		key := fmt.Sprintf("%s/advance#%d", name, j+1)
		p := core.ReachWithout(st, core.IsReturn, isStoreToField(sqTSqliteConn, "spOk"))
		c.Require(p == nil, rule, key+"/spOk-before-return", st.Pos(), "every path from the advance to a return stores spOk",
			"after the binlog append succeeded a return is reachable without marking the savepoint ok: the data would be rolled back although its event is in the binlog: "+pathStr(p))
		newErr := func(in ssa.Instruction) bool {
			s, ok := in.(*ssa.Store)
			if !ok || errCell == nil || s.Addr != ssa.Value(errCell) {
				return false
			}
			return core.CellOf(s.Val) != ssa.Value(errCell) // `return …, err` re-stores the variable into itself
		}
		p = core.ReachWithout(st, newErr, nil)
		c.Require(p == nil, rule, key+"/no-error-after-append", st.Pos(), "no new error can be assigned after the append",
			"after the binlog append succeeded the function can still fail (\"after this line can't rollback tx\"): "+pathStr(p))
	}
	for j, w := range core.FieldWrites([]*ssa.Function{fn}, sqTSqliteConn, "spOk") {
		v := w.Val
		ok := core.ConstBool(v, true)
		if b, isBin := v.(*ssa.BinOp); isBin && b.Op == token.EQL && isNilConst(b.Y) && errCell != nil && core.CellOf(b.X) == ssa.Value(errCell) {
			ok = true
		}
		c.Require(ok, rule, fmt.Sprintf("%s/spOk#%d/value", name, j+1), w.Instr.Pos(), "spOk = (err == nil)", "spOk is set to "+core.Expr(v)+" instead of the operation's success")
	}
}

func sqCheckSavepoints(c *core.Check, sq []*ssa.Function) {
	const rule = "C17-R3"
	end := need(c, rule, sqPkgSqlite+".(Conn).execEndSavepoint")
	begin := need(c, rule, sqPkgSqlite+".(Conn).execBeginSavepoint")
	closeFn := need(c, rule, sqPkgSqlite+".(Conn).close")
	if end == nil || begin == nil || closeFn == nil {
		return
	}
	stmtSite := func(fn *ssa.Function, field string) *core.SQLSite {
		var found *core.SQLSite
		for _, q := range core.SQLSites(fn) {
			if !q.Const && core.LoadsField(q.SQLValue, sqTSqliteConn, field) {
				if found != nil {
					return nil
				}
				found = q
			}
		}
		return found
	}
	ename := core.FuncName(end)
	rel, rb := stmtSite(end, "spCommitStmt"), stmtSite(end, "spRollbackStmt")
	if rel == nil || rb == nil {
		c.Anchor(rule, "the release / rollback statements in "+ename)
	} else {
		c.CallSites += 2
		var okPhi *ssa.Phi
		spOkSet := func(l core.Lit) bool { return l.Op == 0 && l.Pol && core.LoadsField(l.Cond, sqTSqliteConn, "spOk") }
		noErr := func(l core.Lit) bool {
			return l.Op == token.EQL && l.Pol && isNilConst(l.Y) && core.LoadsField(l.X, sqTSqliteConn, "err")
		}
		for _, g := range core.Facts(rel.Block()) {
			if len(g.Alts) != 1 || !g.Alts[0].Pol || g.Alts[0].Op != 0 {
				continue
			}
			ph, ok := g.Alts[0].Cond.(*ssa.Phi)
			if !ok {
				continue
			}
			if lits, ok := sqConjuncts(ph); ok && sqConjunctsAre(lits, spOkSet, noErr) {
				okPhi = ph
			}
		}
		c.Require(okPhi != nil, rule, ename+"/release/guard", rel.Pos(), "RELEASE only under spOk && err == nil",
			"the savepoint is released outside `spOk && err == nil`: a failed operation's changes would be kept; facts: "+sqShorten(core.FactsString(rel.Block()), 300))
		if okPhi != nil {
			c.Require(sqHoldsDisj(rb.Block(), sqLitIsValue(okPhi, false)), rule, ename+"/rollback/guard", rb.Pos(), "ROLLBACK TO under !(spOk && err == nil)",
				"the rollback is not the complement of the release condition")
		}
		p := core.ReachAssuming(end, core.IsReturn, func(in ssa.Instruction) bool { return in == rel.Instr || in == rb.Instr },
			func(l core.Lit) bool { return l.Op == 0 && !l.Pol && core.LoadsField(l.Cond, sqTSqliteConn, "spIn") })
		c.Require(p == nil, rule, ename+"/open-savepoint-always-ended", end.Pos(), "with an open savepoint every path releases or rolls back",
			"with spIn set execEndSavepoint can return without RELEASE or ROLLBACK TO: "+pathStr(p))
	}
	// begin clears spOk before opening the savepoint
	bname := core.FuncName(begin)
	if bs := stmtSite(begin, "spBeginStmt"); bs == nil {
		c.Anchor(rule, "the SAVEPOINT statement in "+bname)
	} else {
		cleared := false
		for _, w := range core.FieldWrites([]*ssa.Function{begin}, sqTSqliteConn, "spOk") {
			if core.ConstBool(w.Val, false) && core.Dominates(w.Instr, bs.Instr) {
				cleared = true
			}
		}
		c.Require(cleared, rule, bname+"/clears-spOk", bs.Pos(), "spOk = false before SAVEPOINT", "execBeginSavepoint does not reset spOk: a stale `ok` from the previous operation would release a failed one")
	}
	// who writes spOk, and what
	for j, w := range core.FieldWrites(sq, sqTSqliteConn, "spOk") {
		who := core.FuncName(w.Fn)
		key := fmt.Sprintf("%s.spOk/writer#%d@%s", sqTSqliteConn, j+1, who)
		switch {
		case core.ConstBool(w.Val, false):
			c.Pass(rule, key, w.Instr.Pos(), "cleared")
		case who == sqFnDoWithoutWait:
			c.Pass(rule, key, w.Instr.Pos(), "value checked by C17-R2")
		case who == sqPkgSqlite+".(*Engine).do" && core.ConstBool(w.Val, true):
			var cbv ssa.Value
			for _, s := range core.Calls(w.Fn) {
				if p, ok := s.Common().Value.(*ssa.Parameter); ok && !s.Common().IsInvoke() {
					if _, isFn := p.Type().Underlying().(*types.Signature); isFn {
						cbv = s.Value()
					}
				}
			}
			c.Require(cbv != nil && sqHoldsDisj(w.Instr.Block(), sqLitNil(true, cbv)), rule, key, w.Instr.Pos(), "true only after the callback returned nil",
				"Engine.do marks the savepoint ok without the callback having returned nil")
		default:
			c.Fail(rule, key, w.Instr.Pos(), "spOk is set to "+core.Expr(w.Val)+" in "+who+", which is not one of the enumerated forms (false; err == nil in doWithoutWait; true after a nil callback error in Engine.do)")
		}
	}
	// the three statements
	verbs := map[string]string{"spBeginStmt": "SAVEPOINT", "spCommitStmt": "RELEASE", "spRollbackStmt": "ROLLBACK TO"}
	names := map[string]bool{}
	for _, f := range core.SortedKeys(verbs) {
		ws := core.FieldWrites(sq, sqTSqliteConn, f)
		okAll := len(ws) > 0
		for _, w := range ws {
			format, isF := sqSprintfFormat(w.Val)
			st, err := core.ParseSQL(format)
			if !isF || err != nil || st.Verb != verbs[f] || core.FuncName(w.Fn) != sqPkgSqlite+".newSqliteConn" {
				okAll = false
				continue
			}
			names[strings.TrimSpace(strings.TrimPrefix(strings.ToUpper(format), verbs[f]))] = true
		}
		c.Require(okAll, rule, sqTSqliteConn+"."+f+"/statement", 0, f+" is "+verbs[f]+" …, built once in newSqliteConn", f+" is not a "+verbs[f]+" statement built only in newSqliteConn")
	}
	c.Require(len(names) == 1, rule, sqTSqliteConn+"/one-savepoint-name", 0, "SAVEPOINT, RELEASE and ROLLBACK TO name the same savepoint", fmt.Sprintf("the savepoint statements name different savepoints: %v", sqSortedStrings(names)))
	// close: ends the savepoint, commits only when it was released
	cname := core.FuncName(closeFn)
	ends := core.CallsTo(closeFn, ename)
	if len(ends) != 1 {
		c.Fail(rule, cname+"/ends-savepoint", closeFn.Pos(), fmt.Sprintf("Conn.close calls execEndSavepoint %d times (expected once)", len(ends)))
		return
	}
	for _, s := range core.Calls(closeFn) {
		p, ok := s.Common().Value.(*ssa.Parameter)
		if !ok || s.Common().IsInvoke() {
			continue
		}
		if _, isFn := p.Type().Underlying().(*types.Signature); !isFn {
			continue
		}
		c.CallSites++
		c.Require(sqHoldsDisj(s.Block(), sqLitIsValue(ends[0].Value(), true)) && core.Dominates(ends[0].Instr, s.Instr), rule, cname+"/commit-after-release", s.Pos(),
			"the commit callback runs only when execEndSavepoint reported a released savepoint", "Conn.close can run the commit callback although the savepoint was rolled back or not ended")
	}
}

func sqCheckReplayApply(c *core.Check, all []*ssa.Function) {
	const rule = "C17-R4"
	apply := need(c, rule, sqFnApply)
	if apply == nil {
		return
	}
	// the transaction: e.do(closure)
	dos := core.CallsTo(apply, sqPkgSqlite+".(*Engine).do")
	if len(dos) != 1 {
		c.Fail(rule, sqFnApply+"/one-transaction", apply.Pos(), fmt.Sprintf("apply opens %d transactions (expected one e.do call)", len(dos)))
		return
	}
	mc, ok := dos[0].Arg(1).(*ssa.MakeClosure)
	if !ok {
		c.Undecided(rule, sqFnApply+"/closure", dos[0].Pos(), "the transaction callback is not a function literal")
		return
	}
	cl := mc.Fn.(*ssa.Function)
	clName := core.FuncName(cl)
	c.Seen(clName)
	if len(cl.Params) != 1 || sqConnParam(cl.Params[0]) == nil {
		c.Undecided(rule, clName+"/signature", cl.Pos(), "expected func(Conn) error")
		return
	}
	conn := ssa.Value(cl.Params[0])
	// the event application: dynamic call of the Engine.apply field
	var ev *ssa.Call
	for _, s := range core.Calls(cl) {
		if core.LoadsField(s.Common().Value, sqTEngine, "apply") {
			if ev != nil {
				c.Undecided(rule, clName+"/e.apply", s.Pos(), "more than one event application")
				return
			}
			ev, _ = s.Instr.(*ssa.Call)
		}
	}
	loads := core.CallsTo(cl, sqPkgSqlite+".binlogLoadPosition")
	upds := core.CallsTo(cl, sqFnUpdateOffset)
	if ev == nil || len(loads) != 1 || len(upds) != 1 {
		c.Fail(rule, clName+"/shape", cl.Pos(), fmt.Sprintf("the transaction closure must apply the event once, read the stored offset once and update it once (found e.apply:%v load:%d update:%d)", ev != nil, len(loads), len(upds)))
		return
	}
	c.CallSites += 3
	c.Require(ev.Call.Args[0] == conn && loads[0].Arg(0) == conn && upds[0].Arg(0) == conn, rule, clName+"/same-connection", ev.Pos(),
		"event application, offset read and offset update use the closure's own connection", "event application, stored-offset read and offset update do not all use the transaction closure's connection")
	stored := sqExtractOf(loads[0].Value(), 0)
	c.Require(stored != nil && sqFlowsFrom(ev.Call.Args[1], stored), rule, clName+"/applied-offset-from-stored-offset", ev.Pos(),
		"the offset the event is applied at accounts for the offset stored in the database", "already-applied bytes are not skipped using the offset read from the database inside the transaction")
	if stored != nil {
		// the payload handed to e.apply is re-sliced by the skip length
		resliced := false
		if cell := core.CellOf(ev.Call.Args[2]); cell != nil {
			for _, b := range cl.Blocks {
				for _, in := range b.Instrs {
					if st, ok := in.(*ssa.Store); ok && st.Addr == cell {
						if sl, ok := st.Val.(*ssa.Slice); ok && sl.Low != nil && sqFlowsFrom(sl.Low, stored) {
							resliced = true
						}
					}
				}
			}
		}
		c.Require(resliced, rule, clName+"/payload-skips-applied-bytes", ev.Pos(), "payload is re-sliced by the already-applied length", "the payload given to the event application is not cut by the already-applied length derived from the stored offset")
	}
	evN := sqExtractOf(ev, 0)
	c.Require(evN != nil && sqFlowsFrom(upds[0].Arg(1), evN) && core.Dominates(ev, upds[0].Instr), rule, clName+"/new-offset-from-applied-length", upds[0].Pos(),
		"the stored offset advances by what the application consumed, after applying", "the offset written to the database does not derive from the number of bytes the event application consumed")
	// e.dbOffset = newOffset guarded by errFromTx == nil
	n := 0
	for j, w := range core.FieldWrites([]*ssa.Function{apply}, sqTEngine, "dbOffset") {
		n++
		sameVar := false
		if cell := core.CellOf(w.Val); cell != nil {
			if ucell := core.CellOf(upds[0].Arg(1)); ucell != nil && core.OuterCell(ucell) == core.OuterCell(cell) {
				sameVar = true
			}
		}
		c.Require(sqHoldsDisj(w.Instr.Block(), sqLitNil(true, dos[0].Value())) && sameVar, rule, fmt.Sprintf("%s/e.dbOffset#%d", sqFnApply, j+1), w.Instr.Pos(),
			"e.dbOffset = the offset written in the transaction, only when the transaction returned nil", "e.dbOffset is advanced although the transaction may have failed (or to a value other than the one stored in the database)")
	}
	if n == 0 {
		c.Fail(rule, sqFnApply+"/e.dbOffset", apply.Pos(), "apply never advances e.dbOffset")
	}
	// who writes e.dbOffset at all
	allowed := map[string]string{
		sqFnDoWithoutWait:                    "advance after append / deferred restore (R2)",
		sqFnApply:                            "replayed event (guarded, above)",
		sqFnSkip:                             "skipped range, inside its transaction closure",
		sqPkgSqlite + ".(*Engine).binlogRun": "initial load of the stored position",
		sqPkgSqlite + ".openDB":              "constructor",
	}
	for j, w := range core.FieldWrites(all, sqTEngine, "dbOffset") {
		who := core.FuncName(w.Fn)
		ok := false
		for a := range allowed {
			if who == a || strings.HasPrefix(who, a+"$") {
				ok = true
			}
		}
		c.Require(ok, rule, fmt.Sprintf("%s.dbOffset/writer#%d@%s", sqTEngine, j+1, who), w.Instr.Pos(), "enumerated writer of e.dbOffset", "e.dbOffset is written in "+who+", outside the enumerated writers")
	}
}

func sqCheckCommitWaits(c *core.Check, sq []*ssa.Function) {
	const rule = "C17-R5"
	fn := need(c, rule, sqFnCommitLocked)
	if fn == nil {
		return
	}
	name := core.FuncName(fn)
	var commit *core.SQLSite
	for _, q := range core.SQLSites(fn) {
		if q.Stmt != nil && q.Stmt.Verb == "COMMIT" {
			if commit != nil {
				c.Undecided(rule, name+"/COMMIT", q.Pos(), "more than one COMMIT")
				return
			}
			commit = q
		}
	}
	waits := core.CallsTo(fn, sqPkgSqlite+".(*Engine).binlogWaitDBSync")
	if commit == nil || len(waits) != 1 {
		c.Anchor(rule, "COMMIT statement and the binlogWaitDBSync call in "+name)
		return
	}
	wait := waits[0]
	// the wait flag: the bool parameter guarding the wait
	var flag *ssa.Parameter
	for _, g := range core.Facts(wait.Block()) {
		if len(g.Alts) == 1 && g.Alts[0].Op == 0 && g.Alts[0].Pol {
			if p, ok := g.Alts[0].Cond.(*ssa.Parameter); ok {
				flag = p
			}
		}
	}
	if flag == nil {
		c.Fail(rule, name+"/wait/guard", wait.Pos(), "binlogWaitDBSync is not guarded by a boolean parameter (the wait-for-binlog-commit flag)")
		return
	}
	noBinlog := func(l core.Lit) bool { // e.binlog == nil
		return l.Op == token.EQL && isNilConst(l.Y) && core.LoadsField(l.X, sqTEngine, "binlog")
	}
	c.CallSites += 2
	p := core.ReachAssuming(fn, sqIsInstr(commit.Instr), sqIsInstr(wait.Instr), func(l core.Lit) bool {
		return (l.Op == 0 && l.Cond == ssa.Value(flag) && !l.Pol) || (noBinlog(l) && l.Pol)
	})
	c.Require(p == nil, rule, name+"/COMMIT/waits-for-binlog", commit.Pos(), "with the wait flag set and a binlog present COMMIT is preceded by binlogWaitDBSync",
		"COMMIT is reachable with the wait flag set and a binlog present without binlogWaitDBSync: the database could durably contain changes whose events are not yet durable in the binlog: "+pathStr(p))
	// a failed wait never reaches COMMIT
	werr := sqErrResult(wait.Value())
	failedReaches := true
	for _, b := range fn.Blocks {
		ifi, ok := b.Instrs[len(b.Instrs)-1].(*ssa.If)
		if !ok {
			continue
		}
		l := core.NormLit(ifi.Cond, true)
		if !sqLitNil(l.Pol, werr)(l) {
			continue
		}
		bad := b.Succs[1] // condition false
		if !l.Pol {       // literal is "err == nil" with polarity false when the branch is taken: error on the true edge
			bad = b.Succs[0]
		}
		if reachFromBlock(bad, sqIsInstr(commit.Instr), nil) == nil {
			failedReaches = false
		}
	}
	c.Require(!failedReaches, rule, name+"/COMMIT/not-after-failed-wait", wait.Pos(), "a failed binlogWaitDBSync never reaches COMMIT", "after binlogWaitDBSync returned an error COMMIT is still reachable")
	// callers: the flag is true in WaitCommit mode
	waitCommit, ok := sqConstOf(c, rule, sqPkgSqlite, "WaitCommit")
	if !ok {
		return
	}
	trueInWaitCommit := func(v ssa.Value) bool {
		b, ok := v.(*ssa.BinOp)
		if !ok || !core.LoadsField(b.X, "internal/sqlite.Options", "DurabilityMode") {
			return false
		}
		k, isK := core.ConstIntOf(b.Y)
		if !isK {
			return false
		}
		switch b.Op {
		case token.EQL:
			return k == waitCommit
		case token.NEQ:
			return k != waitCommit
		}
		return false
	}
	// follow the flag down from the periodic committer and from Close
	type hop struct{ callee, caller string }
	chains := map[string][]hop{
		"txLoop": {{sqFnCommitLocked, sqFnCommitTX}, {sqFnCommitTX, sqPkgSqlite + ".(*Engine).txLoop"}},
		"Close":  {{sqFnCommitLocked, sqFnCommitTX}, {sqFnCommitTX, sqPkgSqlite + ".(*Engine).close"}, {sqPkgSqlite + ".(*Engine).close", sqPkgSqlite + ".(*Engine).Close"}},
	}
	for _, cn := range core.SortedKeys(chains) {
		idx := sqParamIndex(flag)
		var last ssa.Value
		good := true
		for _, h := range chains[cn] {
			var callerFns []*ssa.Function
			if f := c.Prog.Func(h.caller); f != nil {
				callerFns = core.WithAnon(f)
			}
			ss := core.Callers(callerFns, h.callee)
			if len(ss) != 1 {
				good = false
				c.Undecided(rule, cn+"/"+h.caller+"->"+h.callee, 0, fmt.Sprintf("expected exactly one call, found %d (anchor of the wait-flag chain)", len(ss)))
				break
			}
			last = ss[0].Arg(idx)
			if p, ok := last.(*ssa.Parameter); ok {
				idx = sqParamIndex(p)
				continue
			}
			break
		}
		if !good {
			continue
		}
		c.CallSites++
		c.Require(last != nil && trueInWaitCommit(last), rule, cn+"/passes-wait-flag", 0, cn+" asks for the binlog wait in WaitCommit mode",
			cn+" passes "+core.Expr(last)+" as the wait flag, which is not true when DurabilityMode == WaitCommit")
	}
	_ = sq
}
