package props

import (
	"fmt"
	"go/token"
	"go/types"
	"sort"
	"strings"

	"golang.org/x/tools/go/ssa"

	"shverif/core"
)

func init() {
	Register(&Property{
		ID:   "C08",
		Pkgs: []string{"./internal/agent", "./internal/data_model", "./internal/format"},
		Run:  runC08,
		Mutants: []Mutant{
			{Name: "ApplyCounter-no-discard-test", File: "internal/agent/agent_shard.go", Rule: "C08-R1",
				Old: "	s.mu.Lock()\n	if s.shouldDiscardIncomingData() {\n		s.mu.Unlock()\n		return\n	}\n	topValue := key.RemoveStringTopTag()\n	resolutionShard, clampedFuture := s.resolutionShardFromHashLocked(key, resolutionHash, metricInfo)\n	if key.Timestamp < dropIfBeforeTimestamp { // key timestamp is only valid at this point\n		s.mu.Unlock()\n		return\n	}\n	item, _ := resolutionShard.GetOrCreateMultiItem(key, metricInfo, nil)\n	mv := item.MapStringTop(s.rng, s.config.StringTopCapacity, topValue, count)\n	mv.AddCounterHost(s.rng, count, hostTag)\n	s.mu.Unlock()\n\n",
				New: "	s.mu.Lock()\n	topValue := key.RemoveStringTopTag()\n	resolutionShard, clampedFuture := s.resolutionShardFromHashLocked(key, resolutionHash, metricInfo)\n	if key.Timestamp < dropIfBeforeTimestamp { // key timestamp is only valid at this point\n		s.mu.Unlock()\n		return\n	}\n	item, _ := resolutionShard.GetOrCreateMultiItem(key, metricInfo, nil)\n	mv := item.MapStringTop(s.rng, s.config.StringTopCapacity, topValue, count)\n	mv.AddCounterHost(s.rng, count, hostTag)\n	s.mu.Unlock()\n\n"},
			{Name: "MergeItemValue-drop-test-before-clamp", File: "internal/agent/agent_shard.go", Rule: "C08-R1",
				Old: "	topValue := key.RemoveStringTopTag()\n	resolutionShard, _ := s.resolutionShardFromHashLocked(key, resolutionHash, metricInfo)\n	if key.Timestamp < dropIfBeforeTimestamp { // key timestamp is only valid at this point\n		return\n	}\n	item, _ := resolutionShard.GetOrCreateMultiItem(key, metricInfo, nil)\n	mv := item.MapStringTop(s.rng, s.config.StringTopCapacity, topValue, itemValue.Count())",
				New: "	topValue := key.RemoveStringTopTag()\n	if key.Timestamp < dropIfBeforeTimestamp {\n		return\n	}\n	resolutionShard, _ := s.resolutionShardFromHashLocked(key, resolutionHash, metricInfo)\n	item, _ := resolutionShard.GetOrCreateMultiItem(key, metricInfo, nil)\n	mv := item.MapStringTop(s.rng, s.config.StringTopCapacity, topValue, itemValue.Count())"},
			{Name: "ApplyValues-unlock-before-item", File: "internal/agent/agent_shard.go", Rule: "C08-R1",
				Old: "	item, _ := resolutionShard.GetOrCreateMultiItem(key, metricInfo, nil)\n	mv := item.MapStringTop(s.rng, s.config.StringTopCapacity, topValue, count)\n	if s.config.LegacyApplyValues {",
				New: "	s.mu.Unlock()\n	item, _ := resolutionShard.GetOrCreateMultiItem(key, metricInfo, nil)\n	s.mu.Lock()\n	mv := item.MapStringTop(s.rng, s.config.StringTopCapacity, topValue, count)\n	if s.config.LegacyApplyValues {"},
			{Name: "slot-modulo-half-ring", File: "internal/agent/agent_shard.go", Rule: "C08-R2",
				Old: "		return s.SuperQueue[slot%superQueueLen], clampedFuture\n	}\n	// division is expensive",
				New: "		return s.SuperQueue[slot%(superQueueLen/2)], clampedFuture\n	}\n	// division is expensive"},
			{Name: "queue-indexed-elsewhere", File: "internal/agent/agent_shard.go", Rule: "C08-R2",
				Old: "func (s *Shard) shouldDiscardIncomingData() bool {",
				New: "func (s *Shard) peekBucket(t uint32) *data_model.MetricsBucket {\n	return s.SuperQueue[(t+1)%superQueueLen]\n}\n\nfunc (s *Shard) shouldDiscardIncomingData() bool {"},
			{Name: "flush-time-after-increment", File: "internal/agent/agent_shard_send.go", Rule: "C08-R3",
				Old: "	b.Time = sendTime\n", New: "	b.Time = s.SendTime\n"},
			{Name: "flush-send-before-replace", File: "internal/agent/agent_shard_send.go", Rule: "C08-R3",
				Old: "	s.SuperQueue[sendTime%superQueueLen] = &data_model.MetricsBucket{}\n	b.Time = sendTime\n	// we wait here only when shutting down. During normal work we check len(chan) before calling this func\n	s.BucketsToPreprocess <- b\n",
				New: "	b.Time = sendTime\n	// we wait here only when shutting down. During normal work we check len(chan) before calling this func\n	s.BucketsToPreprocess <- b\n	s.SuperQueue[sendTime%superQueueLen] = &data_model.MetricsBucket{}\n"},
			{Name: "flush-slot-not-replaced", File: "internal/agent/agent_shard_send.go", Rule: "C08-R3",
				Old: "	s.SuperQueue[sendTime%superQueueLen] = &data_model.MetricsBucket{}\n	b.Time = sendTime\n",
				New: "	b.Time = sendTime\n"},
			// C08-a (independent mutation author): rounding moved before the future clamp
			{Name: "C08-a-round-before-clamp", File: "internal/agent/agent_shard.go", Rule: "C08-R4",
				Old: "	if key.Timestamp > currentTime+superQueueFutureSlots {\n		// we must clamp before comparing with dropIfBeforeTimestamp,\n		// otherwise aggregator will clamp, moving event behind timestamp it should not be written before.\n		// also, we must not generate events with Timestamp > bucket.Time, so future slots and\n		// super queue length depend on each other.\n		key.Timestamp = currentTime + superQueueFutureSlots\n		clampedFuture = true\n	}\n	// Timestamp will be clamped by aggregators.\n	if resolution == 1 {\n		slot := key.Timestamp\n		if slot < sendTime {\n			slot = sendTime // if late, send immediately, not in ~120 seconds. Helps those who are late a bit.\n		}\n		// if slot >= currentTime - we do no special processing for slots in the future\n		return s.SuperQueue[slot%superQueueLen], clampedFuture\n	}\n	// division is expensive, hence separate code for very common 1-second resolution above\n	key.Timestamp = (key.Timestamp / resolution) * resolution\n",
				New: "	if resolution != 1 {\n		key.Timestamp = (key.Timestamp / resolution) * resolution\n	}\n	if key.Timestamp > currentTime+superQueueFutureSlots {\n		key.Timestamp = currentTime + superQueueFutureSlots\n		clampedFuture = true\n	}\n	// Timestamp will be clamped by aggregators.\n	if resolution == 1 {\n		slot := key.Timestamp\n		if slot < sendTime {\n			slot = sendTime // if late, send immediately, not in ~120 seconds. Helps those who are late a bit.\n		}\n		// if slot >= currentTime - we do no special processing for slots in the future\n		return s.SuperQueue[slot%superQueueLen], clampedFuture\n	}\n"},
			{Name: "rounding-dropped", File: "internal/agent/agent_shard.go", Rule: "C08-R4",
				Old: "	key.Timestamp = (key.Timestamp / resolution) * resolution\n", New: ""},
			{Name: "slot-from-unrounded-copy", File: "internal/agent/agent_shard.go", Rule: "C08-R4",
				Old: "	key.Timestamp = (key.Timestamp / resolution) * resolution\n	resolutionShardNum := uint32((resolutionHash & 0xFFFFFFFF) * uint64(resolution) >> 32) // trunc([0..0.9999999] * numShards) in fixed point 32.32\n	slot := key.Timestamp + resolution + resolutionShardNum",
				New: "	unrounded := key.Timestamp\n	key.Timestamp = (key.Timestamp / resolution) * resolution\n	resolutionShardNum := uint32((resolutionHash & 0xFFFFFFFF) * uint64(resolution) >> 32) // trunc([0..0.9999999] * numShards) in fixed point 32.32\n	slot := unrounded + resolution + resolutionShardNum"},
			{Name: "hash-mapped-tags", File: "internal/data_model/mapped_metric_header.go", Rule: "C08-R5",
				Old: "	buffer = append(buffer, byte(tagsCount))\n",
				New: "	buffer = append(buffer, byte(tagsCount))\n	buffer = binary.LittleEndian.AppendUint32(buffer, uint32(h.Key.Tags[1]))\n"},
			{Name: "hash-includes-host-tag", File: "internal/agent/agent_mapping.go", Rule: "C08-R5",
				Old: "		if tagMeta.Index != format.HostTagIndex { // This tag is not part of resolution hash, so not placed into OriginalTagValues\n			h.OriginalTagValues[tagMeta.Index] = v.Value\n		}",
				New: "		if tagMeta.Index >= 0 {\n			h.OriginalTagValues[tagMeta.Index] = v.Value\n		}"},
			{Name: "resolution-hash-from-key", File: "internal/agent/agent.go", Rule: "C08-R5",
				Old: "		scr, resolutionHash = h.OriginalHash(scr)\n", New: "		scr, resolutionHash = h.Key.XXHash(scr)\n"},
			{Name: "primary-shard-gets-start-time", File: "internal/agent/agent.go", Rule: "C08-R6",
				Old: "	shard.ApplyCounter(&h.Key, resolutionHash, m.Counter, h.HostTag,\n		h.MetricMeta, 0)",
				New: "	shard.ApplyCounter(&h.Key, resolutionHash, m.Counter, h.HostTag,\n		h.MetricMeta, dropIfBeforeTimestamp)"},
			{Name: "drop-threshold-from-receive-time", File: "internal/agent/agent.go", Rule: "C08-R6",
				Old: "		shard2.ApplyCounter(&h.Key, resolutionHash, m.Counter, h.HostTag,\n			h.MetricMeta, dropIfBeforeTimestamp)",
				New: "		shard2.ApplyCounter(&h.Key, resolutionHash, m.Counter, h.HostTag,\n			h.MetricMeta, uint32(h.ReceiveTime.Unix()))"},
			{Name: "discard-on-memory-pressure", File: "internal/agent/agent_shard.go", Rule: "C08-R7",
				Old: "	return s.stopReceivingIncomingData || s.gapInReceivingQueueLocked() > 0\n",
				New: "	return s.stopReceivingIncomingData || s.gapInReceivingQueueLocked() > 0 || s.historicBucketsDataSize > 1<<30\n"},
			// C08-b (independent mutation author): acceptance window one second too wide
			{Name: "C08-b-gap-threshold-119", File: "internal/agent/agent_shard.go", Rule: "C08-R8",
				Old: "(superQueueLen - superQueueFutureSlots) - 120)", New: "(superQueueLen - superQueueFutureSlots) - (2*60 - 1))"},
			{Name: "clamp-store-exceeds-its-guard", File: "internal/agent/agent_shard.go", Rule: "C08-R8",
				Old: "		key.Timestamp = currentTime + superQueueFutureSlots\n", New: "		key.Timestamp = currentTime + superQueueFutureSlots + 1\n"},
		},
	})
}

const (
	tyShard  = "internal/agent.Shard"
	tyKey    = "internal/data_model.Key"
	tyHeader = "internal/data_model.MappedMetricHeader"
	tyMeta   = "internal/format.MetricMetaValue"
	fnRes    = tShard + "resolutionShardFromHashLocked"
	fnGOC    = "internal/data_model.(*MultiItemMap).GetOrCreateMultiItem"
	fnDisc   = tShard + "shouldDiscardIncomingData"
	fnGap    = tShard + "gapInReceivingQueueLocked"
)

func runC08(c *core.Check) {
	c.Decides = "the placement discipline of the agent shard: (R1) every method of Shard that places an event (calls resolutionShardFromHashLocked; 7 on the pinned tree, new ones join the family automatically) " +
		"holds s.mu from the discard test to the last use of the bucket, tests shouldDiscardIncomingData() on its own receiver before, places exactly once, takes its bucket only from that call, " +
		"re-reads key.Timestamp after the call for the secondary-shard start test and creates the item with the same key in that bucket; " +
		"(R2) Shard.SuperQueue is indexed only in the three enumerated functions and only modulo its own array length; (R3) FlushAllDataSingleStep advances SendTime by one, hands over the bucket of the " +
		"pre-increment second exactly once with Time = that second, and installs a fresh bucket in the slot before the hand-over; (R4) on every non-1-second path the rounding store is the last store " +
		"to key.Timestamp and the slot is computed from the rounded value; (R5) the resolution hash reads only the metric id and the original tag values, which are written only from the raw tag bytes at the tag's " +
		"own index and never for the host tag, and the hash passed to the shard is that hash (0 only for 1-second metrics); (R6) a non-zero start-time threshold reaches a shard method only for the " +
		"secondary shard of the same metric; (R7) the discard predicate reads only the shutdown flag and the two queue cursors; (R8) with the code's own constants the furthest slot an accepted event can get " +
		"(gap threshold + future clamp + resolution + spread) stays inside the ring."
	c.NotDecided = "clock jumps and the jump-ahead arithmetic of flushBuckets; the late-event slot adjustment (slot < sendTime) as arithmetic; that hardware-metric resolutions taken from the configuration are " +
		"allowed resolutions (config validation is not followed); exactly-once delivery across the preprocessor/sender goroutines; 'never earlier than the clamped timestamp' beyond the ring-wrap bound of R8."

	all := c.Prog.Funcs()
	agentFns := c.Prog.FuncsIn("internal/agent")

	family, dropIdx := c08Family(c, all)
	c08SuperQueue(c, all)
	c08Flush(c, all)
	round := c08Rounding(c)
	c08Hash(c, all)
	c08DropThreshold(c, all, agentFns, family, dropIdx)
	c08DiscardCauses(c)
	c08RingBound(c, all, round)
	debugObs(c)
}

// ---- R1 ---------------------------------------------------------------------------------

// c08Family discovers the placement family and checks the per-member obligations.
// It returns the members and, per member, the index of the parameter compared with
// key.Timestamp after the placement (the start-time threshold).
func c08Family(c *core.Check, all []*ssa.Function) (members []*ssa.Function, dropIdx map[string]int) {
	const rule = "C08-R1"
	c.Rule(rule, "K8 sibling family (K1+K4+K6+K7 per member)", 7*6,
		"every method of *Shard that calls resolutionShardFromHashLocked: (lock) the discard test, the placement, the start-time test and every use of the bucket happen with the receiver's mu held; "+
			"(discard-test) the placement is dominated by shouldDiscardIncomingData()==false on the same receiver; (once) one placement and one GetOrCreateMultiItem, none in a loop; "+
			"(bucket) the item is created in the bucket returned by the placement with the same key; (start-test) item creation is dominated by !(key.Timestamp < P) with key.Timestamp loaded after the placement and P a parameter; "+
			"(placed) every return after the placement is either behind the item creation or under key.Timestamp < P")
	dropIdx = map[string]int{}
	if need(c, rule, fnRes) == nil {
		return nil, dropIdx
	}
	for _, s := range core.Callers(all, fnRes) {
		c.CallSites++
		fn := s.Fn
		isMethod := fn.Parent() == nil && fn.Signature.Recv() != nil && core.TypeName(fn.Signature.Recv().Type()) == "*"+tyShard
		if !isMethod {
			c.Fail(rule, core.FuncName(fn)+"/caller-outside-family", s.Pos(), "resolutionShardFromHashLocked is called from "+core.FuncName(fn)+", which is not a method of *Shard (closures included): the family obligations cannot be stated for it")
			continue
		}
		dup := false
		for _, m := range members {
			if m == fn {
				dup = true
			}
		}
		if !dup {
			members = append(members, fn)
		}
	}
	for _, fn := range members {
		name := core.FuncName(fn)
		c.Seen(name)
		recv := ssa.Value(fn.Params[0])
		mu := recvFieldMutex(recv, tyShard, "mu")
		res := core.CallsTo(fn, fnRes)
		goc := core.CallsTo(fn, fnGOC)
		okOnce := len(res) == 1 && len(goc) == 1 && res[0].Value() != nil && goc[0].Value() != nil && res[0].Arg(0) == recv
		if okOnce {
			// not in a loop: the placement must not be reachable from itself
			if p := core.ReachWithout(res[0].Instr, func(in ssa.Instruction) bool { return in == res[0].Instr }, nil); p != nil {
				okOnce = false
			}
		}
		c.Require(okOnce, rule, name+"/once", fn.Pos(), "one placement on the receiver, one item creation, not in a loop",
			fmt.Sprintf("expected exactly one resolutionShardFromHashLocked call on the receiver and one GetOrCreateMultiItem call outside any loop, found %d/%d", len(res), len(goc)))
		if !okOnce {
			continue
		}
		place, item := res[0], goc[0]
		key := place.Arg(1)

		// discard test
		disc, hasDisc := litOn(place.Block(), func(l core.Lit) bool {
			call, ok := l.Cond.(*ssa.Call)
			return ok && !l.Pol && core.CalleeName(&call.Call) == fnDisc && len(call.Call.Args) == 1 && call.Call.Args[0] == recv
		})
		c.Require(hasDisc, rule, name+"/discard-test", place.Pos(), "placement only when shouldDiscardIncomingData() is false",
			"the placement is not dominated by a false outcome of shouldDiscardIncomingData() on the receiver: events are accepted while the receive queue has a gap or during shutdown; facts: "+core.FactsString(place.Block()))

		// bucket provenance and key identity
		fromPlacement := false
		for _, v := range baseChain(item.Arg(0)) {
			if ex, ok := v.(*ssa.Extract); ok && ex.Tuple == place.Value() && ex.Index == 0 {
				fromPlacement = true
			}
		}
		c.Require(fromPlacement && item.Arg(1) == key, rule, name+"/bucket", item.Pos(), "item created in the placement's bucket with the placement's key",
			"GetOrCreateMultiItem is called on "+core.Expr(item.Arg(0))+" with key "+core.Expr(item.Arg(1))+": not the bucket returned by resolutionShardFromHashLocked for key "+core.Expr(key))

		// start-time test
		var tsLoad ssa.Instruction
		start, hasStart := litOn(item.Block(), func(l core.Lit) bool {
			if l.Pol || l.Op != token.LSS {
				return false
			}
			fa, ok := fieldLoad(l.X, tyKey, "Timestamp")
			if !ok || fa.X != key {
				return false
			}
			if paramIndex(fn, l.Y) < 0 {
				return false
			}
			ld := instrOf(l.X)
			if ld == nil || !core.Dominates(place.Instr, ld) {
				return false
			}
			tsLoad = ld
			return true
		})
		c.Require(hasStart, rule, name+"/start-test", item.Pos(), "item creation under !(key.Timestamp < parameter), timestamp read after the placement",
			"item creation is not dominated by the test `key.Timestamp < <parameter>` (false) on the placed key with key.Timestamp read after the placement (it is only valid then); facts: "+core.FactsString(item.Block()))
		if hasStart {
			dropIdx[name] = paramIndex(fn, start.Y)
		}

		// every return after the placement is behind the item creation or under the start test
		dropped := func(in ssa.Instruction) bool {
			if !core.IsReturn(in) {
				return false
			}
			if !hasStart {
				return true
			}
			_, under := litOn(in.Block(), func(l core.Lit) bool { return l.Pol && l.Cond == start.Cond })
			return !under
		}
		p := core.ReachWithout(place.Instr, dropped, func(in ssa.Instruction) bool { return in == item.Instr })
		c.Require(p == nil, rule, name+"/placed", place.Pos(), "after the placement the event is stored unless the start-time test drops it",
			"a return is reachable after the placement without creating the item and outside the start-time test: "+pathStr(p))

		// lock discipline: everything that touches the queue state or the bucket
		var critical []ssa.Instruction
		if hasDisc {
			critical = append(critical, instrOf(disc.Cond))
		}
		critical = append(critical, place.Instr)
		if tsLoad != nil {
			critical = append(critical, tsLoad)
		}
		for _, s := range core.Calls(fn) {
			if s.Instr == place.Instr {
				continue
			}
			if _, isCall := s.Instr.(*ssa.Call); !isCall {
				continue
			}
			uses := false
			for _, a := range s.Common().Args {
				if derivesThroughCalls(a, place.Value()) {
					// the clamped-future flag (#1) is a plain bool and may be used after the unlock
					if ex, ok := a.(*ssa.Extract); ok && ex.Index != 0 {
						continue
					}
					uses = true
				}
			}
			if uses {
				critical = append(critical, s.Instr)
			}
		}
		lockOK, why := true, ""
		for _, in := range critical {
			if in == nil {
				continue
			}
			if ok, w := mu.heldAt(fn, in); !ok {
				lockOK, why = false, fmt.Sprintf("%s: %s", c.Prog.Pos(in.Pos()), w)
				break
			}
		}
		c.Require(lockOK, rule, name+"/lock", fn.Pos(), fmt.Sprintf("receiver's mu held at %d queue/bucket accesses", len(critical)),
			"the receiver's mu is not held at a queue/bucket access ("+why+")")
	}
	sort.Slice(members, func(i, j int) bool { return core.FuncName(members[i]) < core.FuncName(members[j]) })
	return members, dropIdx
}

// ---- R2 ---------------------------------------------------------------------------------

func c08SuperQueue(c *core.Check, all []*ssa.Function) {
	const rule = "C08-R2"
	c.Rule(rule, "K2 who-may-index + K1", 5,
		"Shard.SuperQueue is accessed only by indexing, only in resolutionShardFromHashLocked, FlushAllDataSingleStep and MakeAgent; every index is `x % N` (or `x & (N-1)`) with N the array length, except in the constructor where the index is guarded by `i < N`")
	allowed := map[string]bool{fnRes: true, tShard + "FlushAllDataSingleStep": true, "internal/agent.MakeAgent": true}
	uses := core.FieldAddrUses(all, tyShard, "SuperQueue")
	cnt := map[string]int{}
	for _, u := range uses {
		fn := u.Parent()
		name := core.FuncName(fn)
		cnt[name]++
		key := fmt.Sprintf("%s/SuperQueue#%d", name, cnt[name])
		fa, ok := u.(*ssa.FieldAddr)
		if !ok {
			c.Fail(rule, key, u.Pos(), "Shard.SuperQueue is read as a whole value (copy): accesses escape the index discipline")
			continue
		}
		n, _ := arrayLenOfField(fa)
		if !allowed[name] {
			c.Fail(rule, key, u.Pos(), "Shard.SuperQueue is accessed in "+name+", which is not one of the three functions that may touch the ring")
			continue
		}
		for _, r := range core.Referrers(fa) {
			ia, ok := r.(*ssa.IndexAddr)
			if !ok || ia.X != fa {
				c.Fail(rule, key, r.Pos(), "Shard.SuperQueue is used other than by indexing (slicing, range, copy): "+fmt.Sprintf("%T", r))
				continue
			}
			good, how := false, ""
			if b, isBin := ia.Index.(*ssa.BinOp); isBin {
				if k, isC := constInt64(b.Y); isC {
					if b.Op == token.REM && k == n {
						good, how = true, "index modulo array length"
					}
					if b.Op == token.AND && n > 0 && n&(n-1) == 0 && k == n-1 {
						good, how = true, "index masked with array length-1"
					}
				}
			}
			if !good && name == "internal/agent.MakeAgent" {
				_, good = litOn(ia.Block(), func(l core.Lit) bool {
					k, isC := constInt64(l.Y)
					return l.Pol && l.Op == token.LSS && l.X == ia.Index && isC && k == n
				})
				how = "constructor loop index below array length"
			}
			c.Require(good, rule, key, ia.Pos(), how,
				fmt.Sprintf("index %s is not reduced modulo the ring length %d: slots of different seconds would be confused", core.Expr(ia.Index), n))
		}
	}
}

// ---- R3 ---------------------------------------------------------------------------------

func c08Flush(c *core.Check, all []*ssa.Function) {
	const rule = "C08-R3"
	c.Rule(rule, "K6+K7", 6,
		"FlushAllDataSingleStep stores SendTime = (SendTime read at entry)+1, loads the old bucket from slot (that read)%N before replacing it, stores a freshly allocated bucket into the same slot and the read into bucket.Time before the single send of the old bucket on BucketsToPreprocess; nobody else sends on that channel")
	name := tShard + "FlushAllDataSingleStep"
	fn := need(c, rule, name)
	// who may send
	for _, f := range all {
		allInstrs(f, func(in ssa.Instruction) {
			snd, ok := in.(*ssa.Send)
			if !ok {
				return
			}
			if _, isQ := fieldLoad(snd.Chan, tyShard, "BucketsToPreprocess"); !isQ {
				return
			}
			c.Require(f == fn, rule, core.FuncName(f)+"/send-BucketsToPreprocess", in.Pos(), "bucket handed over by FlushAllDataSingleStep",
				"a bucket is sent on Shard.BucketsToPreprocess outside FlushAllDataSingleStep: the second/slot bookkeeping is bypassed")
		})
	}
	if fn == nil {
		return
	}
	recv := ssa.Value(fn.Params[0])
	var stTime *ssa.Store
	nStores := 0
	for _, w := range core.FieldWrites([]*ssa.Function{fn}, tyShard, "SendTime") {
		if st, ok := w.Instr.(*ssa.Store); ok {
			stTime = st
			nStores++
		}
	}
	// a "pre-increment read" is any load of the receiver's SendTime executed before the store
	isPre := func(v ssa.Value) bool {
		fa, ok := fieldLoad(v, tyShard, "SendTime")
		return ok && fa.X == recv && stTime != nil && core.Dominates(instrOf(v), stTime)
	}
	advance := false
	if nStores == 1 {
		if b, ok := stTime.Val.(*ssa.BinOp); ok && b.Op == token.ADD {
			if k, isC := constInt64(b.Y); isC && k == 1 && isPre(b.X) {
				advance = true
			}
		}
	}
	if !c.Require(advance, rule, name+"/advance", fn.Pos(), "SendTime advances by exactly one from the value read before",
		"expected exactly one store `SendTime = <SendTime read before> + 1` on the receiver") {
		return
	}
	var sends []*ssa.Send
	allInstrs(fn, func(in ssa.Instruction) {
		if s, ok := in.(*ssa.Send); ok {
			sends = append(sends, s)
		}
	})
	if !c.Require(len(sends) == 1, rule, name+"/single-send", fn.Pos(), "one hand-over per step", fmt.Sprintf("expected exactly one channel send, found %d", len(sends))) {
		return
	}
	send := sends[0]
	// the bucket sent is the value loaded from slot pre%N
	slotOf := func(v ssa.Value) (*ssa.IndexAddr, bool) {
		ia, ok := v.(*ssa.IndexAddr)
		if !ok {
			return nil, false
		}
		fa, ok := ia.X.(*ssa.FieldAddr)
		if !ok || !core.IsField(fa, tyShard, "SuperQueue") || fa.X != recv {
			return nil, false
		}
		b, ok := ia.Index.(*ssa.BinOp)
		if !ok || !isPre(b.X) {
			return nil, false
		}
		return ia, true
	}
	var oldLoad *ssa.UnOp
	if u, ok := send.X.(*ssa.UnOp); ok && u.Op == token.MUL {
		if _, isSlot := slotOf(u.X); isSlot {
			oldLoad = u
		}
	}
	if !c.Require(oldLoad != nil, rule, name+"/sends-old-bucket", send.Pos(), "the bucket of the pre-increment second is handed over",
		"the value sent on BucketsToPreprocess is "+core.Expr(send.X)+", not the bucket loaded from slot (pre-increment SendTime)%N") {
		return
	}
	// replacement store: fresh allocation into the same slot, after the load, before the send
	var repl *ssa.Store
	for _, w := range core.FieldWrites([]*ssa.Function{fn}, tyShard, "SuperQueue") {
		st, ok := w.Instr.(*ssa.Store)
		if !ok {
			continue
		}
		if _, isSlot := slotOf(st.Addr); !isSlot {
			continue
		}
		if a, isAlloc := st.Val.(*ssa.Alloc); isAlloc && a.Heap {
			repl = st
		}
	}
	okRepl := repl != nil && core.Dominates(oldLoad, repl) && core.Dominates(repl, send)
	c.Require(okRepl, rule, name+"/fresh-slot-before-send", send.Pos(), "slot replaced by a fresh bucket after reading the old one and before the hand-over",
		"the slot of the flushed second is not replaced by a freshly allocated bucket between reading the old bucket and sending it: later events would be added to a bucket that is already being sent")
	// Time store
	okTime := false
	allInstrs(fn, func(in ssa.Instruction) {
		st, ok := in.(*ssa.Store)
		if !ok || !core.IsField(st.Addr, "internal/data_model.MetricsBucket", "Time") {
			return
		}
		if st.Addr.(*ssa.FieldAddr).X == ssa.Value(oldLoad) && isPre(st.Val) && core.Dominates(st, send) {
			okTime = true
		}
	})
	c.Require(okTime, rule, name+"/time-is-pre-increment", send.Pos(), "bucket.Time = pre-increment SendTime, set before the hand-over",
		"the flushed bucket's Time is not set to the SendTime value read before the increment (or not before the send)")
}

// ---- R4 ---------------------------------------------------------------------------------

// c08round carries what R4 established for R8.
type c08round struct {
	fn       *ssa.Function
	key      ssa.Value
	store    *ssa.Store // rounding store
	res      ssa.Value  // resolution value R
	tsStores []*ssa.Store
}

// roundedForm matches (t/R)*R and t-(t%R) where t is a load of key.Timestamp.
func roundedForm(v, key ssa.Value) (t ssa.Value, r ssa.Value, ok bool) {
	b, isB := v.(*ssa.BinOp)
	if !isB {
		return nil, nil, false
	}
	isTs := func(x ssa.Value) bool {
		fa, ok := fieldLoad(x, tyKey, "Timestamp")
		return ok && fa.X == key
	}
	switch b.Op {
	case token.MUL:
		for _, pair := range [][2]ssa.Value{{b.X, b.Y}, {b.Y, b.X}} {
			if q, isQ := pair[0].(*ssa.BinOp); isQ && q.Op == token.QUO && q.Y == pair[1] && isTs(q.X) {
				return q.X, q.Y, true
			}
		}
	case token.SUB:
		if m, isM := b.Y.(*ssa.BinOp); isM && m.Op == token.REM && isTs(b.X) && isTs(m.X) {
			return b.X, m.Y, true
		}
	}
	return nil, nil, false
}

func c08Rounding(c *core.Check) *c08round {
	const rule = "C08-R4"
	c.Rule(rule, "K1+K6+K7", 3,
		"in resolutionShardFromHashLocked there is one rounding store key.Timestamp = (key.Timestamp/R)*R; every return not under R == 1 is dominated by it, no other store to key.Timestamp can follow it, and the slot index of those returns reads key.Timestamp after it")
	fn := need(c, rule, fnRes)
	if fn == nil || len(fn.Params) < 2 {
		return nil
	}
	key := ssa.Value(fn.Params[1])
	out := &c08round{fn: fn, key: key}
	var rounding []*ssa.Store
	allInstrs(fn, func(in ssa.Instruction) {
		st, ok := in.(*ssa.Store)
		if !ok || !core.IsField(st.Addr, tyKey, "Timestamp") {
			return
		}
		if st.Addr.(*ssa.FieldAddr).X != key {
			c.Fail(rule, fnRes+"/foreign-timestamp-store", st.Pos(), "store to the Timestamp of a key other than the parameter")
			return
		}
		out.tsStores = append(out.tsStores, st)
		if _, _, isR := roundedForm(st.Val, key); isR {
			rounding = append(rounding, st)
		}
	})
	if len(rounding) != 1 {
		c.Fail(rule, fnRes+"/rounding-store", fn.Pos(), fmt.Sprintf("expected exactly one store key.Timestamp = (key.Timestamp/R)*R (or key.Timestamp - key.Timestamp%%R), found %d: timestamps of low-resolution metrics are not rounded to the resolution", len(rounding)))
		return nil
	}
	rs := rounding[0]
	_, r, _ := roundedForm(rs.Val, key)
	out.store, out.res = rs, r
	isOther := func(in ssa.Instruction) bool {
		st, ok := in.(*ssa.Store)
		return ok && st != rs && core.IsField(st.Addr, tyKey, "Timestamp")
	}
	p := core.ReachWithout(rs, isOther, nil)
	c.Require(p == nil, rule, fnRes+"/rounding-is-last-store", rs.Pos(), "no store to key.Timestamp after the rounding",
		"key.Timestamp is stored again after it was rounded to the resolution (the value that reaches the bucket key and the slot is not a multiple of the resolution): "+pathStr(p))
	n := 0
	for _, ret := range realReturns(fn) {
		n++
		k := fmt.Sprintf("%s/return#%d", fnRes, n)
		_, oneSec := litOn(ret.Block(), func(l core.Lit) bool {
			kk, isC := constInt64(l.Y)
			return l.Pol && l.Op == token.EQL && l.X == r && isC && kk == 1
		})
		if oneSec {
			c.Pass(rule, k, ret.Pos(), "1-second path (rounding is the identity)")
			continue
		}
		if !core.Dominates(rs, ret) {
			c.Fail(rule, k, ret.Pos(), "a return that is not on the resolution==1 path is not dominated by the rounding of key.Timestamp")
			continue
		}
		// the slot index must read key.Timestamp after the rounding store and nothing read before it
		vals := core.ReturnedValues(ret)
		okSlot, why := true, "returned bucket is not a load of a SuperQueue slot"
		if u, isLd := vals[0].(*ssa.UnOp); isLd && u.Op == token.MUL {
			if ia, isIA := u.X.(*ssa.IndexAddr); isIA {
				why = ""
				seen := map[ssa.Value]bool{}
				nAfter := 0
				var walk func(v ssa.Value)
				walk = func(v ssa.Value) {
					if v == nil || seen[v] {
						return
					}
					seen[v] = true
					if fa, isTs := fieldLoad(v, tyKey, "Timestamp"); isTs && fa.X == key {
						if core.Dominates(rs, instrOf(v)) {
							nAfter++
						} else {
							okSlot, why = false, "the slot is computed from key.Timestamp read at "+c.Prog.Pos(v.Pos())+", before the rounding"
						}
						return
					}
					switch x := v.(type) {
					case *ssa.BinOp:
						walk(x.X)
						walk(x.Y)
					case *ssa.Phi:
						for _, e := range x.Edges {
							walk(e)
						}
					case *ssa.Convert:
						walk(x.X)
					case *ssa.UnOp:
						walk(x.X)
					}
				}
				walk(ia.Index)
				if okSlot && nAfter == 0 {
					okSlot, why = false, "the slot index does not depend on key.Timestamp read after the rounding"
				}
			}
		} else {
			okSlot = false
		}
		c.Require(okSlot, rule, k, ret.Pos(), "slot computed from the rounded timestamp", why)
	}
	return out
}

// ---- R5 ---------------------------------------------------------------------------------

func c08Hash(c *core.Check, all []*ssa.Function) {
	const rule = "C08-R5"
	c.Rule(rule, "K7+K2", 9,
		"OriginalMarshalAppend reads only MetricMeta.MetricID and OriginalTagValues and passes the header to nobody; OriginalHash hashes exactly that marshalling; OriginalTagValues is written only in Agent.mapAllTags, "+
			"at index tagMeta.Index, from the Value bytes of the tag being mapped, under tagMeta.Index != HostTagIndex; every resolution-hash argument of a placement call in ApplyMetric is phi(0 | OriginalHash(h)#1) of the header whose key is placed, "+
			"0 only when EffectiveResolution == 1")
	if fn := need(c, rule, "internal/data_model.(*MappedMetricHeader).OriginalMarshalAppend"); fn != nil {
		allowed := map[string]bool{tyHeader + ".MetricMeta": true, tyHeader + ".OriginalTagValues": true, tyMeta + ".MetricID": true}
		bad := []string{}
		touched := fieldsTouched(fn)
		for _, f := range core.SortedKeys(touched) {
			if !allowed[f] {
				bad = append(bad, f)
			}
		}
		pos := fn.Pos()
		if len(bad) > 0 {
			pos = touched[bad[0]].Pos()
		}
		c.Require(len(bad) == 0, rule, "OriginalMarshalAppend/field-reads", pos, "reads only the metric id and the original tag values",
			"the resolution hash input also reads "+strings.Join(bad, ", ")+": it must depend only on the metric and the original tag values (not on mapped tags, host tag, timestamp)")
		esc := ""
		for _, s := range core.Calls(fn) {
			okCallee := strings.HasPrefix(s.Callee, "builtin ") || s.Callee == "encoding/binary.(littleEndian).AppendUint32"
			if !okCallee {
				esc = "calls " + s.Callee
			}
			for _, a := range s.Common().Args {
				if a == ssa.Value(fn.Params[0]) {
					esc = "passes the header to " + s.Callee
				}
			}
		}
		c.Require(esc == "", rule, "OriginalMarshalAppend/calls", fn.Pos(), "only append/len/AppendUint32, header does not escape", "OriginalMarshalAppend "+esc+": the field-read rule cannot see what that reads")
	}
	if fn := need(c, rule, "internal/data_model.(*MappedMetricHeader).OriginalHash"); fn != nil {
		ok := false
		m := core.CallsTo(fn, "internal/data_model.(*MappedMetricHeader).OriginalMarshalAppend")
		h := core.CallsTo(fn, "github.com/zeebo/xxh3.Hash")
		rets := realReturns(fn)
		if len(m) == 1 && len(h) == 1 && len(rets) == 1 && m[0].Arg(0) == ssa.Value(fn.Params[0]) && h[0].Arg(0) == m[0].Value() {
			if vals := core.ReturnedValues(rets[0]); len(vals) == 2 && vals[1] == h[0].Value() {
				ok = true
			}
		}
		c.Require(ok, rule, "OriginalHash/hashes-original-marshalling", fn.Pos(), "returns xxh3 of OriginalMarshalAppend of the receiver", "OriginalHash does not return xxh3.Hash of exactly OriginalMarshalAppend(receiver)")
	}
	// writers of OriginalTagValues
	ws := core.FieldWrites(all, tyHeader, "OriginalTagValues")
	cnt := map[string]int{}
	for _, w := range ws {
		name := core.FuncName(w.Fn)
		cnt[name]++
		key := fmt.Sprintf("%s/OriginalTagValues-write#%d", name, cnt[name])
		if name != "internal/agent.(*Agent).mapAllTags" {
			c.Fail(rule, key, w.Instr.Pos(), "OriginalTagValues is written outside Agent.mapAllTags")
			continue
		}
		st, isSt := w.Instr.(*ssa.Store)
		ia, isIA := w.Addr.(*ssa.IndexAddr)
		if !isSt || !isIA {
			c.Fail(rule, key, w.Instr.Pos(), "OriginalTagValues is written other than by an element store")
			continue
		}
		// index = int(tagMeta.Index), tagMeta = MapValidateTag(v, ...)#0
		var tagCall *ssa.Call
		idxFA, idxOK := fieldLoad(stripConv(ia.Index), "internal/format.MetricMetaTag", "Index")
		if idxOK {
			if ex, isEx := idxFA.X.(*ssa.Extract); isEx && ex.Index == 0 {
				if call, isCall := ex.Tuple.(*ssa.Call); isCall && core.CalleeName(&call.Call) == "internal/data_model.MapValidateTag" {
					tagCall = call
				}
			}
		}
		valFA, valOK := fieldLoadAny(st.Val, "Value")
		okSrc := tagCall != nil && valOK && valFA.X == tagCall.Call.Args[0]
		c.Require(okSrc, rule, key+"/source", w.Instr.Pos(), "element [tagMeta.Index] = Value bytes of the tag validated by MapValidateTag",
			"OriginalTagValues element is not `[tagMeta.Index] = v.Value` for the tag v handed to MapValidateTag: index "+core.Expr(ia.Index)+", value "+core.Expr(st.Val))
		_, notHost := litOn(st.Block(), func(l core.Lit) bool {
			if l.Pol || l.Op != token.EQL {
				return false
			}
			fa, ok := fieldLoad(l.X, "internal/format.MetricMetaTag", "Index")
			if !ok || !idxOK || fa.X != idxFA.X {
				return false
			}
			k, isC := constInt64(l.Y)
			return isC && k == c08HostTagIndex(c)
		})
		c.Require(notHost, rule, key+"/not-host-tag", w.Instr.Pos(), "guarded by tagMeta.Index != HostTagIndex",
			"the store into OriginalTagValues is not guarded by tagMeta.Index != format.HostTagIndex: the host tag would become part of the resolution hash (agents would place the same series in different seconds); facts: "+core.FactsString(st.Block()))
	}
	// resolution-hash argument of the placement calls in ApplyMetric
	if fn := need(c, rule, "internal/agent.(*Agent).ApplyMetric"); fn != nil && len(fn.Params) >= 3 {
		h := ssa.Value(fn.Params[2])
		sites := core.CallsTo(fn, tShard+"ApplyUnique", tShard+"ApplyValues", tShard+"ApplyCounter")
		keys := core.Ordinals(sites)
		for i, s := range sites {
			c.CallSites++
			ok, why := c08HashArg(s.Arg(2), s.Arg(1), h)
			c.Require(ok, rule, keys[i]+"/resolution-hash", s.Pos(), "hash argument is OriginalHash of the placed header (0 for 1-second metrics)", why)
		}
	}
}

// fieldLoadAny matches a load of a field with the given name of any struct.
func fieldLoadAny(v ssa.Value, field string) (*ssa.FieldAddr, bool) {
	u, ok := v.(*ssa.UnOp)
	if !ok || u.Op != token.MUL {
		return nil, false
	}
	fa, ok := u.X.(*ssa.FieldAddr)
	if !ok {
		return nil, false
	}
	t := fa.X.Type()
	if p, isP := t.Underlying().(*types.Pointer); isP {
		t = p.Elem()
	}
	st, isS := t.Underlying().(*types.Struct)
	if !isS || fa.Field >= st.NumFields() || st.Field(fa.Field).Name() != field {
		return nil, false
	}
	return fa, true
}

// c08HostTagIndex resolves the constant format.HostTagIndex from the type-checked package.
func c08HostTagIndex(c *core.Check) int64 {
	if pk := c.Prog.Pkg("internal/format"); pk != nil && pk.Types != nil {
		if k, ok := pk.Types.Scope().Lookup("HostTagIndex").(*types.Const); ok {
			if n, exact := constantInt64(k); exact {
				return n
			}
		}
	}
	c.Anchor("C08-R5", "internal/format.HostTagIndex")
	return -1 << 40
}

// c08HashArg checks arg = phi(0 | OriginalHash(h)#1) with the 0 edge only from a
// block where EffectiveResolution == 1, and keyArg = &h.Key.
func c08HashArg(arg, keyArg, h ssa.Value) (bool, string) {
	if fa, ok := keyArg.(*ssa.FieldAddr); !ok || !core.IsField(fa, tyHeader, "Key") || fa.X != h {
		return false, "the key placed is " + core.Expr(keyArg) + ", not the Key of the header parameter"
	}
	isHash := func(v ssa.Value) bool {
		ex, ok := v.(*ssa.Extract)
		if !ok || ex.Index != 1 {
			return false
		}
		call, ok := ex.Tuple.(*ssa.Call)
		return ok && core.CalleeName(&call.Call) == "internal/data_model.(*MappedMetricHeader).OriginalHash" && call.Call.Args[0] == h
	}
	if isHash(arg) {
		return true, ""
	}
	phi, ok := arg.(*ssa.Phi)
	if !ok {
		return false, "resolution hash argument " + core.Expr(arg) + " is not the hash of the header's original tag values"
	}
	for i, e := range phi.Edges {
		if isHash(e) {
			continue
		}
		if k, isC := constInt64(e); isC && k == 0 {
			pred := phi.Block().Preds[i]
			isOneSec := func(l core.Lit) bool {
				if !l.Pol || l.Op != token.EQL {
					return false
				}
				kk, isK := constInt64(l.Y)
				fa, isF := fieldLoad(l.X, tyMeta, "EffectiveResolution")
				if !isK || kk != 1 || !isF {
					return false
				}
				mfa, isM := fieldLoad(fa.X, tyHeader, "MetricMeta")
				return isM && mfa.X == h
			}
			_, oneSec := litOn(pred, isOneSec)
			if el, has := edgeLiteral(pred, phi.Block()); has && isOneSec(el) {
				oneSec = true
			}
			if oneSec {
				continue
			}
			return false, "resolution hash 0 is passed on a path where h.MetricMeta.EffectiveResolution == 1 is not established"
		}
		return false, "resolution hash argument can be " + core.Expr(e) + ", which is not OriginalHash of the header"
	}
	return true, ""
}

// ---- R6 ---------------------------------------------------------------------------------

func c08DropThreshold(c *core.Check, all, agentFns []*ssa.Function, family []*ssa.Function, dropIdx map[string]int) {
	const rule = "C08-R6"
	c.Rule(rule, "K7 provenance", 34,
		"the start-time threshold parameter of every placement method (the parameter compared with key.Timestamp, and the wrapper parameters forwarded to it) receives at every call site the constant 0, the caller's own threshold parameter, "+
			"or metricInfo.ShardFixedKey2Timestamp — the latter only when the receiver is the secondary shard (third result of Agent.shard) computed for the same metricInfo")
	// propagate the threshold parameter through wrappers (fixpoint)
	for changed := true; changed; {
		changed = false
		for _, f := range all {
			if f.Parent() != nil {
				continue
			}
			fname := core.FuncName(f)
			if _, done := dropIdx[fname]; done {
				continue
			}
			for _, s := range core.Calls(f) {
				idx, ok := dropIdx[s.Callee]
				if !ok {
					continue
				}
				if pi := paramIndex(f, s.Arg(idx)); pi >= 0 {
					dropIdx[fname] = pi
					changed = true
					break
				}
			}
		}
	}
	var sites []core.Site
	for _, f := range all {
		for _, s := range core.Calls(f) {
			if _, ok := dropIdx[s.Callee]; ok {
				sites = append(sites, s)
			}
		}
	}
	keys := core.Ordinals(sites)
	for i, s := range sites {
		c.CallSites++
		idx := dropIdx[s.Callee]
		arg := s.Arg(idx)
		if arg == nil {
			c.Undecided(rule, keys[i], s.Pos(), "call without the threshold argument")
			continue
		}
		if k, isC := constInt64(arg); isC && k == 0 {
			c.Pass(rule, keys[i], s.Pos(), "no start-time drop (0)")
			continue
		}
		if pi := paramIndex(s.Fn, arg); pi >= 0 {
			own, ok := dropIdx[core.FuncName(s.Fn)]
			c.Require(ok && own == pi, rule, keys[i], s.Pos(), "caller's own threshold forwarded",
				"the threshold passed is parameter #"+fmt.Sprint(pi)+" of "+core.FuncName(s.Fn)+", which is not that function's start-time threshold")
			continue
		}
		fa, isTS := fieldLoad(arg, tyMeta, "ShardFixedKey2Timestamp")
		if !isTS {
			c.Fail(rule, keys[i], s.Pos(), "the drop-if-before threshold is "+core.Expr(arg)+": events may only be dropped before the secondary shard's configured start time (ShardFixedKey2Timestamp)")
			continue
		}
		// receiver must be the secondary shard of the same metric
		ok, why := false, "the receiver "+core.Expr(s.Arg(0))+" is not the secondary shard returned by Agent.shard"
		if ex, isEx := strip(s.Arg(0)).(*ssa.Extract); isEx && ex.Index == 2 {
			if call, isCall := ex.Tuple.(*ssa.Call); isCall && core.CalleeName(&call.Call) == "internal/agent.(*Agent).shard" {
				if core.Expr(call.Call.Args[2]) == core.Expr(fa.X) {
					ok = true
				} else {
					why = "the secondary shard was computed for " + core.Expr(call.Call.Args[2]) + " but the start time is taken from " + core.Expr(fa.X)
				}
			}
		}
		c.Require(ok, rule, keys[i], s.Pos(), "start time of the secondary shard of the same metric", why+": the primary shard must never drop by start time")
	}
	_ = agentFns
	_ = family
}

// ---- R7 ---------------------------------------------------------------------------------

func c08DiscardCauses(c *core.Check) {
	const rule = "C08-R7"
	c.Rule(rule, "K2 read set", 2, "shouldDiscardIncomingData reads only stopReceivingIncomingData and calls only gapInReceivingQueueLocked on its receiver; gapInReceivingQueueLocked reads only CurrentTime and SendTime and calls nothing")
	check := func(name string, fields map[string]bool, callees map[string]bool) {
		fn := need(c, rule, name)
		if fn == nil {
			return
		}
		var bad []string
		for f := range fieldsTouched(fn) {
			if !fields[f] {
				bad = append(bad, "reads "+f)
			}
		}
		for _, s := range core.Calls(fn) {
			if !callees[s.Callee] || s.Arg(0) != ssa.Value(fn.Params[0]) {
				bad = append(bad, "calls "+s.Callee)
			}
		}
		sort.Strings(bad)
		c.Require(len(bad) == 0, rule, name+"/inputs", fn.Pos(), "depends only on the enumerated state",
			"the discard predicate "+strings.Join(bad, ", ")+": events may be dropped only during shutdown or while the receive queue has a gap")
	}
	check(fnDisc, map[string]bool{tyShard + ".stopReceivingIncomingData": true}, map[string]bool{fnGap: true})
	check(fnGap, map[string]bool{tyShard + ".CurrentTime": true, tyShard + ".SendTime": true}, map[string]bool{})
}

// ---- R8 ---------------------------------------------------------------------------------

// c08RingBound checks, with the code's own constants, that the furthest slot an
// accepted event can be assigned stays within one turn of the ring:
//
//	accepted              ⇒ CurrentTime − SendTime ≤ G        (gap predicate, linear form)
//	after the clamp         key.Timestamp ≤ CurrentTime + F    (clamp store and its guard)
//	slot (R≠1, not late)  = ts + R + ((hash & M)·R >> s)       (monotone fragment, R ≤ Rmax)
//
// so slot − SendTime can reach G + ub(slot − CurrentTime) and that must be < N,
// otherwise slot%N is the bucket of an earlier second. Every ingredient is read off
// the SSA; any deviation from the fragment is reported as undecided.
func c08RingBound(c *core.Check, all []*ssa.Function, rd *c08round) {
	const rule = "C08-R8"
	c.Rule(rule, "K13 constant relation (linear form + monotone upper bound)", 2,
		"G + F + Rmax + spread(Rmax) < len(SuperQueue), where G is the largest CurrentTime-SendTime for which shouldDiscardIncomingData is false, F the future clamp added to CurrentTime, Rmax the largest value format.AllowedResolution returns and spread the fixed-point shard spread; also G + F < len on the 1-second path")
	key := tShard + "ring-bound"
	if rd == nil || rd.store == nil {
		c.Undecided(rule, key, 0, "the rounding store of resolutionShardFromHashLocked was not identified (see C08-R4)")
		return
	}
	fn := rd.fn
	recv := ssa.Value(fn.Params[0])
	// --- G
	gapFn, discFn := need(c, rule, fnGap), need(c, rule, fnDisc)
	if gapFn == nil || discFn == nil {
		return
	}
	rets := realReturns(gapFn)
	if len(rets) != 1 {
		c.Undecided(rule, key, gapFn.Pos(), "gapInReceivingQueueLocked has more than one return")
		return
	}
	lin, err := core.Linear(core.ReturnedValues(rets[0])[0], func(v ssa.Value) (string, bool) {
		for _, f := range []string{"CurrentTime", "SendTime"} {
			if fa, ok := fieldLoad(v, tyShard, f); ok && fa.X == ssa.Value(gapFn.Params[0]) {
				return f, true
			}
		}
		return "", false
	})
	if err != nil || lin.Coef["CurrentTime"] != 1 || lin.Coef["SendTime"] != -1 || len(lin.Coef) != 2 {
		c.Undecided(rule, key, gapFn.Pos(), fmt.Sprintf("gapInReceivingQueueLocked is not CurrentTime - SendTime + const (%v, %s)", err, lin))
		return
	}
	var G int64
	foundTest := false
	allInstrs(discFn, func(in ssa.Instruction) {
		b, ok := in.(*ssa.BinOp)
		if !ok {
			return
		}
		call, isCall := b.X.(*ssa.Call)
		k, isC := constInt64(b.Y)
		if !isCall || !isC || core.CalleeName(&call.Call) != fnGap {
			return
		}
		switch b.Op {
		case token.GTR: // discard iff gap > k: accepted iff CT-ST+c <= k
			G, foundTest = k-lin.Const, true
		case token.GEQ:
			G, foundTest = k-lin.Const-1, true
		}
	})
	if !foundTest {
		c.Undecided(rule, key, discFn.Pos(), "shouldDiscardIncomingData does not compare gapInReceivingQueueLocked() with a constant using > or >=")
		return
	}
	// --- F and the clamp
	var clampIf *ssa.If
	var clampStore *ssa.Store
	var F int64
	var ctLoad ssa.Value
	for _, st := range rd.tsStores {
		b, ok := st.Val.(*ssa.BinOp)
		if !ok || b.Op != token.ADD {
			continue
		}
		k, isC := constInt64(b.Y)
		fa, isCT := fieldLoad(b.X, tyShard, "CurrentTime")
		if !isC || !isCT || fa.X != recv {
			continue
		}
		lit, guarded := litOn(st.Block(), func(l core.Lit) bool {
			if !l.Pol || l.Op != token.LSS {
				return false
			}
			lb, isB := l.X.(*ssa.BinOp)
			if !isB || lb.Op != token.ADD || lb.X != b.X {
				return false
			}
			lk, isK := constInt64(lb.Y)
			tfa, isTs := fieldLoad(l.Y, tyKey, "Timestamp")
			return isK && lk == k && isTs && tfa.X == rd.key
		})
		if !guarded {
			continue
		}
		if i := ifOn(fn, lit.Cond); i != nil {
			// no store to key.Timestamp between the load compared and the branch
			ld := instrOf(lit.Y)
			clean := ld != nil && ld.Block() == i.Block()
			if clean {
				for _, in := range i.Block().Instrs[core.InstrIndex(ld):] {
					if s2, isSt := in.(*ssa.Store); isSt && core.IsField(s2.Addr, tyKey, "Timestamp") {
						clean = false
					}
				}
			}
			if clean {
				clampIf, clampStore, F, ctLoad = i, st, k, b.X
			}
		}
	}
	if clampIf == nil {
		c.Undecided(rule, key, fn.Pos(), "no future clamp of the form `if key.Timestamp > CurrentTime+F { key.Timestamp = CurrentTime+F }` found in resolutionShardFromHashLocked")
		return
	}
	_ = ctLoad
	// clamped(load): every store to key.Timestamp that can execute between the clamp test and the load is
	// the clamp store itself or the rounding store (which only lowers a clamped value)
	clamped := func(ld ssa.Instruction) bool {
		if ld == nil || !core.Dominates(clampIf, ld) {
			return false
		}
		for _, st := range rd.tsStores {
			if st == clampStore || st == rd.store {
				continue
			}
			st := st
			if core.ReachWithout(clampIf, func(in ssa.Instruction) bool { return in == st }, func(in ssa.Instruction) bool { return in == ld }) != nil {
				return false
			}
		}
		return true
	}
	if t, _, _ := roundedForm(rd.store.Val, rd.key); !clamped(instrOf(t)) {
		c.Undecided(rule, key, rd.store.Pos(), "the rounding does not start from the clamped timestamp")
		return
	}
	// --- Rmax
	allowedFn := need(c, rule, "internal/format.AllowedResolution")
	if allowedFn == nil {
		return
	}
	rmax, err := core.MaxIntReturn(allowedFn, 0)
	if err != nil {
		c.Undecided(rule, key, allowedFn.Pos(), "cannot evaluate the largest allowed resolution: "+err.Error())
		return
	}
	fromAllowed := 0
	for _, w := range core.FieldWrites(all, tyMeta, "EffectiveResolution") {
		if call, ok := w.Val.(*ssa.Call); ok && core.CalleeName(&call.Call) == "internal/format.AllowedResolution" {
			fromAllowed++
		}
	}
	usesEff := false
	var walkR func(v ssa.Value, depth int)
	walkR = func(v ssa.Value, depth int) {
		if depth > 6 || v == nil {
			return
		}
		if fa, ok := fieldLoad(v, tyMeta, "EffectiveResolution"); ok && len(fn.Params) > 3 && fa.X == ssa.Value(fn.Params[3]) {
			usesEff = true
		}
		switch x := v.(type) {
		case *ssa.Phi:
			for _, e := range x.Edges {
				walkR(e, depth+1)
			}
		case *ssa.Convert:
			walkR(x.X, depth+1)
		}
	}
	walkR(rd.res, 0)
	if fromAllowed == 0 || !usesEff {
		c.Undecided(rule, key, fn.Pos(), "the resolution used for the slot is not metricInfo.EffectiveResolution, or EffectiveResolution is never assigned from format.AllowedResolution: Rmax cannot be tied to the code")
		return
	}
	// --- slot bounds per return
	n := 0
	for _, ret := range realReturns(fn) {
		n++
		k := fmt.Sprintf("%s/return#%d", fnRes, n)
		u, isLd := core.ReturnedValues(ret)[0].(*ssa.UnOp)
		if !isLd {
			c.Undecided(rule, k, ret.Pos(), "returned bucket is not loaded from a slot")
			continue
		}
		ia, isIA := u.X.(*ssa.IndexAddr)
		if !isIA {
			c.Undecided(rule, k, ret.Pos(), "returned bucket is not loaded from a slot")
			continue
		}
		fa, isQ := ia.X.(*ssa.FieldAddr)
		if !isQ || !core.IsField(fa, tyShard, "SuperQueue") {
			c.Undecided(rule, k, ret.Pos(), "returned bucket is not a SuperQueue slot")
			continue
		}
		N, _ := arrayLenOfField(fa)
		idx, isB := ia.Index.(*ssa.BinOp)
		if !isB {
			c.Undecided(rule, k, ret.Pos(), "slot index is not of the form x % N (see C08-R2)")
			continue
		}
		edges := []ssa.Value{idx.X}
		if phi, isPhi := idx.X.(*ssa.Phi); isPhi {
			edges = phi.Edges
		}
		leaf := func(v ssa.Value) (core.UB, bool) {
			if v == rd.res {
				return core.UB{C: uint64(rmax)}, true
			}
			if tfa, ok := fieldLoad(v, tyKey, "Timestamp"); ok && tfa.X == rd.key && clamped(instrOf(v)) {
				return core.UB{K: 1, C: uint64(F)}, true
			}
			if p, ok := v.(*ssa.Parameter); ok {
				if bits, signed, isInt := core.IntKind(p.Type()); isInt && !signed && bits == 64 {
					return core.UB{C: ^uint64(0) >> 2}, true // any 64-bit hash; only used under a constant mask
				}
			}
			return core.UB{}, false
		}
		evaluated := 0
		var skipped []string
		for _, e := range edges {
			ub, err := core.MonoUpper(e, leaf)
			if err != nil {
				skipped = append(skipped, err.Error())
				continue
			}
			if ub.K != 1 {
				skipped = append(skipped, "edge "+core.Expr(e)+" is not relative to CurrentTime")
				continue
			}
			evaluated++
			reach := G + int64(ub.C)
			c.Require(reach < N, rule, fmt.Sprintf("%s/edge#%d", k, evaluated), ret.Pos(),
				fmt.Sprintf("furthest slot = SendTime + %d (accept window %d + offset from CurrentTime %d) < ring length %d", reach, G, ub.C, N),
				fmt.Sprintf("an accepted event can be assigned slot SendTime+%d (CurrentTime-SendTime may be %d while events are accepted, the slot may be CurrentTime+%d: clamp %d, resolution up to %d and its shard spread) but the ring has %d slots: slot%%%d is the bucket of an earlier second, which is sent before the event's timestamp", reach, G, ub.C, F, rmax, N, N))
		}
		if evaluated == 0 {
			c.Undecided(rule, k, ret.Pos(), "no slot expression of this return is inside the monotone fragment: "+strings.Join(skipped, "; "))
		} else if len(skipped) > 0 {
			c.Note("C08-R8 %s: %d slot expression(s) not bounded (late-event adjustment): %s", k, len(skipped), strings.Join(skipped, "; "))
		}
	}
}
