package props

// Helpers shared by the table/guard rule files (c11, c22, c25, c27, c28, c30).

import (
	"fmt"
	"go/token"
	"go/types"

	"golang.org/x/tools/go/ssa"

	"shverif/core"
)

func tExtractOf(v ssa.Value, idx int) ssa.Value {
	if v == nil {
		return nil
	}
	for _, r := range core.Referrers(v) {
		if e, ok := r.(*ssa.Extract); ok && e.Index == idx {
			return e
		}
	}
	return nil
}

func tFieldName(fa *ssa.FieldAddr) string {
	t := fa.X.Type().Underlying()
	if p, ok := t.(*types.Pointer); ok {
		t = p.Elem().Underlying()
	}
	if st, ok := t.(*types.Struct); ok && fa.Field < st.NumFields() {
		return st.Field(fa.Field).Name()
	}
	return "?"
}

func tLit(pol bool, format string, a ...any) core.TermLit {
	return core.TermLit{Text: fmt.Sprintf(format, a...), Pol: pol}
}

// tIfOnBool finds the If that branches on boolean v (possibly negated); pol is the
// polarity of v on the If's true edge.
func tIfOnBool(v ssa.Value) (*ssa.If, bool) {
	for _, ref := range core.Referrers(v) {
		switch u := ref.(type) {
		case *ssa.If:
			return u, true
		case *ssa.UnOp:
			if u.Op == token.NOT {
				if i, p := tIfOnBool(u); i != nil {
					return i, !p
				}
			}
		}
	}
	return nil, false
}
