package props

import (
	"fmt"
	"go/token"
	"strings"

	"golang.org/x/tools/go/ssa"

	"shverif/core"
)

func init() {
	Register(&Property{
		ID:   "C20",
		Pkgs: []string{"./internal/metajournal"},
		Run:  runC20,
		Mutants: []Mutant{
			{Name: "revert-F8-unconditional-byname-delete", File: "internal/metajournal/meta_metrics.go", Rule: "C20-R1",
				Old: "				if cur, ok := ms.metricsByName[valueOld.Name]; ok && cur.MetricID == value.MetricID {\n					delete(ms.metricsByName, valueOld.Name)\n				}",
				New: "				delete(ms.metricsByName, valueOld.Name)"},
			{Name: "group-byname-delete-unguarded", File: "internal/metajournal/meta_metrics.go", Rule: "C20-R1",
				Old: "				if cur, ok := ms.groupsByName[valueOld.Name]; ok && cur.ID == value.ID {", New: "				if _, ok := ms.groupsByName[valueOld.Name]; ok {"},
			{Name: "map-written-outside-ApplyEvent", File: "internal/metajournal/meta_metrics.go", Rule: "C20-R2",
				Old: "func (ms *MetricsStorage) GetGroup(id int32) *format.MetricsGroup {\n", New: "func (ms *MetricsStorage) GetGroup(id int32) *format.MetricsGroup {\n	delete(ms.groupsByName, \"\")\n"},
			{Name: "statehash-forgets-old-lo", File: "internal/metajournal/journal_fast.go", Rule: "C20-R3",
				Old: "	ms.stateHash.Lo ^= old.hash.Lo\n", New: ""},
			{Name: "statehash-assign-instead-of-xor", File: "internal/metajournal/journal_fast.go", Rule: "C20-R3",
				Old: "	ms.stateHash.Hi ^= hash.Hi\n", New: "	ms.stateHash.Hi = hash.Hi\n"},
			{Name: "order-not-cleaned", File: "internal/metajournal/journal_fast.go", Rule: "C20-R3",
				Old: "		if _, ok = ms.order.Delete(journalOrder{version: old.Version}); !ok {\n			panic(fmt.Sprintf(\"journal order invariant violation - not found element being removed: %d\", old.Version))\n		}\n",
				New: "		_ = old.Version\n"},
			{Name: "save-load-header-mismatch", File: "internal/metajournal/journal_fast.go", Rule: "C20-R4",
				Old: "	chunk = basictl.LongWrite(chunk, ms.currentVersion) // we must not use loaderVersion", New: "	chunk = basictl.NatWrite(chunk, uint32(ms.currentVersion)) // we must not use loaderVersion"},
			{Name: "seed-C20a-trust-loader-version-of-truncated-file", File: "internal/metajournal/journal_fast.go", Rule: "C20-R6",
				Old: "	if lastEventVersion == ms.currentVersion && loaderVersion >= ms.currentVersion {", New: "	if lastEventVersion >= ms.currentVersion && loaderVersion >= ms.currentVersion {"},
			{Name: "seed-C20b-no-regroup-on-disable", File: "internal/metajournal/meta_metrics.go", Rule: "C20-R7",
				Old: "			if !idExists || valueOld.Name != value.Name || valueOld.Disable != value.Disable {", New: "			if !idExists || valueOld.Name != value.Name {"},
			{Name: "revert-fix-rebuild-name-index-by-iteration-order", File: "internal/metajournal/meta_metrics.go", Rule: "C20-R8",
				Old: "			if cur, ok := ms.metricsByName[m.Name]; ok && cur.MetricID == m.MetricID {\n				metricsByName[m.Name] = m\n			}\n",
				New: "			metricsByName[m.Name] = m\n"},
			{Name: "diff-descending", File: "internal/metajournal/journal_fast_rpc.go", Rule: "C20-R5",
				Old: "ms.order.AscendGreaterOrEqual(", New: "ms.order.DescendLessOrEqual("},
		},
	})
}

const tMS = "internal/metajournal.MetricsStorage"

func runC20(c *core.Check) {
	c.Decides = "R1 every delete from a by-name index of MetricsStorage on rename is dominated by a test that the entry still belongs to the entity being renamed (same id); " +
		"R2 the index maps of MetricsStorage are written only in ApplyEvent and the constructor; R3 JournalFast.addEventLocked co-updates the state hash (xor of old and new hash, both halves), " +
		"the journal map, the version order (delete old / insert new) and currentVersion, after the version monotonicity test; R4 save and loadImpl agree on the file layout " +
		"(two int64 versions, then boxed events); R5 the journal diff is produced in ascending version order starting above the client's version; " +
		"R6 after loading a journal file the saved loader version is trusted only if the last event read equals the saved last-event version (exact equality: a truncated file must be re-requested from its last event); " +
		"R7 metric-to-group assignment is recomputed whenever a group is new, renamed or enabled/disabled."
	c.NotDecided = "convergence over delivery schedules and batching, journal compaction equivalence, equality of state hashes between replicas as values, longest-prefix group selection arithmetic, longpoll broadcast."
	pkgFns := c.Prog.FuncsIn("internal/metajournal")

	// ---- R1 ---------------------------------------------------------------------------
	c.Rule("C20-R1", "K1 guard-dominance", 3, "delete(byName, old.Name) in MetricsStorage.ApplyEvent is dominated by `byName[old.Name].id == new.id` (and the lookup succeeding)")
	idField := map[string]string{"metricsByName": "MetricID", "groupsByName": "ID", "namespaceByName": "ID"}
	for _, w := range core.FieldWrites(pkgFns, tMS, "metricsByName") {
		checkByNameDelete(c, w, "metricsByName", idField["metricsByName"])
	}
	for _, w := range core.FieldWrites(pkgFns, tMS, "groupsByName") {
		checkByNameDelete(c, w, "groupsByName", idField["groupsByName"])
	}
	for _, w := range core.FieldWrites(pkgFns, tMS, "namespaceByName") {
		checkByNameDelete(c, w, "namespaceByName", idField["namespaceByName"])
	}

	// ---- R8 ---------------------------------------------------------------------------
	c.Rule("C20-R8", "K1 guard-dominance", 1, "when ApplyEvent rebuilds the name index from the id index (after a group change) an entry name -> metric is written only if the current name index already maps that name to the same metric id")
	if fn := need(c, "C20-R8", "internal/metajournal.(*MetricsStorage).ApplyEvent"); fn != nil {
		n := 0
		for _, b := range fn.Blocks {
			for _, in := range b.Instrs {
				mu, ok := in.(*ssa.MapUpdate)
				if !ok {
					continue
				}
				if _, isMake := mu.Map.(*ssa.MakeMap); !isMake || !strings.HasSuffix(core.Expr(mu.Key), ".Name") {
					continue
				}
				if !strings.Contains(core.TypeName(mu.Map.Type()), "format.MetricMetaValue") {
					continue
				}
				n++
				guarded := false
				for _, g := range core.Facts(b) {
					if len(g.Alts) != 1 {
						continue
					}
					l := g.Alts[0]
					if l.Op == token.EQL && l.Pol {
						x, y := core.Expr(l.X), core.Expr(l.Y)
						if (strings.Contains(x, ".metricsByName[") && strings.HasSuffix(x, "#0.MetricID") && strings.HasSuffix(y, ".MetricID")) ||
							(strings.Contains(y, ".metricsByName[") && strings.HasSuffix(y, "#0.MetricID") && strings.HasSuffix(x, ".MetricID")) {
							guarded = true
						}
					}
				}
				c.Require(guarded, "C20-R8", fmt.Sprintf("internal/metajournal.(*MetricsStorage).ApplyEvent/rebuild-name-index#%d", n), mu.Pos(),
					"rebuilt name index keeps the current holder of each name",
					"the rebuilt name index takes name -> metric from the iteration over the id index: when a not yet updated metric still carries a name that another metric already took, map iteration order decides which one the lookup returns")
			}
		}
		if n == 0 {
			c.Undecided("C20-R8", "internal/metajournal.(*MetricsStorage).ApplyEvent/rebuild-name-index", fn.Pos(), "no rebuild of the name index found")
		}
	}

	// ---- R2 ---------------------------------------------------------------------------
	c.Rule("C20-R2", "K2 who-may-write", 10, "the index maps of MetricsStorage are written only by ApplyEvent and MakeMetricsStorage")
	for _, f := range []string{"metricsByID", "metricsByName", "groupsByID", "groupsByName", "namespaceByID", "namespaceByName", "dashboardByID", "groupsOrdered"} {
		for i, w := range core.FieldWrites(c.Prog.Funcs(), tMS, f) {
			fn := core.FuncName(w.Fn)
			ok := fn == "internal/metajournal.(*MetricsStorage).ApplyEvent" || fn == "internal/metajournal.MakeMetricsStorage"
			c.Require(ok, "C20-R2", fmt.Sprintf("%s/%s:%s#%d", fn, w.Kind, f, i+1), w.Instr.Pos(), "index written by its owner",
				"MetricsStorage."+f+" is modified outside ApplyEvent/constructor (readers hold only the read lock and rely on ApplyEvent being the single writer)")
		}
	}

	// ---- R3 ---------------------------------------------------------------------------
	c.Rule("C20-R3", "K6 co-update", 7, "addEventLocked: version test first; stateHash.{Hi,Lo} ^= old.hash and ^= new hash; journal[key] = entry; order.Delete(old) when present; order.ReplaceOrInsert(new); currentVersion = entry.Version")
	if fn := need(c, "C20-R3", "internal/metajournal.(*JournalFast).addEventLocked"); fn != nil {
		base := "internal/metajournal.(*JournalFast).addEventLocked/"
		// version test: every store is dominated by !(entry.Version <= currentVersion)
		verOK := core.F("(*.currentVersion < *.Version)") // !(cur < ver) is the panic branch
		_ = verOK
		for _, half := range []string{"Hi", "Lo"} {
			var xorOld, xorNew, plain int
			for _, b := range fn.Blocks {
				for _, in := range b.Instrs {
					st, ok := in.(*ssa.Store)
					if !ok || !strings.HasSuffix(core.Expr(st.Addr), ".stateHash."+half) {
						continue
					}
					bin, ok := st.Val.(*ssa.BinOp)
					if !ok || bin.Op != token.XOR {
						plain++
						continue
					}
					x, y := core.Expr(bin.X), core.Expr(bin.Y)
					if !strings.HasSuffix(x, ".stateHash."+half) {
						plain++
						continue
					}
					switch {
					case y == "{metajournal.journalEvent}.hash."+half:
						xorOld++
					case y == "{xxh3.Uint128}."+half:
						xorNew++
					default:
						plain++
					}
				}
			}
			c.Require(xorOld == 1 && xorNew == 1 && plain == 0, "C20-R3", base+"stateHash."+half, fn.Pos(),
				"state hash half is xor-ed with the replaced entry's hash and with the new hash",
				fmt.Sprintf("stateHash.%s must be updated exactly by `^= old.hash.%s` and `^= hash.%s` (found old:%d new:%d other stores:%d): replicas holding the same journal would report different hashes", half, half, half, xorOld, xorNew, plain))
		}
		jw := core.FieldWrites([]*ssa.Function{fn}, "internal/metajournal.JournalFast", "journal")
		c.Require(len(jw) == 1 && jw[0].Kind == "mapupdate", "C20-R3", base+"journal", fn.Pos(), "journal[key] updated once", "journal map is not updated exactly once")
		del := core.CallsTo(fn, "*BTreeG).Delete*")
		ins := core.CallsTo(fn, "*BTreeG).ReplaceOrInsert*")
		c.Require(len(del) == 1 && core.Holds(del[0].Block(), core.T("*.journal[*]#1")), "C20-R3", base+"order.Delete", fn.Pos(),
			"old version removed from the order when the entity was known", "the replaced entry's version is not removed from the version order under `ok` (the diff would deliver an entity twice / panic on save)")
		c.Require(len(ins) == 1, "C20-R3", base+"order.ReplaceOrInsert", fn.Pos(), "new version inserted into the order", "the new version is not inserted into the version order exactly once")
		cv := core.FieldWrites([]*ssa.Function{fn}, "internal/metajournal.JournalFast", "currentVersion")
		okCV := len(cv) == 1 && strings.HasSuffix(core.Expr(cv[0].Val), ".Version")
		c.Require(okCV, "C20-R3", base+"currentVersion", fn.Pos(), "currentVersion = entry.Version", "currentVersion is not set to the added entry's version exactly once")
		// monotonicity test dominates the updates
		if len(jw) == 1 {
			c.Require(core.Holds(jw[0].Instr.Block(), core.T("(*.currentVersion < *.Version)")), "C20-R3", base+"version-test", fn.Pos(),
				"updates only for versions above currentVersion", "journal is updated without `entry.Version > currentVersion` dominating it")
		}
	}

	// ---- R4 ---------------------------------------------------------------------------
	c.Rule("C20-R4", "K3 sequential codec shape", 1, "JournalFast.save writes [int64 loaderVersion, int64 currentVersion, boxed events...]; loadImpl reads [int64, int64 (first chunk only), boxed events...]")
	{
		sfd, spk := c.Prog.FuncDecl("internal/metajournal", "(*JournalFast).save")
		lfd, lpk := c.Prog.FuncDecl("internal/metajournal", "(*JournalFast).loadImpl")
		if sfd == nil || lfd == nil {
			c.Anchor("C20-R4", "internal/metajournal.(*JournalFast).save/loadImpl")
		} else {
			ws := core.ExtractCodecShape(spk, sfd, false)
			rs := core.ExtractCodecShape(lpk, lfd, true)
			keep := func(ts []core.CodecTok) []core.CodecTok {
				var out []core.CodecTok
				for _, t := range ts {
					if strings.HasPrefix(t.Family, "basictl.") || strings.Contains(t.Family, "TL1") {
						out = append(out, t)
					}
				}
				return out
			}
			ws.Toks, rs.Toks = keep(ws.Toks), keep(rs.Toks)
			fam := func(ts []core.CodecTok) string {
				var out []string
				for _, t := range ts {
					out = append(out, t.Family)
				}
				return strings.Join(out, " ")
			}
			c.Require(fam(ws.Toks) == fam(rs.Toks) && len(ws.Toks) == 3, "C20-R4", "internal/metajournal.(*JournalFast).save<->loadImpl", sfd.Pos(),
				"same codec sequence: "+fam(ws.Toks), "save writes ["+fam(ws.Toks)+"] but loadImpl reads ["+fam(rs.Toks)+"]")
			okHdr := len(rs.Toks) == 3 && strings.Contains(rs.Toks[0].Cond, "IsFirst") && strings.Contains(rs.Toks[1].Cond, "IsFirst") && rs.Toks[2].Loop >= 1 && !strings.Contains(rs.Toks[2].Cond, "IsFirst")
			c.Require(okHdr, "C20-R4", "internal/metajournal.(*JournalFast).loadImpl/header-once", lfd.Pos(), "versions read from the first chunk only, events from every chunk",
				"loadImpl must read the two versions only from the first chunk and events in a loop from every chunk")
			if len(ws.Toks) == 3 {
				c.Require(ws.Toks[0].Operand == "item.loaderVersion" && ws.Toks[1].Operand == "item.currentVersion", "C20-R4", "internal/metajournal.(*JournalFast).save/header-fields", sfd.Pos(),
					"header = (loaderVersion, currentVersion)", "save must write loaderVersion then currentVersion (load compares the second with the last event read)")
			}
		}
	}

	// ---- R5 ---------------------------------------------------------------------------
	c.Rule("C20-R5", "K1/K7", 1, "getJournalDiffLocked3Limits walks the version order ascending, starting at verNumb+1")
	if fn := need(c, "C20-R5", "internal/metajournal.(*JournalFast).getJournalDiffLocked3Limits"); fn != nil {
		asc := core.CallsTo(fn, "*BTreeG).AscendGreaterOrEqual*")
		other := core.CallsTo(fn, "*BTreeG).Descend*", "*BTreeG).Ascend[*", "*BTreeG).AscendRange*", "*BTreeG).AscendLessThan*")
		ok := len(asc) == 1 && len(other) == 0
		if ok {
			piv := core.Expr(asc[0].Arg(1))
			ok = strings.Contains(piv, "({1:int64} + 1)")
			if !ok {
				// pivot is a struct literal built in a cell: look for the store of verNumb+1 into its version field
				ok = false
				for _, b := range fn.Blocks {
					for _, in := range b.Instrs {
						if st, isSt := in.(*ssa.Store); isSt && strings.HasSuffix(core.Expr(st.Addr), ".version") && core.Expr(st.Val) == "({1:int64} + 1)" {
							ok = true
						}
					}
				}
			}
		}
		c.Require(ok, "C20-R5", "internal/metajournal.(*JournalFast).getJournalDiffLocked3Limits/iteration", fn.Pos(), "ascending from verNumb+1",
			"the journal diff must be produced by one ascending walk of the version order starting at verNumb+1")
	}

	// ---- R6 ---------------------------------------------------------------------------
	c.Rule("C20-R6", "K1+K7", 1, "JournalFast.load stores the loader version read from the file only under `lastEventVersion == currentVersion` (equality) where lastEventVersion is the second value read by loadImpl")
	if fn := need(c, "C20-R6", "internal/metajournal.(*JournalFast).load"); fn != nil {
		calls := core.CallsTo(fn, "internal/metajournal.(*JournalFast).loadImpl")
		if len(calls) != 1 {
			c.Undecided("C20-R6", "internal/metajournal.(*JournalFast).load/shape", fn.Pos(), "expected one loadImpl call")
		} else {
			loaderCell, lastCell := calls[0].Arg(1), calls[0].Arg(2)
			n := 0
			for _, w := range core.FieldWrites([]*ssa.Function{fn}, "internal/metajournal.JournalFast", "loaderVersion") {
				ld, ok := w.Val.(*ssa.UnOp)
				if !ok || ld.X != loaderCell {
					continue // the fallback: loaderVersion = currentVersion
				}
				n++
				trusted := false
				for _, g := range core.Facts(w.Instr.Block()) {
					if len(g.Alts) != 1 {
						continue
					}
					l := g.Alts[0]
					if l.Op == token.EQL && l.Pol {
						if x, ok := l.X.(*ssa.UnOp); ok && x.X == lastCell && strings.HasSuffix(core.Expr(l.Y), ".currentVersion") {
							trusted = true
						}
						if y, ok := l.Y.(*ssa.UnOp); ok && y.X == lastCell && strings.HasSuffix(core.Expr(l.X), ".currentVersion") {
							trusted = true
						}
					}
				}
				c.Require(trusted, "C20-R6", "internal/metajournal.(*JournalFast).load/trust-loader-version", w.Instr.Pos(), "saved loader version trusted only for a completely read file",
					"the loader version saved in the file is trusted without `lastEventVersion == currentVersion`: after a truncated file the events of the lost tail are never requested again")
			}
			if n == 0 {
				c.Undecided("C20-R6", "internal/metajournal.(*JournalFast).load/trust-loader-version", fn.Pos(), "no store of the file's loader version found")
			}
		}
	}

	// ---- R7 ---------------------------------------------------------------------------
	c.Rule("C20-R7", "K1 disjunctive trigger", 1, "in ApplyEvent the group-rebuild flag is raised when the group id is new, or its name changed, or its Disable flag changed")
	if fn := need(c, "C20-R7", "internal/metajournal.(*MetricsStorage).ApplyEvent"); fn != nil {
		// the flag: a bool phi branched on, whose true branch dominates the recomputation loop
		var flag ssa.Value
		for _, s := range core.CallsTo(fn, "internal/metajournal.(*MetricsStorage).calcGroupForMetricLocked") {
			for _, g := range core.Facts(s.Block()) {
				for _, l := range g.Alts {
					if _, ok := l.Cond.(*ssa.Phi); ok && l.Pol && len(g.Alts) == 1 {
						flag = l.Cond
					}
				}
			}
		}
		if flag == nil {
			c.Undecided("C20-R7", "internal/metajournal.(*MetricsStorage).ApplyEvent/flag", fn.Pos(), "cannot find the rebuild flag guarding the regrouping loop")
		} else {
			srcs := trueSources(flag, map[ssa.Value]bool{})
			okAll := len(srcs) > 0
			why := ""
			for _, b := range srcs {
				var own *core.Guard
				for _, g := range core.Facts(b) {
					if g.Block == b {
						gg := g
						own = &gg
					}
				}
				if own == nil {
					okAll, why = false, "flag raised unconditionally or under an unrecognised condition"
					continue
				}
				need := map[string]bool{"new": false, "name": false, "disable": false}
				for _, l := range own.Alts {
					switch {
					case !l.Pol && strings.Contains(l.Text, ".groupsByID[") && strings.HasSuffix(l.Text, "#1"):
						need["new"] = true
					case !l.Pol && l.Op == token.EQL && strings.HasSuffix(core.Expr(l.X), ".Name") && strings.HasSuffix(core.Expr(l.Y), ".Name"):
						need["name"] = true
					case !l.Pol && l.Op == token.EQL && strings.HasSuffix(core.Expr(l.X), ".Disable") && strings.HasSuffix(core.Expr(l.Y), ".Disable"):
						need["disable"] = true
					}
				}
				for k, v := range need {
					if !v {
						okAll = false
						why += "missing trigger: " + k + "; "
					}
				}
			}
			c.Require(okAll, "C20-R7", "internal/metajournal.(*MetricsStorage).ApplyEvent/regroup-trigger", fn.Pos(), "regrouping triggered by new / renamed / enabled-disabled group",
				"group changes that alter metric-to-group assignment do not all trigger the recomputation ("+why+"): replicas that saw the group before and after the change disagree")
		}
	}
}

// trueSources returns the blocks from which the constant true flows into a bool phi.
func trueSources(v ssa.Value, seen map[ssa.Value]bool) []*ssa.BasicBlock {
	phi, ok := v.(*ssa.Phi)
	if !ok || seen[v] {
		return nil
	}
	seen[v] = true
	var out []*ssa.BasicBlock
	for i, e := range phi.Edges {
		if core.ConstBool(e, true) {
			out = append(out, phi.Block().Preds[i])
		} else {
			out = append(out, trueSources(e, seen)...)
		}
	}
	return out
}

func checkByNameDelete(c *core.Check, w core.FieldWrite, field, idf string) {
	if w.Kind != "delete" {
		return
	}
	fn := core.FuncName(w.Fn)
	key := fn + "/delete:" + field
	ok := false
	for _, g := range core.Facts(w.Instr.Block()) {
		if len(g.Alts) != 1 {
			continue
		}
		l := g.Alts[0]
		if l.Op == token.EQL && l.Pol {
			x, y := core.Expr(l.X), core.Expr(l.Y)
			if strings.Contains(x, "."+field+"[") && strings.HasSuffix(x, "#0."+idf) && strings.HasSuffix(y, "."+idf) && !strings.Contains(y, "ByName[") {
				ok = true
			}
			if strings.Contains(y, "."+field+"[") && strings.HasSuffix(y, "#0."+idf) && strings.HasSuffix(x, "."+idf) && !strings.Contains(x, "ByName[") {
				ok = true
			}
		}
	}
	c.Require(ok, "C20-R1", key, w.Instr.Pos(), "by-name entry removed only when it still belongs to the renamed entity",
		"delete("+field+", old.Name) is not dominated by `"+field+"[old.Name]."+idf+" == new."+idf+"`: journal delivery is not ordered between entities, so the name may already belong to another entity and its lookup would break")
}
