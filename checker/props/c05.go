package props

import (
	"fmt"
	"go/token"
	"strings"

	"golang.org/x/tools/go/ssa"

	"shverif/core"
)

func init() {
	Register(&Property{
		ID:   "C05",
		Pkgs: []string{"./internal/data_model", "./internal/agent", "./internal/aggregator", "./internal/vkgo/kittenhouseclient/rowbinary"},
		Run:  runC05,
		Mutants: []Mutant{
			// R1
			{Name: "sf-written-in-KeepBuiltin", File: "internal/data_model/sampling.go", Rule: "C05-R1",
				Old: "	h.sumSizeKeepBuiltin.AddValue(float64(p.Size))\n",
				New: "	p.Item.SF = float64(p.Size)\n	h.sumSizeKeepBuiltin.AddValue(float64(p.Size))\n"},
			{Name: "keepF-invoked-from-Add", File: "internal/data_model/sampling.go", Rule: "C05-R1",
				Old: "		if h.DiscardF != nil {\n			h.DiscardF(p.Item, p.BucketTs)\n		}\n		h.sumSizeDiscard.AddValue(0)\n",
				New: "		if h.KeepF != nil {\n			h.KeepF(p.Item, p.BucketTs, 0)\n		}\n		h.sumSizeDiscard.AddValue(0)\n"},
			{Name: "new-item-without-unit-factor", File: "internal/data_model/bucket.go", Rule: "C05-R1",
				Old: "item = &MultiItem{Key: *key, SF: 1, MetricMeta: metricInfo}", New: "item = &MultiItem{Key: *key, MetricMeta: metricInfo}"},
			// R2
			{Name: "keep-with-doubled-factor", File: "internal/data_model/sampling.go", Rule: "C05-R2",
				Old: "		items[i].keep(sf, h)\n", New: "		items[i].keep(sf*2, h)\n"},
			{Name: "select-with-other-factor", File: "internal/data_model/sampling.go", Rule: "C05-R2",
				Old: "pos = h.SelectF(items, sf, h.Rand)", New: "pos = h.SelectF(items, sf/2, h.Rand)"},
			{Name: "factor-doubled-after-selection", File: "internal/data_model/sampling.go", Rule: "C05-R2",
				Old: "		sf *= 2 // space has been taken by whales\n	}\n	// sample remaining\n	pos = h.SelectF(items, sf, h.Rand)\n",
				New: "	}\n	// sample remaining\n	pos = h.SelectF(items, sf, h.Rand)\n	sf *= 2\n"},
			{Name: "whale-kept-with-factor-sf", File: "internal/data_model/sampling.go", Rule: "C05-R2",
				Old: "		for i := 0; i < pos; i++ {\n			items[i].keep(1, h)\n		}\n		items = items[pos:]",
				New: "		for i := 0; i < pos; i++ {\n			items[i].keep(sf, h)\n		}\n		items = items[pos:]"},
			{Name: "acceptance-probability-changed", File: "internal/data_model/sampling.go", Rule: "C05-R2",
				Old: "		if r.Float64()*sf < 1 {\n			if n < i {", New: "		if r.Float64()*sf < 2 {\n			if n < i {"},
			{Name: "selected-rows-not-moved-to-prefix", File: "internal/data_model/sampling.go", Rule: "C05-R2",
				Old: "			if n < i {\n				s[n], s[i] = s[i], s[n]\n			}\n", New: ""},
			{Name: "keep-one-more-than-selected", File: "internal/data_model/sampling.go", Rule: "C05-R2",
				Old: "	for i := 0; i < pos; i++ {\n		items[i].keep(sf, h)\n	}\n	for i := pos; i < len(items); i++ {",
				New: "	for i := 0; i < pos+1 && i < len(items); i++ {\n		items[i].keep(sf, h)\n	}\n	for i := pos + 1; i < len(items); i++ {"},
			// R3
			{Name: "group-kept-and-sampled", File: "internal/data_model/sampling.go", Rule: "C05-R3",
				Old: "			h.run(s[i])\n		} else {\n			h.SampleF(h, s[i])\n		}", New: "			h.run(s[i])\n		}\n		h.SampleF(h, s[i])"},
			{Name: "discard-loop-off-by-one", File: "internal/data_model/sampling.go", Rule: "C05-R3",
				Old: "	for i := pos; i < len(items); i++ {\n		items[i].discard(sf, h)", New: "	for i := pos + 1; i < len(items); i++ {\n		items[i].discard(sf, h)"},
			{Name: "whale-reslice-off-by-one", File: "internal/data_model/sampling.go", Rule: "C05-R3",
				Old: "		items = items[pos:]\n", New: "		items = items[pos-1:]\n"},
			{Name: "break-after-keep", File: "internal/data_model/sampling.go", Rule: "C05-R3",
				Old: "		s[i].keep(h)\n		if !s[i].FixedBudget {\n			g.budget -= s[i].sumSize\n			sumWeight -= s[i].weight\n		}\n	}",
				New: "		s[i].keep(h)\n		if !s[i].FixedBudget {\n			g.budget -= s[i].sumSize\n			sumWeight -= s[i].weight\n		}\n		if g.budget <= 0 {\n			break\n		}\n	}"},
			{Name: "second-loop-restarts-at-one", File: "internal/data_model/sampling.go", Rule: "C05-R3",
				Old: "	// sample groups larger than budget\n	for ; i < len(s); i++ {", New: "	// sample groups larger than budget\n	for i++; i < len(s); i++ {"},
			{Name: "quota-discard-without-continue", File: "internal/data_model/sampling.go", Rule: "C05-R3",
				Old: "			g.items[i].discard(math.MaxFloat32, h)\n			continue\n", New: "			g.items[i].discard(math.MaxFloat32, h)\n"},
			{Name: "partition-segment-off-by-one", File: "internal/data_model/sampling.go", Rule: "C05-R3",
				Old: "		if s[i].metric.GroupID != s[j].metric.GroupID {\n			v := newSamplerGroup(s[i:j], sumSize)\n			res = append(res, v)\n			sumWeight += v.weight\n			i = j\n",
				New: "		if s[i].metric.GroupID != s[j].metric.GroupID {\n			v := newSamplerGroup(s[i:j], sumSize)\n			res = append(res, v)\n			sumWeight += v.weight\n			i = j + 1\n"},
			{Name: "add-discards-and-appends", File: "internal/data_model/sampling.go", Rule: "C05-R3",
				Old: "		h.sumSizeDiscard.AddValue(0)\n		return\n	}\n	h.items = append(h.items, p)", New: "		h.sumSizeDiscard.AddValue(0)\n	}\n	h.items = append(h.items, p)"},
			{Name: "agent-item-dropped", File: "internal/agent/agent_shard_send.go", Rule: "C05-R3",
				Old: "		sizeScratch[accountMetric] += uint32(sz)\n", New: "		sizeScratch[accountMetric] += uint32(sz)\n		if sz > data_model.MaxUncompressedBucketSize {\n			continue\n		}\n"},
			// R4
			{Name: "agent-marshals-with-unit-factor", File: "internal/agent/agent_shard_send.go", Rule: "C05-R4",
				Old: "scratch = v.Tail.MultiValueToTL(v.MetricMeta, &item.Tail, v.SF, &item.FieldsMask, scratch)", New: "scratch = v.Tail.MultiValueToTL(v.MetricMeta, &item.Tail, 1, &item.FieldsMask, scratch)"},
			{Name: "aggregator-keepF-unit-factor", File: "internal/aggregator/aggregator_insert.go", Rule: "C05-R4",
				Old: "insertItem(item, item.SF, bucketTs) },", New: "insertItem(item, 1, bucketTs) },"},
			{Name: "top-rows-ignore-factor", File: "internal/aggregator/aggregator_insert.go", Rule: "C05-R4",
				Old: "res = multiValueMarshal(rnd, item.Key.Metric, res, value, sf, appendCtx)", New: "res = multiValueMarshal(rnd, item.Key.Metric, res, value, 1, appendCtx)"},
			{Name: "insert-sum-without-factor", File: "internal/aggregator/aggregator_insert.go", Rule: "C05-R4",
				Old: "value.Value.ValueMax, value.Value.ValueSum*sf,", New: "value.Value.ValueMax, value.Value.ValueSum,"},
			{Name: "insert-counter-without-factor", File: "internal/aggregator/aggregator_insert.go", Rule: "C05-R4",
				Old: "	counter := value.Value.Count() * sf\n", New: "	counter := value.Value.Count()\n"},
			{Name: "centroid-weight-without-factor", File: "internal/vkgo/kittenhouseclient/rowbinary/rowbinary.go", Rule: "C05-R4",
				Old: "math.Float32bits(float32(centroid.Weight*sampleFactor))", New: "math.Float32bits(float32(centroid.Weight))"},
			{Name: "agent-sum-sent-without-factor", File: "internal/data_model/transfer.go", Rule: "C05-R4",
				Old: "item.SetValueSum(s.Value.ValueSum*sampleFactor, fieldsMask)", New: "item.SetValueSum(s.Value.ValueSum, fieldsMask)"},
			{Name: "agent-counter-sent-without-factor", File: "internal/data_model/transfer.go", Rule: "C05-R4",
				Old: "	cou := s.Value.Count() * sampleFactor\n", New: "	cou := s.Value.Count()\n	_ = sampleFactor\n"},
			{Name: "factor-stored-after-callback", File: "internal/data_model/sampling.go", Rule: "C05-R4",
				Old: "	p.Item.SF = sf // communicate selected factor to next step of processing\n	if h.KeepF != nil {\n		h.KeepF(p.Item, p.BucketTs, uint32(p.Size))\n	}\n",
				New: "	if h.KeepF != nil {\n		h.KeepF(p.Item, p.BucketTs, uint32(p.Size))\n	}\n	p.Item.SF = sf\n"},
			// R5
			{Name: "no-sample-agent-goes-through-sampler", File: "internal/agent/agent_shard_send.go", Rule: "C05-R5",
				Old: "		if item.MetricMeta.NoSampleAgent {\n			keepF(item, bucket.Time, 1)\n			continue\n		}\n", New: ""},
			{Name: "no-sample-agent-kept-and-sampled", File: "internal/agent/agent_shard_send.go", Rule: "C05-R5",
				Old: "			keepF(item, bucket.Time, 1)\n			continue\n", New: "			keepF(item, bucket.Time, 1)\n"},
			{Name: "sampler-ignores-no-sample-agent", File: "internal/data_model/sampling.go", Rule: "C05-R5",
				Old: "		if s[i].noSampleAgent && h.ModeAgent && !h.DisableNoSampleAgent {\n			s[i].keep(h)\n		} else if", New: "		if"},
		},
	})
}

const (
	tPair      = dmPkg + ".(*SamplingMultiItemPair)."
	tSampler   = dmPkg + ".(*sampler)."
	tGroupKeep = dmPkg + ".(samplerGroup).keep"
	tyCfg      = dmPkg + ".SamplerConfig"
	tyItem     = dmPkg + ".MultiItem"
)

func runC05(c *core.Check) {
	c.Decides = "that the factor attached to a kept row is the factor its keep decision was drawn with, that every row is disposed exactly once, and that unconditional keeps carry factor 1: " +
		"(R1) KeepF/DiscardF are invoked and MultiItem.SF is written only by SamplingMultiItemPair.keep/discard and sampler.Add, new rows start with SF=1 and rows enter the bucket map only in GetOrCreateMultiItem; " +
		"(R2) in sampler.sample the value given to SelectF is the SSA value given to every following keep/discard, rows kept before the draw get the constant 1, the keep loop runs to SelectF's result and the discard loop starts there, " +
		"nothing reorders the slice after the draw; SelectF defaults to selectRandom only; selectRandom accepts with `rand*sf < 1` on its own sf, moves accepted rows into the returned prefix and keeps all rows when sf <= 1; " +
		"(R3) exactly-once, in-order disposal proved by a coverage-count must-analysis for sampler.run (two loops sharing the index), sample (whales / reslice / keep / discard), sampleQuota, samplerGroup.keep, and segment tiling " +
		"of every partition function; sampler.Add either discards or appends; Run hands all collected rows to run; every row of the agent's bucket takes exactly one of {direct keep, sampler.Add, ingestion-status shortcut}; " +
		"(R4) keep/discard store their sf parameter into the row before invoking the callback on that row; the agent's and aggregator's KeepF closures pass the row's SF to every marshalling call, every call that marshals outside a KeepF passes " +
		"the constant 1, and multiValueMarshal/AppendCentroids and the transfer encoder MultiValueToTL multiply count, sum, sum of squares and centroid weights (and nothing else) by it; " +
		"(R5) on the agent NoSampleAgent rows are kept directly and never reach sampler.Add, and in sampler.run no group with noSampleAgent is sampled in agent mode."
	c.NotDecided = "the statistical statement itself (expected values, independence of draws, quality of the random source), the numeric value of the sample factor (budget arithmetic, whale share), behaviour of test-only SelectF/RoundF replacements."

	all := c.Prog.Funcs()
	dmFns := funcsOf(c, dmPkg)

	c05R1(c, all)
	c05R2(c, all)
	c05R3(c, all, dmFns)
	c05R4(c, all)
	c05R5(c)
}

// isCfgCall matches dynamic calls through a function-valued field of SamplerConfig.
func isCfgCall(in ssa.Instruction, fields ...string) bool {
	ci, ok := in.(ssa.CallInstruction)
	if !ok {
		return false
	}
	typ, f, ok := core.DynFieldCall(ci.Common())
	if !ok || typ != tyCfg {
		return false
	}
	for _, w := range fields {
		if f == w {
			return true
		}
	}
	return false
}

// ---- R1 -----------------------------------------------------------------------------

func c05R1(c *core.Check, all []*ssa.Function) {
	c.Rule("C05-R1", "K2 who-may-call/write", 12, "SamplerConfig.KeepF is invoked only from SamplingMultiItemPair.keep, DiscardF only from discard and sampler.Add (and the fields are not read for any other purpose than the nil test); "+
		"MultiItem.SF is stored only by keep/discard (their sf parameter), Add (MaxFloat32 on the discard branch) and GetOrCreateMultiItem (constant 1); rows enter MultiItemMap.MultiItems only in GetOrCreateMultiItem, freshly allocated with SF=1")
	allowed := map[string][]string{
		"KeepF":    {tPair + "keep"},
		"DiscardF": {tPair + "discard", tSampler + "Add"},
	}
	for _, field := range []string{"KeepF", "DiscardF"} {
		reads := core.FieldReads(all, tyCfg, field)
		keys := instrKeys("read:"+field, reads)
		for i, r := range reads {
			fn := core.FuncName(r.Parent())
			v := r.(ssa.Value)
			okUse := true
			isCall := false
			for _, u := range core.Referrers(v) {
				switch x := u.(type) {
				case ssa.CallInstruction:
					if x.Common().Value == v {
						isCall = true
						continue
					}
					okUse = false
				case *ssa.BinOp:
					if (x.Op == token.EQL || x.Op == token.NEQ) && (isNilConst(x.X) || isNilConst(x.Y)) {
						continue
					}
					okUse = false
				case *ssa.DebugRef:
				default:
					okUse = false
				}
			}
			if !okUse {
				c.Fail("C05-R1", keys[i], r.Pos(), "SamplerConfig."+field+" is copied or passed on in "+fn+": the callback escapes the who-may-call rule")
				continue
			}
			in := false
			for _, a := range allowed[field] {
				if fn == a {
					in = true
				}
			}
			if isCall {
				c.CallSites++
			}
			c.Require(in, "C05-R1", keys[i], r.Pos(), field+" used by an enumerated disposal function",
				fmt.Sprintf("SamplerConfig.%s is used in %s; only %v may invoke it (a row would be kept/discarded outside the accounting that sets its factor)", field, fn, allowed[field]))
		}
	}
	// writers of MultiItem.SF
	ws := core.FieldWrites(all, tyItem, "SF")
	var ins []ssa.Instruction
	for _, w := range ws {
		ins = append(ins, w.Instr)
	}
	keys := instrKeys("store:MultiItem.SF", ins)
	for i, w := range ws {
		fn := core.FuncName(w.Fn)
		switch fn {
		case tPair + "keep", tPair + "discard":
			c.Require(core.ParamOrSpill(w.Fn, w.Val, 1), "C05-R1", keys[i], w.Instr.Pos(), "SF := the sf parameter",
				"the factor stored in the row is "+core.Expr(w.Val)+", not the sf parameter the caller drew the decision with")
		case tSampler + "Add":
			ok := isConst(w.Val) && !constFloat(w.Val, 1) && holdsPred(w.Instr.Block(), func(l core.Lit) bool {
				if l.Op != token.LSS || !l.Pol || !core.IntConstIs(l.Y, 1) {
					return false
				}
				_, isSize := dmFieldLoad(l.X, dmPkg+".SamplingMultiItemPair", "Size")
				return isSize
			})
			c.Require(ok, "C05-R1", keys[i], w.Instr.Pos(), "discard marker on the Size < 1 branch", "sampler.Add stores a factor outside the `Size < 1` discard branch or stores a non-constant")
		case dmPkg + ".(*MultiItemMap).GetOrCreateMultiItem":
			c.Require(constFloat(w.Val, 1), "C05-R1", keys[i], w.Instr.Pos(), "new rows start with SF = 1", "a new row is created with SF = "+core.Expr(w.Val)+" instead of 1")
		default:
			c.Fail("C05-R1", keys[i], w.Instr.Pos(), "MultiItem.SF is written in "+fn+", outside keep/discard/Add/GetOrCreateMultiItem: the factor would no longer be the one the keep decision was drawn with")
		}
	}
	// rows enter the bucket map only in GetOrCreateMultiItem, as a fresh allocation with SF = 1
	ms := core.FieldWrites(all, dmPkg+".MultiItemMap", "MultiItems")
	ins = ins[:0]
	for _, w := range ms {
		ins = append(ins, w.Instr)
	}
	keys = instrKeys("write:MultiItemMap.MultiItems", ins)
	for i, w := range ms {
		fn := core.FuncName(w.Fn)
		switch w.Kind {
		case "mapupdate":
			if fn != dmPkg+".(*MultiItemMap).GetOrCreateMultiItem" {
				c.Fail("C05-R1", keys[i], w.Instr.Pos(), "a row is inserted into MultiItemMap.MultiItems in "+fn+"; only GetOrCreateMultiItem (which sets SF = 1) may do so")
				continue
			}
			al, isAlloc := w.Val.(*ssa.Alloc)
			sfOne := false
			if isAlloc {
				for _, r := range core.Referrers(al) {
					if fa, ok := r.(*ssa.FieldAddr); ok && core.IsField(fa, tyItem, "SF") {
						for _, u := range core.Referrers(fa) {
							if st, ok := u.(*ssa.Store); ok && st.Addr == ssa.Value(fa) && constFloat(st.Val, 1) && core.Dominates(st, w.Instr) {
								sfOne = true
							}
						}
					}
				}
			}
			c.Require(sfOne, "C05-R1", keys[i], w.Instr.Pos(), "inserted row is a fresh allocation with SF = 1", "the row inserted into the bucket map is not a fresh MultiItem whose SF was set to 1 before the insertion")
		case "delete":
			c.Pass("C05-R1", keys[i], w.Instr.Pos(), "deletion")
		case "store":
			// (re)initialisation of the map itself
			_, isMake := w.Val.(*ssa.MakeMap)
			c.Require(isMake || isNilConst(w.Val), "C05-R1", keys[i], w.Instr.Pos(), "map (re)initialised empty", "MultiItemMap.MultiItems is replaced by "+core.Expr(w.Val)+" in "+fn)
		default:
			c.Fail("C05-R1", keys[i], w.Instr.Pos(), "unexpected "+w.Kind+" on MultiItemMap.MultiItems in "+fn)
		}
	}
}

// ---- R2 -----------------------------------------------------------------------------

func c05R2(c *core.Check, all []*ssa.Function) {
	c.Rule("C05-R2", "K7 value provenance", 14, "sampler.sample: one SelectF draw; every keep/discard after it gets the identical sf value, rows kept before it get constant 1; keep loop = [0, SelectF result), discard loop starts at the result; "+
		"no reordering after the draw; SelectF is only ever defaulted to selectRandom; selectRandom: accept iff rand*sf < 1 (own sf), accepted rows swapped into the prefix, sf <= 1 keeps all")
	const R = "C05-R2"
	fn := need(c, R, tSampler+"sample")
	if fn != nil {
		name := core.FuncName(fn)
		var sel *ssa.Call
		nsel := 0
		for _, s := range core.Calls(fn) {
			if isCfgCall(s.Instr, "SelectF") {
				nsel++
				sel, _ = s.Instr.(*ssa.Call)
			}
		}
		if nsel != 1 || sel == nil || len(sel.Call.Args) < 2 {
			c.Undecided(R, name+"/SelectF", fn.Pos(), fmt.Sprintf("expected exactly one SelectF draw in sample, found %d", nsel))
		} else {
			c.CallSites++
			v := sel.Call.Args[1]
			cell := tilingCell(sel.Call.Args[0])
			c.Require(cell != nil, R, name+"/SelectF/slice", sel.Pos(), "SelectF draws from the working slice variable", "SelectF is given "+core.Expr(sel.Call.Args[0])+", which is not a local slice variable the rule can follow")
			loops := core.NatLoops(fn)
			sites := core.CallsTo(fn, tPair+"keep", tPair+"discard")
			keys := core.Ordinals(sites)
			for i, s := range sites {
				c.CallSites++
				arg := s.Arg(1)
				isKeep := strings.HasSuffix(s.Callee, ".keep")
				after := core.Dominates(sel, s.Instr)
				switch {
				case !after && isKeep:
					c.Require(constFloat(arg, 1), R, keys[i], s.Pos(), "row kept before the draw carries factor 1",
						"a row kept unconditionally (before the SelectF draw) gets factor "+core.Expr(arg)+" instead of the constant 1")
				case !after:
					c.Fail(R, keys[i], s.Pos(), "a row is discarded before any keep decision was drawn")
				default:
					if !c.Require(arg == v, R, keys[i], s.Pos(), "same sf value as the SelectF draw",
						"the factor passed here is "+core.Expr(arg)+" but the keep decision was drawn by SelectF with "+core.Expr(v)+" (different SSA values): kept rows would not carry the inverse of their keep probability") {
						continue
					}
					// element of the slice SelectF drew from, index range tied to the draw's result
					ia, _ := core.Deref2IndexAddr(s.Arg(0))
					if ia == nil || cell == nil || tilingCell(ia.X) != cell {
						c.Fail(R, keys[i]+"/slice", s.Pos(), "the row is not an element of the slice SelectF drew from")
						continue
					}
					l := core.InnermostNatLoop(loops, s.Block())
					var il *core.IndexNatLoop
					if l != nil {
						il, _ = l.AsIndexNatLoop()
					}
					if il == nil || il.Range || il.Incl || ia.Index != il.Index {
						c.Undecided(R, keys[i]+"/range", s.Pos(), "the call is not inside a counted loop over the drawn slice")
						continue
					}
					if isKeep {
						ok := il.Bound == ssa.Value(sel)
						for _, e := range il.Inits {
							if !core.IntConstIs(e, 0) {
								ok = false
							}
						}
						c.Require(ok, R, keys[i]+"/range", s.Pos(), "keeps exactly [0, SelectF result)",
							"the keep loop runs over ["+initsStr(il)+", "+core.Expr(il.Bound)+") instead of [0, result of SelectF): rows SelectF did not select are kept with the drawn factor (or selected ones are not)")
					} else {
						ok := len(il.Inits) > 0
						for _, e := range il.Inits {
							if e != ssa.Value(sel) {
								ok = false
							}
						}
						c.Require(ok, R, keys[i]+"/range", s.Pos(), "discards from SelectF's result on",
							"the discard loop starts at "+initsStr(il)+", not at the result of SelectF")
					}
				}
			}
			// nothing may reorder or replace the slice after the draw
			if cell != nil {
				p := core.ReachWithout(sel, func(in ssa.Instruction) bool {
					switch x := in.(type) {
					case *ssa.Store:
						return x.Addr == ssa.Value(cell)
					case ssa.CallInstruction:
						if bi, ok := x.Common().Value.(*ssa.Builtin); ok && (bi.Name() == "len" || bi.Name() == "cap") {
							return false
						}
						for _, a := range x.Common().Args {
							if tilingCell(a) == cell {
								return true
							}
						}
					}
					return false
				}, nil)
				c.Require(p == nil, R, name+"/SelectF/order-preserved", sel.Pos(), "the drawn order is not disturbed before keep/discard",
					"after SelectF arranged the selected rows in the prefix, the slice is reordered or replaced before the keep/discard loops: "+pathStr(p))
			}
		}
	}
	// every keep outside sample is an unconditional keep: constant factor 1; discards outside carry a constant marker
	for _, f := range all {
		if fn != nil && f == fn {
			continue
		}
		sites := core.CallsTo(f, tPair+"keep", tPair+"discard")
		keys := core.Ordinals(sites)
		for i, s := range sites {
			c.CallSites++
			if strings.HasSuffix(s.Callee, ".keep") {
				c.Require(constFloat(s.Arg(1), 1), R, keys[i], s.Pos(), "unconditional keep carries factor 1",
					"a row kept without a random draw (group within budget / quota / noSampleAgent) gets factor "+core.Expr(s.Arg(1))+" instead of the constant 1")
			} else {
				c.Require(isConst(s.Arg(1)), R, keys[i], s.Pos(), "discard marker is a constant", "a row discarded without a draw carries the non-constant factor "+core.Expr(s.Arg(1)))
			}
		}
	}
	// SelectF is only set by NewSampler, to selectRandom, when nil
	ws := core.FieldWrites(all, tyCfg, "SelectF")
	var ins []ssa.Instruction
	for _, w := range ws {
		ins = append(ins, w.Instr)
	}
	keys := instrKeys("store:SamplerConfig.SelectF", ins)
	for i, w := range ws {
		f, _ := dmStripConv(w.Val).(*ssa.Function)
		ok := core.FuncName(w.Fn) == dmPkg+".NewSampler" && f != nil && core.FuncName(f) == dmPkg+".selectRandom"
		c.Require(ok, R, keys[i], w.Instr.Pos(), "SelectF defaults to selectRandom",
			"SamplerConfig.SelectF is set to "+core.Expr(w.Val)+" in "+core.FuncName(w.Fn)+": production samplers must draw with selectRandom, whose acceptance probability is 1/sf")
	}
	c05SelectRandom(c)
}

func initsStr(il *core.IndexNatLoop) string {
	var parts []string
	for _, e := range il.Inits {
		parts = append(parts, core.Expr(e))
	}
	return strings.Join(parts, "|")
}

// tilingCell returns the local variable cell a slice value is loaded from (nil otherwise).
func tilingCell(v ssa.Value) *ssa.Alloc {
	v = dmStripConv(v)
	if a, ok := core.Deref(v).(*ssa.Alloc); ok {
		return a
	}
	return nil
}

func c05SelectRandom(c *core.Check) {
	const R = "C05-R2"
	fn := need(c, R, dmPkg+".selectRandom")
	if fn == nil {
		return
	}
	name := core.FuncName(fn)
	if len(fn.Params) != 3 {
		c.Undecided(R, name+"/signature", fn.Pos(), "selectRandom no longer has the (rows, sf, rand) signature")
		return
	}
	pRows, pSF, pRand := ssa.Value(fn.Params[0]), ssa.Value(fn.Params[1]), ssa.Value(fn.Params[2])
	isRandDraw := func(v ssa.Value) bool {
		call, ok := v.(*ssa.Call)
		return ok && core.CalleeName(&call.Call) == "pgregory.net/rand.(*Rand).Float64" && len(call.Call.Args) == 1 && call.Call.Args[0] == pRand
	}
	accept := func(l core.Lit) bool {
		if l.Op != token.LSS || !l.Pol {
			return false
		}
		// rand*sf < 1
		if constFloat(l.Y, 1) {
			if o, ok := timesFactor(l.X, func(v ssa.Value) bool { return v == pSF }); ok && isRandDraw(o) {
				return true
			}
		}
		// rand < 1/sf
		if q, ok := l.Y.(*ssa.BinOp); ok && q.Op == token.QUO && constFloat(q.X, 1) && q.Y == pSF && isRandDraw(l.X) {
			return true
		}
		return false
	}
	keepAll := func(l core.Lit) bool { // sf <= 1  ≡ !(1 < sf); sf < 1 is equally fine (sf == 1 accepts every row in the loop)
		if l.Op != token.LSS {
			return false
		}
		return (!l.Pol && constFloat(l.X, 1) && l.Y == pSF) || (l.Pol && l.X == pSF && constFloat(l.Y, 1))
	}
	var counter ssa.Value
	for i, r := range dmRealReturns(fn) {
		key := fmt.Sprintf("%s/return#%d", name, i+1)
		v := r.Results[0]
		if holdsPred(r.Block(), keepAll) {
			call, ok := v.(*ssa.Call)
			isLen := ok && core.CalleeName(&call.Call) == "builtin len" && call.Call.Args[0] == pRows
			c.Require(isLen, R, key, r.Pos(), "sf <= 1 selects every row", "under sf <= 1 selectRandom returns "+core.Expr(v)+" instead of len(rows): rows with keep probability 1 are dropped")
			continue
		}
		counter = v
		// every +1 that feeds the returned count happens under the acceptance test
		n := 0
		for _, b := range fn.Blocks {
			for _, in := range b.Instrs {
				bo, ok := in.(*ssa.BinOp)
				if !ok || bo.Op != token.ADD || !core.IntConstIs(bo.Y, 1) || !core.Derives(v, bo) {
					continue
				}
				n++
				c.Require(holdsPred(b, accept), R, fmt.Sprintf("%s/count-increment#%d", key, n), bo.Pos(), "a row is counted as selected only under rand*sf < 1",
					"the number of selected rows is incremented without the acceptance test `rand.Float64()*sf < 1` on selectRandom's own sf parameter; facts: "+core.FactsString(b))
			}
		}
		if n == 0 {
			c.Fail(R, key, r.Pos(), "the returned count "+core.Expr(v)+" is never incremented under the acceptance test")
		}
	}
	if counter == nil {
		c.Undecided(R, name+"/count", fn.Pos(), "no return of a selected-row count found")
		return
	}
	// accepted rows are swapped into the prefix [0, count)
	var stores []*ssa.Store
	for _, b := range fn.Blocks {
		for _, in := range b.Instrs {
			if st, ok := in.(*ssa.Store); ok {
				if ia, ok := st.Addr.(*ssa.IndexAddr); ok && ia.X == pRows {
					stores = append(stores, st)
				}
			}
		}
	}
	key := name + "/swap-into-prefix"
	if len(stores) != 2 || stores[0].Block() != stores[1].Block() {
		c.Fail(R, key, fn.Pos(), fmt.Sprintf("expected one swap rows[n], rows[i] = rows[i], rows[n] of an accepted row into the selected prefix, found %d element stores: the returned prefix would not hold the accepted rows", len(stores)))
		return
	}
	a0, a1 := stores[0].Addr.(*ssa.IndexAddr), stores[1].Addr.(*ssa.IndexAddr)
	l0, _ := core.Deref(stores[0].Val).(*ssa.IndexAddr)
	l1, _ := core.Deref(stores[1].Val).(*ssa.IndexAddr)
	okSwap := l0 != nil && l1 != nil && l0.X == pRows && l1.X == pRows && a0.Index == l1.Index && a1.Index == l0.Index && a0.Index != a1.Index &&
		core.Dominates(stores[0].Val.(ssa.Instruction), stores[0]) && core.Dominates(stores[1].Val.(ssa.Instruction), stores[0])
	// one index is the loop index, the other the selected count (phi feeding the return)
	var il *core.IndexNatLoop
	if l := core.InnermostNatLoop(core.NatLoops(fn), stores[0].Block()); l != nil {
		il, _ = l.AsIndexNatLoop()
	}
	okIdx := false
	if okSwap && il != nil {
		other := a0.Index
		if other == il.Index {
			other = a1.Index
		}
		okIdx = (a0.Index == il.Index || a1.Index == il.Index) && other != il.Index && core.Derives(counter, other)
	}
	okGuard := holdsPred(stores[0].Block(), accept)
	c.Require(okSwap && okIdx && okGuard, R, key, stores[0].Pos(), "accepted row is swapped to position `count` under the acceptance test",
		"the element stores in selectRandom are not the swap of the accepted row (loop index) with position `selected count` under the acceptance test: the prefix [0, result) handed to keep() would not be the accepted rows")
}

// ---- R3 -----------------------------------------------------------------------------

func tileReport(c *core.Check, rule string, fn *ssa.Function, t *core.Tiling, what string) {
	name := core.FuncName(fn)
	c.Seen(name)
	c.CallSites += t.Sites
	if t.Sites == 0 {
		c.Undecided(rule, name+"/coverage", fn.Pos(), "no "+what+" site found in a function that is expected to have one")
		return
	}
	if len(t.Problems) == 0 {
		msg := fmt.Sprintf("%d %s site(s), %d return(s): every element is covered exactly once, in index order, on every path", t.Sites, what, t.Returns)
		if t.SkipReturns {
			msg = fmt.Sprintf("%d %s site(s): consecutive, in index order, none twice (coverage up to the end of the slice at return is NOT decided for this function)", t.Sites, what)
		}
		c.Pass(rule, name+"/coverage", fn.Pos(), msg)
		return
	}
	cnt := map[string]int{}
	for _, p := range t.Problems {
		kind := "instr"
		switch x := p.Instr.(type) {
		case ssa.CallInstruction:
			kind = core.CalleeName(x.Common())
			if kind == "dynamic" {
				if _, f, ok := core.DynFieldCall(x.Common()); ok {
					kind = "dyn:" + f
				}
			}
		case *ssa.Store:
			kind = "store"
		case *ssa.Return:
			kind = "return"
		case *ssa.Slice:
			kind = "segment"
		}
		cnt[kind]++
		key := fmt.Sprintf("%s/coverage/%s#%d", name, kind, cnt[kind])
		if p.Undecided {
			c.Undecided(rule, key, p.Pos, p.Msg)
		} else {
			c.Fail(rule, key, p.Pos, p.Msg)
		}
	}
}

func c05R3(c *core.Check, all, dmFns []*ssa.Function) {
	const R = "C05-R3"
	c.Rule(R, "K6 exactly-once disposal / K13 range tiling", 35, "row level: every function calling SamplingMultiItemPair.keep/discard disposes each element of its slice exactly once in index order (coverage-count must-analysis: loops, reslice, early returns); "+
		"group level: sampler.run disposes each partition by exactly one of {samplerGroup.keep, sampler.run, SampleF}, the break of the first loop hands the same index to the second; every partition function hands consecutive segments s[i:j] that tile its input; "+
		"SampleRows/SampleQuota pass their group through; sampler.Add either discards (Size<1) or appends; Run passes all collected rows to run; the agent's bucket loop gives each row exactly one of {direct keep, sampler.Add, ingestion-status shortcut}")

	// row level family: every caller of pair.keep / pair.discard
	rowDispose := func(in ssa.Instruction) (ssa.Value, bool) {
		ci, ok := in.(ssa.CallInstruction)
		if !ok {
			return nil, false
		}
		n := core.CalleeName(ci.Common())
		if n == tPair+"keep" || n == tPair+"discard" {
			return ci.Common().Args[0], true
		}
		return nil, false
	}
	rowFamily := map[*ssa.Function]bool{}
	for _, s := range core.Callers(all, tPair+"keep", tPair+"discard") {
		rowFamily[s.Fn] = true
	}
	for _, u := range append(core.FuncValueUses(all, tPair+"keep"), core.FuncValueUses(all, tPair+"discard")...) {
		c.Fail(R, core.FuncName(u.Parent())+"/value-use:keep/discard", u.Pos(), "keep/discard is used as a function value (escapes the exactly-once analysis)")
	}
	for _, fn := range sortedFns(rowFamily) {
		t := &core.Tiling{Fn: fn, Dispose: rowDispose}
		t.Run()
		tileReport(c, R, fn, t, "row disposal")
	}
	// group level: callers of samplerGroup.keep / sampler.run / SampleF / sample / sampleQuota
	groupArg := func(in ssa.Instruction) (ssa.Value, bool) {
		ci, ok := in.(ssa.CallInstruction)
		if !ok {
			return nil, false
		}
		cc := ci.Common()
		switch core.CalleeName(cc) {
		case tGroupKeep:
			return cc.Args[0], true
		case tSampler + "run", tSampler + "sample", tSampler + "sampleQuota", dmPkg + ".SampleRows", dmPkg + ".SampleQuota":
			return cc.Args[1], true
		}
		if isCfgCall(in, "SampleF") && len(cc.Args) == 2 {
			return cc.Args[1], true
		}
		return nil, false
	}
	groupFamily := map[*ssa.Function]bool{}
	for _, fn := range all {
		for _, s := range core.Calls(fn) {
			if _, ok := groupArg(s.Instr); ok {
				groupFamily[fn] = true
			}
		}
	}
	for _, fn := range sortedFns(groupFamily) {
		name := core.FuncName(fn)
		switch name {
		case tSampler + "run":
			t := &core.Tiling{Fn: fn, Dispose: groupArg}
			t.Run()
			tileReport(c, R, fn, t, "partition disposal")
			// the walked slice is the partition function's result
			c05PartitionSource(c, fn)
		case dmPkg + ".SampleRows", dmPkg + ".SampleQuota":
			for _, s := range core.Calls(fn) {
				if g, ok := groupArg(s.Instr); ok {
					c.CallSites++
					c.Require(core.ParamOrSpill(fn, g, 1), R, name+"/pass-through", s.Pos(), "passes its group on", "the group handed on is "+core.Expr(g)+", not the function's group parameter")
				}
			}
		case tSampler + "Run":
			c05Run(c, fn, groupArg)
		default:
			c.Fail(R, name+"/group-disposal", fn.Pos(), "groups are kept/sampled in "+name+", which is not one of the enumerated group-disposal functions (run, Run, SampleRows, SampleQuota): its exactly-once discipline is not analysed")
		}
	}
	// SampleF defaults
	for _, w := range core.FieldWrites(all, tyCfg, "SampleF") {
		f, _ := dmStripConv(w.Val).(*ssa.Function)
		fname := ""
		if f != nil {
			fname = core.FuncName(f)
		}
		ok := fname == dmPkg+".SampleRows" || fname == dmPkg+".SampleQuota"
		c.Require(ok, R, core.FuncName(w.Fn)+"/store:SampleF="+fname, w.Instr.Pos(), "SampleF is one of the analysed group samplers", "SamplerConfig.SampleF is set to "+core.Expr(w.Val)+", a group sampler whose disposal discipline is not analysed")
	}
	// partition functions: segment tiling
	c05Partitions(c, dmFns)
	// Add
	if fn := need(c, R, tSampler+"Add"); fn != nil {
		name := core.FuncName(fn)
		isDiscardBranch := func(b *ssa.BasicBlock) bool {
			return holdsPred(b, func(l core.Lit) bool {
				if l.Op != token.LSS || !l.Pol || !core.IntConstIs(l.Y, 1) {
					return false
				}
				_, ok := dmFieldLoad(l.X, dmPkg+".SamplingMultiItemPair", "Size")
				return ok
			})
		}
		appended := func(in ssa.Instruction) bool {
			st, ok := in.(*ssa.Store)
			if !ok || !core.IsField(st.Addr, dmPkg+".SamplerBuffers", "items") {
				return false
			}
			call, ok := st.Val.(*ssa.Call)
			return ok && core.CalleeName(&call.Call) == "builtin append"
		}
		p := core.ReachFromEntryWithout(fn, func(in ssa.Instruction) bool { return core.IsReturn(in) && !isDiscardBranch(in.Block()) }, appended)
		c.Require(p == nil, R, name+"/append-or-discard", fn.Pos(), "every row is appended to the sampler's rows unless it is discarded for Size < 1",
			"sampler.Add can return without appending the row and outside the `Size < 1` discard branch: the row is silently lost: "+pathStr(p))
		// a row marked as discarded is never appended as well
		for _, w := range core.FieldWrites([]*ssa.Function{fn}, tyItem, "SF") {
			p := core.ReachWithout(w.Instr, appended, nil)
			c.Require(p == nil, R, name+"/discarded-not-appended", w.Instr.Pos(), "a discarded row does not also enter the sampler", "after a row is marked discarded (SF set, DiscardF called) it can still be appended to the sampler's rows and be kept later: it is disposed twice: "+pathStr(p))
		}
		// on the discard branch nothing is appended
		for _, b := range fn.Blocks {
			for _, in := range b.Instrs {
				if appended(in) {
					c.Require(!isDiscardBranch(b), R, name+"/append-not-on-discard", in.Pos(), "append only on the keep branch", "a discarded row is also appended to the sampler's rows")
				}
			}
		}
	}
	// agent bucket loop
	c05AgentLoop(c)
}

func sortedFns(m map[*ssa.Function]bool) []*ssa.Function {
	names := map[string]*ssa.Function{}
	for f := range m {
		names[core.FuncName(f)] = f
	}
	var out []*ssa.Function
	for _, k := range core.SortedKeys(names) {
		out = append(out, names[k])
	}
	return out
}

// c05PartitionSource: in sampler.run the slice that is walked is the first result of a
// partition function applied to run's own group.
func c05PartitionSource(c *core.Check, fn *ssa.Function) {
	const R = "C05-R3"
	name := core.FuncName(fn)
	var cell *ssa.Alloc
	for _, s := range core.CallsTo(fn, tGroupKeep) {
		if ia, _ := core.Deref2IndexAddr(s.Arg(0)); ia != nil {
			cell = tilingCell(ia.X)
		}
	}
	if cell == nil {
		c.Undecided(R, name+"/partition-source", fn.Pos(), "cannot find the partition slice variable")
		return
	}
	n := 0
	for _, st := range core.CellStores(cell) {
		n++
		ok := false
		if ex, isEx := st.Val.(*ssa.Extract); isEx && ex.Index == 0 {
			if call, isCall := ex.Tuple.(*ssa.Call); isCall && len(call.Call.Args) == 2 && core.ParamOrSpill(fn, call.Call.Args[1], 1) {
				// partitionByKey statically, or an element of h.partF
				if core.CalleeName(&call.Call) == dmPkg+".partitionByKey" {
					ok = true
				} else if ia, _ := core.Deref2IndexAddr(call.Call.Value); ia != nil {
					if _, isPartF := dmFieldLoad(ia.X, dmPkg+".SamplerBuffers", "partF"); isPartF {
						ok = true
					}
				}
			}
		}
		c.Require(ok, R, fmt.Sprintf("%s/partition-source#%d", name, n), st.Pos(), "partitions come from a partition function applied to run's group",
			"the slice of partitions walked by run is "+core.Expr(st.Val)+", not the result of a partition function applied to the group run was given")
	}
}

func c05Run(c *core.Check, fn *ssa.Function, groupArg func(ssa.Instruction) (ssa.Value, bool)) {
	const R = "C05-R3"
	name := core.FuncName(fn)
	var runCall ssa.Instruction
	n := 0
	for _, s := range core.Calls(fn) {
		if g, ok := groupArg(s.Instr); ok {
			n++
			runCall = s.Instr
			_, isCur := dmFieldLoad(g, dmPkg+".sampler", "currentGroup")
			c.Require(isCur && s.Callee == tSampler+"run", R, name+"/run(currentGroup)", s.Pos(), "Run samples the group holding all rows", "Run hands "+core.Expr(g)+" to "+s.Callee)
		}
	}
	if n != 1 {
		c.Undecided(R, name+"/shape", fn.Pos(), fmt.Sprintf("expected exactly one group disposal in Run, found %d", n))
		return
	}
	// currentGroup.items := h.items, stored before the call, not re-sliced
	okItems := false
	for _, w := range core.FieldWrites([]*ssa.Function{fn}, dmPkg+".samplerGroup", "items") {
		if _, isAll := dmFieldLoad(w.Val, dmPkg+".SamplerBuffers", "items"); isAll {
			okItems = true
		} else {
			okItems = false
			break
		}
	}
	// the literal may be built in a temporary and stored as a whole: accept a whole-struct store whose items field was set from h.items
	c.Require(okItems, R, name+"/all-rows", fn.Pos(), "the group given to run holds all rows collected by Add", "the group Run samples is not built from the complete SamplerBuffers.items (rows collected by Add would be dropped)")
	// every return is either the empty case or after the call
	for i, r := range dmRealReturns(fn) {
		key := fmt.Sprintf("%s/return#%d", name, i+1)
		empty := holdsPred(r.Block(), func(l core.Lit) bool {
			if l.Op != token.EQL || !l.Pol || !core.IntConstIs(l.Y, 0) {
				return false
			}
			call, ok := l.X.(*ssa.Call)
			if !ok || core.CalleeName(&call.Call) != "builtin len" {
				return false
			}
			_, isAll := dmFieldLoad(call.Call.Args[0], dmPkg+".SamplerBuffers", "items")
			return isAll
		})
		c.Require(empty || core.Dominates(runCall, r), R, key, r.Pos(), "returns after sampling (or nothing to sample)", "Run can return without sampling the collected rows")
	}
}

// c05Partitions: every partition function hands consecutive segments s[i:j] of its
// group's rows to the group constructor / the next partition level, tiling the input.
func c05Partitions(c *core.Check, dmFns []*ssa.Function) {
	const R = "C05-R3"
	n := 0
	for _, fn := range dmFns {
		if fn.Parent() != nil || fn.Signature.Recv() != nil {
			continue
		}
		sg := fn.Signature
		if sg.Params().Len() != 2 || sg.Results().Len() != 2 || core.TypeName(sg.Params().At(1).Type()) != dmPkg+".samplerGroup" ||
			core.TypeName(sg.Results().At(0).Type()) != "[]"+dmPkg+".samplerGroup" {
			continue
		}
		n++
		emit := func(in ssa.Instruction) (*ssa.Slice, bool) {
			sl, ok := in.(*ssa.Slice)
			if !ok || core.TypeName(sl.Type()) != "[]"+dmPkg+".SamplingMultiItemPair" {
				return nil, false
			}
			return sl, true
		}
		t := &core.Tiling{Fn: fn, Emit: emit}
		// enumerated exception: partitionByBudget leaves its loop by `break` when the current metric has no
		// fixed budget and then tests `s[i].Budget > 0` again; showing that the segment s[i:j] emitted under
		// that test ends at len(s) needs the correlation of the two reads of s[i].Budget, which this analysis
		// does not have. Its segment order / single use is still checked; the end-coverage clause is listed
		// under "not decided".
		t.SkipReturns = core.FuncName(fn) == dmPkg+".partitionByBudget"
		t.Run()
		tileReport(c, R, fn, t, "segment hand-over")
		c05SegmentUses(c, fn)
	}
	if n < 5 {
		c.Undecided(R, dmPkg+"/partition-functions", token.NoPos, fmt.Sprintf("found %d partition functions (func(*sampler, samplerGroup) ([]samplerGroup, int64)), expected at least 5", n))
	}
}

// c05SegmentUses: every segment s[i:j] cut in a partition function becomes the `items`
// of exactly one group (argument of the local group constructor, whose result is
// appended to the result) or the items of the group passed to the next partition level.
func c05SegmentUses(c *core.Check, fn *ssa.Function) {
	const R = "C05-R3"
	name := core.FuncName(fn)
	k := 0
	for _, b := range fn.Blocks {
		for _, in := range b.Instrs {
			sl, ok := in.(*ssa.Slice)
			if !ok || core.TypeName(sl.Type()) != "[]"+dmPkg+".SamplingMultiItemPair" {
				continue
			}
			k++
			key := fmt.Sprintf("%s/segment#%d", name, k)
			uses := 0
			good := 0
			for _, u := range core.Referrers(sl) {
				switch x := u.(type) {
				case *ssa.DebugRef:
				case ssa.CallInstruction:
					uses++
					// local constructor: closure of fn that stores its first parameter into samplerGroup.items and returns the struct
					callee := core.ResolveCallee(x.Common())
					if callee != nil && callee.Parent() == fn && len(x.Common().Args) > 0 && x.Common().Args[0] == ssa.Value(sl) && ctorStoresItems(callee) {
						if call, isCall := x.(*ssa.Call); isCall && appendedToResult(fn, call) {
							good++
						}
					}
				case *ssa.Store:
					uses++
					// items of the group literal passed to the next level
					if core.IsField(x.Addr, dmPkg+".samplerGroup", "items") && x.Val == ssa.Value(sl) {
						good++
					}
				default:
					uses++
				}
			}
			c.Require(uses == 1 && good == 1, R, key, sl.Pos(), "segment becomes the rows of exactly one group",
				fmt.Sprintf("the segment %s is used %d time(s), %d of them as the rows of a group that is appended to the result / passed to the next level: rows of the segment are lost or duplicated", core.Expr(sl), uses, good))
		}
	}
}

func ctorStoresItems(callee *ssa.Function) bool {
	if len(callee.Params) == 0 {
		return false
	}
	for _, w := range core.FieldWrites([]*ssa.Function{callee}, dmPkg+".samplerGroup", "items") {
		if w.Val == ssa.Value(callee.Params[0]) {
			return true
		}
	}
	return false
}

// appendedToResult: the group value returned by the constructor call is appended
// (through the one-element temporary go/ssa builds) to a slice that reaches the
// function's first result.
func appendedToResult(fn *ssa.Function, call *ssa.Call) bool {
	for _, u := range core.Referrers(call) {
		st, ok := u.(*ssa.Store)
		if !ok || st.Val != ssa.Value(call) {
			continue
		}
		// direct: store into the varargs array element
		if appendOfArray(st.Addr) {
			return true
		}
		// through a local variable `v := ctor(...)` that lives in a cell (its fields are read later)
		if cell, isCell := st.Addr.(*ssa.Alloc); isCell {
			for _, r := range core.Referrers(cell) {
				if ld, ok := r.(*ssa.UnOp); ok && ld.Op == token.MUL {
					for _, u2 := range core.Referrers(ld) {
						if st2, ok := u2.(*ssa.Store); ok && st2.Val == ssa.Value(ld) && appendOfArray(st2.Addr) {
							return true
						}
					}
				}
			}
		}
	}
	return false
}

func appendOfArray(addr ssa.Value) bool {
	ia, ok := addr.(*ssa.IndexAddr)
	if !ok {
		return false
	}
	arr, ok := ia.X.(*ssa.Alloc)
	if !ok {
		return false
	}
	for _, r := range core.Referrers(arr) {
		if sl, ok := r.(*ssa.Slice); ok {
			for _, u := range core.Referrers(sl) {
				if call, ok := u.(*ssa.Call); ok && core.CalleeName(&call.Call) == "builtin append" && len(call.Call.Args) == 2 && call.Call.Args[1] == ssa.Value(sl) {
					return true
				}
			}
		}
	}
	return false
}

// keepClosures resolves, for the function that builds a sampler (stores a closure into
// SamplerConfig.KeepF), the KeepF closure and the local closures it calls.
func keepFStores(fns []*ssa.Function) []core.FieldWrite { return core.FieldWrites(fns, tyCfg, "KeepF") }

func c05AgentLoop(c *core.Check) {
	const R = "C05-R3"
	fn := need(c, R, agtPkg+".(*Shard).sampleBucket")
	if fn == nil {
		return
	}
	name := core.FuncName(fn)
	lp, item, ok := agentItemLoop(c, R, fn)
	if !ok {
		return
	}
	keepSet := agentKeepSet(fn)
	isDisp := func(in ssa.Instruction) bool { return agentDisposition(in, keepSet) != "" }
	edges, err := lp.IterationCounts(isDisp)
	if err != nil {
		c.Undecided(R, name+"/item-loop", fn.Pos(), err.Error())
		return
	}
	nb := 0
	for _, e := range edges {
		if !e.Back {
			if e.From != lp.Header {
				c.Fail(R, fmt.Sprintf("%s/item-loop/exit-from-block", name), e.From.Instrs[len(e.From.Instrs)-1].Pos(), "the row loop is left early: the remaining rows of the bucket are neither kept nor sampled")
			}
			continue
		}
		nb++
		c.Require(e.Count == core.Range{Min: 1, Max: 1}, R, fmt.Sprintf("%s/item-loop/path#%d", name, nb), e.From.Instrs[len(e.From.Instrs)-1].Pos(),
			"exactly one disposition on this iteration path",
			fmt.Sprintf("an iteration path of the bucket row loop performs %s dispositions {direct keep, sampler.Add, ingestion-status shortcut} instead of exactly 1: a row is dropped or sent twice", e.Count))
	}
	// each disposition concerns the row of this iteration
	for _, b := range fn.Blocks {
		if !lp.Blocks[b] {
			continue
		}
		for _, in := range b.Instrs {
			switch agentDisposition(in, keepSet) {
			case "keep":
				ci := in.(ssa.CallInstruction)
				c.CallSites++
				c.Require(len(ci.Common().Args) > 0 && ci.Common().Args[0] == item, R, name+"/item-loop/direct-keep-row", in.Pos(), "keeps the row of this iteration", "the direct keep is applied to "+core.Expr(ci.Common().Args[0])+", not to the row of this iteration")
			case "add":
				ci := in.(ssa.CallInstruction)
				c.CallSites++
				okRow := false
				if cell, isCell := core.Deref(ci.Common().Args[1]).(*ssa.Alloc); isCell {
					for _, r := range core.Referrers(cell) {
						if fa, ok := r.(*ssa.FieldAddr); ok && core.IsField(fa, dmPkg+".SamplingMultiItemPair", "Item") {
							for _, u := range core.Referrers(fa) {
								if st, ok := u.(*ssa.Store); ok && st.Addr == ssa.Value(fa) {
									okRow = st.Val == item && st.Block() == in.Block()
								}
							}
						}
					}
				}
				c.Require(okRow, R, name+"/item-loop/sampled-row", in.Pos(), "samples the row of this iteration", "the pair given to sampler.Add does not carry the row of this iteration as its Item")
			}
		}
	}
}

// agentItemLoop finds the range loop over bucket.MultiItems in sampleBucket and its row value.
func agentItemLoop(c *core.Check, rule string, fn *ssa.Function) (*core.NatLoop, ssa.Value, bool) {
	name := core.FuncName(fn)
	adds := core.CallsTo(fn, tSampler+"Add")
	if len(adds) != 1 {
		c.Undecided(rule, name+"/item-loop", fn.Pos(), fmt.Sprintf("expected exactly one sampler.Add call, found %d", len(adds)))
		return nil, nil, false
	}
	lp := core.InnermostNatLoop(core.NatLoops(fn), adds[0].Block())
	if lp == nil {
		c.Fail(rule, name+"/item-loop", adds[0].Pos(), "sampler.Add is not called inside the loop over the bucket's rows")
		return nil, nil, false
	}
	// header: if next(range bucket.MultiItems)#0
	var item ssa.Value
	for _, in := range lp.Header.Instrs {
		nx, ok := in.(*ssa.Next)
		if !ok {
			continue
		}
		rg, ok := nx.Iter.(*ssa.Range)
		if !ok {
			continue
		}
		if _, isMap := dmFieldLoad(rg.X, dmPkg+".MultiItemMap", "MultiItems"); !isMap {
			continue
		}
		for _, r := range core.Referrers(nx) {
			if ex, ok := r.(*ssa.Extract); ok && ex.Index == 2 {
				item = ex
			}
		}
	}
	if item == nil {
		c.Undecided(rule, name+"/item-loop", adds[0].Pos(), "the loop around sampler.Add is not a range over MetricsBucket.MultiItems with a row variable")
		return nil, nil, false
	}
	return lp, item, true
}

// agentKeepSet: the closure stored into SamplerConfig.KeepF in fn plus the local closures it calls.
func agentKeepSet(fn *ssa.Function) map[*ssa.Function]bool {
	set := map[*ssa.Function]bool{}
	for _, w := range keepFStores([]*ssa.Function{fn}) {
		if mc, ok := w.Val.(*ssa.MakeClosure); ok {
			k := mc.Fn.(*ssa.Function)
			set[k] = true
			for _, s := range core.Calls(k) {
				if g := core.ResolveCallee(s.Common()); g != nil && g.Parent() == fn {
					set[g] = true
				}
			}
		}
	}
	return set
}

func agentDisposition(in ssa.Instruction, keepSet map[*ssa.Function]bool) string {
	switch x := in.(type) {
	case ssa.CallInstruction:
		if core.CalleeName(x.Common()) == tSampler+"Add" {
			return "add"
		}
		if g := core.ResolveCallee(x.Common()); g != nil && keepSet[g] {
			return "keep"
		}
	case *ssa.Store:
		if core.IsFieldA(x.Addr, "internal/data_model/gen2/internal.StatshouseSourceBucket3", "IngestionStatusOk2") {
			return "status-shortcut"
		}
	}
	return ""
}

// ---- R4 -----------------------------------------------------------------------------

const (
	fnToTL      = dmPkg + ".(*MultiValue).MultiValueToTL"
	fnMVMarshal = aggPkg + ".multiValueMarshal"
)

// sfSink: marshalling calls and the position (receiver = 0) of their sample factor.
func sfSink(s core.Site) (int, bool) {
	switch s.Callee {
	case fnToTL:
		return 3, true
	case fnMVMarshal:
		return 4, true
	}
	return 0, false
}

type sfCtx struct {
	fn      *ssa.Function
	itemIdx int // parameter holding the row (*MultiItem), -1 if none
	sfIdx   int // parameter holding the factor, -1 if none
}

func c05R4(c *core.Check, all []*ssa.Function) {
	const R = "C05-R4"
	c.Rule(R, "K7 value provenance", 30, "keep/discard store sf into the row before invoking KeepF/DiscardF on that same row; starting from every closure stored into SamplerConfig.KeepF, every marshalling call (MultiValueToTL, multiValueMarshal) reached through local closures "+
		"receives the row's SF (or the parameter that received it); marshalling outside a KeepF closure passes the constant 1 or a row whose SF nobody changed; no marshalling call exists outside these; multiValueMarshal and rowbinary.AppendCentroids multiply exactly count, sum, sum of squares and centroid weights by the factor")
	// (a) keep / discard: store then callback on the same row
	for _, kd := range []struct{ fn, field string }{{tPair + "keep", "KeepF"}, {tPair + "discard", "DiscardF"}} {
		fn := need(c, R, kd.fn)
		if fn == nil {
			continue
		}
		var st *ssa.Store
		for _, w := range core.FieldWrites([]*ssa.Function{fn}, tyItem, "SF") {
			st, _ = w.Instr.(*ssa.Store)
		}
		for _, s := range core.Calls(fn) {
			if !isCfgCall(s.Instr, kd.field) {
				continue
			}
			c.CallSites++
			key := core.FuncName(fn) + "/" + kd.field
			if st == nil {
				c.Fail(R, key, s.Pos(), "the row's SF is not set before "+kd.field+" is invoked")
				continue
			}
			row := s.Common().Args[0]
			rowBase, isItem := dmFieldLoad(row, dmPkg+".SamplingMultiItemPair", "Item")
			sfBase := st.Addr.(*ssa.FieldAddr).X
			sfRowBase, isItem2 := dmFieldLoad(sfBase, dmPkg+".SamplingMultiItemPair", "Item")
			same := isItem && isItem2 && rowBase == sfRowBase && core.ParamOrSpill(fn, rowBase, 0)
			c.Require(same && core.Dominates(st, s.Instr), R, key, s.Pos(), "SF stored into p.Item before "+kd.field+"(p.Item)",
				kd.field+" is invoked on "+core.Expr(row)+" but the factor is stored into "+core.Expr(st.Addr)+" / not before the call: the callback would marshal the row with a stale factor")
		}
	}
	// (b) from KeepF closures down to the marshalling sinks
	visited := map[*ssa.Function]sfCtx{}
	sinksSeen := map[ssa.Instruction]bool{}
	var walk func(ctx sfCtx, depth int)
	walk = func(ctx sfCtx, depth int) {
		if _, done := visited[ctx.fn]; done || depth > 5 {
			return
		}
		visited[ctx.fn] = ctx
		c.Seen(core.FuncName(ctx.fn))
		sites := core.Calls(ctx.fn)
		keys := core.Ordinals(sites)
		isItem := func(v ssa.Value) bool { return ctx.itemIdx >= 0 && core.ParamOrSpill(ctx.fn, v, ctx.itemIdx) }
		isSF := func(v ssa.Value) bool {
			if ctx.sfIdx >= 0 && core.ParamOrSpill(ctx.fn, v, ctx.sfIdx) {
				return true
			}
			if base, ok := dmFieldLoad(v, tyItem, "SF"); ok && isItem(base) {
				return true
			}
			return false
		}
		for i, s := range sites {
			if k, ok := sfSink(s); ok {
				c.CallSites++
				sinksSeen[s.Instr] = true
				c.Require(isSF(s.Arg(k)), R, keys[i], s.Pos(), "marshalled with the row's sample factor",
					"a row kept by the sampler is marshalled with factor "+core.Expr(s.Arg(k))+" instead of the row's SF (the factor its keep decision was drawn with)")
				continue
			}
			g := core.ResolveCallee(s.Common())
			if g == nil || g.Parent() == nil || s.Common().IsInvoke() {
				continue
			}
			// local closure: map the row / factor arguments to its parameters
			args := s.Common().Args
			off := len(g.Params) - len(args) // closures have no receiver: off == 0
			nctx := sfCtx{fn: g, itemIdx: -1, sfIdx: -1}
			for j, a := range args {
				if isItem(a) {
					nctx.itemIdx = j + off
				} else if isSF(a) {
					nctx.sfIdx = j + off
				}
			}
			if nctx.itemIdx < 0 {
				continue
			}
			if prev, done := visited[g]; done && prev != nctx {
				c.Undecided(R, keys[i], s.Pos(), "a local closure is reached with two different row/factor parameter bindings")
				continue
			}
			walk(nctx, depth+1)
		}
	}
	roots := 0
	for _, w := range keepFStores(all) {
		mc, ok := w.Val.(*ssa.MakeClosure)
		if !ok {
			c.Fail(R, core.FuncName(w.Fn)+"/store:KeepF", w.Instr.Pos(), "SamplerConfig.KeepF is set to "+core.Expr(w.Val)+", not to a closure literal the rule can follow")
			continue
		}
		roots++
		walk(sfCtx{fn: mc.Fn.(*ssa.Function), itemIdx: 0, sfIdx: -1}, 0)
	}
	if roots < 3 {
		c.Undecided(R, "KeepF-closures", token.NoPos, fmt.Sprintf("found %d KeepF closures, expected the agent's, the aggregator insert's and the host-budget one", roots))
	}
	// (c) marshalling outside the KeepF-reachable closures: direct calls of those closures pass constant 1; no other sink
	for _, fn := range all {
		sites := core.Calls(fn)
		keys := core.Ordinals(sites)
		for i, s := range sites {
			if _, ok := sfSink(s); ok && !sinksSeen[s.Instr] {
				c.Fail(R, keys[i], s.Pos(), "a row is marshalled in "+core.FuncName(fn)+", outside the sampler's KeepF callbacks and the closures they call: its sample factor is not tied to any keep decision")
				continue
			}
			g := core.ResolveCallee(s.Common())
			ctx, isVisited := visited[g]
			if g == nil || !isVisited {
				continue
			}
			if _, callerVisited := visited[fn]; callerVisited {
				continue
			}
			c.CallSites++
			if ctx.sfIdx >= 0 {
				a := s.Common().Args[ctx.sfIdx]
				okArg := constFloat(a, 1)
				if base, isSF := dmFieldLoad(a, tyItem, "SF"); isSF && ctx.itemIdx >= 0 && base == s.Common().Args[ctx.itemIdx] {
					okArg = true // the untouched row's own SF (1 by R1)
				}
				c.Require(okArg, R, keys[i]+"/unconditional", s.Pos(), "unconditional keep passes factor 1",
					"a row that is kept without a sampling decision is marshalled with factor "+core.Expr(a)+" instead of 1")
			} else {
				// the closure reads row.SF itself: the row must not have been through the sampler; R1 guarantees untouched rows carry 1
				c.Pass(R, keys[i]+"/unconditional", s.Pos(), "unconditional keep marshals an untouched row (SF = 1 by R1)")
			}
		}
	}
	// (d) the factor multiplies extensive quantities only (aggregator insert path, and the agent's transfer encoder)
	c05Extensive(c)
	transferScaling(c, R)
}

func c05Extensive(c *core.Check) {
	const R = "C05-R4"
	fn := need(c, R, fnMVMarshal)
	if fn != nil && len(fn.Params) == 6 {
		name := core.FuncName(fn)
		sf := ssa.Value(fn.Params[4])
		isSF := func(v ssa.Value) bool { return v == sf }
		scaledField := func(v ssa.Value, field string) bool {
			o, ok := timesFactor(v, isSF)
			if !ok {
				return false
			}
			_, isF := dmFieldLoad(o, dmPkg+".ItemValue", field)
			return isF
		}
		scaledCount := func(v ssa.Value) bool {
			o, ok := timesFactor(v, isSF)
			if !ok {
				return false
			}
			call, isCall := o.(*ssa.Call)
			return isCall && strings.HasSuffix(core.CalleeName(&call.Call), ".Count")
		}
		plainField := func(v ssa.Value, field string) bool {
			_, isF := dmFieldLoad(v, dmPkg+".ItemValue", field)
			return isF
		}
		aggs := core.CallsTo(fn, aggPkg+".appendAggregates")
		keys := core.Ordinals(aggs)
		for i, s := range aggs {
			c.CallSites++
			if !c.Require(scaledCount(s.Arg(1)), R, keys[i]+"/count", s.Pos(), "count*sf", "the inserted count is "+core.Expr(s.Arg(1))+", not Count()*sf") {
				continue
			}
			if constFloat(s.Arg(4), 0) && constFloat(s.Arg(5), 0) {
				c.Pass(R, keys[i]+"/no-values", s.Pos(), "counter-only row")
				continue
			}
			sumsq := s.Arg(5)
			if call, ok := sumsq.(*ssa.Call); ok && core.CalleeName(&call.Call) == aggPkg+".zeroIfTrue" {
				sumsq = call.Call.Args[0]
			}
			ok := plainField(s.Arg(2), "ValueMin") && plainField(s.Arg(3), "ValueMax") && scaledField(s.Arg(4), "ValueSum") && scaledField(sumsq, "ValueSumSquare")
			c.Require(ok, R, keys[i]+"/values", s.Pos(), "min, max unscaled; sum*sf, sumsquare*sf",
				fmt.Sprintf("appendAggregates gets min=%s max=%s sum=%s sumsq=%s; expected ValueMin, ValueMax, ValueSum*sf, ValueSumSquare*sf", core.Expr(s.Arg(2)), core.Expr(s.Arg(3)), core.Expr(s.Arg(4)), core.Expr(sumsq)))
		}
		if len(aggs) < 2 {
			c.Undecided(R, name+"/appendAggregates", fn.Pos(), "expected the value and the counter-only appendAggregates calls")
		}
		for _, s := range core.CallsTo(fn, "internal/vkgo/kittenhouseclient/rowbinary.AppendCentroids") {
			c.CallSites++
			c.Require(s.Arg(2) == sf, R, name+"/AppendCentroids", s.Pos(), "centroids get the factor", "AppendCentroids is given "+core.Expr(s.Arg(2))+" instead of the sample factor")
		}
		for _, s := range core.CallsTo(fn, aggPkg+".appendHosts") {
			c.CallSites++
			c.Require(scaledCount(s.Arg(2)), R, name+"/appendHosts", s.Pos(), "host weights use count*sf", "appendHosts is given count "+core.Expr(s.Arg(2))+" instead of Count()*sf")
		}
	}
	fn = need(c, R, "internal/vkgo/kittenhouseclient/rowbinary.AppendCentroids")
	if fn != nil && len(fn.Params) == 3 {
		name := core.FuncName(fn)
		sf := ssa.Value(fn.Params[2])
		var weightScaled, meanPlain, other int
		for _, b := range fn.Blocks {
			for _, in := range b.Instrs {
				cv, ok := in.(*ssa.Convert)
				if !ok || core.TypeName(cv.Type()) != "float32" {
					continue
				}
				if o, ok := timesFactor(cv.X, func(v ssa.Value) bool { return v == sf }); ok {
					if _, isW := dmFieldLoad(o, "internal/vkgo/tdigest.Centroid", "Weight"); isW { // may be a different path: checked below
						weightScaled++
						continue
					}
					if f, isField := dmFieldNameOf(o); isField && f == "Weight" {
						weightScaled++
						continue
					}
					other++
					continue
				}
				if f, isField := dmFieldNameOf(cv.X); isField {
					switch f {
					case "Mean":
						meanPlain++
					case "Weight":
						other++ // unscaled weight
					}
				}
			}
		}
		c.Require(weightScaled == 1 && meanPlain == 1 && other == 0, R, name+"/weight*sf", fn.Pos(), "centroid weight*sf, mean unscaled",
			fmt.Sprintf("AppendCentroids writes %d scaled weight(s), %d plain mean(s), %d other float32 conversions of centroid fields; expected Weight*sampleFactor and Mean", weightScaled, meanPlain, other))
	}
}

// dmFieldNameOf returns the name of the struct field v is loaded from.
func dmFieldNameOf(v ssa.Value) (string, bool) {
	_, f, ok := core.FieldOf(v)
	return f, ok
}

// ---- R5 -----------------------------------------------------------------------------

func c05R5(c *core.Check) {
	const R = "C05-R5"
	c.Rule(R, "K1 guard dominance", 4, "agent sampleBucket: sampler.Add is guarded by !row.MetricMeta.NoSampleAgent of the row it adds and a direct keep under row.MetricMeta.NoSampleAgent exists; sampler.run: every recursive run / SampleF on a partition is under !noSampleAgent || !ModeAgent || DisableNoSampleAgent of that partition")
	if fn := need(c, R, agtPkg+".(*Shard).sampleBucket"); fn != nil {
		name := core.FuncName(fn)
		if lp, item, ok := agentItemLoop(c, R, fn); ok {
			keepSet := agentKeepSet(fn)
			noSample := func(pol bool) func(core.Lit) bool {
				return func(l core.Lit) bool {
					if l.Pol != pol || l.Op != 0 {
						return false
					}
					base, ok := fieldPath(l.Cond, "MetricMeta", "NoSampleAgent")
					return ok && base == item
				}
			}
			nKeep := 0
			for _, b := range fn.Blocks {
				if !lp.Blocks[b] {
					continue
				}
				for _, in := range b.Instrs {
					switch agentDisposition(in, keepSet) {
					case "keep":
						// a direct keep is always unbiased (factor 1): no guard is demanded of it; the NoSampleAgent
						// one must exist because R3 demands exactly one disposition and Add is excluded for such rows
						if holdsPred(b, noSample(true)) {
							nKeep++
							c.Pass(R, fmt.Sprintf("%s/direct-keep#%d", name, nKeep), in.Pos(), "NoSampleAgent rows are kept directly")
						}
					case "add":
						c.Require(holdsPred(b, noSample(false)), R, name+"/sampler.Add", in.Pos(), "NoSampleAgent rows never reach the sampler",
							"sampler.Add is reachable for rows whose metric is marked NoSampleAgent (not dominated by !row.MetricMeta.NoSampleAgent): such rows can be sampled on the agent; facts: "+core.FactsString(b))
					}
				}
			}
			if nKeep == 0 {
				c.Fail(R, name+"/direct-keep", fn.Pos(), "no direct keep of NoSampleAgent rows found in the bucket loop")
			}
		}
	}
	if fn := need(c, R, tSampler+"run"); fn != nil {
		name := core.FuncName(fn)
		n := 0
		for _, s := range core.Calls(fn) {
			isRun := s.Callee == tSampler+"run"
			isSample := isCfgCall(s.Instr, "SampleF")
			if !isRun && !isSample {
				continue
			}
			n++
			c.CallSites++
			ia, _ := core.Deref2IndexAddr(s.Common().Args[1])
			what := "run"
			if isSample {
				what = "SampleF"
			}
			key := fmt.Sprintf("%s/%s", name, what)
			if ia == nil {
				c.Undecided(R, key, s.Pos(), "the sampled partition is not an element of the partition slice")
				continue
			}
			elemField := func(v ssa.Value, field string) bool {
				base, ok := dmFieldLoad(v, dmPkg+".samplerGroup", field)
				if !ok {
					return false
				}
				e, ok := base.(*ssa.IndexAddr)
				return ok && e.Index == ia.Index && tilingCell(e.X) == tilingCell(ia.X) && tilingCell(e.X) != nil
			}
			cfgField := func(v ssa.Value, field string) bool {
				_, ok := dmFieldLoad(v, tyCfg, field)
				return ok
			}
			ok := holdsPred(s.Block(), func(l core.Lit) bool {
				if l.Op != 0 {
					return false
				}
				switch {
				case !l.Pol && elemField(l.Cond, "noSampleAgent"):
					return true
				case !l.Pol && cfgField(l.Cond, "ModeAgent"):
					return true
				case l.Pol && cfgField(l.Cond, "DisableNoSampleAgent"):
					return true
				}
				return false
			})
			c.Require(ok, R, key, s.Pos(), "partitions marked noSampleAgent are not sampled in agent mode",
				"a partition is sampled ("+what+") without the guard !noSampleAgent || !ModeAgent || DisableNoSampleAgent on that partition: metrics marked not-to-sample can be sampled on the agent; facts: "+core.FactsString(s.Block()))
		}
		if n < 2 {
			c.Undecided(R, name+"/sampling-sites", fn.Pos(), fmt.Sprintf("expected the recursive run and the SampleF call, found %d", n))
		}
	}
}
