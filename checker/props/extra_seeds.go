package props

import (
	"fmt"
	"go/token"
	"strings"

	"golang.org/x/tools/go/ssa"

	"shverif/core"
)

// Rules added after independently seeded changes showed a gap in the rule tables of
// the respective property (see /verif/seeded/<id>/meta.json and DESIGN.md §11).

func init() {
	Extend("C12", runC12Extra,
		Mutant{Name: "seed-C12b-total-count-forgets-values-when-histogram-present", File: "internal/agent/agent_shard.go", Rule: "C12-R7",
			Old: "	totalCount := float64(len(values))\n	for _, kv := range histogram {\n		totalCount += kv[1] // all counts are validated to be >= 0\n	}\n",
			New: "	var totalCount float64\n	if len(histogram) == 0 {\n		totalCount = float64(len(values))\n	} else {\n		for _, kv := range histogram {\n			totalCount += kv[1]\n		}\n	}\n"},
		Mutant{Name: "total-count-ignores-histogram", File: "internal/agent/agent_shard.go", Rule: "C12-R7",
			Old: "		totalCount += kv[1] // all counts are validated to be >= 0\n", New: "		_ = kv\n"})
	Extend("C13", runC13Extra,
		Mutant{Name: "seed-C13a-centroid-not-reset", File: "internal/receiver/protobuf.go", Rule: "C13-R6",
			Old: "	*m = [2]float64{}\n", New: ""},
		Mutant{Name: "field-entry-key-not-reset", File: "internal/receiver/protobuf.go", Rule: "C13-R6",
			Old: "	m.Key = m.Key[:0]\n", New: ""})
	Extend("C21", runC21Extra,
		Mutant{Name: "seed-C21a-stale-tail-not-truncated", File: "internal/data_model/chunked_storage2.go", Rule: "C21-R6",
			Old: "	return c.Truncate(c.offset)\n}\n\nfunc putHash(", New: "	if c.offset >= c.initialFileSize {\n		return nil\n	}\n	return c.Truncate(c.offset)\n}\n\nfunc putHash("})
	Extend("C23", runC23Extra,
		Mutant{Name: "seed-C23a-unlink-before-cursor-fixup", File: "internal/api/tscache2.go", Rule: "C23-R7",
			Old: "	if shard.trimIter == b {\n		shard.trimIter = shard.bucketL.next(b)\n	}\n	if shard.invalidateIter == b {\n		shard.invalidateIter = shard.bucketL.next(b)\n	}\n	shard.bucketL.remove(b)\n",
			New: "	shard.bucketL.remove(b)\n	if shard.trimIter == b {\n		shard.trimIter = shard.bucketL.next(b)\n	}\n	if shard.invalidateIter == b {\n		shard.invalidateIter = shard.bucketL.next(b)\n	}\n"},
		Mutant{Name: "seed-C23b-loader-stops-draining-after-first-error", File: "internal/api/tscache2.go", Rule: "C23-R8",
			Old: "			l.cache.waitN.Add(-1)\n		}\n		for ; n < l.waitN; n++ {\n			<-l.waitC\n			l.cache.waitN.Add(-1)\n		}\n",
			New: "		}\n		l.cache.waitN.Add(-int64(l.waitN))\n"})
}

func init() {
	Extend("C24", runC24Extra,
		Mutant{Name: "seed-C24b-invalidation-time-overwritten", File: "internal/api/pcache.go", Rule: "C24-R4",
			Old: "		if last, ok := c.seconds[i][rounded]; !ok || (ok && invalidatedAtNano > last) {\n			c.seconds[i][rounded] = invalidatedAtNano\n		}\n",
			New: "		c.seconds[i][rounded] = invalidatedAtNano\n"},
		Mutant{Name: "invalidation-time-keeps-minimum", File: "internal/api/pcache.go", Rule: "C24-R4",
			Old: "!ok || (ok && invalidatedAtNano > last) {", New: "!ok || (ok && invalidatedAtNano < last) {"})
}

// C24-R4: the invalidation map keeps the maximum invalidation time per bucket.
func runC24Extra(c *core.Check) {
	c.Decides += " R4 every write of an invalidation time into the hierarchical seconds map either creates the entry or replaces a smaller value (the map holds, per second/minute/hour bucket, the latest invalidation of the seconds below it; the wall clock may step back between invalidations)."
	c.Rule("C24-R4", "K1 monotone update", 1, "every map update of invalidatedSecondsCache.seconds[i][k] <- v is guarded by `!present(k) || old(k) < v` on the same map, key and value")
	n := 0
	for _, fn := range c.Prog.FuncsIn("internal/api") {
		for _, b := range fn.Blocks {
			for _, in := range b.Instrs {
				mu, ok := in.(*ssa.MapUpdate)
				if !ok || !strings.Contains(core.Expr(mu.Map), "api.invalidatedSecondsCache}.seconds[") {
					continue
				}
				n++
				site := fmt.Sprintf("%s/mapupdate:seconds#%d", core.FuncName(fn), n)
				mapE, keyE := core.Expr(mu.Map), core.Expr(mu.Key)
				isLookup := func(v ssa.Value, idx int) bool {
					ex, ok := v.(*ssa.Extract)
					if !ok || ex.Index != idx {
						return false
					}
					lu, ok := ex.Tuple.(*ssa.Lookup)
					return ok && core.Expr(lu.X) == mapE && core.Expr(lu.Index) == keyE
				}
				good := false
				for _, g := range core.Facts(b) {
					all := len(g.Alts) > 0
					for _, l := range g.Alts {
						absent := !l.Pol && isLookup(l.Cond, 1)
						larger := l.Op == token.LSS && l.Pol && isLookup(l.X, 0) && l.Y == mu.Value
						if !absent && !larger {
							all = false
						}
					}
					if all {
						good = true
					}
				}
				c.Require(good, "C24-R4", site, mu.Pos(), "invalidation time only grows",
					"an invalidation time is stored without `entry absent || stored < new`: a later invalidation carrying a smaller clock value lowers the minute/hour bucket, a cached range covering it forgets the newer invalidation and stale rows are served; facts: "+core.FactsString(b))
			}
		}
	}
	if n == 0 {
		c.Undecided("C24-R4", "internal/api/invalidatedSecondsCache.seconds", 0, "no update of the invalidation map found")
	}
}

func init() {
	Extend("C02", runC02Extra,
		Mutant{Name: "seed-C02a-max-count-host-restored-from-min-host", File: "internal/data_model/transfer.go", Rule: "C02-R7",
			Old: "		s2.MaxCounterHostTag = s2.MaxHostTag\n		s2.MaxCounterHostStag = s2.MaxHostStag\n", New: "		s2.MaxCounterHostTag = s2.MinHostTag\n		s2.MaxCounterHostStag = s2.MinHostStag\n"},
		Mutant{Name: "min-host-string-restored-from-wrong-field", File: "internal/data_model/transfer.go", Rule: "C02-R7",
			Old: "		s2.MinHostStag = s2.MaxHostStag\n", New: "		s2.MinHostStag = s2.MaxCounterHostStag\n"},
		// C02-R8's control is the stored seed C02-b itself (it needs two edits; replayed by the thorough tier)
		Mutant{Name: "top-elements-slice-built-on-shared-scratch", File: "internal/agent/agent_shard_send.go", Rule: "C02-R8",
			Old: "		var top []tlstatshouse.TopElement\n", New: "		top := sb.Metrics[0].Top[:0]\n"})
	Extend("C05", runC05Extra,
		Mutant{Name: "seed-C05a-nosample-flag-from-parent-group", File: "internal/data_model/sampling.go", Rule: "C05-R6", Occurrence: 1,
			Old: "			noSampleAgent: items[0].metric.NoSampleAgent,\n", New: "			noSampleAgent: g.noSampleAgent,\n"})
}

// C02-R7: what the decoder substitutes for an elided host is what the encoder compared with.
// C02-R8: slices kept inside the wire object are not shared between rows.
func runC02Extra(c *core.Check) {
	c.Decides += " R7 the decoder restores an absent min / max-count host from exactly the field (max host, integer and string form) that the encoder compared it with when it decided to omit it; R8 the slice of top elements handed to SetTop is built from nil inside the per-row callback (the wire object keeps a reference until the bucket is serialised, so a slice reused between rows would be overwritten by later rows)."
	c.Rule("C02-R7", "K7 encoder/decoder agreement", 4, "for X in {MinHost, MaxCounterHost}: MultiValueToTL sets X only under X != Y (struct comparison of TagUnion fields); MergeWithTL2 stores s2.XTag <- s2.YTag and s2.XStag <- s2.YStag with the same Y")
	enc := need(c, "C02-R7", "internal/data_model.(*MultiValue).MultiValueToTL")
	dec := need(c, "C02-R7", "internal/data_model.(*MultiValue).MergeWithTL2")
	if enc != nil && dec != nil {
		for _, x := range []string{"MinHost", "MaxCounterHost"} {
			// encoder: the guard of SetXTag names the field compared with
			y := ""
			for _, s := range core.CallsTo(enc, "*StatshouseMultiValue).Set"+x+"Tag") {
				for _, g := range core.Facts(s.Block()) {
					for _, l := range g.Alts {
						if l.Op != token.EQL || l.Pol {
							continue
						}
						a, b := core.Expr(l.X), core.Expr(l.Y)
						if strings.HasSuffix(a, "."+x+"Tag") && strings.Contains(b, ".Value.") && strings.HasSuffix(b, "HostTag") {
							y = strings.TrimSuffix(b[strings.LastIndex(b, ".")+1:], "Tag")
						}
						if strings.HasSuffix(b, "."+x+"Tag") && strings.Contains(a, ".Value.") && strings.HasSuffix(a, "HostTag") {
							y = strings.TrimSuffix(a[strings.LastIndex(a, ".")+1:], "Tag")
						}
					}
				}
			}
			if y == "" {
				c.Undecided("C02-R7", "internal/data_model.(*MultiValue).MultiValueToTL/elision-guard:"+x, enc.Pos(), "cannot find the `"+x+"Tag != <other host>` guard of Set"+x+"Tag")
				continue
			}
			for _, suffix := range []string{"Tag", "Stag"} {
				ws := core.FieldStoresU([]*ssa.Function{dec}, "internal/data_model/gen2/internal.StatshouseMultiValueBytes", x+suffix)
				site := "internal/data_model.(*MultiValue).MergeWithTL2/restore:" + x + suffix
				if len(ws) == 0 {
					c.Fail("C02-R7", site, dec.Pos(), "the decoder never restores "+x+suffix+" although the encoder omits it when it equals "+y+suffix)
					continue
				}
				for _, w := range ws {
					v := core.Expr(w.Val)
					c.Require(strings.HasSuffix(v, "."+y+suffix), "C02-R7", site, w.Instr.Pos(), "restored from the field the encoder compared with ("+y+suffix+")",
						"the encoder omits "+x+" when it equals "+y+", but the decoder rebuilds "+x+suffix+" from "+v+": rows whose hosts differ arrive with the wrong host attribution")
				}
			}
		}
	}

	c.Rule("C02-R8", "K7 ownership", 1, "every slice argument of SetTop in the agent's row callback has only nil / make roots through its append chain (no slice of a captured or outer variable)")
	n := 0
	for _, fn := range c.Prog.FuncsIn("internal/agent") {
		for _, s := range core.CallsTo(fn, "*StatshouseMultiItem).SetTop", "*StatshouseMultiItemBytes).SetTop") {
			n++
			bad := staleRoots(s.Arg(1), map[ssa.Value]bool{})
			c.Require(len(bad) == 0, "C02-R8", core.Ordinals([]core.Site{s})[0], s.Pos(), "top elements slice is fresh per row",
				"the slice kept by SetTop is built on storage that outlives the row ("+strings.Join(bad, "; ")+"): the bucket is serialised after all rows are assembled, so later rows overwrite the top elements of earlier rows")
		}
	}
	if n == 0 {
		c.Undecided("C02-R8", "internal/agent/SetTop", 0, "no SetTop call found in package agent")
	}
}

// staleRoots lists the roots of a slice value (through phi and append) that are not
// fresh storage (nil, make, literal).
func staleRoots(v ssa.Value, seen map[ssa.Value]bool) []string {
	if seen[v] {
		return nil
	}
	seen[v] = true
	switch x := v.(type) {
	case *ssa.Const:
		return nil
	case *ssa.MakeSlice:
		return nil
	case *ssa.Phi:
		var out []string
		for _, e := range x.Edges {
			out = append(out, staleRoots(e, seen)...)
		}
		return out
	case *ssa.Call:
		if core.CalleeName(&x.Call) == "builtin append" {
			return staleRoots(x.Call.Args[0], seen)
		}
	case *ssa.Slice:
		if a, ok := x.X.(*ssa.Alloc); ok && a.Parent() == x.Parent() {
			return nil // slice of a local array literal
		}
		return staleRoots(x.X, seen)
	case *ssa.Convert:
		return staleRoots(x.X, seen)
	case *ssa.ChangeType:
		return staleRoots(x.X, seen)
	}
	return []string{core.Expr(v)}
}

// C05-R6: a partition's not-to-sample flag comes from the metric of its rows.
func runC05Extra(c *core.Check) {
	c.Decides += " R6 every samplerGroup's not-to-sample flag is taken from the metric meta of the rows of that very group (never inherited from the parent group), so the unconditional-keep branch of run() sees it for every way a group is formed (incl. metrics with a dedicated budget)."
	c.Rule("C05-R6", "K7 provenance", 3, "every store to samplerGroup.noSampleAgent takes <rows of the group>[0].metric.NoSampleAgent")
	n := 0
	for _, w := range core.FieldWrites(c.Prog.FuncsIn("internal/data_model"), "internal/data_model.samplerGroup", "noSampleAgent") {
		n++
		v := core.Expr(w.Val)
		ok := strings.HasSuffix(v, "[0].metric.NoSampleAgent") || strings.HasSuffix(v, ".metric.NoSampleAgent")
		c.Require(ok, "C05-R6", fmt.Sprintf("%s/store:samplerGroup.noSampleAgent#%d", core.FuncName(w.Fn), n), w.Instr.Pos(), "flag taken from the group's own metric",
			"a sampler group's not-to-sample flag is "+v+", not the NoSampleAgent of its rows' metric: such a group is randomly sampled although its metric must always be kept with factor 1")
	}
	if n == 0 {
		c.Undecided("C05-R6", "internal/data_model/samplerGroup.noSampleAgent", 0, "no store to samplerGroup.noSampleAgent found")
	}
}

func init() {
	Extend("C11", runC11Extra,
		Mutant{Name: "seed-C11b-long-raw-values-rejected-early", File: "internal/format/format.go", Rule: "C11-R4",
			Old: "func ContainsRawTagValueBytes(s []byte) (int32, bool) {\n", New: "func ContainsRawTagValueBytes(s []byte) (int32, bool) {\n	if len(s) > len(\"-2147483648\") {\n		return 0, false\n	}\n"},
		Mutant{Name: "seed-C11a-force-truncates-input-before-normalising", File: "internal/format/format.go", Rule: "C11-R5",
			Old: "	dst := []byte(src)\n	dst, _ = appendValidStringValue(dst[:0], dst, MaxStringLen, true)\n", New: "	if len(src) > MaxStringLen+utf8.UTFMax {\n		src = src[:MaxStringLen+utf8.UTFMax]\n	}\n	dst := []byte(src)\n	dst, _ = appendValidStringValue(dst[:0], dst, MaxStringLen, true)\n"})
	Extend("C22", runC22Extra,
		Mutant{Name: "seed-C22b-step-back-by-subtraction", File: "internal/data_model/timescale.go", Rule: "C22-R7", Occurrence: 1,
			Old: "			t = startOfLOD(t-1, p.Step, args.Location, args.UTCOffset)\n", New: "			t -= p.Step\n"})
	Extend("C27", runC27Extra,
		Mutant{Name: "seed-C27a-stdvar-divides-by-group-size", File: "internal/promql/functions.go", Rule: "C27-R5",
			Old: "		mean := sum / float64(cnt)\n", New: "		mean := sum / float64(len(ds))\n"})
}

// C11-R4: raw values are rejected only for the enumerated reasons.
// C11-R5: the forcing/strict entry points normalise their whole input.
func runC11Extra(c *core.Check) {
	c.Decides += " R4 the raw-tag parsers answer 'not a raw value' only for a parse error, a value outside the range, or empty input (no other early rejection, so exactly the in-range decimals are accepted, zero-padded ones included); R5 every normalisation entry point hands its whole, un-resliced input to the normaliser (the 128-byte limit applies to the normalised output, not to the input)."
	c.Rule("C11-R4", "K1 exact rejection reasons", 3, "every way the ok result of ContainsRawTagValueBytes / containsRawTagValue64 becomes false is: parse error, below -2^31, above 2^32-1, or empty input")
	allowedFalse := func(l core.Lit) bool {
		t := l.Text
		switch {
		case l.Op == token.EQL && !l.Pol && strings.Contains(t, "mem.Parse") && strings.HasSuffix(t, "#1 == nil)"):
			return true // err != nil
		case l.Op == token.LSS && l.Pol && strings.Contains(t, "mem.Parse") && strings.HasSuffix(t, "#0 < -2147483648)"):
			return true
		case l.Op == token.LSS && l.Pol && strings.HasPrefix(t, "(4294967295 < ") && strings.Contains(t, "mem.Parse"):
			return true
		case l.Op == token.EQL && l.Pol && strings.HasSuffix(t, ".Len({0:mem.RO}) == 0)"):
			return true
		}
		return false
	}
	for _, name := range []string{"internal/format.ContainsRawTagValueBytes", "internal/format.containsRawTagValue64"} {
		fn := need(c, "C11-R4", name)
		if fn == nil {
			continue
		}
		n := 0
		var visit func(v ssa.Value, at *ssa.BasicBlock, pos token.Pos, seen map[ssa.Value]bool)
		visit = func(v ssa.Value, at *ssa.BasicBlock, pos token.Pos, seen map[ssa.Value]bool) {
			if seen[v] {
				return
			}
			seen[v] = true
			switch x := v.(type) {
			case *ssa.Phi:
				for i, e := range x.Edges {
					if core.ConstBool(e, false) {
						n++
						l, ok := core.EdgeLit(x.Block().Preds[i], x.Block())
						c.Require(ok && allowedFalse(l), "C11-R4", fmt.Sprintf("%s/false#%d", name, n), pos, "rejection for an enumerated reason: "+l.String(),
							"the raw value is rejected under "+l.String()+", which is not a parse error, a range violation or empty input: valid in-range decimals are refused")
					} else {
						visit(e, x.Block().Preds[i], pos, seen)
					}
				}
			case *ssa.Const:
				if core.ConstBool(x, false) {
					n++
					ok := false
					why := core.FactsString(at)
					for _, g := range core.Facts(at) {
						if len(g.Alts) == 1 && allowedFalse(g.Alts[0]) {
							ok = true
						}
					}
					c.Require(ok, "C11-R4", fmt.Sprintf("%s/false#%d", name, n), pos, "rejection for an enumerated reason",
						"the raw value is rejected on a path whose conditions ("+why+") contain no parse error, range violation or empty-input test: valid in-range decimals are refused")
				}
			}
		}
		for _, r := range core.Returns(fn) {
			vals := core.ReturnedValues(r)
			visit(vals[len(vals)-1], r.Block(), r.Pos(), map[ssa.Value]bool{})
		}
	}

	c.Rule("C11-R5", "K7 provenance", 3, "the source argument of appendValidStringValue in every wrapper is the wrapper's parameter itself or a conversion of it")
	fns := c.Prog.FuncsIn("internal/format")
	n := 0
	for _, s := range core.Callers(fns, "internal/format.appendValidStringValue") {
		if s.Fn.Name() == "appendValidStringValue" {
			continue
		}
		n++
		src := s.Arg(1)
		for {
			if cv, ok := src.(*ssa.Convert); ok {
				src = cv.X
				continue
			}
			if ct, ok := src.(*ssa.ChangeType); ok {
				src = ct.X
				continue
			}
			break
		}
		_, isParam := src.(*ssa.Parameter)
		c.Require(isParam, "C11-R5", core.Ordinals([]core.Site{s})[0], s.Pos(), "whole input normalised",
			"the normaliser receives "+core.Expr(s.Arg(1))+" instead of the caller's whole input: cutting the input before whitespace is collapsed loses content that fits the limit and can split a rune, so forcing disagrees with strict normalisation on valid input")
	}
	if n == 0 {
		c.Undecided("C11-R5", "internal/format.appendValidStringValue/callers", 0, "no wrapper calls the normaliser")
	}
}

// C22-R7: time-axis points come only from the calendar-aware helpers.
func runC22Extra(c *core.Check) {
	c.Decides += " R7 every time point GetTimescale emits is, on every path, the result of a calendar-aware helper (startOfLOD, StepForward, endOfLOD) — never raw arithmetic with the step, which is wrong for the monthly step (a constant 31 days, not a calendar month)."
	c.Rule("C22-R7", "K7 all-paths provenance", 2, "every value appended/stored into Timescale.Time in GetTimescale derives on every phi edge from startOfLOD / StepForward / endOfLOD")
	fn := need(c, "C22-R7", "internal/data_model.GetTimescale")
	if fn == nil {
		return
	}
	isHelper := func(v ssa.Value) bool {
		if ex, ok := v.(*ssa.Extract); ok {
			v = ex.Tuple
		}
		call, ok := v.(*ssa.Call)
		if !ok {
			return false
		}
		switch core.CalleeName(&call.Call) {
		case "internal/data_model.startOfLOD", "internal/data_model.StepForward", "internal/data_model.endOfLOD":
			return true
		}
		return false
	}
	var allHelper func(v ssa.Value, seen map[ssa.Value]bool) (bool, string)
	allHelper = func(v ssa.Value, seen map[ssa.Value]bool) (bool, string) {
		if isHelper(v) {
			return true, ""
		}
		if seen[v] {
			return true, ""
		}
		seen[v] = true
		if phi, ok := v.(*ssa.Phi); ok {
			for _, e := range phi.Edges {
				if ok, why := allHelper(e, seen); !ok {
					return false, why
				}
			}
			return true, ""
		}
		if k, ok := v.(*ssa.Const); ok && k.Value != nil && k.Value.String() == "0" {
			return true, "" // placeholder element of the two-point literal, overwritten below
		}
		return false, core.Expr(v)
	}
	n := 0
	check := func(v ssa.Value, pos token.Pos) {
		n++
		ok, why := allHelper(v, map[ssa.Value]bool{})
		c.Require(ok, "C22-R7", fmt.Sprintf("internal/data_model.GetTimescale/time-point#%d", n), pos, "time point produced by a calendar-aware helper",
			"a time point of the axis is computed as "+why+" instead of startOfLOD/StepForward/endOfLOD: for the monthly step this lands on day 29-31 of an earlier month and the axis is neither aligned nor spaced by calendar months")
	}
	for _, b := range fn.Blocks {
		for _, in := range b.Instrs {
			switch x := in.(type) {
			case *ssa.Call:
				// res.Time = append(res.Time, t)
				if core.CalleeName(&x.Call) == "builtin append" && strings.HasSuffix(core.Expr(x.Call.Args[0]), ".Time") {
					if vals, ok := core.VarargValues(x.Call.Args[1]); ok {
						for _, v := range vals {
							check(v, x.Pos())
						}
					}
				}
			case *ssa.Store:
				// res.Time[1] = …  and the elements of the literal []int64{t, 0} stored into res.Time
				if ia, ok := x.Addr.(*ssa.IndexAddr); ok {
					base := core.Expr(ia.X)
					if strings.HasSuffix(base, ".Time") {
						check(x.Val, x.Pos())
					}
					if a, isA := ia.X.(*ssa.Alloc); isA {
						for _, r := range core.Referrers(a) {
							if sl, isSl := r.(*ssa.Slice); isSl {
								for _, rr := range core.Referrers(sl) {
									if st, isSt := rr.(*ssa.Store); isSt && strings.HasSuffix(core.Expr(st.Addr), ".Time") {
										check(x.Val, x.Pos())
									}
								}
							}
						}
					}
				}
			}
		}
	}
	if n < 2 {
		c.Undecided("C22-R7", "internal/data_model.GetTimescale/time-points", fn.Pos(), "fewer than 2 time-point stores recognised")
	}
}

// C27-R5: aggregate arithmetic uses the count of present points, not the group size.
func runC27Extra(c *core.Check) {
	c.Decides += " R5 in the per-timestamp aggregate functions the size of the group (len of the series slice) never enters floating-point arithmetic: means and variances are divided by the count of present points."
	c.Rule("C27-R5", "K7 forbidden flow", 1, "in funcAvg/funcStdVar/funcStdDev/funcSum/funcCount/funcQuantile no float arithmetic operand derives from len(ds)")
	n := 0
	for _, name := range []string{"funcAvg", "funcStdVar", "funcStdDev", "funcSum", "funcCount", "funcQuantile", "funcMin", "funcMax"} {
		fn := c.Prog.Func("internal/promql." + name)
		if fn == nil {
			c.Anchor("C27-R5", "internal/promql."+name)
			continue
		}
		n++
		bad := ""
		for _, b := range fn.Blocks {
			for _, in := range b.Instrs {
				call, ok := in.(*ssa.Call)
				if !ok || core.CalleeName(&call.Call) != "builtin len" {
					continue
				}
				if p, isP := call.Call.Args[0].(*ssa.Parameter); !isP || p != fn.Params[0] {
					continue
				}
				// follow conversions; a float conversion used in arithmetic is the violation
				var walk func(v ssa.Value, depth int)
				walk = func(v ssa.Value, depth int) {
					if depth > 6 {
						return
					}
					for _, r := range core.Referrers(v) {
						switch y := r.(type) {
						case *ssa.Convert:
							walk(y, depth+1)
						case *ssa.BinOp:
							if strings.Contains(y.Type().Underlying().String(), "float") {
								bad = core.Expr(y)
							}
						}
					}
				}
				walk(call, 0)
			}
		}
		c.Require(bad == "", "C27-R5", "internal/promql."+name+"/group-size-in-arithmetic", fn.Pos(), "group size not used in the aggregate's arithmetic",
			"the aggregate computes "+bad+" with the group size len(ds): series without a point at the timestamp are counted, so missing points are not excluded")
	}
	if n == 0 {
		c.Undecided("C27-R5", "internal/promql/aggregates", 0, "no aggregate function found")
	}
}

// derivesAllPaths reports whether v, on every path (every phi edge), is computed by
// additions/conversions from a value satisfying pred. undecided lists value forms the
// small idiom table does not cover.
func derivesAllPaths(v ssa.Value, pred func(ssa.Value) bool, seen map[ssa.Value]bool, undecided *[]string) bool {
	if pred(v) {
		return true
	}
	if seen[v] {
		return true // loop-carried: decided by the other edges
	}
	seen[v] = true
	defer delete(seen, v)
	switch x := v.(type) {
	case *ssa.Phi:
		for _, e := range x.Edges {
			if !derivesAllPaths(e, pred, seen, undecided) {
				return false
			}
		}
		return true
	case *ssa.BinOp:
		if x.Op == token.ADD {
			return derivesAllPaths(x.X, pred, seen, undecided) || derivesAllPaths(x.Y, pred, seen, undecided)
		}
		return false
	case *ssa.Convert:
		return derivesAllPaths(x.X, pred, seen, undecided)
	case *ssa.ChangeType:
		return derivesAllPaths(x.X, pred, seen, undecided)
	case *ssa.Const:
		return false
	case *ssa.Call, *ssa.UnOp, *ssa.Extract:
		*undecided = append(*undecided, core.Expr(v))
		return false
	}
	return false
}

// C12-R7: the total sample count handed to MultiValue.ApplyValues counts, on every path,
// the value samples (len(values)) and the histogram weights.
func runC12Extra(c *core.Check) {
	c.Decides += " R7 the total sample count that Shard.ApplyValues hands to MultiValue.ApplyValues(/Legacy) includes, on every path, len(values) and the histogram weights (events carrying both value samples and a histogram are weighted by all their samples)."
	c.Rule("C12-R7", "K7 all-paths provenance", 2, "totalCount argument of MultiValue.ApplyValues/ApplyValuesLegacy in Shard.ApplyValues derives on every phi edge from len(values), and from histogram[i][1] added in a loop over the whole histogram")
	fn := need(c, "C12-R7", "internal/agent.(*Shard).ApplyValues")
	if fn == nil {
		return
	}
	sites := core.CallsTo(fn, "internal/data_model.(*MultiValue).ApplyValues", "internal/data_model.(*MultiValue).ApplyValuesLegacy")
	keys := core.Ordinals(sites)
	for i, s := range sites {
		total := s.Arg(5)
		isLenValues := func(v ssa.Value) bool {
			call, ok := v.(*ssa.Call)
			if !ok || core.CalleeName(&call.Call) != "builtin len" {
				return false
			}
			p, ok := call.Call.Args[0].(*ssa.Parameter)
			return ok && p == s.Arg(3) // the values slice handed to the same call
		}
		isHistWeight := func(v ssa.Value) bool {
			// histogram[i][1]: index 1 of an element of the histogram parameter
			hp, ok := s.Arg(2).(*ssa.Parameter)
			if !ok {
				return false
			}
			e := core.Expr(v)
			if strings.HasPrefix(e, core.Expr(hp)+"[") && strings.HasSuffix(e, "[1]") {
				return true
			}
			// range copies the element into a local array first: kv := histogram[i]; kv[1]
			ld, isLd := v.(*ssa.UnOp)
			if !isLd {
				return false
			}
			ia, isIA := ld.X.(*ssa.IndexAddr)
			if !isIA || core.Expr(ia.Index) != "1" {
				return false
			}
			cell, isCell := ia.X.(*ssa.Alloc)
			if !isCell {
				return false
			}
			for _, st := range core.StoresTo(cell) {
				if !strings.HasPrefix(core.Expr(st.Val), core.Expr(hp)+"[") {
					return false
				}
			}
			return len(core.StoresTo(cell)) > 0
		}
		var und []string
		okV := derivesAllPaths(total, isLenValues, map[ssa.Value]bool{}, &und)
		var und2 []string
		okH := someEdgeAdds(total, isHistWeight, map[ssa.Value]bool{})
		if len(und) > 0 && !okV {
			c.Undecided("C12-R7", keys[i]+"/values", s.Pos(), "total count is computed through a form outside the idiom table (phi, +, conversion): "+strings.Join(und, "; "))
		} else {
			c.Require(okV, "C12-R7", keys[i]+"/values", s.Pos(), "total count includes len(values) on every path",
				"on some path the total sample count does not include len(values): an event carrying values and a histogram is weighted by the histogram alone (count and average of the row are wrong)")
		}
		_ = und2
		c.Require(okH, "C12-R7", keys[i]+"/histogram", s.Pos(), "total count accumulates the histogram weights",
			"the total sample count never adds the histogram weights histogram[i][1]")
	}
}

// someEdgeAdds: some addition reachable through phis adds a value satisfying pred.
func someEdgeAdds(v ssa.Value, pred func(ssa.Value) bool, seen map[ssa.Value]bool) bool {
	if seen[v] {
		return false
	}
	seen[v] = true
	switch x := v.(type) {
	case *ssa.Phi:
		for _, e := range x.Edges {
			if someEdgeAdds(e, pred, seen) {
				return true
			}
		}
	case *ssa.BinOp:
		if x.Op == token.ADD {
			return pred(x.X) || pred(x.Y) || someEdgeAdds(x.X, pred, seen) || someEdgeAdds(x.Y, pred, seen)
		}
	case *ssa.Convert:
		return someEdgeAdds(x.X, pred, seen)
	}
	return false
}

// C13-R6: protobuf sub-decoders reset their (reused) target before the field loop.
func runC13Extra(c *core.Check) {
	c.Decides += " R6 every protobuf sub-decoder (function with a field loop over protoReadTag decoding into a caller-provided object) re-initialises, before the loop, every part of the target its cases may write: proto3 omits zero-valued fields and the receiver reuses batch objects, so an un-reset slot keeps the previous packet's value."
	c.Rule("C13-R6", "K8 sibling family + K6", 4, "each function of package receiver that loops over protoReadTag and writes through a pointer parameter resets that parameter (Reset(), whole-value store, or a store to each written field) in its entry block")
	for _, fn := range c.Prog.FuncsIn("internal/receiver") {
		if len(core.CallsTo(fn, "internal/receiver.protoReadTag")) == 0 || fn.Parent() != nil {
			continue
		}
		name := core.FuncName(fn)
		c.Seen(name)
		// the target: the pointer parameter that is written through
		var target *ssa.Parameter
		for _, p := range fn.Params {
			if strings.HasPrefix(p.Type().String(), "*") {
				target = p
			}
		}
		if target == nil {
			c.Undecided("C13-R6", name+"/target", fn.Pos(), "no pointer parameter found to decode into")
			continue
		}
		// written parts: field names (or "*" for element/whole writes) reachable from target
		written := map[string]bool{}
		resetAll := false
		reset := map[string]bool{}
		part := func(addr ssa.Value) (string, bool) {
			switch a := addr.(type) {
			case *ssa.Parameter:
				if a == target {
					return "*", true
				}
			case *ssa.FieldAddr:
				if a.X == target {
					e := core.Expr(a)
					return e[strings.LastIndex(e, ".")+1:], true
				}
			case *ssa.IndexAddr:
				if a.X == target {
					return "*", true
				}
			}
			return "", false
		}
		entry := fn.Blocks[0]
		for _, b := range fn.Blocks {
			for _, in := range b.Instrs {
				switch x := in.(type) {
				case *ssa.Store:
					if p, ok := part(x.Addr); ok {
						if b == entry {
							if p == "*" {
								resetAll = true
							} else {
								reset[p] = true
							}
						} else {
							written[p] = true
						}
					}
				case *ssa.Call:
					// Reset()/setter methods on the target and readers receiving an address inside it
					if rcv := x.Call.Args; len(rcv) > 0 && !x.Call.IsInvoke() {
						callee := core.CalleeName(&x.Call)
						if x.Call.Args[0] == target && strings.HasSuffix(callee, ").Reset") && b == entry {
							resetAll = true
							continue
						}
						for _, a := range x.Call.Args {
							if p, ok := part(a); ok && b != entry {
								if a == target {
									written["*"] = true // setters / sub-decoders on the whole target
								} else {
									written[p] = true
								}
							}
						}
					}
				}
			}
		}
		var missing []string
		if !resetAll {
			for _, w := range core.SortedKeys(written) {
				if !reset[w] {
					missing = append(missing, w)
				}
			}
		}
		c.Require(len(missing) == 0, "C13-R6", name+"/reset-before-field-loop", fn.Pos(), "target reset before decoding optional fields",
			fmt.Sprintf("the decoder writes %v of its reused target only when the field is present on the wire, but does not reset them first (absent = zero in proto3): the previous packet's value survives", missing))
	}
}

// C21-R6: a finished whole-file write cuts the old tail.
func runC21Extra(c *core.Check) {
	c.Decides += " R6 ChunkedStorage2.FinishWriteChunk reports success only as the result of truncating the file at the end of the chunk just written (a shorter re-save must not leave valid old chunks behind it)."
	c.Rule("C21-R6", "K1+K7", 2, "every return of FinishWriteChunk is either the non-nil error of finishChunk or the result of Truncate(c.offset)")
	fn := need(c, "C21-R6", "internal/data_model.(*ChunkedStorage2).FinishWriteChunk")
	if fn == nil {
		return
	}
	for i, r := range core.Returns(fn) {
		v := core.ReturnedValues(r)[0]
		key := fmt.Sprintf("internal/data_model.(*ChunkedStorage2).FinishWriteChunk/return#%d", i+1)
		ok := nonNilErr(v, r.Block())
		if call, isCall := v.(*ssa.Call); isCall {
			// c.Truncate is a function-valued field (set to the file's Truncate by the constructor)
			if ld, isLd := call.Call.Value.(*ssa.UnOp); isLd && core.IsField(ld.X, "internal/data_model.ChunkedStorage2", "Truncate") && len(call.Call.Args) == 1 {
				ok = strings.HasSuffix(core.Expr(call.Call.Args[0]), ".offset")
			}
		}
		c.Require(ok, "C21-R6", key, r.Pos(), "success only through Truncate(offset)",
			"FinishWriteChunk can report success without truncating the file at the current offset: chunks of an earlier, longer save stay behind the new end with valid magic and chained hash, and a reload returns items that were not saved")
	}
}

// C23-R7 / R8.
func runC23Extra(c *core.Check) {
	c.Decides += " R7 a bucket's list links are not read after it was unlinked (the trim/invalidate cursors are advanced with next(b) before remove(b), otherwise an invalidation walk stops early and later buckets keep stale rows); R8 the loader's collector goroutine answers only after it received all waitN notifications (it keeps draining after the first error, so producers never block on the unbuffered channel)."
	c.Rule("C23-R7", "K6 ordering", 1, "in every function of internal/api, no call bucketL.next(b)/prev(b) is reachable after bucketL.remove(b) on the same bucket value")
	n := 0
	for _, fn := range c.Prog.FuncsIn("internal/api") {
		for _, rm := range core.CallsTo(fn, "internal/api.(cache2BucketList).remove", "internal/api.(*cache2BucketList).remove") {
			n++
			b := rm.Arg(1)
			p := core.ReachWithout(rm.Instr, func(in ssa.Instruction) bool {
				ci, ok := in.(ssa.CallInstruction)
				if !ok {
					return false
				}
				callee := core.CalleeName(ci.Common())
				if !core.GlobAny([]string{"internal/api.(*cache2BucketList).next", "internal/api.(cache2BucketList).next", "internal/api.(*cache2BucketList).prev", "internal/api.(cache2BucketList).prev"}, callee) {
					return false
				}
				return len(ci.Common().Args) > 1 && ci.Common().Args[1] == b
			}, nil)
			c.Require(p == nil, "C23-R7", core.Ordinals([]core.Site{rm})[0], rm.Pos(), "links read before unlinking",
				"the bucket's successor is looked up after the bucket was removed from the list (remove clears its links): a cursor pointing at it becomes nil instead of moving on, so an invalidation or trim walk ends early "+pathStr(p))
		}
	}
	if n == 0 {
		c.Undecided("C23-R7", "internal/api/cache2BucketList.remove", 0, "no call of cache2BucketList.remove found")
	}

	c.Rule("C23-R8", "K1", 1, "in cache2Loader.wait's collector goroutine the send of the final result is dominated by !(n < l.waitN) for the receive counter n")
	fn := need(c, "C23-R8", "internal/api.(*cache2Loader).wait$1")
	if fn == nil {
		return
	}
	found := 0
	for _, b := range fn.Blocks {
		for _, in := range b.Instrs {
			snd, ok := in.(*ssa.Send)
			if !ok {
				continue
			}
			found++
			okG := false
			for _, g := range core.Facts(b) {
				all := len(g.Alts) > 0
				for _, l := range g.Alts {
					if !(l.Op == token.LSS && !l.Pol && strings.HasSuffix(core.Expr(l.Y), ".waitN")) {
						all = false
					}
					if all {
						if _, isPhi := l.X.(*ssa.Phi); !isPhi {
							all = false
						}
					}
				}
				if all {
					okG = true
				}
			}
			c.Require(okG, "C23-R8", fmt.Sprintf("internal/api.(*cache2Loader).wait$1/send#%d", found), snd.Pos(), "result sent only after all notifications were received",
				"the collector can finish before it has received waitN notifications (e.g. after the first error): a producer that notifies later blocks forever on the unbuffered channel and the chunks it still has to finalise stay 'loading', so a later request waits forever; facts: "+core.FactsString(b))
		}
	}
	if found == 0 {
		c.Undecided("C23-R8", "internal/api.(*cache2Loader).wait$1/send", fn.Pos(), "no send found in the collector goroutine")
	}
}
